"""C05 — CTC prefix search: correspondence between /repo and PV.C05.Model / PV.C05.Spec.

Two observation points (the property's observe_at):
  * functional.ctc_prefix_search_advance — regime E: dyadic probabilities, float64, every returned
    tensor compared exactly with Model.advance (topk's answer is read back from the outputs and
    checked by Model.topk_ok, so torch's unspecified tie-breaking can never raise an alarm);
  * modules.CTCPrefixSearch.__call__ — regime T: the harness computes logits.softmax(2) (and the
    language model's rows) with torch in float64, hands them to the model as exact rationals and
    compares prefixes exactly and probabilities within 1e-9; the step function is wrapped to record
    each step's topk answer; regime N: any NaN is a violation at once.
An extreme-magnitude stream (gen_search_extreme) feeds logits / LM scores that are huge, shifted by a large
common offset or dominated by one entry, in float32 and float64: the oracle stays torch's stable kernel in the
case's dtype, so exact-zero underflow is reproduced and a naive exp/sum(exp), log(softmax) or shift-free
log-sum-exp shows up as NaN/+inf (regime N) or as a wrong mass.
A composite-LM stream (gen_search_composite) hands CTCPrefixSearch the library's own shallow-fusion wrappers (nested, custom
key prefixes) over finite-state test LMs in several state layouts; the model's LM is the map prefix -> fused row computed
afresh per prefix, so a part's state that does not follow its beam slot shows up as a wrong mass (or as an exception).
Besides: Spec.spec_okb (alignment enumeration + map-based prefix beam search) is evaluated on the
implementation's output, and every batch element is re-run alone on its own valid frames.
"""
import itertools
import json
import math
from fractions import Fraction
from unittest import mock

import torch

torch.set_num_threads(1)

from vlib import cb, cl, cln, cn, coq_eval_bools, coq_eval_print, exc_kind, load_corpus, shrink

IMPORTS = ("From Coq Require Import Qcanon.\nFrom PV Require Import C05.Model C05.Spec.\n"
           "Local Open Scope nat_scope.\n")
EPS = Fraction(1, 2 ** 30)
EPS32 = Fraction(1, 2 ** 15)   # float32 cases: masses are <= 1 and built from < 100 rounded (2^-24) + and *


def _f32(case):
    return case.get("dtype") == "float32"


def _dt(case):
    return torch.float32 if _f32(case) else torch.float64


def _eps(case):
    return EPS32 if _f32(case) else EPS
NEG = "-inf"
THEOREMS = ["c05_model_refines_pbs_ref", "c05_model_mass_le_exact", "c05_model_exact_when_unpruned", "c05_prefix_matrix_invariant",
            "c05_prefix_matrix_invariant_step", "c05_valid_prefixes_distinct_blank_free_bounded", "c05_sorted_by_mass",
            "c05_invalid_slots_last", "c05_element_independent_of_padding_frames",
            "c05_pbs_exact_when_unpruned", "c05_pbs_le_exact"]


# ------------------------------------------------------------------------------------------
# literals
# ------------------------------------------------------------------------------------------

def fr_(x):
    """exact Fraction of a float / 'p/q' string / int"""
    if isinstance(x, Fraction):
        return x
    if isinstance(x, str):
        return Fraction(x)
    return Fraction(x)


def cqc(x):
    x = fr_(x)
    n = f"({x.numerator})" if x.numerator < 0 else str(x.numerator)
    return f"(qc {n} {x.denominator})"


def cmass(x):
    if x == NEG or (isinstance(x, float) and x == -math.inf):
        return "NegInf"
    x = fr_(x)
    n = f"({x.numerator})" if x.numerator < 0 else str(x.numerator)
    return f"(F {n} {x.denominator})"


def clq(xs):
    return cl([cqc(x) for x in xs])


def clm(xs):
    return cl([cmass(x) for x in xs])


def clb(xs):
    return cl([cb(bool(x)) for x in xs])


def fl(x):
    """float for a mass/probability given as 'p/q', '-inf' or number"""
    if x == NEG:
        return -math.inf
    return float(fr_(x))


def canon_float(x):
    """float -> '-inf' | 'nan' | 'p/q' (exact)"""
    x = float(x)
    if math.isnan(x):
        return "nan"
    if x == -math.inf:
        return NEG
    if x == math.inf:
        return "+inf"
    f = Fraction(x)
    return f"{f.numerator}/{f.denominator}"


# ------------------------------------------------------------------------------------------
# ctc_prefix_search_advance (regime E)
# ------------------------------------------------------------------------------------------

def run_advance(case):
    """case: one element's state. Returns canonical outputs or {'exc': kind}.
    Robustness dimensions (the logical input, hence the model term, is unchanged): case['layout'] 1/2 = every
    argument is a non-contiguous view (transposed storage, stride-2 slices with storage offset, the expanded
    stride-0 view the module itself passes when nothing is fused); case['alias'] = ONE tensor object for
    y_prev_last and y_prev_lens when they are equal (the module's own first call does that); case['call'] = 'kw';
    case['f32'] (dyadic values exact in float32); case['batch'] = (size, position): the element sits in a batch
    next to elements with other masses; afterwards the arguments must be unchanged."""
    from pydrobert.torch.functional import ctc_prefix_search_advance

    V, w, t = case["V"], case["width"], case["t"]
    Kp = len(case["nb"])
    f64 = torch.float32 if case.get("f32") else torch.float64
    ext = torch.tensor([[[fl(x) for x in row] for row in case["ext"]]], dtype=f64).view(1, Kp, V)
    nonext = torch.tensor([[fl(x) for x in case["nonext"]]], dtype=f64).view(1, V)
    blank = torch.tensor([fl(case["blank"])], dtype=f64)
    nb = torch.tensor([[fl(x) for x in case["nb"]]], dtype=f64)
    b = torch.tensor([[fl(x) for x in case["b"]]], dtype=f64)
    y = torch.tensor(case["y"], dtype=torch.long).view(Kp, t).t().reshape(t, 1, Kp)
    last = torch.tensor([case["last"]], dtype=torch.long)
    lens = torch.tensor([case["lens"]], dtype=torch.long)
    isp = torch.tensor([case["isp"]], dtype=torch.bool).view(1, Kp, Kp)
    pos, N = 0, 1
    if case.get("batch"):
        N, pos = case["batch"]
        sh = [(n - pos) % N for n in range(N)]         # element `pos` is the case itself, the others are shifted
        roll = lambda x, d: torch.cat([x.roll(k, d) for k in sh], 0)  # noqa: E731
        nb, b, ext = roll(nb, 1), roll(b, 1), roll(ext, 2)
        nonext, blank = roll(nonext, 1), torch.cat([blank * (1.0 if k == 0 else 0.5) for k in sh], 0)
        y, last, lens, isp = y.repeat(1, N, 1), last.repeat(N, 1), lens.repeat(N, 1), isp.repeat(N, 1, 1)
    layout = case.get("layout", 0)
    unfused = all(list(r) == list(case["nonext"]) for r in case["ext"])
    if layout and unfused and not case.get("batch"):
        ext = nonext.unsqueeze(1).expand(1, Kp, V)              # what CTCPrefixSearch passes without an LM
    if layout == 1:
        tr = lambda x, d0, d1: x.transpose(d0, d1).contiguous().transpose(d0, d1)  # noqa: E731
        if not (unfused and not case.get("batch")):
            ext = tr(ext, 1, 2)
        nonext, nb, b = tr(nonext, 0, 1), tr(nb, 0, 1), tr(b, 0, 1)
        y, isp, last, lens = tr(y, 0, 2), tr(isp, 1, 2), tr(last, 0, 1), tr(lens, 0, 1)
    elif layout == 2:
        def sl(x, d):
            shape = list(x.shape)
            shape[d] = 2 * shape[d] + 1
            buf = torch.zeros(shape, dtype=x.dtype) if x.dtype == torch.bool else torch.ones(shape, dtype=x.dtype)
            idx = [slice(None)] * x.dim()
            idx[d] = slice(1, None, 2)
            buf[tuple(idx)] = x
            return buf[tuple(idx)]
        if not (unfused and not case.get("batch")):
            ext = sl(ext, 2)
        nonext, blank, nb, b = sl(nonext, 1), sl(blank, 0), sl(nb, 1), sl(b, 1)
        y, isp, last, lens = sl(y, 2), sl(isp, 2), sl(last, 1), sl(lens, 1)
    if case.get("alias") and case["last"] == case["lens"]:
        last = lens
    args = [ext, nonext, blank, nb, b, y, last, lens, isp]
    saved = [a.clone() for a in args]
    try:
        if case.get("call") == "kw":
            res = ctc_prefix_search_advance(prev_is_prefix=isp, y_prev_lens=lens, y_prev_last=last, y_prev=y,
                                            probs_prev=(nb, b), width=w, probs_t=(ext, nonext, blank))
        else:
            res = ctc_prefix_search_advance((ext, nonext, blank), w, (nb, b), y, last, lens, isp)
        (y_n, last_n, lens_n, (nb_n, b_n), isp_n, src_n, ne_n) = res
    except Exception as e:  # the property promises no exception on well-formed input
        return {"exc": exc_kind(e)}
    if any(not torch.equal(a, c) for a, c in zip(args, saved)):
        return {"exc": "InputModified"}
    if tuple(y_n.shape) != (t + 1, N, w):
        return {"exc": "shape:" + str(tuple(y_n.shape))}
    if case.get("f32") and (nb_n.dtype != torch.float32 or b_n.dtype != torch.float32):
        return {"exc": "dtype:" + str(nb_n.dtype)}
    out = {
        "y": [[int(v) for v in y_n[:, pos, k]] for k in range(w)],
        "last": [int(v) for v in last_n[pos]],
        "lens": [int(v) for v in lens_n[pos]],
        "nb": [canon_float(v) for v in nb_n[pos]],
        "b": [canon_float(v) for v in b_n[pos]],
        "isp": [[int(bool(v)) for v in row] for row in isp_n[pos]],
        "src": [int(v) for v in src_n[pos]],
        "nonext": [int(bool(v)) for v in ne_n[pos]],
    }
    K = min(w, Kp * (V + 1))
    out["choice"] = [Kp * V + out["src"][k] if out["nonext"][k] else out["src"][k] * V + out["last"][k]
                     for k in range(K)]
    return out


def _bad_number(out, keys):
    for key in keys:
        for v in out[key]:
            if v in ("nan", "+inf"):
                return True
    return False


def _frame_term(case):
    return f"(mkFrame {cl([clq(r) for r in case['ext']])} {clq(case['nonext'])} {cqc(case['blank'])})"


def _beam_term(case):
    return (f"(mkBeam {cn(case['t'])} {cl([cln(c) for c in case['y']])} {cln(case['last'])} "
            f"{cln(case['lens'])} {clm(case['nb'])} {clm(case['b'])} {cl([clb(r) for r in case['isp']])})")


def advance_term(case, out):
    if "exc" in out or _bad_number(out, ("nb", "b")):
        return "false"
    if any(v < 0 for c in out["y"] for v in c[:max(0, min(len(c), 0))]):
        return "false"
    # cells outside the valid part of a column are undefined (torch.empty); zero them for the literal
    ys = []
    for c, ln in zip(out["y"], out["lens"]):
        if ln < 0 or ln > len(c) or any(v < 0 or v > 4000 for v in c[:ln]):
            return "false"
        ys.append(c[:ln])
    if any(v < 0 or v > 4000 for v in out["last"] + out["src"] + out["choice"]):
        return "false"
    return (f"check_advance {cn(case['V'])} {cn(case['width'])} {_frame_term(case)} {_beam_term(case)} "
            f"{cln(out['choice'])} {cl([cln(c) for c in ys])} {cln(out['last'])} {cln(out['lens'])} "
            f"{clm(out['nb'])} {clm(out['b'])} {cl([clb(r) for r in out['isp']])} {cln(out['src'])} "
            f"{clb(out['nonext'])}")


def advance_weak_term(case, out):
    """only what the property fixes: valid slots in full, invalid slots massless"""
    t = advance_term(case, out)
    if t == "false":
        return t
    ys = [c[:ln] for c, ln in zip(out["y"], out["lens"])]
    return (f"check_advance_weak {cn(case['V'])} {cn(case['width'])} {_frame_term(case)} {_beam_term(case)} "
            f"{cln(out['choice'])} {cl([cln(c) for c in ys])} {cln(out['last'])} {cln(out['lens'])} "
            f"{clm(out['nb'])} {clm(out['b'])} {cl([clb(r) for r in out['isp']])}")


def advance_show(case, out):
    ch = out.get("choice") if isinstance(out, dict) and "choice" in out else None
    if ch is None:
        return "tt"
    return (f"advance {cn(case['V'])} {_frame_term(case)} {_beam_term(case)} {cn(case['width'])} {cln(ch)}")


def _dy(rng, den, lo=0):
    return f"{rng.randint(lo, den)}/{den}"


def _rand_frame(rng, V, Kp, fused):
    den = rng.choice([4, 8, 8, 16])
    nonext = [_dy(rng, den) if rng.random() > 0.15 else "0/1" for _ in range(V)]
    blank = _dy(rng, den) if rng.random() > 0.1 else "0/1"
    if fused:
        ext = [[_dy(rng, den) if rng.random() > 0.1 else "0/1" for _ in range(V)] for _ in range(Kp)]
    else:
        ext = [list(nonext) for _ in range(Kp)]
    return ext, nonext, blank


def _pick_width(rng, Kp, V):
    nc = Kp * (V + 1)
    return rng.choice([1, 2, 3, rng.randint(1, nc), max(1, nc - 1), nc, nc + 1, nc + rng.randint(2, 4)])


def gen_advance_chain(rng, steps):
    """states reached by iterating the implementation's own step function from the initial beam"""
    V = rng.choice([1, 2, 2, 3, 3, 4])
    fused = rng.random() < 0.4
    st = dict(t=0, y=[[]], last=[0], lens=[0], nb=["0/1"], b=["1/1"], isp=[[1]])
    cases = []
    for _ in range(steps):
        Kp = len(st["nb"])
        ext, nonext, blank = _rand_frame(rng, V, Kp, fused)
        case = dict(kind="advance", V=V, width=_pick_width(rng, Kp, V), ext=ext, nonext=nonext, blank=blank, **st)
        cases.append(case)
        out = run_advance(case)
        if "exc" in out or _bad_number(out, ("nb", "b")):
            break
        # next state = what the implementation returned; undefined cells get arbitrary values
        ys = [[v if i < ln else rng.randint(0, V + 1) for i, v in enumerate(c)] for c, ln in zip(out["y"], out["lens"])]
        st = dict(t=case["t"] + 1, y=ys, last=out["last"], lens=out["lens"], nb=out["nb"], b=out["b"], isp=out["isp"])
        if len(st["nb"]) > 9 or case["t"] >= 5:
            break
    return cases


def gen_advance_random(rng, consistent):
    V = rng.choice([1, 2, 2, 3, 3])
    Kp = rng.randint(1, 5)
    t = rng.randint(0, 4)
    den = rng.choice([8, 16, 64])
    lens = [rng.randint(0, t) for _ in range(Kp)]
    y = [[rng.randint(0, V - 1) if i < lens[k] or rng.random() < .5 else rng.randint(0, V + 1) for i in range(t)]
         for k in range(Kp)]
    if consistent and t > 0 and Kp > 1:
        # make several slots prefixes / one-token extensions of one another so that merges happen
        for k in range(1, Kp):
            j = rng.randrange(k)
            r = rng.random()
            if r < 0.45 and lens[j] < t:
                lens[k] = lens[j] + 1
                y[k] = y[j][:lens[j]] + [rng.randint(0, V - 1)] + y[k][lens[j] + 1:]
            elif r < 0.6:
                lens[k] = lens[j]
                y[k] = list(y[j])
    pre = [tuple(y[k][:lens[k]]) for k in range(Kp)]
    nb, b = [], []
    for k in range(Kp):
        dup = pre[k] in pre[:k]
        r = rng.random()
        if (consistent and dup) or r < 0.15:
            m = rng.choice([(NEG, NEG), (NEG, "0/1"), (NEG, _dy(rng, den)), (_dy(rng, den), NEG)])
        else:
            m = ("0/1" if (lens[k] == 0 and consistent) else _dy(rng, den), _dy(rng, den))
        nb.append(m[0])
        b.append(m[1])
    if consistent:
        isp = [[int(pre[k] == pre[kk][:lens[k]]) for kk in range(Kp)] for k in range(Kp)]
        last = [pre[k][-1] if pre[k] else rng.randint(0, V + 1) for k in range(Kp)]
    else:
        isp = [[int(rng.random() < 0.5) for _ in range(Kp)] for _ in range(Kp)]
        last = [rng.randint(0, V + 1) for _ in range(Kp)]
    ext, nonext, blank = _rand_frame(rng, V, Kp, rng.random() < 0.5)
    return dict(kind="advance", V=V, width=_pick_width(rng, Kp, V), t=t, ext=ext, nonext=nonext, blank=blank,
                y=y, last=last, lens=lens, nb=nb, b=b, isp=isp)


def advance_nontrivial(case):
    Kp = len(case["nb"])
    merge = any(case["isp"][k][kk] and case["lens"][k] + 1 == case["lens"][kk] and case["nb"][kk] != NEG
                and case["b"][kk] != NEG for k in range(Kp) for kk in range(Kp))
    return merge or case["width"] < Kp * (case["V"] + 1)


# ------------------------------------------------------------------------------------------
# source tie: the Python text of ctc_prefix_search_advance, translated to MiniPy (harness/py2coq) and interpreted in
# Coq (PV.C05.SrcRun.src_advance_check; torch calls = PV.MiniTorch.OpsC05, torch.topk = an oracle answering the choice
# observed from the outputs, which Model.topk_ok must accept), against the implementation's output on the step cases
# ------------------------------------------------------------------------------------------
IMPORTS_SRC = IMPORTS + "From PV Require C05.SrcRun.\n"
SRC_THEOREMS = ["c05_source_advance_is_model", "c05_source_advance_is_model_stable", "c05_source_advance_refines_model",
                "c05_source_advance_check_is_check", "c05_source_advance_is_tensor_program",
                "c05_source_advance_raises_width"]


def _adv_wf(c):
    """the hypotheses of the c05_source_advance_* theorems (ProofsModel.wf, 1 <= V, 1 <= width)"""
    Kp = len(c["nb"])
    return (c["V"] >= 1 and c["width"] >= 1 and Kp >= 1 and all(len(c[k]) == Kp for k in ("b", "y", "last", "lens", "isp"))
            and all(len(col) == c["t"] for col in c["y"]) and all(0 <= x <= c["t"] for x in c["lens"]))


def source_tie(chk, cases, outs):
    """run the translated source inside Coq (vm_compute) on the step cases of this run, same literals as the model term:
    validates translator + MiniPy.Interp + ext05 + MiniTorch.OpsC05 against torch; independent of whether the tie lemmas
    still compile"""
    import time
    from vlib import CoqError
    idx, sterms = [], []
    for i, (c, out) in enumerate(zip(cases, outs)):
        if c["kind"] != "advance":
            continue
        t = advance_term(c, out)
        if t == "false":
            continue
        idx.append(i)
        sterms.append("SrcRun." + t.replace("check_advance", "src_advance_check", 1))
    if not idx:
        chk.extra["source_tie_run"] = {"cases": 0, "disagreements": 0}
        return
    stable = ["SrcRun.choice_is_stable %s %s %s %s %s" % (cn(cases[i]["V"]), cn(cases[i]["width"]), _frame_term(cases[i]),
                                                         _beam_term(cases[i]), cln(outs[i]["choice"])) for i in idx]
    t0 = time.time()
    try:
        res = coq_eval_bools(chk.workdir, IMPORTS_SRC, sterms + stable, shard=90, tag="srcadv")
    except CoqError as e:
        chk.extra["source_tie_run"] = "not evaluated: " + str(e)[-400:]
        return
    res, stab = res[:len(idx)], res[len(idx):]
    bad = [idx[j] for j, ok in enumerate(res) if not ok]
    chk.extra["source_tie_run"] = {
        "cases": len(idx), "disagreements": len(bad), "wall_s": round(time.time() - t0, 1),
        "well_formed": sum(1 for i in idx if _adv_wf(cases[i])),
        "observed_choice_is_stable_topk": sum(1 for v in stab if v),
        "t0": sum(1 for i in idx if cases[i]["t"] == 0),
        "padded": sum(1 for i in idx if cases[i]["width"] > len(cases[i]["nb"]) * (cases[i]["V"] + 1)),
        "pruned": sum(1 for i in idx if cases[i]["width"] < len(cases[i]["nb"]) * (cases[i]["V"] + 1)),
        "with_invalid_slot": sum(1 for i in idx if any(x == NEG for x in cases[i]["nb"] + cases[i]["b"])),
        "merge_possible": sum(1 for i in idx if advance_nontrivial(dict(cases[i], width=10 ** 6)))}
    chk.count("source_tie_cases", len(idx))
    if bad:
        i = bad[0]
        chk.report({"case": cases[i], "impl": outs[i],
                    "what": "the Python source of ctc_prefix_search_advance as translated to MiniPy and interpreted in Coq "
                            "(PV.C05.SrcRun.src_advance, torch calls = PV.MiniTorch.OpsC05, topk = the observed choice) does not "
                            "reproduce the implementation's output: translator / interpreter / ext05 / MiniTorch no longer "
                            "describe the code",
                    "disagreeing_cases": len(bad),
                    "correspondence": "tie:C05:py2coq+MiniPy.Interp+MiniTorch:ctc_prefix_search_advance",
                    "theorems_at_stake": SRC_THEOREMS}, no_failing_input=True)


# ------------------------------------------------------------------------------------------
# CTCPrefixSearch (regime T)
# ------------------------------------------------------------------------------------------

# ---- composite fused language models (round 4: the state of EVERY part has to follow the beam) ----------------
# case["lm"] = {"comp": node}; node = a leaf
#   {"k": "fsm", "enc": one of FSM_ENCS, "key": name of its state entry, "M", "s0", "trans": M x (V+1), "table": M x V,
#    "raw": bool, "s0s": per-element initial state or None}        (a finite-state LM: state' = trans[state][token or V
#    for start-of-sequence], row = table[state']; "enc" = how the state is laid out in the state dict; enc "hist" keeps
#    NO state and re-reads the history instead)
#   {"k": "lookup", "sos", "bi": (V+1) x V}                        (the library's LookupLanguageModel, a full bigram table)
# or the library's own wrapper {"k": "fuse", "first": node, "second": node, "beta", "fp", "sp"} =
# MixableShallowFusionLanguageModel(first, second, beta, fp, sp), nested at will.  The oracle (_comp_rows) computes
# first(p) + beta * second(p) afresh for every prefix p from the leaves' definitions: no state, no extract_by_src, no
# mix_by_mask; the model gets it as a finite map prefix -> row (_comp_lm_term).
FSM_ENCS = ("long", "onehot", "onehotT", "split", "cell", "hist")
_FSM = None


def _fsm_encode(enc, key, M, s, dtype):
    """state dict of a finite-state leaf whose batch of states is the long vector s"""
    if enc == "long":
        return {key: s}                                                    # (B,) long
    if enc == "onehot":
        return {key: torch.nn.functional.one_hot(s, M).to(dtype)}          # (B, M) float, like an RNN's hidden vector
    if enc == "onehotT":
        return {key: torch.nn.functional.one_hot(s, M).to(dtype).t()}      # (M, B): batch dimension LAST
    if enc == "split":
        return {key + "_lo": s % 2, key + "_hi": (s // 2).unsqueeze(1)}    # two entries of different shapes
    if enc == "cell":
        return {key: s.view(1, -1, 1)}                                     # (1, B, 1): batch dimension in the middle
    return {}                                                              # "hist": stateless


def _fsm_classes():
    global _FSM
    if _FSM is not None:
        return _FSM
    from pydrobert.torch.modules import MixableSequentialLanguageModel

    class FsmLM(MixableSequentialLanguageModel):
        enc = "long"

        def __init__(self, V, node, dtype):
            super().__init__(V)
            self.key, self.M, self.s0, self.raw = node.get("key", "h"), node["M"], node["s0"], bool(node.get("raw"))
            self.register_buffer("trans", torch.tensor(node["trans"], dtype=torch.long))
            self.register_buffer("table", torch.tensor(node["table"], dtype=dtype))

        def encode(self, s):
            return _fsm_encode(self.enc, self.key, self.M, s, self.table.dtype)

        def decode(self, prev):
            return prev[self.key]

        def batch_dims(self):
            return {self.key: 0}

        def update_input(self, prev, hist):
            if len(prev):
                return prev
            return self.encode(torch.full((hist.size(1),), self.s0, dtype=torch.long))

        def extract_by_src(self, prev, src):
            return {k: prev[k].index_select(d, src) for k, d in self.batch_dims().items()}

        def mix_by_mask(self, prev_true, prev_false, mask):
            out = {}
            for k, d in self.batch_dims().items():
                a, b = prev_true[k], prev_false[k]
                if a.shape != b.shape or a.dtype != b.dtype:
                    raise RuntimeError(f"mix_by_mask: entry '{k}' has {tuple(a.shape)} {a.dtype} in one state and "
                                       f"{tuple(b.shape)} {b.dtype} in the other")
                shape = [1] * a.dim()
                shape[d] = -1
                out[k] = torch.where(mask.view(shape), a, b)
            return out

        def calc_idx_log_probs(self, hist, prev, idx):
            B = hist.size(1)
            idx = idx.expand(B) if idx.dim() == 0 else idx
            if hist.size(0) == 0:
                x = torch.full((B,), self.vocab_size, dtype=torch.long)
            else:
                x = hist.gather(0, (idx - 1).clamp(min=0).unsqueeze(0)).squeeze(0)
                x = torch.where(idx == 0, torch.full_like(x, self.vocab_size), x)
            s1 = self.trans[self.decode(prev), x]
            row = self.table[s1]
            return (row if self.raw else row.log_softmax(-1)), self.encode(s1)

    class OneHotLM(FsmLM):
        enc = "onehot"

        def decode(self, prev):
            return prev[self.key].argmax(1)

    class OneHotTLM(FsmLM):
        enc = "onehotT"

        def decode(self, prev):
            return prev[self.key].argmax(0)

        def batch_dims(self):
            return {self.key: 1}

    class SplitLM(FsmLM):
        enc = "split"

        def decode(self, prev):
            return prev[self.key + "_lo"] + 2 * prev[self.key + "_hi"].squeeze(1)

        def batch_dims(self):
            return {self.key + "_lo": 0, self.key + "_hi": 0}

    class CellLM(FsmLM):
        enc = "cell"

        def decode(self, prev):
            return prev[self.key].view(-1)

        def batch_dims(self):
            return {self.key: 1}

    class HistLM(FsmLM):
        """no state at all: the state is recomputed from the history at every call"""
        enc = "hist"

        def batch_dims(self):
            return {}

        def update_input(self, prev, hist):
            return prev

        def calc_idx_log_probs(self, hist, prev, idx):
            B = hist.size(1)
            idx = idx.expand(B) if idx.dim() == 0 else idx
            s = self.trans[torch.full((B,), self.s0, dtype=torch.long), self.vocab_size]
            for i in range(hist.size(0)):
                s = torch.where(i < idx, self.trans[s, hist[i].clamp(0, self.vocab_size - 1)], s)
            row = self.table[s]
            return (row if self.raw else row.log_softmax(-1)), {}

    _FSM = {c.enc: c for c in (FsmLM, OneHotLM, OneHotTLM, SplitLM, CellLM, HistLM)}
    return _FSM


def _mk_comp(node, V, dtype):
    if node["k"] == "fuse":
        from pydrobert.torch.modules import MixableShallowFusionLanguageModel
        kw = {}
        if node.get("fp") is not None:
            kw["first_prefix"] = node["fp"]
        if node.get("sp") is not None:
            kw["second_prefix"] = node["sp"]
        return MixableShallowFusionLanguageModel(_mk_comp(node["first"], V, dtype), _mk_comp(node["second"], V, dtype),
                                                 node["beta"], **kw)
    if node["k"] == "lookup":
        from pydrobert.torch.modules import LookupLanguageModel
        sos = node["sos"]
        ctxs = list(range(V)) + ([sos] if not 0 <= sos < V else [])
        uni = {c: (-2.0, -0.5) for c in ctxs}
        bi = {(c, v): node["bi"][V if c == sos and not 0 <= sos < V else c][v] for c in ctxs for v in range(V)}
        return LookupLanguageModel(V, sos, [uni, bi])
    return _fsm_classes()[node["enc"]](V, node, dtype)


def _comp_leaves(node):
    if node["k"] == "fuse":
        return _comp_leaves(node["first"]) + _comp_leaves(node["second"])
    return [node]


def _comp_map(node, f):
    """copy of the tree with f applied to every leaf"""
    if node["k"] == "fuse":
        return dict(node, first=_comp_map(node["first"], f), second=_comp_map(node["second"], f))
    return f(dict(node))


def _comp_rows(node, prefixes, V, dtype, n):
    """(P, V) tensor: what the (fused) language model returns for each of the prefixes, from the DEFINITION (shallow
    fusion: first + beta * second; finite-state leaf: table[state reached by reading start-of-sequence and the prefix];
    bigram leaf: the entry for (last token or sos, v)), with torch's elementwise kernels in the library's order"""
    if node["k"] == "fuse":
        return _comp_rows(node["first"], prefixes, V, dtype, n) + node["beta"] * _comp_rows(node["second"], prefixes, V, dtype, n)
    if node["k"] == "lookup":
        sos = node["sos"]
        bi = torch.tensor(node["bi"], dtype=torch.float32)      # the library keeps its tables in float32
        return bi[[(p[-1] if p else (sos if 0 <= sos < V else V)) for p in prefixes]]
    tab = torch.tensor(node["table"], dtype=dtype)
    if not node.get("raw"):
        tab = tab.log_softmax(-1)
    s0 = node["s0"] if node.get("s0s") is None or n is None else node["s0s"][n]
    idx = []
    for p in prefixes:
        s = node["trans"][s0][V]
        for v in p:
            s = node["trans"][s][v]
        idx.append(s)
    return tab[idx]


def _comp_prefixes(V, L):
    return [list(p) for l in range(L + 1) for p in itertools.product(range(V), repeat=l)]


def _comp_final_rows(case, n, prefixes):
    """the rows the module derives from the fused model's output (as lm_rows does for the hash LM)"""
    tab = _comp_rows(case["lm"]["comp"], prefixes, case["V"], _dt(case), n)
    if case["fusion"] == "mix":
        rows = tab.softmax(-1)
    else:
        rows = (case["beta"] * tab.log_softmax(-1)).exp()
    return [[canon_float(v) for v in r] for r in rows]


def _comp_lm_term(case, n):
    """Gallina function prefix -> row: a finite map over every prefix the element can hold at the START of one of its
    own frames (length <= len - 1: frame t extends prefixes of length <= t; the rows asked for in frozen frames never
    reach an output); anything else gets a row of zeros"""
    L = max(0, (case["T"] if n is None else _len_of(case, n)) - 1)
    prefixes = _comp_prefixes(case["V"], L)
    rows = _comp_final_rows(case, n, prefixes)
    tab = cl([f"({cln(p)}, {clq(r)})" for p, r in zip(prefixes, rows)])
    return (f"(fun p : list nat => match List.find (fun e : list nat * list Qc => list_nat_eqb (fst e) p) {tab} "
            f"with Some e => snd e | None => List.repeat (qc 0 1) {cn(case['V'])} end)")


def _comp_init(node, pre, dtype, out):
    """explicit initial state (full key paths) for the leaves that have per-element initial states"""
    if node["k"] == "fuse":
        _comp_init(node["first"], pre + (node.get("fp") or "first."), dtype, out)
        _comp_init(node["second"], pre + (node.get("sp") or "second."), dtype, out)
    elif node["k"] == "fsm" and node.get("s0s") is not None:
        for k, v in _fsm_encode(node["enc"], node.get("key", "h"), node["M"], torch.tensor(node["s0s"], dtype=torch.long),
                                dtype).items():
            out[pre + k] = v
    return out


def _lm_pick(lm, ns):
    """the LM description for the sub-batch of the elements ns (per-element initial states follow)"""
    if not lm:
        return lm
    lm = dict(lm)
    if lm.get("h0s") is not None:
        lm["h0s"] = [lm["h0s"][n] for n in ns]
    if lm.get("comp"):
        lm["comp"] = _comp_map(lm["comp"], lambda leaf: dict(leaf, s0s=[leaf["s0s"][n] for n in ns])
                               if leaf.get("s0s") is not None else leaf)
    return lm


def _mk_lm(case):
    from pydrobert.torch.modules import MixableSequentialLanguageModel

    if case["lm"].get("comp"):
        return _mk_comp(case["lm"]["comp"], case["V"], _dt(case))

    class HashLM(MixableSequentialLanguageModel):
        """state = hash of the prefix read so far; row = table[state].  Only correct if the search
        carries the state of every beam slot along with the slot (extract_by_src / mix_by_mask)."""

        def __init__(self, V, M, a, h0, table, raw):
            super().__init__(V)
            self.M, self.a, self.h0, self.raw = M, a, h0, raw
            self.register_buffer("table", table)

        def update_input(self, prev, hist):
            if len(prev):
                return prev
            return {"h": torch.full((hist.size(1),), self.h0, dtype=torch.long)}

        def extract_by_src(self, prev, src):
            return {"h": prev["h"].index_select(0, src)}

        def mix_by_mask(self, prev_true, prev_false, mask):
            return {"h": torch.where(mask, prev_true["h"], prev_false["h"])}

        def calc_idx_log_probs(self, hist, prev, idx):
            B = hist.size(1)
            idx = idx.expand(B) if idx.dim() == 0 else idx
            if hist.size(0) == 0:
                x = torch.full((B,), self.vocab_size, dtype=torch.long)
            else:
                x = hist.gather(0, (idx - 1).clamp(min=0).unsqueeze(0)).squeeze(0)
                x = torch.where(idx == 0, torch.full_like(x, self.vocab_size), x)
            h1 = (self.a * prev["h"] + x + 1) % self.M
            if self.raw:
                # unnormalised scores (a large common offset included): the module normalises them itself
                return self.table[h1], {"h": h1}
            return self.table[h1].log_softmax(-1), {"h": h1}

    lm = case["lm"]
    first = HashLM(case["V"], lm["M"], lm["a"], lm["h0"], torch.tensor(lm["table"], dtype=_dt(case)), bool(lm.get("raw")))
    if not lm.get("fuse"):
        return first
    # the library's own shallow-fusion LM as the fused model: first + beta2 * second, NOT normalised
    from pydrobert.torch.modules import MixableShallowFusionLanguageModel
    second = HashLM(case["V"], lm["M"], lm["a"], lm["h0"], torch.tensor(lm["fuse"]["table2"], dtype=_dt(case)),
                    bool(lm["fuse"].get("raw2")))
    return MixableShallowFusionLanguageModel(first, second, lm["fuse"]["beta2"])


_SLM = None


def _mk_script_lm(case):
    """TorchScript-compatible twin of HashLM (the library's tests script CTCPrefixSearch only with a scripted LM)"""
    global _SLM
    if _SLM is None:
        from typing import Dict, Tuple
        from pydrobert.torch.modules import MixableSequentialLanguageModel

        class SHashLM(MixableSequentialLanguageModel):
            def __init__(self, V: int, M: int, a: int, h0: int, table: torch.Tensor, raw: bool):
                super().__init__(V)
                self.M, self.a, self.h0, self.raw = M, a, h0, raw
                self.register_buffer("table", table)

            @torch.jit.export
            def update_input(self, prev: Dict[str, torch.Tensor], hist: torch.Tensor) -> Dict[str, torch.Tensor]:
                if len(prev):
                    return prev
                return {"h": torch.full((hist.size(1),), self.h0, dtype=torch.long)}

            @torch.jit.export
            def extract_by_src(self, prev: Dict[str, torch.Tensor], src: torch.Tensor) -> Dict[str, torch.Tensor]:
                return {"h": prev["h"].index_select(0, src)}

            @torch.jit.export
            def mix_by_mask(self, prev_true: Dict[str, torch.Tensor], prev_false: Dict[str, torch.Tensor],
                            mask: torch.Tensor) -> Dict[str, torch.Tensor]:
                return {"h": torch.where(mask, prev_true["h"], prev_false["h"])}

            @torch.jit.export
            def calc_idx_log_probs(self, hist: torch.Tensor, prev: Dict[str, torch.Tensor],
                                   idx: torch.Tensor) -> Tuple[torch.Tensor, Dict[str, torch.Tensor]]:
                B = hist.size(1)
                if idx.dim() == 0:
                    idx = idx.expand(B)
                if hist.size(0) == 0:
                    x = torch.full((B,), self.vocab_size, dtype=torch.long)
                else:
                    x = hist.gather(0, (idx - 1).clamp(min=0).unsqueeze(0)).squeeze(0)
                    x = torch.where(idx == 0, torch.full_like(x, self.vocab_size), x)
                h1 = (self.a * prev["h"] + x + 1) % self.M
                if self.raw:
                    return self.table[h1], {"h": h1}
                return self.table[h1].log_softmax(-1), {"h": h1}

        _SLM = SHashLM
    lm = case["lm"]
    return _SLM(case["V"], lm["M"], lm["a"], lm["h0"], torch.tensor(lm["table"], dtype=_dt(case)), bool(lm.get("raw")))


def _scriptable(case):
    return case["fusion"] != "none" and bool(case.get("lm")) and not case["lm"].get("fuse") and not case["lm"].get("comp")


def _lm_table(case):
    """what the fused LM returns per hash state (before the module's own normalisation), computed with the
    same torch operations in the same order"""
    lm = case["lm"]
    tab = torch.tensor(lm["table"], dtype=_dt(case))   # float32 values are exact doubles
    if not lm.get("raw"):
        tab = tab.log_softmax(-1)
    if lm.get("fuse"):
        tab2 = torch.tensor(lm["fuse"]["table2"], dtype=_dt(case))
        if not lm["fuse"].get("raw2"):
            tab2 = tab2.log_softmax(-1)
        tab = tab + lm["fuse"]["beta2"] * tab2
    return tab


def lm_rows(case):
    """the rows the module derives from the LM's output, per LM state (oracle, regime T)"""
    tab = _lm_table(case)
    if case["fusion"] == "mix":
        rows = tab.softmax(-1)
    else:
        rows = (case["beta"] * tab.log_softmax(-1)).exp()
    return [[canon_float(v) for v in r] for r in rows]


def _initial_state(case):
    """explicit initial LM state (third argument of the call) when the case has per-element h0s"""
    lm = case.get("lm")
    if lm and lm.get("comp") and case["fusion"] != "none":
        return _comp_init(lm["comp"], "", _dt(case), {}) or None
    if not lm or lm.get("h0s") is None or case["fusion"] == "none":
        return None
    h = torch.tensor(lm["h0s"], dtype=torch.long)
    if lm.get("fuse"):
        return {"first.h": h, "second.h": h.clone()}
    return {"h": h}


SEARCH_VIAS = ("script", "kw", "views", "reuse", "i32lens")


def _search_inputs(case, via=None):
    T, N, V = case["T"], case["N"], case["V"]
    logits = torch.tensor(case["logits"], dtype=_dt(case)).view(T, N, V + 1)
    lens = None if case["lens"] is None else torch.tensor(case["lens"], dtype=torch.long)
    if via == "views":
        form = case.get("form", 0) % 3
        if form == 0:        # batch-first storage
            logits = logits.transpose(0, 1).contiguous().transpose(0, 1)
        elif form == 1:      # every second column of a wider buffer, storage offset 1
            buf = logits.new_full((T, N, 2 * (V + 1) + 1), 3.0)
            buf[..., 1::2] = logits
            logits = buf[..., 1::2]
        else:                # every second frame of a longer buffer
            buf = logits.new_full((2 * T + 1, N, V + 1), -2.0)
            buf[1::2] = logits
            logits = buf[1::2]
        if lens is not None:
            buf = lens.new_full((2 * N + 1,), 1)
            buf[1::2] = lens
            lens = buf[1::2]
    if via == "i32lens" and lens is not None:
        lens = lens.to(torch.int32)
    return logits, lens


def run_search(case, record=True, via=None):
    """Returns {'elems': [ {y (valid parts), lens, probs, choices} per batch element ], 'S': ..} or {'exc':..}.
    via = another entry point / call form / layout / call history for the same logical input (no step recording:
    the answer is compared with the plain call's answer): 'script' (torch.jit.script(module) over a scripted LM; the library scripts no search without LM and
    none over its shallow-fusion LM), 'kw' (keyword arguments), 'views' (non-contiguous logits / lens), 'i32lens',
    'reuse' (one module object first used on another input, then twice on this one)."""
    import pydrobert.torch._decoding as dec
    from pydrobert.torch.modules import CTCPrefixSearch

    T, N, V, w = case["T"], case["N"], case["V"], case["width"]
    logits, lens = _search_inputs(case, via)
    fused = case["fusion"] != "none"
    lm = _mk_lm(case) if (fused and case.get("lm")) else None
    if via == "script":
        lm = _mk_script_lm(case)
    init = _initial_state(case)
    calls = []
    orig = dec.ctc_prefix_search_advance

    def spy(probs_t, width, probs_prev, y_prev, y_prev_last, y_prev_lens, prev_is_prefix):
        res = orig(probs_t, width, probs_prev, y_prev, y_prev_last, y_prev_lens, prev_is_prefix)
        Kp, Vv = probs_t[0].shape[1], probs_t[0].shape[2]
        K = min(width, Kp * (Vv + 1))
        src, ne, last = res[5], res[6], res[1]
        ind = torch.where(ne, Kp * Vv + src, src * Vv + last)[:, :K]
        calls.append([[int(v) for v in row] for row in ind])
        return res

    def call(search):
        if via == "kw" and init is None:
            return search(lens=lens, logits=logits) if lens is not None or case.get("form", 0) % 2 else search(logits=logits)
        if init is not None:
            return search(logits, lens, init)
        return search(logits, lens)

    saved = (logits.clone(), None if lens is None else lens.clone(), None if init is None else {k: v.clone() for k, v in init.items()})
    try:
        search = CTCPrefixSearch(w, case["beta"], lm, valid_mixture=(case["fusion"] == "mix")) if lm is not None \
            else CTCPrefixSearch(w)
        if via is None:
            with mock.patch.object(dec, "ctc_prefix_search_advance", spy):
                y, y_lens, y_probs = call(search)
        else:
            if via == "script":
                search = torch.jit.script(search)
            if via == "reuse":
                oN, oT = N + 1 + case.get("form", 0) % 2, max(1, (T + 1 + case.get("form", 0)) % 5)
                g = torch.Generator().manual_seed(case.get("form", 0))
                ol = torch.randn(oT, oN, V + 1, generator=g, dtype=torch.float64).to(_dt(case))
                try:
                    search(ol, torch.randint(0, oT + 1, (oN,), generator=g))
                except Exception:  # noqa: BLE001
                    pass
                first = call(search)
            y, y_lens, y_probs = call(search)
            if via == "reuse":
                S1 = y.size(0)
                m = torch.arange(S1).view(S1, 1, 1) < y_lens
                if not (first[0].shape == y.shape and torch.equal(first[1], y_lens)
                        and torch.equal(first[0].masked_fill(~m, 0), y.masked_fill(~m, 0))
                        and torch.equal(first[2].nan_to_num(nan=7.0), y_probs.nan_to_num(nan=7.0))):
                    return {"exc": "HistoryDependent", "msg": "two calls of one module object on the same input differ"}
    except Exception as e:
        return {"exc": exc_kind(e), "msg": str(e)[:200]}
    now = (logits, lens, init)
    if not (torch.equal(saved[0], now[0]) and (lens is None or torch.equal(saved[1], lens))
            and (init is None or all(torch.equal(saved[2][k], init[k]) for k in init))):
        return {"exc": "InputModified", "msg": "the call overwrote logits / lens / initial_state in place"}
    S = int(y.shape[0])
    if tuple(y.shape[1:]) != (N, w) or tuple(y_lens.shape) != (N, w) or tuple(y_probs.shape) != (N, w):
        return {"exc": "shape"}
    if y_probs.dtype != _dt(case) or y.dtype != torch.long or y_lens.dtype != torch.long:
        return {"exc": "dtype", "msg": str((y.dtype, y_lens.dtype, y_probs.dtype))}
    elems = []
    for n in range(N):
        ls = [int(v) for v in y_lens[n]]
        cols = [[int(v) for v in y[:, n, k]] for k in range(w)]
        elems.append({"y": [c[:max(0, l)] for c, l in zip(cols, ls)], "lens": ls,
                      "probs": [canon_float(v) for v in y_probs[n]],
                      "choices": [c[n] for c in calls]})
    return {"elems": elems, "S": S}


def via_check(case, out):
    """relation: the answer does not depend on the entry point / call form / memory layout / call history.
    Positive-mass prefixes must be the same with the same masses (tolerance as for the model); a near-tie at the
    pruning boundary is excused.  Returns a description of the difference or None."""
    via = case.get("via")
    if via is None or "exc" in out:
        return None
    if via == "script" and not _scriptable(case):
        return None
    o2 = run_search(case, via=via)
    if "exc" in o2:
        return f"the same input through '{via}' raises {o2['exc']}: {o2.get('msg', '')}"
    if o2["S"] != out["S"]:
        return f"through '{via}' y has {o2['S']} rows instead of {out['S']}"
    tol = 1e-9 if not _f32(case) else float(EPS32)
    for n, (a, b) in enumerate(zip(out["elems"], o2["elems"])):
        if any(p in ("nan", "+inf") for p in b["probs"]):
            return f"element {n}: non-finite probability through '{via}': {b['probs']}"
        da = {tuple(c): fl(p) for c, p in zip(a["y"], a["probs"]) if fl(p) > tol}
        db = {tuple(c): fl(p) for c, p in zip(b["y"], b["probs"]) if fl(p) > tol}
        va = sorted(fl(p) for p in a["probs"] if p != NEG)
        if set(da) != set(db):
            if any(abs(x - y) < tol for x, y in zip(va, va[1:])):
                continue
            return f"element {n}: plain call gives {da}, the same input through '{via}' gives {db}"
        if any(abs(da[k] - db[k]) > tol for k in da):
            return f"element {n}: plain call gives {da}, the same input through '{via}' gives {db}"
        if [p == NEG for p in a["probs"]] != [p == NEG for p in b["probs"]]:
            return f"element {n}: -inf slots differ through '{via}': {a['probs']} vs {b['probs']}"
    return None


def _probs_of(case):
    T, N, V = case["T"], case["N"], case["V"]
    logits = torch.tensor(case["logits"], dtype=_dt(case)).view(T, N, V + 1)
    return logits.softmax(2)


def _len_of(case, n):
    return case["T"] if case["lens"] is None else case["lens"][n]


def _lenmax(case):
    return case["T"] if case["lens"] is None else (max(case["lens"]) if case["lens"] else 0)


def _fus_lm_terms(case, n=None):
    if case["fusion"] == "none" or not case.get("lm") or not case["beta"]:  # "if self.lm is None or not self.beta"
        return "NoLM", "no_lm"
    lm = case["lm"]
    if lm.get("comp"):
        return (f"(Mix {cqc(Fraction(case['beta']))})" if case["fusion"] == "mix" else "Plain"), _comp_lm_term(case, n)
    tab = cl([clq(r) for r in lm_rows(case)])
    h0 = lm["h0"] if lm.get("h0s") is None or n is None else lm["h0s"][n]   # explicit initial state: per element
    lmt = f"(hash_lm {cn(lm['M'])} {cn(lm['a'])} {cn(h0)} {cn(case['V'])} {tab})"
    if case["fusion"] == "mix":
        return f"(Mix {cqc(Fraction(case['beta']))})", lmt
    return "Plain", lmt


def _frames_term(probs, n, upto, V):
    return cl([f"({clq([canon_float(v) for v in probs[t, n, :V]])}, {cqc(canon_float(probs[t, n, V]))})"
               for t in range(upto)])


def _elem_bad(e):
    if any(p in ("nan", "+inf") for p in e["probs"]):
        return True
    if any(l < 0 or l > 4000 for l in e["lens"]) or any(v < 0 or v > 4000 for c in e["y"] for v in c):
        return True
    return any(v < 0 or v > 4000 for ch in e["choices"] for v in ch)


def search_terms(case, out):
    """one bool term per batch element"""
    if "exc" in out:
        return ["false"]
    probs = _probs_of(case)
    lm_ = _lenmax(case)
    terms = []
    for n, e in enumerate(out["elems"]):
        fus, lmt = _fus_lm_terms(case, n)
        if _elem_bad(e) or out["S"] != lm_:
            terms.append("false")
            continue
        terms.append(
            f"check_search {cn(case['V'])} {cn(case['width'])} {fus} {lmt} {cn(_len_of(case, n))} "
            f"{_frames_term(probs, n, lm_, case['V'])} {cl([cln(c) for c in e['choices']])} {cqc(_eps(case))} "
            f"{cl([cln(c) for c in e['y']])} {cln(e['lens'])} {clm(e['probs'])}")
    return terms


def spec_cost(case, n, bits=0):
    """number of alignments the spec enumerates, weighted by the size of the rationals: a probability such as
    exp(-600) (extreme-magnitude stream) is an exact rational with a ~900-bit denominator, and products of those
    over the frames make the enumeration an order of magnitude slower; O(1) logits give < 128 bits (weight 1)"""
    return (case["V"] + 1) ** _len_of(case, n) * max(1, bits // 128)


def _den_bits(xs):
    return max([fr_(x).denominator.bit_length() for x in xs if x not in (NEG, "nan", "+inf")] + [0])


def spec_terms(case, out, limit=None):
    """Spec.spec_okb on each element's output (None where too expensive or not representable)"""
    if "exc" in out:
        return [None]
    probs = _probs_of(case)
    fus, lmt = _fus_lm_terms(case)
    lm_bits = 0 if lmt == "no_lm" or case["lm"].get("comp") else _den_bits([v for r in lm_rows(case) for v in r])
    terms = []
    for n, e in enumerate(out["elems"]):
        if _elem_bad(e):
            terms.append("false")
            continue
        if limit is not None:
            bits = max(lm_bits, _den_bits([float(v) for v in probs[:_len_of(case, n), n, :].flatten()]))
            if spec_cost(case, n, bits) > limit:
                terms.append(None)
                continue
        ln = _len_of(case, n)
        fus, lmt = _fus_lm_terms(case, n)
        frames = _frames_term(probs, n, ln, case["V"])
        outl = cl([f"({cln(c)}, {cmass(p)})" for c, p in zip(e["y"], e["probs"])])
        terms.append(f"(let frames := {frames} in spec_okb {cn(case['V'])} {cn(case['width'])} frames "
                     f"(fused_score {fus} {lmt} frames) {cqc(_eps(case))} {outl})")
    return terms


def search_show(case, out):
    if "exc" in out:
        return "tt"
    probs = _probs_of(case)
    fus, lmt = _fus_lm_terms(case)
    lm_ = _lenmax(case)
    items = []
    for n, e in enumerate(out["elems"]):
        if _elem_bad(e):
            continue
        fus, lmt = _fus_lm_terms(case, n)
        items.append(f"search {cn(case['V'])} {cn(case['width'])} {fus} {lmt} {cn(_len_of(case, n))} "
                     f"{_frames_term(probs, n, lm_, case['V'])} {cl([cln(c) for c in e['choices']])}")
    return cl(items) if items else "tt"


def light_spec(case, out):
    """the discrete clauses of the property, checked in Python on every element (no Coq):
    returns a description of the first violated clause or None"""
    if "exc" in out:
        return "exception " + out["exc"] + " " + out.get("msg", "")
    for n, e in enumerate(out["elems"]):
        ps = e["probs"]
        if any(p in ("nan", "+inf") for p in ps):
            return f"element {n}: non-finite probability {ps}"
        vals = [fl(p) for p in ps]
        if any(v < -1e-12 and v != -math.inf for v in vals):
            return f"element {n}: negative mass {vals}"
        if any(vals[k] < vals[k + 1] - 1e-12 for k in range(len(vals) - 1)):
            return f"element {n}: probabilities not non-increasing {vals}"
        pos = [(tuple(c), v) for c, v in zip(e["y"], vals) if v > 1e-12]
        for c, v, l in zip(e["y"], vals, e["lens"]):
            if v > 1e-12 and (l != len(c) or l > _len_of(case, n) or any(t < 0 or t >= case["V"] for t in c)):
                return f"element {n}: positive-mass prefix {c} (len {l}) not a blank-free sequence within {_len_of(case, n)} frames"
        if len({c for c, _ in pos}) != len(pos):
            return f"element {n}: a prefix with positive mass is returned twice {pos}"
    return None


def alone_check(case, out):
    """metamorphic: each element searched alone on its own valid frames gives the same positive-mass
    prefixes with the same probabilities"""
    if "exc" in out:
        return None
    T, N, V = case["T"], case["N"], case["V"]
    if all(v in (0.0, -math.inf) for row in case["logits"] for r in row for v in r):
        return None  # uniform supports: exact ties everywhere, topk may break them differently per shape
    tol = 1e-9 if not _f32(case) else float(EPS32)
    for n in range(N):
        ln = _len_of(case, n)
        if N == 1 and ln == T and case["lens"] is None:
            continue
        sub = dict(case, N=1, T=ln, lens=None,
                   logits=[[case["logits"][t][n]] for t in range(ln)])
        sub.pop("via", None)
        sub["lm"] = _lm_pick(case.get("lm"), [n])
        o2 = run_search(sub)
        if "exc" in o2:
            return f"element {n} alone raises {o2['exc']}"
        a, b = out["elems"][n], o2["elems"][0]
        da = {tuple(c): fl(p) for c, p in zip(a["y"], a["probs"]) if fl(p) > tol}
        db = {tuple(c): fl(p) for c, p in zip(b["y"], b["probs"]) if fl(p) > tol}
        # a near-tie at the pruning boundary may legitimately resolve differently
        va = sorted(fl(p) for p in a["probs"] if p != NEG)
        if set(da) != set(db):
            if any(abs(x - y) < tol for x, y in zip(va, va[1:])):
                continue
            return f"element {n}: batched result {da} differs from the element searched alone {db}"
        if any(abs(da[k] - db[k]) > tol for k in da):
            return f"element {n}: batched masses {da} differ from the element searched alone {db}"
    return None


def _rand_logits(rng, T, N, V, style):
    rows = []
    for _ in range(T):
        per_n = []
        for _ in range(N):
            if style == "zeroinf":
                r = [0.0 if rng.random() < 0.6 else -math.inf for _ in range(V + 1)]
            else:
                r = [round(rng.gauss(0, 1.5), 3) if rng.random() > (0.12 if style == "mixed" else 0.0) else -math.inf
                     for _ in range(V + 1)]
            if all(v == -math.inf for v in r):
                r[rng.randrange(V + 1)] = 0.0
            per_n.append(r)
        rows.append(per_n)
    return rows


def _nprefixes(V, T):
    return sum(V ** i for i in range(T + 1))


def gen_search(rng, big=False):
    V = rng.choice([1, 2, 2, 3, 3] + ([4] if big else []))
    T = rng.choice([0, 1, 2, 3, 3, 4, 4] + ([5, 6] if big else [5]))
    N = rng.choice([1, 1, 2, 3])
    reach = _nprefixes(V, T)
    width = rng.choice([1, 2, 2, 3, 4, 5, 6, 8, max(1, reach - 1), reach, reach + 1, reach + 4, 2 * reach + 3])
    width = min(width, 45 if big else 24)
    style = rng.choice(["dense", "mixed", "mixed", "zeroinf"])
    case = dict(kind="search", T=T, N=N, V=V, width=width, logits=_rand_logits(rng, T, N, V, style), lens=None,
                fusion="none", beta=0.2, lm=None)
    r = rng.random()
    if r < 0.6:
        case["lens"] = [rng.choice([0, T, rng.randint(0, T), rng.randint(0, T)]) for _ in range(N)]
    f = rng.random()
    if f < 0.6:
        case["fusion"] = "plain" if f < 0.3 else "mix"
        case["beta"] = rng.choice([0.0, 0.25, 0.5, 1.0, 0.2, 0.7])
        M = rng.choice([2, 3, 5])
        case["lm"] = dict(M=M, a=rng.choice([1, 2, 3]), h0=rng.randrange(M),
                          table=[[round(rng.gauss(0, 1.2), 3) for _ in range(V)] for _ in range(M)])
        if rng.random() < 0.25:
            row = rng.randrange(M)
            if V > 1:
                case["lm"]["table"][row][rng.randrange(V)] = -math.inf
    return case


def gen_search_robust(rng):
    """robustness dimensions on top of gen_search: fused LMs that are NOT normalised (raw O(1) scores with a common
    offset; the library's own MixableShallowFusionLanguageModel first + beta2 * second as the fused model) under both
    fusion equations, an explicit per-element initial LM state (third call argument), float32, and the same logical
    input through another entry point / call form / memory layout / call history (case['via'], see run_search)."""
    while True:
        case = gen_search(rng)
        V, N, T = case["V"], case["N"], case["T"]
        if rng.random() < 0.55 and case["fusion"] == "none":
            # more fused cases than gen_search has; valid mixture as often as plain fusion
            case["fusion"] = rng.choice(["plain", "mix"])
            case["beta"] = rng.choice([0.0, 0.25, 0.5, 1.0, 0.2, 0.7])
            M = rng.choice([2, 3, 5])
            case["lm"] = dict(M=M, a=rng.choice([1, 2, 3]), h0=rng.randrange(M),
                              table=[[round(rng.gauss(0, 1.2), 3) for _ in range(V)] for _ in range(M)])
        lm = case["lm"]
        if lm is not None:
            if rng.random() < 0.5:
                off = rng.choice([0.0, 2.0, -3.0, 5.5])
                lm["raw"] = True
                lm["table"] = [[(v if v == -math.inf else round(v + off, 3)) for v in r] for r in lm["table"]]
            if rng.random() < 0.45:
                lm["fuse"] = dict(beta2=rng.choice([0.0, 0.3, 1.0, 2.0, -0.5]), raw2=rng.random() < 0.4,
                                  table2=[[round(rng.gauss(0, 1.2) + 1.5, 3) for _ in range(V)] for _ in range(lm["M"])])
            if rng.random() < 0.6:
                lm["h0s"] = [rng.randrange(lm["M"]) for _ in range(N)]
        if rng.random() < 0.15:
            case["dtype"] = "float32"
        vias = [v for v in SEARCH_VIAS if not (v == "script" and not _scriptable(case))
                and not (v == "i32lens" and case["lens"] is None)]
        if rng.random() < 0.6:
            case["via"], case["form"] = rng.choice(vias), rng.randrange(12)
            if "script" in vias and rng.random() < 0.3:
                case["via"] = "script"       # scriptable cases are a minority: give them a fair share
        return case


def gen_second_frame(rng):
    """the merge lookup of the SECOND frame (y_prev has exactly one row): the empty prefix and one-token prefixes
    with tokens other than 0 survive frame 0 (finite blank and label scores, width >= 2), T >= 2, V >= 2; half
    of the cases ragged so that an element stops after one or two frames."""
    V = rng.choice([2, 2, 3, 3, 4])
    T = rng.choice([2, 2, 3, 4])
    N = rng.choice([1, 1, 2, 3])
    logits = _rand_logits(rng, T, N, V, "dense")
    for n in range(N):
        # frame 0: blank and a non-zero token near the top, token 0 low
        logits[0][n][V] = round(rng.gauss(1.0, 0.5), 3)
        logits[0][n][rng.randint(1, V - 1)] = round(rng.gauss(1.0, 0.5), 3)
        logits[0][n][0] = round(rng.gauss(-1.5, 0.5), 3)
    case = dict(kind="search", T=T, N=N, V=V, width=rng.choice([2, 2, 3, 3, 4, V + 1, V + 2, 2 * V + 1]),
                logits=logits, lens=None, fusion="none", beta=0.2, lm=None)
    if rng.random() < 0.5:
        case["lens"] = [rng.choice([T, 2, rng.randint(1, T)]) for _ in range(N)]
    if rng.random() < 0.4:
        case["fusion"] = rng.choice(["plain", "mix"])
        case["beta"] = rng.choice([0.25, 0.5, 1.0, 0.2])
        M = rng.choice([2, 3, 5])
        case["lm"] = dict(M=M, a=rng.choice([1, 2, 3]), h0=rng.randrange(M),
                          table=[[round(rng.gauss(0, 1.2), 3) for _ in range(V)] for _ in range(M)])
    return case


COMP_KEYS = ("h", "h", "state", "hidden", "first.h", "second.h", "second.")
COMP_PREFIXES = ((None, None), (None, None), ("a.", "b."), ("lm1/", "lm2/"), ("x", "y"), ("second.", "first."),
                 ("first.first.", "first.second."))   # never one a prefix of the other (corpus/C05/*.pending)


def _gen_leaf(rng, V, enc=None, key=None, M=None, stateless_ok=True):
    r = rng.random()
    if enc is None and stateless_ok and r < 0.06:
        # the library's stateless bigram model; entries on a 1/8 grid (exact in its float32 tables)
        return dict(k="lookup", sos=rng.choice([V, V, rng.randrange(V)]),
                    bi=[[-rng.randint(1, 32) / 8.0 for _ in range(V)] for _ in range(V + 1)])
    if enc is None:
        enc = "hist" if (stateless_ok and r < 0.16) else rng.choice(FSM_ENCS[:-1])
    M = M or rng.choice([2, 3, 4, 5])
    leaf = dict(k="fsm", enc=enc, key=key or rng.choice(COMP_KEYS), M=M, s0=rng.randrange(M),
                trans=[[rng.randrange(M) for _ in range(V + 1)] for _ in range(M)],
                table=[[round(rng.gauss(0, 1.2), 3) for _ in range(V)] for _ in range(M)])
    if rng.random() < 0.4:
        off = rng.choice([0.0, 2.0, -3.0, 5.5])
        leaf["raw"] = True
        leaf["table"] = [[round(v + off, 3) for v in r_] for r_ in leaf["table"]]
    return leaf


def gen_search_composite(rng):
    """the fused language model is a COMPOSITE from the library: MixableShallowFusionLanguageModel(first, second, beta2),
    possibly nested on either side, with custom state-key prefixes; its leaves are finite-state test LMs whose state is
    laid out in five different ways (long vector / float one-hot rows / one-hot with the batch dimension last / two
    entries of different shapes / (1, B, 1)), under the same or different key names, of the same or different sizes, a
    stateless leaf that re-reads the history, or the library's bigram LookupLanguageModel; inner betas 0 / positive /
    negative; explicit initial state for all, some or none of the leaves, different per batch element; plain and
    valid-mixture fusion; ragged batches with empty elements.  'twin' regime: every leaf has the SAME class, key, size
    and shapes (two RNNs of one size), so that a state routed to the wrong part raises nothing.  A share of the cases
    uses a single leaf (no wrapper) in one of the five layouts: CTCPrefixSearch's own extract_by_src / mix_by_mask calls.
    The oracle recomputes the fused row of every prefix from scratch (_comp_rows)."""
    V = rng.choice([1, 2, 2, 2, 3, 3, 4])
    Tmax = {1: 5, 2: 5, 3: 4, 4: 3}[V]
    T = rng.choice([0, 1] + list(range(2, Tmax + 1)) * 4)
    N = rng.choice([1, 1, 2, 3])
    reach = _nprefixes(V, T)
    width = min(rng.choice([1, 2, 2, 3, 3, 4, 5, 6, 8, reach + 1]), 12)
    case = dict(kind="search", T=T, N=N, V=V, width=width, lens=None,
                logits=_rand_logits(rng, T, N, V, rng.choice(["dense", "dense", "dense", "mixed"])),
                fusion=rng.choice(["plain", "mix"]), beta=rng.choice([0.25, 0.5, 1.0, 0.2, 0.7, 0.7, 0.0]))
    if rng.random() < 0.5:
        case["lens"] = [rng.choice([0, T, T, rng.randint(0, T), rng.randint(0, T)]) for _ in range(N)]
    shape = rng.choice(["AB"] * 11 + ["(AB)C"] * 3 + ["A(BC)"] * 3 + ["(AB)(CD)"] + ["A"] * 2)
    twin = shape != "A" and rng.random() < 0.4
    if twin:
        enc, key, M = rng.choice(FSM_ENCS[:-1]), rng.choice(COMP_KEYS), rng.choice([2, 3, 4, 5])
        leaf = lambda: _gen_leaf(rng, V, enc, key, M)  # noqa: E731
    elif shape == "A":
        leaf = lambda: _gen_leaf(rng, V, rng.choice(FSM_ENCS[1:-1]))  # noqa: E731
    else:
        leaf = lambda: _gen_leaf(rng, V)  # noqa: E731

    def fuse(a, b):
        fp, sp = rng.choice(COMP_PREFIXES)
        return dict(k="fuse", first=a, second=b, fp=fp, sp=sp, beta=rng.choice([0.0, 0.3, 0.7, 1.0, 1.5, 2.0, -0.5, 0.7, 1.0]))

    if shape == "A":
        tree = leaf()
    elif shape == "AB":
        tree = fuse(leaf(), leaf())
    elif shape == "(AB)C":
        tree = fuse(fuse(leaf(), leaf()), leaf())
    elif shape == "A(BC)":
        tree = fuse(leaf(), fuse(leaf(), leaf()))
    else:
        tree = fuse(fuse(leaf(), leaf()), fuse(leaf(), leaf()))
    leaves = _comp_leaves(tree)
    if all(l["k"] == "lookup" or l.get("enc") == "hist" for l in leaves):
        leaves[-1].update(_gen_leaf(rng, V, rng.choice(FSM_ENCS[:-1])))      # at least one stateful part
        leaves[-1].pop("sos", None), leaves[-1].pop("bi", None)
    if rng.random() < 0.45:
        share = rng.choice([1.0, 1.0, 0.6])
        for l in leaves:
            if l["k"] == "fsm" and l["enc"] != "hist" and rng.random() < share:
                l["s0s"] = [rng.randrange(l["M"]) for _ in range(N)]
    case["lm"] = dict(comp=tree, shape=shape, twin=twin)
    if rng.random() < 0.1:
        case["dtype"] = "float32"
    if rng.random() < 0.3:
        case["via"], case["form"] = rng.choice([v for v in SEARCH_VIAS if v != "script" and not (
            v == "i32lens" and case["lens"] is None)]), rng.randrange(12)
    return case


def _comp_situations(chk, c, out):
    lm = c.get("lm")
    if not lm or not lm.get("comp") or c["fusion"] == "none" or not c["beta"] or "exc" in out:
        return
    tree = lm["comp"]
    leaves = _comp_leaves(tree)
    stateful = [l for l in leaves if l["k"] == "fsm" and l["enc"] != "hist"]
    chk.count("composite:shape=%s" % lm.get("shape"))
    for l in leaves:
        chk.count("composite:leaf=%s" % (l["k"] if l["k"] != "fsm" else l["enc"]))
    if tree["k"] != "fuse":
        return
    # a non-empty prefix alive at the start of some frame t >= 1 that the element really processes: from then on the
    # scores depend on the states that were extracted / mixed after the previous frame
    V = c["V"]
    alive = any(_len_of(c, n) >= 2 and len(e["choices"]) >= 2 and any(u < V for u in e["choices"][0])
                for n, e in enumerate(out["elems"]))
    sec = _comp_leaves(tree["second"])
    sec_stateful = any(l["k"] == "fsm" and l["enc"] != "hist" for l in sec)
    chk.count("composite:inner_beta%s0,second_%s" % ("!=" if tree["beta"] else "=", "stateful" if sec_stateful else "stateless"))
    if tree["beta"] and sec_stateful and alive:
        same = len({(l["enc"], l["key"], l["M"]) for l in stateful}) == 1 and len(stateful) == len(leaves)
        chk.count("situation:composite_lm,inner_beta!=0,second_stateful,%s_state_layout,nonempty_prefix_alive_at_frame>=1"
                  % ("same" if same else "different"))
    if any(l.get("s0s") is not None for l in stateful):
        chk.count("composite:explicit_initial_state=%s" % ("all" if all(l.get("s0s") is not None for l in stateful) else "some"))
    if tree.get("fp") is not None:
        chk.count("composite:custom_prefixes")


def situation_counts(chk, c, out):
    """histogram of the situations the independent reviews singled out, read off the recorded topk answers"""
    if "exc" in out:
        return
    _comp_situations(chk, c, out)
    V = c["V"]
    for n, e in enumerate(out["elems"]):
        ch = e["choices"]
        if _len_of(c, n) >= 2 and len(ch) >= 2 and V in ch[0] and any(0 < v < V for v in ch[0]):
            chk.count("situation:second_frame,empty_and_nonzero_token_prefix_alive")
            break
    if c["fusion"] == "mix" and c["beta"] and c.get("lm") and (c["lm"].get("raw") or (
            c["lm"].get("fuse") and (c["lm"]["fuse"]["beta2"] != 0 or c["lm"]["fuse"].get("raw2")))):
        chk.count("situation:valid_mixture,unnormalised_fused_lm")
    if c["fusion"] == "plain" and c["beta"] and c.get("lm") and (c["lm"].get("raw") or (
            c["lm"].get("fuse") and (c["lm"]["fuse"]["beta2"] != 0 or c["lm"]["fuse"].get("raw2")))):
        chk.count("situation:plain_fusion,unnormalised_fused_lm")
    if c.get("lm") and c["lm"].get("fuse") and c["fusion"] != "none" and c["beta"]:
        chk.count("situation:library_shallow_fusion_lm,beta2%s0" % ("!=" if c["lm"]["fuse"]["beta2"] else "="))
    if c.get("lm") and c["lm"].get("h0s") is not None and c["fusion"] != "none" and c["beta"]:
        chk.count("situation:explicit_initial_state" + (",differs_between_elements" if len(set(c["lm"]["h0s"])) > 1 else ""))


def _xrow(rng, n, f32, lm=False, snap=True):
    """one row of n extreme-magnitude logits: O(1) values scaled by 100..1000, and/or a common offset of
    +-100..1000 (exp alone overflows beyond 88.7 in float32 / 709.8 in float64 and underflows to 0 below
    -104 / -745), and/or one logit dominating by hundreds of nats (the softmax of the others underflows to
    exactly 0, which the oracle reproduces).  For LM rows the dominating gap is kept just beyond the underflow
    point, so that beta * log-probability is still O(1) for the small betas of the stream."""
    mode = rng.choice(["scaled", "offset", "offset", "dominant", "dominant+offset", "scaled+offset"])
    sd = 1.2 if lm else 1.5
    s = rng.randint(100, 1000) if "scaled" in mode else 1
    row = [round(rng.gauss(0, sd) * s, 3) for _ in range(n)]
    if "dominant" in mode:
        gap = (rng.randint(110, 400) if f32 else rng.randint(750, 1200)) if lm else rng.randint(100, 1500)
        j = rng.randrange(n)
        row[j] = round(row[j] + gap, 3)
    if "offset" in mode:
        big = rng.random() < 0.7
        off = rng.choice([-1, 1]) * (rng.randint(720, 1000) if big else rng.randint(100, 720))
        row = [round(v + off, 3) for v in row]
    if snap and not f32:
        # float64: an entry 30..800 nats below the row's maximum has a probability like exp(-600), an exact
        # rational with a ~900-bit denominator (slow in Coq); most cases push such entries beyond 800 nats, where
        # the softmax underflows to exactly 0 (float32 keeps every gap: its smallest positive value is 2^-149)
        m = max(row)
        row = [round(m - 800 - (m - v) % 400, 3) if 30 < m - v < 800 else v for v in row]
    return row


def gen_search_extreme(rng):
    """extreme-magnitude regime: acoustic logits and / or the LM's (unnormalised) scores are huge, shifted by a
    large common offset or dominated by one entry, in float32 and float64.  The stable kernels the code uses
    (softmax, log_softmax) give finite probabilities here (some exactly 0); exp / sum(exp), log(softmax) or a
    log-sum-exp without the max shift give NaN, +inf or zeros where the true mass is not negligible."""
    while True:
        case = gen_search(rng)
        T, N, V = case["T"], case["N"], case["V"]
        if T == 0:
            continue
        while (V + 1) ** T > 100:   # the numerical regime needs no long inputs; keeps the Coq terms cheap
            T -= 1
        case["T"] = T
        if case["lens"] is not None:
            case["lens"] = [min(l, T) for l in case["lens"]]
        f32 = rng.random() < 0.5
        snap = rng.random() < 0.85
        case["dtype"] = "float32" if f32 else "float64"
        case["width"] = min(case["width"], 8)
        which = rng.choice(["acoustic", "lm", "both"]) if case["fusion"] != "none" else "acoustic"
        if which in ("acoustic", "both"):
            pinf = rng.choice([0.0, 0.0, 0.1])
            logits = []
            for _ in range(T):
                per_n = []
                for _ in range(N):
                    r = _xrow(rng, V + 1, f32, snap=snap)
                    r = [(-math.inf if rng.random() < pinf else v) for v in r]
                    if all(v == -math.inf for v in r):
                        r[rng.randrange(V + 1)] = float(rng.choice([-900, 0, 900]))
                    per_n.append(r)
                logits.append(per_n)
            case["logits"] = logits
        else:
            case["logits"] = _rand_logits(rng, T, N, V, "dense")
        if which in ("lm", "both"):
            lm = case["lm"]
            lm["raw"] = True
            lm["table"] = [_xrow(rng, V, f32, lm=True, snap=snap) for _ in range(lm["M"])]
            # beta * gap stays O(1..50) nats (or beta = 1: exactly 0 beyond the underflow point)
            case["beta"] = rng.choice([0.005, 0.01, 0.02, 0.05, 0.25 if f32 else 0.03, 1.0])
        if not f32 and T > 2:
            # float64 probabilities like exp(-600) are exact rationals with ~900-bit denominators; their products
            # over three or more frames make the Coq terms slow, so such cases keep two frames
            bits = _den_bits([float(v) for v in _probs_of(case).flatten()])
            if case["fusion"] != "none" and case["beta"]:
                bits = max(bits, _den_bits([v for r in lm_rows(case) for v in r]))
            if bits > 256:
                case["T"], case["logits"] = 2, case["logits"][:2]
                if case["lens"] is not None:
                    case["lens"] = [min(l, 2) for l in case["lens"]]
        return case


def gen_search_exhaustive(thorough):
    """{0,-inf} logits: every support pattern per frame (softmax uniform on the support), one element,
    every width up to beyond the number of prefixes"""
    cases = []
    scope = [(1, 3), (2, 2)] + ([(2, 3), (1, 4)] if thorough else [])
    for V, Tmax in scope:
        pats = [p for p in itertools.product([0.0, -math.inf], repeat=V + 1) if any(v == 0.0 for v in p)]
        for T in range(0, Tmax + 1):
            for combo in itertools.product(pats, repeat=T):
                for width in range(1, _nprefixes(V, T) + 2):
                    cases.append(dict(kind="search", T=T, N=1, V=V, width=width, logits=[[list(p)] for p in combo],
                                      lens=None, fusion="none", beta=0.2, lm=None))
    return cases


# ------------------------------------------------------------------------------------------
# driver
# ------------------------------------------------------------------------------------------

def eval_balanced(chk, terms, tag="cases", per_shard=40):
    """coq_eval_bools with the terms dealt to the shards by decreasing size, so that no shard
    collects all the expensive ones"""
    n = len(terms)
    if n == 0:
        return []
    jobs = 16
    nshards = max(1, min(max(jobs, -(-n // per_shard)), n))
    order = sorted(range(n), key=lambda i: -len(terms[i]))
    groups = [order[g::nshards] for g in range(nshards)]
    size = max(len(g) for g in groups)
    flat, back = [], []
    for g in groups:
        pad = size - len(g)
        flat += [terms[i] for i in g] + ["true"] * pad
        back += list(g) + [None] * pad
    res = coq_eval_bools(chk.workdir, IMPORTS, flat, shard=size, tag=tag)
    out = [True] * n
    for r, i in zip(res, back):
        if i is not None:
            out[i] = r
    return out


def run_impl(case):
    return run_advance(case) if case["kind"] == "advance" else run_search(case)


def model_terms(case, out):
    return [advance_term(case, out)] if case["kind"] == "advance" else search_terms(case, out)


def _fails(chk, case):
    out = run_impl(case)
    return not all(coq_eval_bools(chk.workdir, IMPORTS, model_terms(case, out), tag="shr"))


def _cands(case):
    if case["kind"] == "advance":
        if case["width"] > 1:
            yield dict(case, width=case["width"] - 1)
        return
    N, T = case["N"], case["T"]
    for n in range(N):
        if N > 1:
            c2 = dict(case, N=N - 1, logits=[[r for i, r in enumerate(row) if i != n] for row in case["logits"]],
                      lens=None if case["lens"] is None else [l for i, l in enumerate(case["lens"]) if i != n])
            c2["lm"] = _lm_pick(case.get("lm"), [i for i in range(N) if i != n])
            yield c2
    if T > 0:
        yield dict(case, T=T - 1, logits=case["logits"][:-1],
                   lens=None if case["lens"] is None else [min(l, T - 1) for l in case["lens"]])
    if case["lens"] is not None and all(l == T for l in case["lens"]):
        yield dict(case, lens=None)
    if case["fusion"] != "none":
        yield dict(case, fusion="none", lm=None)
    if case["width"] > 1:
        yield dict(case, width=case["width"] - 1)
        yield dict(case, width=max(1, case["width"] // 2))


def judge(chk, case, out):
    """a case whose implementation output differs from the model (or broke a directly checked clause)"""
    rec = {"case": case, "impl": out, "correspondence": "corr:C05:" + (
        "ctc_prefix_search_advance" if case["kind"] == "advance" else "CTCPrefixSearch.__call__"),
        "theorems_at_stake": THEOREMS}
    if case["kind"] == "advance":
        bad = "exc" in out or _bad_number(out, ("nb", "b"))
        rec["model"] = coq_eval_print(chk.workdir, IMPORTS, advance_show(case, out))[:3000]
        if bad:
            rec["what"] = "ctc_prefix_search_advance raised or returned NaN/+inf mass on a well-formed state: " + json.dumps(
                out.get("exc", [out.get("nb"), out.get("b")]))
            return rec, False
        weak = coq_eval_bools(chk.workdir, IMPORTS, [advance_weak_term(case, out)], tag="weak")[0]
        rec["valid_slots_agree"] = weak
        if weak:
            rec["what"] = ("ctc_prefix_search_advance differs from Model.advance only in what the property leaves open (the "
                           "representation of slots without a real prefix, next_src / next_is_nonext bookkeeping)")
            return rec, True
        rec["what"] = ("ctc_prefix_search_advance differs from Model.advance on a slot holding a real prefix (mass, prefix, "
                       "length, last token or prefix matrix) or gives an inadmissible topk answer, on an exact dyadic input; "
                       "Model.advance is proved to be the prefix beam recursion (c05_model_refines_pbs_ref_step)")
        return rec, False
    light = light_spec(case, out)
    if light is not None:
        rec["what"] = "CTCPrefixSearch output violates the property: " + light
        return rec, False
    st = [t for t in spec_terms(case, out, limit=4 ** 6) if t is not None]
    sres = coq_eval_bools(chk.workdir, IMPORTS, st, tag="spec") if st else []
    rec["model"] = coq_eval_print(chk.workdir, IMPORTS, search_show(case, out))[:3000]
    rec["spec_accepts_impl"] = all(sres)
    if not all(sres):
        rec["what"] = ("CTCPrefixSearch output rejected by Spec.spec_okb: a reported probability exceeds the total alignment "
                       "mass of its prefix, differs from it although nothing was pruned, differs from the width-K prefix "
                       "beam recursion, or the ordering/distinctness clauses fail")
        return rec, False
    rec["what"] = "CTCPrefixSearch differs from Model.search but its output satisfies Spec.spec_okb"
    return rec, True


def gen_cases(chk):
    rng = chk.rng
    thorough = chk.tier == "thorough"
    cases = []
    ex = gen_search_exhaustive(thorough)
    if not thorough:
        ex = ex[::7]
    else:
        chk.extra["exhaustive"] = True
    chk.extra["exhaustive_scope"] = (
        "CTCPrefixSearch, one element, {0,-inf} logits: every support pattern per frame, (V,T<=) in "
        + ("(1,4),(2,3)" if thorough else "(1,3),(2,2), every 7th case") + ", every width 1..#prefixes+1")
    for c in ex:
        c["stream"] = "exhaustive" if thorough else "exhaustive-slice"
    cases += ex
    for c in load_corpus("C05"):
        c = dict(c)
        c["stream"] = "corpus"
        cases.append(c)
    n_chain, n_rand, n_search = (400, 3000, 4000) if thorough else (45, 320, 330)
    for _ in range(n_chain):
        for c in gen_advance_chain(rng, rng.randint(2, 6)):
            c["stream"] = "advance-chain"
            cases.append(c)
    for i in range(n_rand):
        c = gen_advance_random(rng, consistent=(i % 3 != 0))
        c["stream"] = "advance-consistent" if i % 3 != 0 else "advance-arbitrary"
        cases.append(c)
    for i in range(n_search):
        c = gen_search(rng, big=thorough and i % 4 == 0)
        c["stream"] = "search-random"
        cases.append(c)
    for i in range(1200 if thorough else 90):
        c = gen_search_extreme(rng)
        c["stream"] = "search-extreme-magnitude"
        cases.append(c)
    for i in range(2500 if thorough else 170):
        c = gen_search_robust(rng)
        c["stream"] = "search-robust"
        cases.append(c)
    for i in range(600 if thorough else 40):
        c = gen_second_frame(rng)
        c["stream"] = "search-second-frame"
        cases.append(c)
    # robustness dimensions of the step function: about half of the generated step cases go through a
    # non-contiguous layout / aliased arguments / keyword call / float32 / a position inside a batch
    for c in cases:
        if c["kind"] != "advance" or c["stream"] == "corpus":
            continue
        if rng.random() < 0.45:
            c["layout"] = rng.choice([1, 2])
        if rng.random() < 0.5:
            c["alias"] = True
        if rng.random() < 0.25:
            c["call"] = "kw"
        if c["stream"] != "advance-chain" and rng.random() < 0.2:
            c["f32"] = True
        if rng.random() < 0.3:
            N = rng.choice([2, 3])
            c["batch"] = [N, rng.randrange(N)]
    # composite fused language models (drawn last: the streams above keep their draws)
    for i in range(1800 if thorough else 110):
        c = gen_search_composite(rng)
        c["stream"] = "search-composite-lm"
        cases.append(c)
    return cases


def run(chk, cases=None):
    chk.rule = (
        "advance case = one beam state (prefix columns, last tokens, lengths, nb/b masses incl. -inf, prefix matrix), a frame "
        "(per-slot extension, non-extension and blank probabilities on a dyadic grid) and a width; every tensor returned by "
        "functional.ctc_prefix_search_advance is compared exactly with Model.advance under the topk answer read back from the "
        "outputs, which Model.topk_ok must accept. search case = logits (T,N,V+1) incl. -inf entries, lens incl. 0, width, "
        "fusion none/plain/valid-mixture with beta and a stateful hash language model; modules.CTCPrefixSearch's (y, y_lens, "
        "y_probs) are compared per element with Model.search on torch's float64 softmax (prefixes exact, probabilities within "
        "1e-9), Spec.spec_okb judges the output against alignment enumeration and the map-based prefix beam recursion, every "
        "element is re-run alone, and NaN is policed. non-trivial = a merge of an extension into an existing prefix is "
        "possible or the width is below the number of candidates (advance); at least two frames (search). "
        "search-extreme-magnitude stream: acoustic logits and/or unnormalised LM scores scaled by 100..1000, shifted by "
        "+-100..1000 or dominated by one entry (other probabilities underflow to exactly 0), float32 and float64, small "
        "betas; float32 cases are compared within 2^-15. search-robust stream: fused LMs that are not normalised (raw scores; the "
        "library's MixableShallowFusionLanguageModel first + beta2*second) under both fusion equations, an explicit per-element "
        "initial LM state, float32, and the same input again through torch.jit.script / keyword arguments / non-contiguous "
        "logits and lens / int32 lens / a module object used before (relation: same positive-mass prefixes and masses as the "
        "plain call; arguments must not be overwritten). search-second-frame stream: empty prefix and one-token prefixes with "
        "non-zero tokens alive after frame 0. About half of the step cases pass non-contiguous views, one tensor object for "
        "y_prev_last and y_prev_lens, keyword arguments, float32, or sit inside a batch of 2-3 (same model term). "
        "search-composite-lm stream: the fused model is the library's MixableShallowFusionLanguageModel(first, second, beta2), "
        "also nested on either side and with custom key prefixes, over finite-state test LMs whose state dicts have five "
        "different layouts / key names / sizes (or all the same: 'twin' regime), a stateless leaf, the library's bigram "
        "LookupLanguageModel; inner betas 0 / positive / negative, explicit initial state for all / some / no leaves, ragged "
        "batches with empty elements; the model's LM is the finite map prefix -> fused row computed afresh for every prefix "
        "from the leaves' definitions (no state, no extract_by_src, no mix_by_mask)")
    chk.assumptions += [
        "torch.softmax / log_softmax / exp results (float64) are handed to the model as exact rationals (regime T); "
        "float rounding of the remaining + and * is absorbed by the 1e-9 tolerance",
        "extreme-magnitude / float32 cases: the oracle is torch's softmax / log_softmax / exp in the case's own dtype "
        "(numerically stable kernels: finite for all finite logits, exact zeros where the true value underflows); float32 "
        "masses (all <= 1) are compared within 2^-15; the test LM may return unnormalised scores, which the module "
        "normalises itself",
        "topk's answer is observed (step outputs; for the module through a recording wrapper around "
        "_decoding.ctc_prefix_search_advance) and validated by Model.topk_ok instead of being predicted",
        "cells of y outside y_lens are undefined and not compared",
        "entry-point / layout / history variants are judged by the relation 'same answer as the plain eager call' (which itself "
        "is judged by the model): prefixes with mass above the tolerance and their masses; a near-tie at the pruning boundary "
        "is excused; scripting is exercised only over a scripted LM (the library scripts no search without LM)",
    ]
    chk.extra["trusted_base"] = [
        "C05: torch.topk's answer is an input of the model (observed from the step outputs), constrained by Model.topk_ok; "
        "the theorems hold for every admissible answer and c05_admissible_choices_exist shows one always exists",
        "C05: IEEE rounding is not modelled; NaN / +inf are policed on every output (regime N), -inf is modelled (mass = NegInf | Fin q)",
        "C05: the language model is a function prefix -> row in the model; the code's state plumbing (extract_by_src, mix_by_mask) "
        "is only covered by the correspondence with a stateful hash LM and with composites (library shallow-fusion wrappers, "
        "nested) of finite-state test LMs in several state layouts, whose rows the oracle recomputes per prefix from scratch",
    ]
    replaying = cases is not None
    cases = cases if cases is not None else gen_cases(chk)
    spec_limit = 4 ** 5 if chk.tier == "thorough" else 4 ** 4
    outs, terms, owner = [], [], []
    sterms, sowner = [], []
    direct = []
    streams = []
    for i, c in enumerate(cases):
        stream = c.pop("stream", "random")
        streams.append(stream)
        out = run_impl(c)
        outs.append(out)
        for t in model_terms(c, out):
            terms.append(t)
            owner.append(i)
        if c["kind"] == "advance":
            chk.note_case(c, advance_nontrivial(c), stream)
            Kp = len(c["nb"])
            chk.count("advance:V=%d" % c["V"])
            chk.count("advance:Kp=%d" % Kp)
            chk.count("advance:width" + ("<" if c["width"] < Kp * (c["V"] + 1) else ">" if c["width"] > Kp * (c["V"] + 1) else "=") + "ncand")
            chk.count("advance:has-invalid-slot=%s" % any(x == NEG for x in c["nb"] + c["b"]))
            chk.count("advance:layout=%d" % c.get("layout", 0))
            for k in ("alias", "call", "f32", "batch"):
                if c.get(k):
                    chk.count("advance:%s" % k)
            if c["t"] == 1 and any(l == 0 for l in c["lens"]) and any(l == 1 and y[0] != 0 for l, y in zip(c["lens"], c["y"])):
                chk.count("situation:advance,second_frame,empty_and_nonzero_token_prefix")
            if "exc" in out or _bad_number(out, ("nb", "b")):
                direct.append(i)
        else:
            chk.note_case(c, _lenmax(c) >= 2, stream)
            chk.count("search:fusion=%s" % (c["fusion"] if c["fusion"] == "none" or c["beta"] else c["fusion"] + "(beta=0)"))
            chk.count("search:T=%d" % c["T"])
            chk.count("search:dtype=%s" % c.get("dtype", "float64"))
            if c.get("lm") and c["lm"].get("raw"):
                chk.count("search:lm-scores=unnormalised")
            chk.count("search:V=%d" % c["V"])
            chk.count("search:N=%d" % c["N"])
            chk.count("search:lens=%s" % ("none" if c["lens"] is None else "has0" if 0 in c["lens"] else "ragged" if len(set(c["lens"])) > 1 or c["lens"][0] != c["T"] else "full"))
            chk.count("search:width%snprefixes" % ("<" if c["width"] < _nprefixes(c["V"], _lenmax(c)) else ">="))
            why = light_spec(c, out) or alone_check(c, out) or via_check(c, out)
            if why is not None:
                direct.append(i)
                chk.count("failing:direct:stream=%s" % stream)
            chk.count("search:via=%s" % c.get("via", "plain"))
            situation_counts(chk, c, out)
            # composite-LM cases are all fused and multi-frame: the spec is evaluated up front on the cheaper ones only
            # (judge() evaluates it anyway, with a larger limit, on every case whose output the model rejects)
            for t in spec_terms(c, out, limit=(spec_limit if stream != "search-composite-lm" else min(spec_limit, 4 ** 3))):
                if t is not None:
                    sterms.append(t)
                    sowner.append(i)
    res = eval_balanced(chk, terms)
    sres = eval_balanced(chk, sterms, tag="spec", per_shard=20)
    bad = sorted({owner[j] for j, ok in enumerate(res) if not ok})
    sbad = sorted({sowner[j] for j, ok in enumerate(sres) if not ok})
    chk.extra["model_disagreements"] = len(bad)
    for i in bad:
        chk.count("failing:model:stream=%s" % streams[i])      # absent on a tree the check accepts
    for i in sbad:
        chk.count("failing:spec:stream=%s" % streams[i])
    chk.extra["spec_evaluations"] = len(sterms)
    chk.extra["spec_rejections"] = len(sbad)
    chk.extra["direct_clause_failures"] = len(direct)
    chk.extra["model_terms"] = len(terms)
    source_tie(chk, cases, outs)
    from props.c05_tie import source_tieB   # second tie: loop body + epilogue of CTCPrefixSearch.forward
    source_tieB(chk, cases, outs)
    reported = 0
    concrete = False
    # 1. clauses checked directly on the implementation (NaN, order, distinctness, element alone)
    for i in direct[:3]:
        c, out = cases[i], outs[i]
        rec, _ = judge(chk, c, out)
        if c["kind"] == "search":
            why = light_spec(c, out) or alone_check(c, out) or via_check(c, out)
            rec["what"] = "CTCPrefixSearch output violates the property: " + str(why)
        chk.report(rec)
        concrete = True
        reported += 1
    # 2. outputs the spec rejects
    for i in [i for i in sbad if i not in direct][:3]:
        rec, _ = judge(chk, cases[i], outs[i])
        chk.report(rec)
        concrete = True
        reported += 1
    # 3. disagreements with the model
    rest = [i for i in bad if i not in direct and i not in sbad]
    look = [i for i in rest if cases[i]["kind"] == "advance"][:3] + [i for i in rest if cases[i]["kind"] == "search"][:3]
    for i in look:
        case = cases[i] if replaying else shrink(cases[i], lambda c: _fails(chk, c), _cands, budget=12)
        out = run_impl(case)
        rec, spec_ok = judge(chk, case, out)
        if not spec_ok:
            chk.report(rec)
            concrete = True
            reported += 1
    if rest and not concrete:
        rec, _ = judge(chk, cases[rest[0]], outs[rest[0]])
        chk.report(rec, no_failing_input=True)


def replay(chk, path):
    rec = json.loads(open(path).read())
    case = dict(rec["case"])
    case.pop("stream", None)
    run(chk, [case])
