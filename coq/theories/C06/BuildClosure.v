(* C06 — build_trie_ok, part 5: the table _build_trie stores.
   The suffix closure (top-down), the unigram completion and the renaming of an
   out-of-vocabulary start symbol turn the caller's dictionaries into a chain of levels
   that is duplicate-free, suffix-closed, has all tokens in [0, V + shift), and differs from
   the caller's table only by (-inf, 0) entries. *)
From Coq Require Import List ZArith Bool Arith Lia ZifyBool ZifyNat Permutation Sorted.
From PV Require Import C06.Model C06.Spec C06.Proofs C06.BuildBase C06.BuildSort C06.BuildLevels.
Import ListNotations.
Local Open Scope Z_scope.

Definition neutral (e : list Z * (val * val)) : Prop := snd e = (NInf, Fin 0).

Lemma dhas_in d k : dhas d k = true <-> In k (map fst d).
Proof.
  unfold dhas. rewrite existsb_exists. split.
  - intros (e & He & Heq). apply list_eqb_eq in Heq. subst k. apply in_map. exact He.
  - intros H. apply in_map_iff in H as (e & <- & He). exists e. split; [exact He|apply list_eqb_refl].
Qed.

Lemma NoDup_snoc {A} (l : list A) x : NoDup l -> ~ In x l -> NoDup (l ++ [x]).
Proof.
  induction 1 as [|y l Hnin Hnd IH]; intros Hx; cbn [app]; [constructor; [intros []|constructor]|].
  constructor.
  - intros Hin. apply in_app_or in Hin as [Hin|[<-|[]]]; [contradiction|]. apply Hx. left. reflexivity.
  - apply IH. intros Hin. apply Hx. right. exact Hin.
Qed.

(* ---------- prob_dicts[n - 1][suffix] = -inf, 0.0 -------------------------------------------------------- *)

Lemma add_missing_spec ks : forall lo, exists extra,
  add_missing lo ks = lo ++ extra /\ Forall neutral extra /\
  (forall e, In e extra -> In (fst e) ks) /\
  (forall k, In k ks -> In k (map fst (lo ++ extra))) /\
  (NoDup (map fst lo) -> NoDup (map fst (lo ++ extra))).
Proof.
  unfold add_missing. induction ks as [|k ks IH]; intros lo.
  - exists []. rewrite app_nil_r. cbn [fold_left]. repeat split; auto. intros k [].
  - cbn [fold_left]. destruct (dhas lo k) eqn:Eh.
    + destruct (IH lo) as (extra & E & Hn & Hk & Hc & Hd). exists extra. repeat split; auto.
      * intros e He. right. auto.
      * intros k' [<-|Hk']; [|auto]. rewrite map_app. apply in_or_app. left. apply dhas_in. exact Eh.
    + destruct (IH (lo ++ [(k, (NInf, Fin 0))])) as (extra & E & Hn & Hk & Hc & Hd).
      exists ((k, (NInf, Fin 0)) :: extra). rewrite E, <- app_assoc. cbn [app]. repeat split.
      * constructor; [reflexivity|exact Hn].
      * intros e [<-|He]; [left; reflexivity|right; auto].
      * intros k' [<-|Hk'].
        -- rewrite map_app. apply in_or_app. right. left. reflexivity.
        -- specialize (Hc k' Hk'). rewrite <- app_assoc in Hc. exact Hc.
      * intros Hnd. rewrite <- app_assoc in Hd. apply Hd.
        rewrite map_app. cbn [map fst]. apply NoDup_snoc; [exact Hnd|].
        intros Hin. apply dhas_in in Hin. congruence.
Qed.

(* ---------- chains of dictionaries -------------------------------------------------------------------------- *)

Section Chains.
  Variable T : Z -> Prop.                       (* which tokens may occur *)

  Definition key_ok (n : nat) (k : list Z) : Prop := length k = n /\ Forall T k.
  Definition level_pre0 (n : nat) (d : dict) : Prop :=
    NoDup (map fst d) /\ forall e, In e d -> key_ok n (fst e).
  Definition level_pre (n : nat) (d : dict) : Prop := level_pre0 n d /\ d <> [].
  (* every entry's suffix is an entry one order down *)
  Definition sub (hi lo : dict) : Prop := forall e, In e hi -> In (tl (fst e)) (map fst lo).

  (* highest order first *)
  Fixpoint desc (m : nat) (l : list dict) : Prop :=
    match l with
    | [] => True
    | a :: r => level_pre m a /\ (match r with [] => True | lo :: _ => sub a lo end) /\ desc (pred m) r
    end.

  (* lowest order first *)
  Fixpoint asc (m : nat) (l : list dict) : Prop :=
    match l with
    | [] => True
    | a :: r => level_pre m a /\ (match r with [] => True | hi :: _ => sub hi a end) /\ asc (S m) r
    end.

  Fixpoint desc0 (m : nat) (l : list dict) : Prop :=
    match l with [] => True | a :: r => level_pre0 m a /\ desc0 (pred m) r end.

  Lemma asc_snoc : forall l m x, asc m l -> level_pre (m + length l) x ->
    (forall lo, hd_error (rev l) = Some lo -> sub x lo) -> asc m (l ++ [x]).
  Proof.
    induction l as [|a l IH]; intros m x Ha Hx Hsub.
    - cbn [app asc length] in *. rewrite Nat.add_0_r in Hx. auto.
    - cbn [app]. destruct Ha as (Hpa & Hadj & Ha). cbn [asc]. split; [exact Hpa|]. split.
      + destruct l as [|h l']; cbn [app]; [|exact Hadj]. apply Hsub. reflexivity.
      + apply IH; [exact Ha| |].
        * cbn [length] in Hx. replace (S m + length l)%nat with (m + S (length l))%nat by lia. exact Hx.
        * intros lo Hlo. apply Hsub. cbn [rev]. destruct (rev l) as [|y r] eqn:E; [discriminate|].
          cbn [app hd_error] in *. exact Hlo.
  Qed.

  Lemma desc_asc : forall l, desc (length l) l -> asc 1 (rev l).
  Proof.
    induction l as [|a r IH]; intros H; [exact I|]. cbn [length desc] in H. destruct H as (Hpa & Hadj & Hr).
    cbn [rev]. apply asc_snoc.
    - apply IH. exact Hr.
    - rewrite rev_length. exact Hpa.
    - intros lo Hlo. rewrite rev_involutive in Hlo. destruct r as [|lo' r']; [discriminate|].
      cbn in Hlo. injection Hlo as <-. exact Hadj.
  Qed.
End Chains.

Definition ext_of (d c : dict) : Prop := exists extra, c = d ++ extra /\ Forall neutral extra.

Lemma ext_of_refl d : ext_of d d.
Proof. exists []. rewrite app_nil_r. split; [reflexivity|constructor]. Qed.

Lemma ext_of_trans a b c : ext_of a b -> ext_of b c -> ext_of a c.
Proof.
  intros (x & -> & Hx) (y & -> & Hy). exists (x ++ y). rewrite app_assoc. split; [reflexivity|].
  apply Forall_app. split; assumption.
Qed.

Lemma close_down_head hi lower : exists t, close_down hi lower = hi :: t.
Proof. destruct lower; cbn [close_down]; eauto. Qed.

Lemma close_down_length : forall lower hi, length (close_down hi lower) = S (length lower).
Proof. induction lower as [|lo r IH]; intros hi; cbn [close_down length]; [reflexivity|]. rewrite IH. reflexivity. Qed.

Lemma Forall_tl {A} (P : A -> Prop) (l : list A) : Forall P l -> Forall P (tl l).
Proof. destruct 1; [constructor|assumption]. Qed.

Lemma close_down_spec T : forall lower hi,
  level_pre T (S (length lower)) hi -> desc0 T (length lower) lower ->
  desc T (S (length lower)) (close_down hi lower) /\ Forall2 ext_of (hi :: lower) (close_down hi lower).
Proof.
  induction lower as [|lo rest IH]; intros hi Hhi Hlow.
  - cbn [close_down desc length]. split; [auto|]. constructor; [apply ext_of_refl|constructor].
  - cbn [close_down length desc0] in *. destruct Hlow as [Hlo Hrest].
    set (ks := map (fun e => tl (fst e)) hi).
    destruct (add_missing_spec ks lo) as (extra & E & Hn & Hk & Hc & Hd).
    set (c := add_missing lo ks) in *.
    assert (Hpc : level_pre T (S (length rest)) c).
    { destruct Hhi as [[Hnd Hkeys] Hne]. destruct Hlo as [Hndl Hkl]. split; [split|].
      - rewrite E. apply Hd. exact Hndl.
      - intros e He. rewrite E in He. apply in_app_or in He as [He|He]; [apply Hkl; exact He|].
        specialize (Hk e He). unfold ks in Hk. apply in_map_iff in Hk as (e' & Heq & He').
        destruct (Hkeys e' He') as [Hl Ht]. rewrite <- Heq. split.
        + destruct (fst e'); cbn [length tl] in *; lia.
        + apply Forall_tl. exact Ht.
      - destruct hi as [|e0 hi']; [congruence|]. intros Ec.
        assert (Hin : In (tl (fst e0)) (map fst c)).
        { rewrite E. apply Hc. unfold ks. cbn [map]. left. reflexivity. }
        rewrite Ec in Hin. destruct Hin. }
    destruct (IH c Hpc Hrest) as [Hdesc Hf2].
    destruct (close_down_head c rest) as [t Et]. fold c. rewrite Et in *.
    split.
    + cbn [desc]. split; [exact Hhi|]. split; [|exact Hdesc].
      intros e He. rewrite E. apply Hc. unfold ks. apply in_map_iff. exists e. auto.
    + constructor; [apply ext_of_refl|]. inversion Hf2; subst. constructor; [|assumption].
      exists extra. split; [exact E|exact Hn].
Qed.

Lemma Forall2_snoc {A B} (R : A -> B -> Prop) l1 l2 x y : Forall2 R l1 l2 -> R x y ->
  Forall2 R (l1 ++ [x]) (l2 ++ [y]).
Proof. intros H Hxy. apply Forall2_app; [exact H|]. constructor; [exact Hxy|constructor]. Qed.

Lemma Forall2_rev {A B} (R : A -> B -> Prop) l1 l2 : Forall2 R l1 l2 -> Forall2 R (rev l1) (rev l2).
Proof.
  induction 1 as [|x y l1 l2 Hxy H IH]; [constructor|]. cbn [rev]. apply Forall2_snoc; assumption.
Qed.

Lemma Forall2_nth_error {A B} (R : A -> B -> Prop) l1 l2 : Forall2 R l1 l2 ->
  forall i x, nth_error l1 i = Some x -> exists y, nth_error l2 i = Some y /\ R x y.
Proof.
  induction 1 as [|x y l1 l2 Hxy H IH]; intros i a Hi; [destruct i; discriminate|].
  destruct i as [|i]; cbn [nth_error] in *.
  - injection Hi as <-. eauto.
  - apply IH. exact Hi.
Qed.

Lemma Forall2_len {A B} (R : A -> B -> Prop) l1 l2 : Forall2 R l1 l2 -> length l1 = length l2.
Proof. induction 1; cbn [length]; congruence. Qed.

(* ---------- the closed, completed, renamed dictionaries of build_trie ---------------------------------------- *)

Definition ren (V s x : Z) : Z := if shiftb V s && (x =? s) then V else x.
Definition ren_entry (V s : Z) (e : list Z * (val * val)) : list Z * (val * val) :=
  (map (ren V s) (fst e), snd e).
Definition uni_toks (V s : Z) : list Z := zrange V ++ (if shiftb V s then [s] else []).

Definition closed0 (V s : Z) (top : dict) (lower : list dict) : list dict :=
  match rev (close_down top lower) with
  | [] => []
  | uni :: higher => add_missing uni (map (fun x => [x]) (uni_toks V s)) :: higher
  end.

Definition closed (V s : Z) (top : dict) (lower : list dict) : list dict :=
  map (fun d => map (ren_entry V s) d) (closed0 V s top lower).

Definition in_range (n x : Z) : Prop := 0 <= x < n.

Lemma ren_range V s x : 0 <= V -> tok_ok V s x -> in_range (V + shiftz V s) (ren V s x).
Proof.
  unfold tok_ok, in_range, ren, shiftz. intros HV H. destruct (shiftb V s) eqn:Es; unfold shiftb in Es.
  - destruct (x =? s) eqn:Ex; cbn [andb]; lia.
  - cbn [andb]. lia.
Qed.

Lemma ren_inj V s x y : tok_ok V s x -> tok_ok V s y -> ren V s x = ren V s y -> x = y.
Proof.
  unfold tok_ok, ren. intros Hx Hy. destruct (shiftb V s) eqn:Es; unfold shiftb in Es; cbn [andb]; [|auto].
  destruct (x =? s) eqn:Ex, (y =? s) eqn:Ey; lia.
Qed.

Lemma map_ren_inj V s k : forall k', Forall (tok_ok V s) k -> Forall (tok_ok V s) k' ->
  map (ren V s) k = map (ren V s) k' -> k = k'.
Proof.
  induction k as [|x k IH]; intros [|y k'] Hk Hk' E; cbn [map] in E; try discriminate; [reflexivity|].
  inversion Hk; inversion Hk'; subst. injection E as E1 E2. f_equal; [apply (ren_inj V s); assumption|].
  apply IH; assumption.
Qed.

Lemma tl_map {A B} (f : A -> B) l : tl (map f l) = map f (tl l).
Proof. destruct l; reflexivity. Qed.

Lemma level_pre_ren V s n d : 0 <= V -> level_pre (tok_ok V s) n d ->
  level_pre (in_range (V + shiftz V s)) n (map (ren_entry V s) d).
Proof.
  intros HV [[Hnd Hk] Hne]. split; [split|].
  - rewrite map_map. cbn [ren_entry fst]. rewrite <- (map_map fst (map (ren V s))).
    apply NoDup_map_inj_in; [exact Hnd|]. intros a c Ha Hc.
    apply in_map_iff in Ha as (ea & <- & Ha). apply in_map_iff in Hc as (ec & <- & Hc).
    apply map_ren_inj; [apply (Hk ea Ha)|apply (Hk ec Hc)].
  - intros e He. apply in_map_iff in He as (e0 & <- & He0). destruct (Hk e0 He0) as [Hl Ht].
    cbn [ren_entry fst]. split; [rewrite map_length; exact Hl|].
    rewrite Forall_forall in *. intros x Hx. apply in_map_iff in Hx as (x0 & <- & Hx0).
    apply ren_range; auto.
  - destruct d; [congruence|discriminate].
Qed.

Lemma sub_ren V s hi lo : sub hi lo -> sub (map (ren_entry V s) hi) (map (ren_entry V s) lo).
Proof.
  intros H e He. apply in_map_iff in He as (e0 & <- & He0). cbn [ren_entry fst].
  rewrite tl_map, map_map. cbn [ren_entry fst]. rewrite <- (map_map fst (map (ren V s))).
  apply in_map. apply H. exact He0.
Qed.

Lemma asc_ren V s : 0 <= V -> forall l m, asc (tok_ok V s) m l ->
  asc (in_range (V + shiftz V s)) m (map (fun d => map (ren_entry V s) d) l).
Proof.
  intros HV. induction l as [|a r IH]; intros m H; [exact I|]. cbn [map asc] in *.
  destruct H as (Hp & Hadj & Hr). split; [apply level_pre_ren; assumption|]. split; [|apply IH; exact Hr].
  destruct r as [|h r']; [exact I|]. cbn [map]. apply sub_ren. exact Hadj.
Qed.

(* the caller's dictionaries: order i+1 at index i, no key listed twice *)
Definition dicts_wf (V s : Z) (dicts : list dict) : Prop :=
  forall i d, nth_error dicts i = Some d -> level_pre0 (tok_ok V s) (S i) d.

Lemma desc0_of_nth T : forall l, (forall i d, nth_error (rev l) i = Some d -> level_pre0 T (S i) d) ->
  desc0 T (length l) l.
Proof.
  induction l as [|a r IH]; intros H; [exact I|]. cbn [length desc0 pred]. cbn [rev] in H. split.
  - apply H. rewrite nth_error_app2 by (rewrite rev_length; lia). rewrite rev_length, Nat.sub_diag. reflexivity.
  - apply IH. intros i d Hi. apply H. rewrite nth_error_app1; [exact Hi|].
    apply nth_error_Some. rewrite Hi. discriminate.
Qed.

Section Closed.
  Variables (V s : Z) (dicts : list dict) (top : dict) (lower : list dict).
  Hypothesis HV : 0 <= V.
  Hypothesis Hrev : rev dicts = top :: lower.
  Hypothesis Hwf : dicts_wf V s dicts.
  Hypothesis Htop : top <> [].

  Lemma dicts_eq : dicts = rev lower ++ [top].
  Proof. rewrite <- (rev_involutive dicts), Hrev. reflexivity. Qed.

  Lemma top_pre : level_pre (tok_ok V s) (S (length lower)) top.
  Proof.
    split; [|exact Htop]. apply Hwf. rewrite dicts_eq.
    rewrite nth_error_app2 by (rewrite rev_length; lia). rewrite rev_length, Nat.sub_diag. reflexivity.
  Qed.

  Lemma lower_pre : desc0 (tok_ok V s) (length lower) lower.
  Proof.
    apply desc0_of_nth. intros i d Hi. apply Hwf. rewrite dicts_eq. rewrite nth_error_app1; [exact Hi|].
    apply nth_error_Some. rewrite Hi. discriminate.
  Qed.

  Lemma closed0_spec :
    exists uni higher, closed0 V s top lower = uni :: higher /\
      asc (tok_ok V s) 1 (uni :: higher) /\ Forall2 ext_of dicts (uni :: higher) /\
      (forall x, In x (uni_toks V s) -> In [x] (map fst uni)) /\
      (forall e, In e uni -> exists x, fst e = [x] /\ In x (uni_toks V s)).
  Proof.
    destruct (close_down_spec (tok_ok V s) lower top top_pre lower_pre) as [Hdesc Hf2].
    pose proof (close_down_length lower top) as Hlen.
    rewrite <- Hlen in Hdesc. apply desc_asc in Hdesc.
    apply Forall2_rev in Hf2. rewrite <- Hrev, rev_involutive in Hf2.
    unfold closed0. destruct (rev (close_down top lower)) as [|uni higher] eqn:Er.
    { apply (f_equal (@length dict)) in Er. rewrite rev_length, Hlen in Er. discriminate. }
    set (ks := map (fun x => [x]) (uni_toks V s)).
    destruct (add_missing_spec ks uni) as (extra & E & Hn & Hk & Hc & Hd).
    exists (add_missing uni ks), higher. split; [reflexivity|].
    cbn [asc] in Hdesc. destruct Hdesc as ([[Hnd Hkeys] Hne] & Hadj & Hrest).
    assert (Hkeys' : forall e, In e (add_missing uni ks) -> exists x, fst e = [x] /\ In x (uni_toks V s)).
    { intros e He. rewrite E in He. apply in_app_or in He as [He|He].
      - destruct (Hkeys e He) as [Hl Ht]. destruct (fst e) as [|x [|y t]] eqn:Ek; cbn [length] in Hl; try lia.
        exists x. split; [reflexivity|]. inversion Ht as [|? ? Hx _]; subst.
        unfold uni_toks. apply in_or_app. unfold tok_ok in Hx. destruct (shiftb V s) eqn:Es; unfold shiftb in Es.
        + destruct (Z.eq_dec x s) as [->|Hxs]; [right; left; reflexivity|left].
          unfold zrange. apply in_map_iff. exists (Z.to_nat x). split; [lia|apply in_seq; lia].
        + left. unfold zrange. apply in_map_iff. exists (Z.to_nat x). split; [lia|apply in_seq; lia].
      - specialize (Hk e He). unfold ks in Hk. apply in_map_iff in Hk as (x & <- & Hx). eauto. }
    split; [|split; [|split]].
    - cbn [asc]. split; [split; [split|]|split].
      + rewrite E. apply Hd. exact Hnd.
      + intros e He. destruct (Hkeys' e He) as (x & Ex & Hx). rewrite Ex. split; [reflexivity|].
        constructor; [|constructor]. unfold uni_toks in Hx. apply in_app_or in Hx as [Hx|Hx].
        * left. unfold zrange in Hx. apply in_map_iff in Hx as (k & <- & Hk'). apply in_seq in Hk'. lia.
        * destruct (shiftb V s); [|destruct Hx]. destruct Hx as [<-|[]]. right. reflexivity.
      + rewrite E. destruct uni; [congruence|discriminate].
      + destruct higher as [|h r]; [exact I|]. intros e He. rewrite E, map_app. apply in_or_app. left.
        apply Hadj. exact He.
      + exact Hrest.
    - inversion Hf2 as [|d1 u dr hr Hdu Hrest2]; subst. constructor; [|exact Hrest2].
      apply (ext_of_trans _ uni); [exact Hdu|]. exists extra. split; [exact E|exact Hn].
    - intros x Hx. rewrite E. apply Hc. unfold ks. apply in_map_iff. exists x. auto.
    - exact Hkeys'.
  Qed.
End Closed.
