(* C15 — TrainingStateController (src/pydrobert/torch/training.py): update_cache,
   add_entry (type table only), get_last_epoch, get_info, save_info_to_hist,
   continue_training, update_for_epoch (control part), and the documented restart
   protocol "new controller + add_entry... + load_model_and_optimizer_for_epoch".

   Executable model of what the code does.  No proofs in this file.

   Numbers.  Metrics and thresholds are integers in one common dyadic unit (the
   harness uses 1/8); the dummy epoch 0 has metric +inf = [None].  Learning rates are
   exact rationals kept in reduced form ([Qred]) so that equal rates are Leibniz-equal.
   [rnd : Q -> Q] is what writing a rate to the history file does and [rd : Q -> Q] what
   reading the cell back does: the code as it is has [rnd = fmt5] ("{:.4e}": 5 significant
   decimal digits, half-even on the exact value) and [rd = b64] (float(cell): nearest
   binary64); a repaired controller would have [rnd = Qred] (print enough digits).
   The history is positional: cache_hist is a dict keyed by epoch, and every run the
   model describes has keys 0..n, so epoch e is the e-th element of the list. *)
From Coq Require Import List ZArith QArith Qabs Bool String Ascii DecimalString DecimalZ Decimal.
Import ListNotations.
Local Open Scope Z_scope.

(* ---------- parameters (TrainingStateParams) ----------------------------------- *)
Record params := mkParams
  { p_num : option Z;          (* num_epochs *)
    p_lr0 : option Q;          (* 10 ** log10_learning_rate, when set *)
    es_thr : Z; es_pat : Z; es_burn : Z;
    rlr_thr : Z; rlr_fac : Q; rlr_pat : Z; rlr_cool : Z;
    rlr_eps : Q;               (* 10 ** reduce_lr_log10_epsilon *)
    rlr_burn : Z }.

(* ---------- user entries (add_entry) --------------------------------------------- *)
Inductive ukind := KInt | KStr.
Inductive uval := VInt (z : Z) | VStr (s : string).

Definition kind_of (v : uval) : ukind := match v with VInt _ => KInt | VStr _ => KStr end.
Definition ukind_eqb (a b : ukind) : bool :=
  match a, b with KInt, KInt => true | KStr, KStr => true | _, _ => false end.

(* fmt.format(value) with fmt = "{}" *)
Definition print_uval (v : uval) : string :=
  match v with VInt z => NilZero.string_of_int (Z.to_int z) | VStr s => s end.
(* typ(cell): int(cell) / str(cell); None = ValueError *)
Definition parse_cell (k : ukind) (s : string) : option uval :=
  match k with
  | KStr => Some (VStr s)
  | KInt => match NilZero.int_of_string s with Some d => Some (VInt (Z.of_int d)) | None => None end
  end.

(* ---------- history rows ------------------------------------------------------------ *)
Record row := mkRow
  { r_epoch : Z; r_esres : Z; r_espcd : Z; r_rlrres : Z; r_rlrpcd : Z;
    r_lr : option Q; r_train : option Z; r_val : option Z;
    r_user : list (nat * uval) }.

(* a line of the csv file: rate as printed, user cells as strings in declaration order *)
Record crow := mkCrow
  { c_epoch : Z; c_esres : Z; c_espcd : Z; c_rlrres : Z; c_rlrpcd : Z;
    c_lr : Q; c_train : Z; c_val : Z; c_user : list string }.

Record state := mkState
  { cache : list row;            (* cache_hist, epoch 0 first *)
    csv : list crow;             (* the state csv, oldest line first *)
    opt : Q;                     (* optimizer.param_groups[*]['lr'] *)
    ckpt : list (Z * Q) }.       (* state_dir: epoch |-> rate inside the saved optimizer *)

Inductive err := ETypeError | EValueError | ENoFile.

(* ---------- "{:.4e}" on an exact positive rational ------------------------------------ *)
(* bring n/d into [10^4, 10^5): k counts the decimal shift *)
Fixpoint norm_up (fuel : nat) (n d k : Z) : Z * Z * Z :=
  match fuel with
  | O => (n, d, k)
  | S f => if n <? 10000 * d then norm_up f (10 * n) d (k + 1) else (n, d, k)
  end.
Fixpoint norm_down (fuel : nat) (n d k : Z) : Z * Z * Z :=
  match fuel with
  | O => (n, d, k)
  | S f => if 100000 * d <=? n then norm_down f n (10 * d) (k - 1) else (n, d, k)
  end.
(* round n/d (n, d > 0) to the nearest integer, ties to even *)
Definition round_half_even (n d : Z) : Z :=
  let q := n / d in let r := n mod d in
  if 2 * r <? d then q
  else if d <? 2 * r then q + 1
  else if Z.even q then q else q + 1.
Definition pow10 (k : Z) : Z := Z.pow 10 k.
Definition fmt5_pos (n d : Z) : Q :=
  let fuel := Z.to_nat (Z.log2 n + Z.log2 d + 24) in
  let '(n1, d1, k1) := norm_up fuel n d 0 in
  let '(n2, d2, k2) := norm_down fuel n1 d1 k1 in
  let m := round_half_even n2 d2 in
  if 0 <=? k2 then Qred (Qmake m (Z.to_pos (pow10 k2)))
  else Qred (Qmake (m * pow10 (- k2)) 1).
Definition fmt5 (q : Q) : Q :=
  match Qnum q with
  | Z0 => 0%Q
  | Zpos n => fmt5_pos (Zpos n) (Zpos (Qden q))
  | Zneg n => Qred (Qopp (fmt5_pos (Zpos n) (Zpos (Qden q))))
  end.

(* float(cell): the binary64 nearest to an exact positive rational (53 significant bits,
   ties to even; no overflow/subnormal handling - rates are in the normal range) *)
Fixpoint bin_up (fuel : nat) (n d k : Z) : Z * Z * Z :=
  match fuel with
  | O => (n, d, k)
  | S f => if n <? 4503599627370496 * d then bin_up f (2 * n) d (k + 1) else (n, d, k)
  end.
Fixpoint bin_down (fuel : nat) (n d k : Z) : Z * Z * Z :=
  match fuel with
  | O => (n, d, k)
  | S f => if 9007199254740992 * d <=? n then bin_down f n (2 * d) (k - 1) else (n, d, k)
  end.
Definition b64_pos (n d : Z) : Q :=
  let fuel := Z.to_nat (Z.log2 n + Z.log2 d + 64) in
  let '(n1, d1, k1) := bin_up fuel n d 0 in
  let '(n2, d2, k2) := bin_down fuel n1 d1 k1 in
  let m := round_half_even n2 d2 in
  if 0 <=? k2 then Qred (Qmake m (Z.to_pos (Z.pow 2 k2)))
  else Qred (Qmake (m * Z.pow 2 (- k2)) 1).
Definition b64 (q : Q) : Q :=
  match Qnum q with
  | Z0 => 0%Q
  | Zpos n => b64_pos (Zpos n) (Zpos (Qden q))
  | Zneg n => Qred (Qopp (b64_pos (Zpos n) (Zpos (Qden q))))
  end.

(* ---------- update_cache / restart ------------------------------------------------------ *)
Definition row0 (p : params) : row :=
  mkRow 0 (es_burn p) (es_pat p) (rlr_burn p) (rlr_pat p) (p_lr0 p) None None [].

(* cache_hist.get(epoch): None for a missing key *)
Definition hget (c : list row) (e : Z) : option row :=
  if e <? 0 then None else nth_error c (Z.to_nat e).

(* get_last_epoch = max(cache_hist) *)
Definition last_epoch (c : list row) : Z := Z.of_nat (List.length c) - 1.

Fixpoint parse_cells (decl : list (nat * ukind)) (cells : list string) : option (list (nat * uval)) :=
  match decl with
  | [] => Some []
  | (name, k) :: dt =>
      match cells with
      | [] => None
      | s :: ct =>
          match parse_cell k s, parse_cells dt ct with
          | Some v, Some rest => Some ((name, v) :: rest)
          | _, _ => None
          end
      end
  end.

Definition parse_row (rd : Q -> Q) (decl : list (nat * ukind)) (c : crow) : option row :=
  match parse_cells decl (c_user c) with
  | Some u => Some (mkRow (c_epoch c) (c_esres c) (c_espcd c) (c_rlrres c) (c_rlrpcd c)
                          (Some (rd (c_lr c))) (Some (c_train c)) (Some (c_val c)) u)
  | None => None
  end.

Fixpoint parse_rows (rd : Q -> Q) (decl : list (nat * ukind)) (l : list crow) : option (list row) :=
  match l with
  | [] => Some []
  | c :: t => match parse_row rd decl c, parse_rows rd decl t with
              | Some r, Some rs => Some (r :: rs)
              | _, _ => None
              end
  end.

Definition init_opt (p : params) (dflt : Q) : Q :=
  match p_lr0 p with Some l => l | None => dflt end.

Definition init_state (p : params) (dflt : Q) : state :=
  mkState [row0 p] [] (init_opt p dflt) [].

Fixpoint lookup (k : Z) (l : list (Z * Q)) : option Q :=
  match l with
  | [] => None
  | (k', v) :: t => if k =? k' then Some v else lookup k t
  end.

(* A new controller on the same csv and state directory, entries re-declared, then
   load_model_and_optimizer_for_epoch(model, fresh optimizer with rate dflt). *)
Definition restart (rd : Q -> Q) (p : params) (decl : list (nat * ukind)) (dflt : Q) (st : state)
  : err + state :=
  match parse_rows rd decl (csv st) with
  | None => inl EValueError
  | Some rs =>
      let c := row0 p :: rs in
      let e := last_epoch c in
      if e =? 0 then inr (mkState c (csv st) (init_opt p dflt) (ckpt st))
      else match lookup e (ckpt st) with
           | None => inl ENoFile
           | Some l => inr (mkState c (csv st) l (ckpt st))
           end
  end.

(* ---------- update_for_epoch ---------------------------------------------------------------- *)
(* max(ref - val, 0) < thr, ref = +inf for the dummy epoch *)
Definition below (ref : option Z) (val thr : Z) : bool :=
  match ref with None => false | Some r => Z.max (r - val) 0 <? thr end.

Definition nonzero (z : Z) : bool := negb (z =? 0).

(* early stopping countdowns: Some (resume_cd, patience_cd); None = TypeError on a missing
   reference row (None["val_met"]) *)
Definition es_step (p : params) (c : list row) (prev : row) (epoch val : Z) : option (Z * Z) :=
  let es_info := hget c (epoch - es_pat p + r_espcd prev - 1) in
  if nonzero (r_esres prev) then Some (r_esres prev - 1, r_espcd prev)
  else match es_info with
       | None => None
       | Some ei =>
           if below (r_val ei) val (es_thr p)
           then let cd := r_espcd prev - 1 in Some (r_esres prev, if cd <? 0 then 0 else cd)
           else Some (r_esres prev, es_pat p)
       end.

Definition Qlt_b (a b : Q) : bool := negb (Qle_bool b a).

(* learning-rate countdowns: Some (resume_cd, patience_cd, lr, optimizer lr) *)
Definition rlr_step (p : params) (c : list row) (prev : row) (epoch val : Z) (lr o : Q)
  : option (Z * Z * Q * Q) :=
  let rlr_info := hget c (epoch - rlr_pat p + r_rlrpcd prev - 1) in
  if nonzero (r_rlrres prev) then Some (r_rlrres prev - 1, r_rlrpcd prev, lr, o)
  else match rlr_info with
       | None => None
       | Some ri =>
           if below (r_val ri) val (rlr_thr p)
           then let cd := r_rlrpcd prev - 1 in
                if nonzero cd then Some (r_rlrres prev, cd, lr, o)
                else let new_lr := Qred (lr * rlr_fac p) in
                     if Qlt_b (rlr_eps p) (lr - new_lr)
                     then Some (rlr_cool p, rlr_pat p, new_lr, new_lr)
                     else Some (rlr_cool p, rlr_pat p, lr, o)
           else Some (r_rlrres prev, rlr_pat p, lr, o)
       end.

Fixpoint declared (decl : list (nat * ukind)) (name : nat) : option ukind :=
  match decl with
  | [] => None
  | (n, k) :: t => if Nat.eqb n name then Some k else declared t name
  end.

(* the loop over kwargs.items(): first offending key decides the exception *)
Fixpoint check_kwargs (decl : list (nat * ukind)) (kw : list (nat * uval)) : option err :=
  match kw with
  | [] => None
  | (n, v) :: t =>
      match declared decl n with
      | None => Some ETypeError
      | Some k => if ukind_eqb k (kind_of v) then check_kwargs decl t else Some EValueError
      end
  end.

Fixpoint kw_get (kw : list (nat * uval)) (name : nat) : option uval :=
  match kw with
  | [] => None
  | (n, v) :: t => if Nat.eqb n name then Some v else kw_get t name
  end.

(* values in declaration order; None = some declared entry was not given (TypeError) *)
Fixpoint collect (decl : list (nat * ukind)) (kw : list (nat * uval)) : option (list (nat * uval)) :=
  match decl with
  | [] => Some []
  | (n, _) :: t => match kw_get kw n, collect t kw with
                   | Some v, Some rest => Some ((n, v) :: rest)
                   | _, _ => None
                   end
  end.

Definition update (rnd : Q -> Q) (p : params) (decl : list (nat * ukind)) (dflt : Q)
  (st : state) (train val : Z) (kw : list (nat * uval)) : err + (bool * state) :=
  let c := cache st in
  let epoch := last_epoch c + 1 in
  let cont0 := match p_num p with None => true | Some n => epoch <? n end in
  match hget c (epoch - 1) with
  | None => inl ETypeError
  | Some prev =>
      match check_kwargs decl kw with
      | Some e => inl e
      | None =>
          match collect decl kw with
          | None => inl ETypeError
          | Some user =>
              let lr := match r_lr prev with Some l => l | None => dflt end in
              match es_step p c prev epoch val with
              | None => inl ETypeError
              | Some (esres, espcd) =>
                  let cont := if nonzero (es_thr p) && negb (nonzero espcd) then false else cont0 in
                  match rlr_step p c prev epoch val lr (opt st) with
                  | None => inl ETypeError
                  | Some (rres, rpcd, lr', o') =>
                      let info := mkRow epoch esres espcd rres rpcd (Some lr') (Some train) (Some val) user in
                      let line := mkCrow epoch esres espcd rres rpcd (rnd lr') train val
                                         (map (fun nv => print_uval (snd nv)) user) in
                      inr (cont, mkState (c ++ [info]) (csv st ++ [line]) o' ((epoch, o') :: ckpt st))
                  end
              end
          end
      end
  end.

(* continue_training() for the last epoch *)
Definition continue_training (p : params) (st : state) : bool :=
  let e := last_epoch (cache st) in
  match hget (cache st) e with
  | None => false
  | Some info =>
      let cont := match p_num p with None => true | Some n => e <? n end in
      if nonzero (es_thr p) && negb (nonzero (r_espcd info)) then false else cont
  end.

(* ---------- runs ------------------------------------------------------------------------------------- *)
(* one epoch of input: restart before it?, train metric, val metric, kwargs *)
Record step_in := mkStep { s_restart : bool; s_train : Z; s_val : Z; s_kw : list (nat * uval) }.

(* what is observable after the call *)
Inductive obs :=
| OOk (cont : bool) (ct : bool) (o : Q) (info : row)   (* return value, continue_training(), optimizer, self[epoch] *)
| OErr (e : err).

(* an exception in update_for_epoch or during the restart leaves files, cache and optimizer
   as they were (every raise precedes the first mutation) *)
Fixpoint run (rnd rd : Q -> Q) (p : params) (decl : list (nat * ukind)) (dflt : Q)
  (st : state) (steps : list step_in) : list obs * state :=
  match steps with
  | [] => ([], st)
  | s :: t =>
      let st1 := if s_restart s then restart rd p decl dflt st else inr st in
      match st1 with
      | inl e => let '(os, stf) := run rnd rd p decl dflt st t in (OErr e :: os, stf)
      | inr st1 =>
          match update rnd p decl dflt st1 (s_train s) (s_val s) (s_kw s) with
          | inl e => let '(os, stf) := run rnd rd p decl dflt st1 t in (OErr e :: os, stf)
          | inr (cont, st2) =>
              let info := match hget (cache st2) (last_epoch (cache st2)) with
                          | Some r => r | None => row0 p end in
              let '(os, stf) := run rnd rd p decl dflt st2 t in
              (OOk cont (continue_training p st2) (opt st2) info :: os, stf)
          end
      end
  end.

(* ---------- boolean equalities for the correspondence ---------------------------------------------- *)
Definition oeqb {A} (f : A -> A -> bool) (a b : option A) : bool :=
  match a, b with Some x, Some y => f x y | None, None => true | _, _ => false end.
Fixpoint leqb {A} (f : A -> A -> bool) (a b : list A) : bool :=
  match a, b with
  | [], [] => true
  | x :: s, y :: t => f x y && leqb f s t
  | _, _ => false
  end.
Definition uval_eqb (a b : uval) : bool :=
  match a, b with
  | VInt x, VInt y => x =? y
  | VStr x, VStr y => String.eqb x y
  | _, _ => false
  end.
(* |a - b| <= tol * |b|; tol = 0 is equality *)
Definition Qclose (tol a b : Q) : bool := Qle_bool (Qabs (a - b)) (tol * Qabs b).
Definition user_eqb (a b : list (nat * uval)) : bool :=
  leqb (fun x y => Nat.eqb (fst x) (fst y) && uval_eqb (snd x) (snd y)) a b.
Definition row_eqb (tol : Q) (a b : row) : bool :=
  (r_epoch a =? r_epoch b) && (r_esres a =? r_esres b) && (r_espcd a =? r_espcd b) &&
  (r_rlrres a =? r_rlrres b) && (r_rlrpcd a =? r_rlrpcd b) && oeqb (Qclose tol) (r_lr a) (r_lr b) &&
  oeqb Z.eqb (r_train a) (r_train b) && oeqb Z.eqb (r_val a) (r_val b) && user_eqb (r_user a) (r_user b).
Definition crow_eqb (tol : Q) (a b : crow) : bool :=
  (c_epoch a =? c_epoch b) && (c_esres a =? c_esres b) && (c_espcd a =? c_espcd b) &&
  (c_rlrres a =? c_rlrres b) && (c_rlrpcd a =? c_rlrpcd b) && Qclose tol (c_lr a) (c_lr b) &&
  (c_train a =? c_train b) && (c_val a =? c_val b) && leqb String.eqb (c_user a) (c_user b).
Definition err_eqb (a b : err) : bool :=
  match a, b with
  | ETypeError, ETypeError => true | EValueError, EValueError => true | ENoFile, ENoFile => true
  | _, _ => false
  end.
Definition obs_eqb (tol : Q) (a b : obs) : bool :=
  match a, b with
  | OOk c1 t1 o1 i1, OOk c2 t2 o2 i2 => Bool.eqb c1 c2 && Bool.eqb t1 t2 && Qclose tol o1 o2 && row_eqb tol i1 i2
  | OErr e1, OErr e2 => err_eqb e1 e2
  | _, _ => false
  end.

(* correspondence entry point: the implementation's per-epoch observations, its final cache
   (get_info for every epoch) and the parsed final csv against the model *)
Definition check (tol : Q) (rnd rd : Q -> Q) (p : params) (decl : list (nat * ukind)) (dflt : Q)
  (steps : list step_in) (impl_obs : list obs) (impl_cache : list row) (impl_csv : list crow) : bool :=
  let '(os, stf) := run rnd rd p decl dflt (init_state p dflt) steps in
  leqb (obs_eqb tol) os impl_obs && leqb (row_eqb tol) (cache stf) impl_cache && leqb (crow_eqb tol) (csv stf) impl_csv.

(* the rates an uninterrupted run reaches are all unchanged by the print rounding *)
Definition all_rates_fixed (rnd rd : Q -> Q) (p : params) (decl : list (nat * ukind)) (dflt : Q)
  (steps : list step_in) : bool :=
  let '(_, stf) := run rnd rd p decl dflt (init_state p dflt) steps in
  forallb (fun r => match r_lr r with Some l => Qeq_bool (rd (rnd l)) l | None => true end) (cache stf).
