"""C06 second source tie, harness side: the translated Python text of `LookupLanguageModel.calc_full_log_probs_chunked`
and `LookupLanguageModel.calc_full_log_probs` (unit C06BSrc), interpreted inside Coq (PV.C06.SrcRunB.src_chunked_check /
src_full_check; the inner `self.calc_idx_log_probs` calls interpret the FIRST tie's translated terms) on the all-positions /
chunked queries of this run's small tables, on the implementation's ACTUAL buffers, against what torch returned.
Validates translator + MiniPy.Interp + ext06B + MiniTorch.OpsC06/OpsC06B (as_strided, iteration over a tensor, tensor-valued
slice bound, three-argument range, cat) against CPython/torch on every run; independent of whether the tie lemmas
(coq/theories/C06/TieB*.v) still compile."""
import time

from vlib import cl, cn, coq_eval_bools

SRCB_THEOREMS = ["c06_source_vector_lookup_is_model", "c06_source_vector_lookup_is_katz", "c06_source_chunked_is_model",
                 "c06_source_chunk_size_independent", "c06_source_chunked_rows_are_lookups", "c06_source_chunked_is_katz",
                 "c06_source_chunked_check_is_check"]
SRCB_MAX_V, SRCB_MAX_NODES = 16, 400
SRCB_MAX_CELLS = 120      # (T + 1) * B positions x batch elements per query (each is one two-path descent per candidate)
SRCB_SAMPLE = 260


def _term(c06, q, out):
    h, B = c06.c_hist(q["hist"]), cn(q["B"])
    if q.get("chunk") is not None:
        impl = "None" if isinstance(out, str) else "(Some " + cl([c06.c_rows(m) for m in out]) + ")"
        return f"SrcRunB.src_chunked_check b sh {h} {B} {cn(q['chunk'])} {impl}"
    impl = "None" if isinstance(out, str) else "(Some (Full " + cl([c06.c_rows(m) for m in out]) + "))"
    return f"SrcRunB.src_full_check b sh {h} {B} {impl}"


def source_tieB(chk, cases, results):
    from vlib import CoqError
    from props import c06
    imports = c06.IMPORTS + "From PV Require C06.SrcRunB.\n"
    chk.extra["source_tie_B"] = {
        "unit": "C06BSrc (harness/py2coq/units/C06BSrc.json)", "coq": "PV.C06.SrcRunB / PV.C06.TieB*",
        "what": "calc_full_log_probs_chunked, calc_full_log_probs (whole bodies), calling the translated "
                "calc_idx_log_probs / _lookup_calc_idx_log_probs of unit C06Src; + theorems for the vector-index path",
        "theorems": SRCB_THEOREMS}
    terms, owners = [], []
    for ci, ((case, _), res) in enumerate(zip(cases, results)):
        if case.get("kind") != "lm" or res.get("build") != "ok":
            continue
        b = res["bufs"]
        if case["V"] > SRCB_MAX_V or len(b["logps"]) > SRCB_MAX_NODES:
            continue
        try:
            pre = c06.prelude(case, b)
        except ValueError:
            continue
        for qi, (q, o) in enumerate(zip(case["queries"], res["outs"])):
            if not (q.get("chunk") is not None or q["idx"] is None):
                continue
            if q.get("chunk") is not None and q["chunk"] < 0:
                continue
            if not isinstance(o, str) and not c06.representable(o):
                continue
            if o == "exc:history-modified-in-place":
                continue
            if (len(q["hist"]) + 1) * q["B"] > SRCB_MAX_CELLS:
                continue
            terms.append("(" + pre + _term(c06, q, o) + ")")
            owners.append((ci, qi))
    if len(terms) > SRCB_SAMPLE:      # evenly spaced over the streams
        step = len(terms) / SRCB_SAMPLE
        keep = [int(j * step) for j in range(SRCB_SAMPLE)]
        terms, owners = [terms[j] for j in keep], [owners[j] for j in keep]
    if not terms:
        chk.extra["source_tie_B_run"] = {"cases": 0, "disagreements": 0}
        return
    t0 = time.time()
    try:
        flags = coq_eval_bools(chk.workdir, imports, terms, shard=20, tag="srclmB")
    except CoqError as e:
        chk.extra["source_tie_B_run"] = "not evaluated: " + str(e)[-400:]
        return
    bad = [owners[j] for j, ok in enumerate(flags) if not ok]
    qs = [cases[ci][0]["queries"][qi] for ci, qi in owners]
    outs = [results[ci]["outs"][qi] for ci, qi in owners]
    chk.extra["source_tie_B_run"] = {
        "cases": len(terms), "disagreements": len(bad), "wall_s": round(time.time() - t0, 1),
        "chunked": sum(1 for q in qs if q.get("chunk") is not None),
        "all_positions": sum(1 for q in qs if q.get("chunk") is None),
        "chunk_sizes": sorted({q["chunk"] for q in qs if q.get("chunk") is not None}),
        "raising": sum(1 for o in outs if isinstance(o, str)),
        "empty_history": sum(1 for q in qs if len(q["hist"]) == 0),
        "history_shorter_than_order": sum(1 for (ci, _), q in zip(owners, qs) if len(q["hist"]) < len(cases[ci][0]["dicts"]) - 1),
        "order1": sum(1 for ci, _ in owners if len(cases[ci][0]["dicts"]) == 1),
        "sos_out_of_vocab": sum(1 for ci, _ in owners if not 0 <= cases[ci][0]["sos"] < cases[ci][0]["V"]),
        "max_T": max(len(q["hist"]) for q in qs), "max_B": max(q["B"] for q in qs)}
    chk.count("source_tie_B_cases", len(terms))
    if bad:
        ci, qi = bad[0]
        chk.report({"case": dict(cases[ci][0], queries=[cases[ci][0]["queries"][qi]]), "impl": results[ci]["outs"][qi],
                    "what": "the Python source of calc_full_log_probs_chunked / calc_full_log_probs as translated to MiniPy and "
                            "interpreted in Coq (PV.C06.SrcRunB.src_chunked_check / src_full_check, torch calls = "
                            "PV.MiniTorch.OpsC06 + OpsC06B) does not reproduce the implementation's output on its actual "
                            "buffers: translator / interpreter / ext06B / MiniTorch no longer describe the code",
                    "disagreeing_cases": len(bad),
                    "correspondence": "tie:C06:py2coq+MiniPy.Interp+MiniTorch:calc_full_log_probs_chunked",
                    "theorems_at_stake": SRCB_THEOREMS}, no_failing_input=True)
