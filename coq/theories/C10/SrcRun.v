(* C10 — the translated source of `chunk_token_sequences_by_slices` as an executable: the environment
   [ext10], the encoding of the model's inputs as MiniPy values, and the correspondence entry point
   [src_chunk_tokens_check].  Definitions only; the lemmas are in Tie.v.

   PV.Gen.C10Src.chunk_tokens_body is regenerated from /repo/src/pydrobert/torch/_feats.py on every run
   by harness/py2coq/translate.py (the body of the function; the decorators `@script` and
   `@functional_wrapper(...)` are outside it: TorchScript compilation is NOT modelled, the tie is about
   the Python text as eager CPython runs it).

   [ext10] gives the torch calls of that body the meaning defined in PV.MiniTorch.OpsC10 (integer and
   boolean tensors, unbounded integers, <= 3 dimensions where broadcasting is involved).  What arrives
   here (see MiniPy.Interp):
     x.ndim, x.shape, x.device                       "$attr.<name>"   (shape: a tuple of ints; device: an opaque token)
     x.size(k), x.new_empty(s), x.new_zeros(s), x.unsqueeze(k), x.all(k), x.long(), x.sum(k),
     x.expand_as(y), x.expand( *s ), x.view( *s ), x.masked_scatter_(m, src)
                                                     "$method.<name>" with the tensor as first argument
     a < b, a <= b, a > b, a >= b                    "compare" ["lt"|"le"|"gt"|"ge"; a; b]   (b may be a Python int)
     a & b, a + b (also from `+=`), a - b            "operator" ["and"|"add"|"sub"; a; b]
     x[..., c], x[..., a:b], x[mask]                 "$getitem" [x; key]
     x[..., a:b] = v  (second half of `+=`)          "$setitem" [x; key; v] -> the updated tensor
     torch.arange(n, device=), torch.ones(s, device=, dtype=torch.bool)
   Keyword arguments: only those two calls accept any: device= must be the token `refs.device` returned,
   dtype= must be `torch.bool` (the global `torch` is the object {bool: "$dtype.bool"} in the initial
   variables); device is ignored.  `masked_scatter_` is used as an expression on a fresh temporary
   (`refs.new_empty(..).masked_scatter_(..)`): returning the updated tensor IS Python's meaning there;
   `chunked[..., 1:] += v` is getitem, add, setitem - the same final content as the in-place add on the
   view.  No tensor reachable from an argument is written.  Everything else is Stuck. *)
From Coq Require Import ZArith List String Bool.
From PV Require Import MiniPy.Syntax MiniPy.Interp MiniTorch.Ops MiniTorch.Value MiniTorch.OpsC10 MiniTorch.ValueC10
  Gen.C10Src.
From PV Require C10.Model.
Import ListNotations.
Local Open Scope string_scope.

Definition device_token : val := VStr "$device".
Definition bool_dtype_token : val := VStr "$dtype.bool".
Definition torch_module : val := VDict [(VStr "bool", bool_dtype_token)].

Definition kw_device_ok (kv : string * val) : bool := is (fst kv) "device" && val_eqb (snd kv) device_token.
Definition kw_bool_ok (kv : string * val) : bool := is (fst kv) "dtype" && val_eqb (snd kv) bool_dtype_token.

Definition arange_kw_ok (kw : list (string * val)) : bool := forallb kw_device_ok kw.
(* torch.ones without dtype=torch.bool would be a float tensor: not modelled *)
Definition ones_kw_ok (kw : list (string * val)) : bool :=
  forallb (fun kv => kw_device_ok kv || kw_bool_ok kv) kw && existsb kw_bool_ok kw.

Definition no_kw (kw : list (string * val)) : bool := match kw with [] => true | _ => false end.

Definition cmp_of_name (o : string) : option cmpk :=
  if is o "lt" then Some KLt else if is o "le" then Some KLe
  else if is o "gt" then Some KGt else if is o "ge" then Some KGe else None.

Definition ext10 (f : string) (args : list val) (kw : list (string * val)) (st : state) : outcome val :=
  if is f "torch.arange" then
    match args with
    | [VInt n] => if arange_kw_ok kw then ret10 "arange" (arange n) st else Stuck "arange: keyword"
    | _ => Stuck "arange"
    end
  else if is f "torch.ones" then
    match args with
    | [s] => if ones_kw_ok kw then ret10 "ones" (option_map ones_bool (dec_sizes s)) st else Stuck "ones: keyword"
    | _ => Stuck "ones"
    end
  else if negb (no_kw kw) then Stuck ("ext10: keyword arguments of " ++ f)
  else if is f "$attr.ndim" then
    match args with
    | [t] => match dec10 t with Some x => Ok (VInt (Z.of_nat (ndim x))) st | None => Stuck "ndim" end
    | _ => Stuck "ndim"
    end
  else if is f "$attr.shape" then
    match args with
    | [t] => match dec10 t with Some x => Ok (VTuple (enc_shape (ishape x))) st | None => Stuck "shape" end
    | _ => Stuck "shape"
    end
  else if is f "$attr.device" then
    match args with
    | [t] => match dec10 t with Some _ => Ok device_token st | None => Stuck "device" end
    | _ => Stuck "device"
    end
  else if is f "$method.size" then
    match args with
    | [t; VInt d] => match dec10 t with Some x => ret_nat "size" (size x d) st | None => Stuck "size" end
    | _ => Stuck "size"
    end
  else if is f "$method.new_empty" then
    match args with
    | [t; s] => on1 "new_empty" t (fun _ => option_map new_empty (dec_sizes s)) st
    | _ => Stuck "new_empty"
    end
  else if is f "$method.new_zeros" then
    match args with
    | [t; s] => on1 "new_zeros" t (fun _ => option_map new_zeros (dec_sizes s)) st
    | _ => Stuck "new_zeros"
    end
  else if is f "$method.unsqueeze" then
    match args with
    | [t; VInt d] => on1 "unsqueeze" t (fun x => unsqueeze x d) st
    | _ => Stuck "unsqueeze"
    end
  else if is f "compare" then
    match args with
    | [VStr o; a; b] =>
        match cmp_of_name o with
        | Some k => on2 "compare" a b (compare k) st
        | None => Stuck ("compare " ++ o)
        end
    | _ => Stuck "compare"
    end
  else if is f "operator" then
    match args with
    | [VStr o; a; b] =>
        if is o "and" then on2 "and" a b logical_and st
        else if is o "add" then on2 "add" a b add st
        else if is o "sub" then on2 "sub" a b OpsC10.sub st
        else Stuck ("operator " ++ o)
    | _ => Stuck "operator"
    end
  else if is f "$method.all" then
    match args with
    | [t; VInt d] => on1 "all" t (fun x => all_last x d) st
    | _ => Stuck "all"
    end
  else if is f "$method.long" then
    match args with [t] => on1 "long" t (fun x => Some (long x)) st | _ => Stuck "long" end
  else if is f "$method.sum" then
    match args with
    | [t; VInt d] => on1 "sum" t (fun x => sum_last x d) st
    | _ => Stuck "sum"
    end
  else if is f "$getitem" then
    match args with
    | [t; k] =>
        match dec_index k with
        | Some (IxInt c) => on1 "x[..., c]" t (fun x => select_last x c) st
        | Some (IxSlice a b) => on1 "x[..., a:b]" t (fun x => slice_last x a b) st
        | None =>
            match dec10 t, dec10 k with
            | Some x, Some m => ret10 "x[mask]" (masked_select x m) st
            | _, _ => Stuck "getitem"
            end
        end
    | _ => Stuck "getitem"
    end
  else if is f "$setitem" then
    match args with
    | [t; k; v] =>
        match dec_index k, dec10 t, dec10 v with
        | Some (IxSlice a b), Some x, Some y => ret10 "x[..., a:b] = v" (set_slice_last x a b y) st
        | _, _, _ => Stuck "setitem"
        end
    | _ => Stuck "setitem"
    end
  else if is f "$method.expand_as" then
    match args with
    | [t; u] => match dec10 t, dec10 u with
                | Some x, Some y => ret10 "expand_as" (expand x (ishape y)) st
                | _, _ => Stuck "expand_as"
                end
    | _ => Stuck "expand_as"
    end
  else if is f "$method.expand" then
    match args with
    | t :: s => on1 "expand" t (fun x => match dec_nats s with Some sz => expand x sz | None => None end) st
    | _ => Stuck "expand"
    end
  else if is f "$method.view" then
    match args with
    | t :: s => on1 "view" t (fun x => match dec_nats s with Some sz => view x sz | None => None end) st
    | _ => Stuck "view"
    end
  else if is f "$method.masked_scatter_" then
    match args with
    | [t; m; s] => match dec10 t, dec10 m, dec10 s with
                   | Some x, Some mk, Some src => ret10 "masked_scatter_" (masked_scatter x mk src) st
                   | _, _, _ => Stuck "masked_scatter_"
                   end
    | _ => Stuck "masked_scatter_"
    end
  else Stuck ("ext10: " ++ f).

(* ---- encodings ------------------------------------------------------------------------------ *)
Definition tok_cells (x : Z * Z * Z) : list cell :=
  [CInt (Model.tk_tok x); CInt (Model.tk_start x); CInt (Model.tk_end x)].

(* refs: N rows of R triples (tok, start, end) -> the (N, R, 3) tensor *)
Definition refs_tensor (R : nat) (refs : list (list (Z * Z * Z))) : itens :=
  mkIT [List.length refs; R; 3%nat] (flat_map (flat_map tok_cells) refs).
(* slices: N pairs (start, end) -> the (N, 2) tensor *)
Definition slices_tensor (slices : list (Z * Z)) : itens :=
  mkIT [List.length slices; 2%nat] (flat_map (fun w => [CInt (fst w); CInt (snd w)]) slices).
Definition vec_tensor (l : list Z) : itens := mkIT [List.length l] (map CInt l).

Definition opt_tensor (o : option itens) : val := match o with Some t => enc10 t | None => VNone end.

(* the arguments of chunk_token_sequences_by_slices(refs, slices, ref_lens, partial, retain), and the global torch *)
Definition tokens_vars_raw (refs slices : itens) (ref_lens : option itens) (partial retain : bool)
  : list (string * val) :=
  [("refs", enc10 refs); ("slices", enc10 slices); ("ref_lens", opt_tensor ref_lens);
   ("partial", VBool partial); ("retain", VBool retain); ("torch", torch_module)].

Definition tokens_vars (R : nat) (refs : list (list (Z * Z * Z))) (slices : list (Z * Z)) (ref_lens : option (list Z))
  (partial retain : bool) : list (string * val) :=
  tokens_vars_raw (refs_tensor R refs) (slices_tensor slices) (option_map vec_tensor ref_lens) partial retain.

Definition runtime_error : string := "RuntimeError".

(* the interpreted source, on arbitrary tensors / on a model input *)
Definition run_tokens_raw (refs slices : itens) (ref_lens : option itens) (partial retain : bool) : outcome val :=
  Interp.run ext10 chunk_tokens_body (tokens_vars_raw refs slices ref_lens partial retain).

Definition run_tokens (R : nat) refs slices ref_lens (partial retain : bool) : outcome val :=
  Interp.run ext10 chunk_tokens_body (tokens_vars R refs slices ref_lens partial retain).

(* the value the model's result stands for: row n = its tokens, then R - chunked_lens[n] undefined triples *)
Definition chunked_tensor (R : nat) (rows : list (list (Z * Z * Z))) : itens :=
  mkIT [List.length rows; R; 3%nat]
       (flat_map (fun row => (flat_map tok_cells row ++ repeat CUndef (3 * (R - List.length row)))%list) rows).

Definition result_value (R : nat) (out : list (list (Z * Z * Z)) * list Z) : val :=
  VTuple [enc10 (chunked_tensor R (fst out)); enc10 (vec_tensor (snd out))].

(* ---- reading a returned (chunked, chunked_lens) back: only the DEFINED cells chunked[n, :chunked_lens[n]] ---- *)
Fixpoint toks_of_cells (l : list cell) : option (list (Z * Z * Z)) :=
  match l with
  | [] => Some []
  | CInt a :: CInt b :: CInt c :: r => option_map (cons (a, b, c)) (toks_of_cells r)
  | _ => None
  end.

Definition read_result (chunked lens : itens) : option (list (list (Z * Z * Z)) * list Z) :=
  match ishape chunked, ishape lens, all_some (map as_int (idata lens)) with
  | [n; r; 3%nat], [n'], Some ls =>
      if ((n =? n')%nat && (n =? List.length ls)%nat)%bool then
        option_map (fun rows => (rows, ls))
          (all_some (Model.map2 (fun row l => toks_of_cells (firstn (3 * Z.to_nat l) row))
                                (chunks n (r * 3) (idata chunked)) ls))
      else None
  | _, _, _ => None
  end.

(* outer None: the interpreter got stuck / raised / returned something that is not a pair of tensors with
   integer triples in the defined region *)
Definition src_chunk_tokens (R : nat) refs slices ref_lens (partial retain : bool)
  : option (list (list (Z * Z * Z)) * list Z) :=
  match run_tokens R refs slices ref_lens partial retain with
  | Ok (VTuple [c; l]) _ => match dec10 c, dec10 l with
                            | Some ct, Some lt => read_result ct lt
                            | _, _ => None
                            end
  | _ => None
  end.

(* same interface as Model.check_tokens (no variant: the source is what it is; plus R = refs.size(1), which the
   model infers from the first row and which is not determined by [refs] when N = 0) *)
Definition src_chunk_tokens_check (R : nat) refs slices ref_lens (partial retain : bool)
  (impl : list (list (Z * Z * Z)) * list Z) : bool :=
  match src_chunk_tokens R refs slices ref_lens partial retain with
  | Some o => Model.toks_eqb o impl
  | None => false
  end.

(* malformed calls: on tensors of the given shapes (all elements 0) the source raises RuntimeError *)
Definition zeros_of (s : list nat) : itens := full s (CInt 0).

Definition src_tokens_rejects (refs_shape slices_shape : list nat) (ref_lens_shape : option (list nat)) : bool :=
  match run_tokens_raw (zeros_of refs_shape) (zeros_of slices_shape) (option_map zeros_of ref_lens_shape) false false with
  | Exc name _ => String.eqb name runtime_error
  | _ => false
  end.

(* token-only (2-D) refs: the source returns an (N, 0) tensor and N zeros *)
Definition src_tokens_2d_empty (N R : nat) : bool :=
  match run_tokens_raw (zeros_of [N; R]) (zeros_of [N; 2%nat]) None false false with
  | Ok v _ => val_eqb v (VTuple [enc10 (new_empty [N; 0%nat]); enc10 (new_zeros [N])])
  | _ => false
  end.
