(* C03, second tie - the tie of `hard_optimal_completion_distillation_loss` composed with the property theorems of the model
   (ProofsLoss, ProofsMain): statements purely about the interpreted source.  The un-reduced loss the source returns holds, at
   every prefix k of pair n, the mean of -log p (x weight) over the distance-preserving tokens, 0 past the end of the hypothesis;
   'sum' / 'mean' return the model's reductions of that grid.  Also: the hypothesis "every target is a class index" of the tie
   follows from "every counted reference token is a class index". *)
From Coq Require Import ZArith QArith List String Bool Arith Lia ZifyBool ZifyNat Sorted.
From PV Require Import MiniPy.Syntax MiniPy.Interp MiniTorch.Ops MiniTorch.Lemmas MiniTorch.OpsC07 MiniTorch.LemmasC07
  MiniTorch.OpsC01 MiniTorch.LemmasC01 MiniTorch.OpsC03 MiniTorch.LemmasC03 MiniTorch.OpsC03B MiniTorch.LemmasC03B.
From PV Require Import Gen.C03BSrc C01.SrcRun C03.SrcRun C03.TieOcWhole C03.SrcRunB C03.TieB C03.TieBModel C03.TieBWhole.
From PV Require C01.Obs C01.Spec C01.Model C01.Proofs C01.Tie C03.Spec C03.Model C03.ProofsTop C03.ProofsMain C03.ProofsLoss.
Import ListNotations.
Local Open Scope string_scope.

#[local] Arguments seq : simpl never.
#[local] Arguments Z.of_nat : simpl never.
#[local] Arguments enc_x : simpl never.
#[local] Arguments loss_tensor : simpl never.

Notation wf_src := C01.Tie.wf_src.
Notation denote := C01.Spec.denote.
Notation seq_of := C01.Proofs.seq_of.

(* every counted reference token is a class index (or ignore_index, which the loss skips) *)
Definition ref_classes (c : C01.Model.cfg) (N V : nat) (ref : list (list Z)) : Prop :=
  forall n, (n < N)%nat -> forall t,
    List.In t (denote (C01.Model.c_eos c) (C01.Model.c_incl c) (seq_of (C01.Model.c_bf c) n ref)) ->
    (0 <= t < Z.of_nat V)%Z \/ t = C01.Model.c_pad c.

Lemma class_ok_in : forall ign V t, (0 <= t < Z.of_nat V)%Z \/ t = ign -> class_ok ign V t = true.
Proof. intros ign V t H. unfold class_ok. lia. Qed.

Lemma targets_ok_of_ref : forall c N R' H V ref hyp, (0 < N)%nat ->
  wf_src (C01.Model.c_bf c) N (S R') ref -> wf_src (C01.Model.c_bf c) N H hyp ->
  ref_classes c N V ref -> targets_ok c N V ref hyp.
Proof.
  intros c N R' H V ref hyp HN Hr Hh Hcl. unfold targets_ok, model_oc_tensor. cbn [dat]. intros t Ht.
  pose proof (C01.Tie.wf_src_model _ _ _ _ Hr) as Hwr. pose proof (C01.Tie.wf_src_model _ _ _ _ Hh) as Hwh.
  set (c' := C03.ProofsLoss.with_excl c) in *.
  assert (Ebf : C01.Model.c_bf c' = C01.Model.c_bf c) by reflexivity.
  apply in_concat in Ht. destruct Ht as [row [Hrow Ht]]. apply in_concat in Hrow. destruct Hrow as [plane [Hplane Hrow]].
  apply (In_nth _ _ []) in Hplane. destruct Hplane as [i [Hi Ei]]. subst plane.
  apply (In_nth _ _ []) in Hrow. destruct Hrow as [j [Hj Ej]]. subst row.
  rewrite C03.ProofsLoss.oc_length in Hi. rewrite C03.ProofsLoss.oc_row_length in Hj by exact Hi.
  assert (Hgen : forall n k, (n < N)%nat -> (k < C03.Model.oc_rows c' N hyp)%nat ->
            List.In t (C03.ProofsTop.entry3 (C01.Model.c_bf c') k n (C03.Model.optimal_completion c' N ref hyp)) ->
            class_ok (C01.Model.c_pad c) V t = true).
  { intros n k Hn Hk Hin.
    destruct (C03.ProofsMain.oc_sorted_nodup_then_padding c' N ref hyp n Hn Hwr Hwh k Hk) as [L [Hent [_ [_ [_ HinL]]]]].
    rewrite Hent in Hin. apply in_app_or in Hin. destruct Hin as [Hin|Hin].
    - apply class_ok_in. apply (Hcl n Hn). apply (HinL t Hin).
    - apply repeat_spec in Hin. apply class_ok_in. right. exact Hin. }
  unfold C03.ProofsTop.entry3 in Hgen. destruct (C01.Model.c_bf c').
  - apply (Hgen i j Hi Hj Ht).
  - apply (Hgen j i Hj Hi Ht).
Qed.

(* ---- reading a rectangular grid off its flat data -------------------------------------------------------------------------- *)
Lemma nth_concat_rect : forall (G : list (list Q)) A B d, List.length G = A ->
  (forall i, (i < A)%nat -> List.length (nth i G []) = B) ->
  List.length (List.concat G) = (A * B)%nat /\
  forall a b, (a < A)%nat -> (b < B)%nat -> nth (a * B + b) (List.concat G) d = nth b (nth a G []) d.
Proof.
  intros G A B d HA HB.
  assert (HR : forall r, List.In r G -> List.length r = B).
  { intros r Hr. apply (In_nth _ _ []) in Hr. destruct Hr as [i [Hi <-]]. apply HB. lia. }
  rewrite (rect_nest2 G A B d HA HR). rewrite concat_nest2. split; [apply tab2_length|].
  intros a b Ha Hb. rewrite nth_tab2 by assumption. unfold nest2.
  rewrite (nth_map_seq _ A a []) by exact Ha. now rewrite (nth_map_seq _ B b d) by exact Hb.
Qed.

(* a reduction string the function rejects (for the non-vacuity example of Properties.v) *)
Definition ex_bad_reduction : string := "max".

Definition src_idx (bf : bool) (N H k n : nat) : nat := if bf then (n * H + k)%nat else (k * N + n)%nat.

Lemma wf_logp_of_logits : forall (lsm : list fx -> list Q) bf N H V lg, wf_logits bf N H V lg ->
  C03.ProofsLoss.wf_logp bf N H (map (map lsm) lg).
Proof.
  intros lsm bf N H V lg [HL HR]. unfold C03.ProofsLoss.wf_logp.
  assert (Hrows : forall row, List.In row (map (map lsm) lg) -> List.length row = if bf then H else N).
  { intros row Hin. apply in_map_iff in Hin. destruct Hin as [r [<- Hr]]. rewrite map_length. apply (HR r Hr). }
  destruct bf; (split; [now rewrite map_length|exact Hrows]).
Qed.


Lemma idx2_lt : forall a b A B, (a < A)%nat -> (b < B)%nat -> (a * B + b < A * B)%nat.
Proof. intros a b A B Ha Hb. assert (H1 : (S a * B <= A * B)%nat) by (apply Nat.mul_le_mono_r; lia). cbn [Nat.mul] in H1. lia. Qed.

Lemma grid_entry_gen : forall (b : bool) (G : list (list Q)) N H k n, (k < H)%nat -> (n < N)%nat ->
  List.length G = (if b then N else H) ->
  (forall i, (i < if b then N else H)%nat -> List.length (nth i G []) = if b then H else N) ->
  List.length (List.concat G) = (N * H)%nat /\
  nth (src_idx b N H k n) (map (fun q => Fq (Qred q)) (List.concat G)) FNaN = Fq (Qred (C03.ProofsLoss.entryQ b k n G)).
Proof.
  intros b G N H k n Hk Hn HGL HGR. unfold src_idx, C03.ProofsLoss.entryQ. destruct b.
  - destruct (nth_concat_rect G N H 0%Q HGL HGR) as [HLn Hnth]. split; [exact HLn|].
    rewrite (C01.Proofs.nth_map_lt _ _ _ 0%Q) by (rewrite HLn; now apply idx2_lt). now rewrite Hnth.
  - destruct (nth_concat_rect G H N 0%Q HGL HGR) as [HLn Hnth]. split; [rewrite HLn; lia|].
    rewrite (C01.Proofs.nth_map_lt _ _ _ 0%Q) by (rewrite HLn; now apply idx2_lt). now rewrite Hnth.
Qed.

Lemma entryL_gen : forall (lsm : list fx -> list Q) (b : bool) N H V lg k n, wf_logits b N H V lg -> (k < H)%nat -> (n < N)%nat ->
  C03.ProofsLoss.entryL b k n (map (map lsm) lg) = lsm (if b then lgv_of lg n k else lgv_of lg k n).
Proof.
  intros lsm b N H V lg k n [HL HR] Hk Hn. unfold C03.ProofsLoss.entryL, lgv_of. destruct b.
  - assert (Hin : List.In (nth n lg []) lg) by (apply nth_In; lia).
    rewrite (C01.Proofs.nth_map_lt _ _ _ []) by lia.
    rewrite (C01.Proofs.nth_map_lt _ _ _ []); [reflexivity|]. rewrite (proj1 (HR _ Hin)). exact Hk.
  - assert (Hin : List.In (nth k lg []) lg) by (apply nth_In; lia).
    rewrite (C01.Proofs.nth_map_lt _ _ _ []) by lia.
    rewrite (C01.Proofs.nth_map_lt _ _ _ []); [reflexivity|]. rewrite (proj1 (HR _ Hin)). exact Hn.
Qed.

Section Composed.
  Variable lsm : list fx -> list Q.
  Variables (s : positive) (c : C01.Model.cfg) (w : option (list Q)) (N R' H V : nat)
            (ref hyp : list (list Z)) (lg : list (list (list fx))) (warn : bool).
  Notation bf := (C01.Model.c_bf c).
  Hypothesis HN : (0 < N)%nat.
  Hypothesis Hr : wf_src bf N (S R') ref.
  Hypothesis Hh : wf_src bf N H hyp.
  Hypothesis HH : H <> 0%nat.
  Hypothesis Hlg : wf_logits bf N H V lg.
  Hypothesis HW : weight_ok w V.
  Hypothesis Heos : eos_ok c V.
  Hypothesis Hcl : ref_classes c N V ref.

  Let logp := map (map lsm) lg.
  Let G := C03.ProofsLoss.loss_grid c w N ref hyp logp.
  Let Hwr := C01.Tie.wf_src_model _ _ _ _ Hr.
  Let Hwh := C01.Tie.wf_src_model _ _ _ _ Hh.
  Let Htg := targets_ok_of_ref c N R' H V ref hyp HN Hr Hh Hcl.

  Lemma HT : C01.Proofs.time_len bf hyp = H.
  Proof. exact (time_len_src _ N H hyp HN Hh). Qed.

  Lemma Hlp : C03.ProofsLoss.wf_logp bf N (C01.Proofs.time_len bf hyp) logp.
  Proof. rewrite HT. exact (wf_logp_of_logits lsm _ N H V lg Hlg). Qed.

  Lemma HT1 : (1 <= C01.Proofs.time_len bf hyp)%nat.
  Proof. rewrite HT. lia. Qed.

  (* the flat data of the un-reduced result, entry (k, n) *)
  Lemma grid_entry : forall k n, (k < H)%nat -> (n < N)%nat ->
    List.length (List.concat G) = (N * H)%nat /\
    nth (src_idx bf N H k n) (map (fun q => Fq (Qred q)) (List.concat G)) FNaN = Fq (Qred (C03.ProofsLoss.entryQ bf k n G)).
  Proof.
    intros k n Hk Hn.
    pose proof (C03.ProofsLoss.loss_grid_length c w N ref hyp logp HT1 HN Hwr Hwh Hlp) as HGL.
    pose proof (C03.ProofsLoss.loss_grid_row_length c w N ref hyp logp HT1 HN Hwr Hwh Hlp) as HGR.
    fold G in HGL, HGR. rewrite HT in HGL, HGR. exact (grid_entry_gen bf G N H k n Hk Hn HGL HGR).
  Qed.

  Lemma entryL_logits : forall k n, (k < H)%nat -> (n < N)%nat ->
    C03.ProofsLoss.entryL bf k n logp = lsm (if bf then lgv_of lg n k else lgv_of lg k n).
  Proof.
    intros k n Hk Hn. exact (entryL_gen lsm bf N H V lg k n Hlg Hk Hn).
  Qed.

  (* THE PROPERTY, last sentence, about the interpreted source alone (reduction 'none') *)
  Theorem loss_source_none_formula :
    (0 < C01.Model.c_ins c)%Z -> (0 < C01.Model.c_del c)%Z -> (0 < C01.Model.c_sub c)%Z ->
    exists (data : list fx) st',
      run_loss lsm loss_body s c w "none" N V ref hyp lg warn = Ok (enc_x (mkTn (grid_shape bf N H) data)) st' /\
      List.length data = (N * H)%nat /\
      forall n k, (n < N)%nat -> (k < H)%nat ->
        let rseq := denote (C01.Model.c_eos c) (C01.Model.c_incl c) (seq_of bf n ref) in
        let hseq := denote (C01.Model.c_eos c) (C01.Model.c_incl c) (seq_of bf n hyp) in
        let lp := lsm (if bf then lgv_of lg n k else lgv_of lg k n) in
        ((k < List.length hseq)%nat -> ~ List.In (C01.Model.c_pad c) rseq ->
           exists (L : list Z) (q : Q),
             NoDup L /\
             (forall t, List.In t L <-> C03.Spec.preserving (C01.Model.c_ins c) (C01.Model.c_del c) (C01.Model.c_sub c) rseq (firstn k hseq) t) /\
             nth (src_idx bf N H k n) data FNaN = Fq q /\ (q == C03.Spec.qmean (C03.ProofsLoss.nll w lp) L)%Q) /\
        ((1 <= k)%nat -> (List.length hseq <= k)%nat -> nth (src_idx bf N H k n) data FNaN = Fq 0).
  Proof.
    intros Hi Hd Hs.
    destruct (loss_body_is_model lsm s c w C03.Model.RNone N R' H V ref hyp lg warn HN Hr Hh HH Hlg HW Heos Htg) as [st' He].
    change (red_str C03.Model.RNone) with "none" in He.
    rewrite C03.ProofsLoss.hard_ocd_loss_none in He. fold logp in He. fold G in He.
    exists (map (fun q => Fq (Qred q)) (List.concat G)), st'. split; [exact He|].
    split; [rewrite map_length; destruct (grid_entry 0 0 ltac:(lia) HN) as [HLn _]; exact HLn|].
    intros n k Hn Hk rseq hseq lp. destruct (grid_entry k n Hk Hn) as [_ Hent]. rewrite Hent. split.
    - intros Hkl Hign.
      destruct (C03.ProofsLoss.loss_entry_formula c w N ref hyp logp HT1 HN Hwr Hwh Hlp n Hn Hign k Hi Hd Hs Hkl) as [L [HND [HinL HQ]]].
      exists L, (Qred (C03.ProofsLoss.entryQ bf k n G)). split; [exact HND|]. split; [exact HinL|]. split; [reflexivity|].
      rewrite Qred_correct. fold G in HQ. rewrite HQ. rewrite (entryL_logits k n Hk Hn). reflexivity.
    - intros H1 Hpast.
      pose proof (C03.ProofsLoss.loss_entry_past_end c w N ref hyp logp HT1 HN Hwr Hwh Hlp n Hn k H1 ltac:(rewrite HT; exact Hk) Hpast) as HQ.
      fold G in HQ. f_equal. rewrite (Qred_complete _ _ HQ). reflexivity.
  Qed.

  (* 'sum' and 'mean': the model's reductions of that grid *)
  Theorem loss_source_sum_mean :
    (exists (q : Q) st', run_loss lsm loss_body s c w "sum" N V ref hyp lg warn = Ok (enc_x (mkTn [] [Fq q])) st' /\
                         (q == C03.Model.qsum (map C03.Model.qsum G))%Q) /\
    (exists (q : Q) st', run_loss lsm loss_body s c w "mean" N V ref hyp lg warn = Ok (enc_x (mkTn [] [Fq q])) st' /\
                         (q == C03.Model.qsum (map (C03.ProofsLoss.seq_mean c w N ref hyp logp) (seq 0 N)) / inject_Z (Z.of_nat N))%Q).
  Proof.
    split.
    - destruct (loss_body_is_model lsm s c w C03.Model.RSum N R' H V ref hyp lg warn HN Hr Hh HH Hlg HW Heos Htg) as [st' He].
      change (red_str C03.Model.RSum) with "sum" in He. rewrite C03.ProofsLoss.loss_sum in He. fold logp in He. fold G in He.
      eexists _, st'. split; [exact He|]. apply Qred_correct.
    - destruct (loss_body_is_model lsm s c w C03.Model.RMean N R' H V ref hyp lg warn HN Hr Hh HH Hlg HW Heos Htg) as [st' He].
      change (red_str C03.Model.RMean) with "mean" in He. fold logp in He.
      rewrite (C03.ProofsLoss.loss_mean c w N ref hyp logp HT1 HN Hwr Hwh Hlp) in He.
      eexists _, st'. split; [exact He|]. apply Qred_correct.
  Qed.
End Composed.
