(* C02, second source tie - infrastructure: what reaches C02.SrcRunB.extB call by call (the calls of the vocabulary of
   the first tie are answered by ext02 / ext01: their lemmas are re-stated for extB and proved FROM C02.TieLib's), the
   facts about tensor values inside the interpreter, and the tactic of the symbolic runs.  No statement about the
   source itself here. *)
From Coq Require Import ZArith QArith List String Bool Arith Lia.
From PV Require Import MiniPy.Syntax MiniPy.Interp MiniPy.Lemmas MiniTorch.Ops MiniTorch.Lemmas MiniTorch.OpsC07 MiniTorch.LemmasC07
  MiniTorch.OpsC01 MiniTorch.LemmasC01 MiniTorch.OpsC02 MiniTorch.OpsC02B MiniTorch.LemmasC02B.
From PV Require Import Gen.C02Src Gen.C02BSrc C01.SrcRun C01.TieLib C02.SrcRun C02.SrcRunB.
From PV Require C02.TieLib.
Import ListNotations.
Local Open Scope string_scope.

#[local] Arguments dec01 : simpl never.
#[local] Arguments enc_b : simpl never.
#[local] Arguments enc_i : simpl never.
#[local] Arguments enc_x : simpl never.
#[local] Arguments ext01 : simpl never.
#[local] Arguments ext02 : simpl never.
#[local] Arguments ext02w : simpl never.
#[local] Arguments Interp.run : simpl never.
#[local] Arguments bind_call : simpl never.
#[local] Arguments view : simpl never.
#[local] Arguments repeat3 : simpl never.
#[local] Arguments unsqueeze : simpl never.
#[local] Arguments mean_keep : simpl never.
#[local] Arguments broadcast : simpl never.
#[local] Arguments wrap_dim : simpl never.

(* a call that extB hands over to ext02 *)
Ltac viaB L := unfold extB; cbn [is String.eqb Ascii.eqb Bool.eqb orb]; rewrite ?dec01_enc_x, ?dec01_enc_i; try apply L.

Section ExtLemmas.
  Variable w : list (list Q).
  Notation ext := (extB w).

  Lemma extB_dim_i x st : ext "$method.dim" [enc_i x] [] st = Ok (VInt (Z.of_nat (List.length (shp x)))) st.
  Proof. viaB C02.TieLib.ext_dim_i. Qed.
  Lemma extB_dim_x x st : ext "$method.dim" [enc_x x] [] st = Ok (VInt (Z.of_nat (List.length (shp x)))) st.
  Proof. unfold extB. cbn [is String.eqb Ascii.eqb Bool.eqb orb]. unfold ext02. cbn [is String.eqb Ascii.eqb Bool.eqb]. unfold ext01. cbn [is String.eqb Ascii.eqb Bool.eqb]. unfold ext01_ops. cbn [is String.eqb Ascii.eqb Bool.eqb no_kw negb]. now rewrite dec01_enc_x. Qed.
  Lemma extB_shape_i x st : ext "$attr.shape" [enc_i x] [] st = Ok (VTuple (map (fun n => VInt (Z.of_nat n)) (shp x))) st.
  Proof. viaB C02.TieLib.ext_shape_i. Qed.
  Lemma extB_shape_x x st : ext "$attr.shape" [enc_x x] [] st = Ok (VTuple (map (fun n => VInt (Z.of_nat n)) (shp x))) st.
  Proof. unfold extB. cbn [is String.eqb Ascii.eqb Bool.eqb orb]. unfold ext02. cbn [is String.eqb Ascii.eqb Bool.eqb]. unfold ext01. cbn [is String.eqb Ascii.eqb Bool.eqb]. unfold ext01_ops. cbn [is String.eqb Ascii.eqb Bool.eqb no_kw negb]. now rewrite dec01_enc_x. Qed.
  Lemma extB_unsqueeze_i x d st : ext "$method.unsqueeze" [enc_i x; VInt d] [] st = ret01 "unsqueeze" (option_map AI (unsqueeze x d)) st.
  Proof. viaB C02.TieLib.ext_unsqueeze_i. Qed.
  Lemma extB_sub_x x y st : ext "operator" [VStr "sub"; enc_x x; enc_x y] [] st = ret01 "sub" (option_map AX (bin_f fsub x y)) st.
  Proof. viaB C02.TieLib.ext_sub_x. Qed.

  (* ---- the vocabulary of minimum_error_rate_loss ---- *)
  Lemma extB_repeat_i x a b c st : ext "$method.repeat" [enc_i x; VInt a; VInt b; VInt c] [] st = retB "repeat" (option_map AI (repeat3 x a b c)) st.
  Proof. unfold extB. cbn [is String.eqb Ascii.eqb Bool.eqb orb]. now rewrite dec01_enc_i. Qed.
  Lemma extB_size_i x d st : ext "$method.size" [enc_i x; VInt d] [] st =
    match size_dim x d with Some n => Ok (VInt (Z.of_nat n)) st | None => Stuck "size: dimension out of range" end.
  Proof. unfold extB. cbn [is String.eqb Ascii.eqb Bool.eqb orb]. now rewrite dec01_enc_i. Qed.
  Lemma extB_reshape_i x a b st : ext "$method.reshape" [enc_i x; VInt a; VInt b] [] st = retB "reshape / view" (option_map AI (view x [a; b])) st.
  Proof. unfold extB. cbn [is String.eqb Ascii.eqb Bool.eqb orb]. now rewrite dec01_enc_i. Qed.
  Lemma extB_view_x x a b st : ext "$method.view" [enc_x x; VInt a; VInt b] [] st = retB "reshape / view" (option_map AX (view x [a; b])) st.
  Proof. unfold extB. cbn [is String.eqb Ascii.eqb Bool.eqb orb]. now rewrite dec01_enc_x. Qed.
  Lemma extB_mean_keep x d st : ext "$method.mean" [enc_x x; VInt d] [("keepdim", VBool true)] st = retB "mean" (option_map AX (mean_keep x d)) st.
  Proof. unfold extB. cbn [is String.eqb Ascii.eqb Bool.eqb orb kw_keepdim]. now rewrite dec01_enc_x. Qed.
  Lemma extB_mean_all x st : ext "$method.mean" [enc_x x] [] st = Ok (enc_x (mean_all x)) st.
  Proof. unfold extB. cbn [is String.eqb Ascii.eqb Bool.eqb orb]. now rewrite dec01_enc_x. Qed.
  Lemma extB_sum_all x st : ext "$method.sum" [enc_x x] [] st = Ok (enc_x (sum_all x)) st.
  Proof. unfold extB. cbn [is String.eqb Ascii.eqb Bool.eqb orb]. now rewrite dec01_enc_x. Qed.
  Lemma extB_mul_x x y st : ext "operator" [VStr "mul"; enc_x x; enc_x y] [] st = retB "mul" (option_map AX (bin_f fmul x y)) st.
  Proof. unfold extB. cbn [is String.eqb Ascii.eqb Bool.eqb orb]. now rewrite !dec01_enc_x. Qed.
  Lemma extB_softmax n m d st : List.length w = n -> (forall row, List.In row w -> List.length row = m) ->
    ext "torch.nn.functional.softmax" [enc_x (mkTn [n; m] d); VInt 1] [] st = Ok (enc_x (mkTn [n; m] (map qfx (List.concat w)))) st.
  Proof.
    intros Hn Hm. unfold extB. cbn [is String.eqb Ascii.eqb Bool.eqb orb]. rewrite dec01_enc_x. cbn [shp].
    rewrite Hn, Nat.eqb_refl. cbn [andb].
    replace (forallb (fun row => Nat.eqb (List.length row) m) w) with true; [reflexivity|].
    symmetry. apply forallb_forall. intros row Hr. apply Nat.eqb_eq. now apply Hm.
  Qed.
  (* t[:2] and t[1:] on a shape of three sizes *)
  Lemma extB_slice3_to2 a b c st :
    ext "$getitem" [VTuple [VInt a; VInt b; VInt c]; VTuple [VStr "$slice"; VNone; VInt 2; VNone]] [] st = Ok (VTuple [VInt a; VInt b]) st.
  Proof. reflexivity. Qed.
  Lemma extB_slice3_from1 a b c st :
    ext "$getitem" [VTuple [VInt a; VInt b; VInt c]; VTuple [VStr "$slice"; VInt 1; VNone; VNone]] [] st = Ok (VTuple [VInt b; VInt c]) st.
  Proof. reflexivity. Qed.

  (* the call of the other translated function: Python's binding of error_rate(ref, hyp, eos=.., ..), then its body *)
  Lemma bind_call_wrap : forall vref vhyp a b c d e f g h,
    bind_call er_wrap_params er_wrap_defaults [vref; vhyp]
      [("eos", a); ("include_eos", b); ("norm", c); ("batch_first", d); ("ins_cost", e); ("del_cost", f); ("sub_cost", g); ("warn", h)] =
    Some [("ref", vref); ("hyp", vhyp); ("eos", a); ("include_eos", b); ("norm", c); ("batch_first", d); ("ins_cost", e);
          ("del_cost", f); ("sub_cost", g); ("warn", h)].
  Proof. reflexivity. Qed.

  Lemma extB_error_rate : forall (ref hyp : tn Z) eos incl bf qi qd qs warn norm v st' st,
    Interp.run ext02w er_wrap (wrap_vars ref hyp eos incl bf qi qd qs warn norm) = Ok v st' ->
    ext "error_rate" [enc_i ref; enc_i hyp]
      [("eos", opt_int eos); ("include_eos", VBool incl); ("norm", VBool norm); ("batch_first", VBool bf);
       ("ins_cost", VQ qi); ("del_cost", VQ qd); ("sub_cost", VQ qs); ("warn", VBool warn)] st = Ok v st.
  Proof.
    intros ref hyp eos incl bf qi qd qs warn norm v st' st Hrun.
    unfold extB. cbn [is String.eqb Ascii.eqb Bool.eqb]. rewrite bind_call_wrap.
    unfold wrap_vars in Hrun. rewrite Hrun. reflexivity.
  Qed.
End ExtLemmas.

#[local] Arguments extB : simpl never.

Lemma qcmp_lt_int : forall a b : Z,
  match (inject_Z a ?= inject_Z b)%Q with Datatypes.Lt => true | _ => false end = (a <? b)%Z.
Proof. intros a b. unfold Qcompare, inject_Z. cbn [Qnum Qden]. now rewrite !Z.mul_1_r. Qed.

Lemma binop_mul_x_x t u st : binop_eval Mul (enc_x t) (enc_x u) st = Stuck "mul".  Proof. reflexivity. Qed.
Lemma subscript_tuple_slice l a b c st : subscript (VTuple l) (VTuple [VStr "$slice"; a; b; c]) st = Stuck "subscript".
Proof. reflexivity. Qed.

Section Exec.
  Variable ext : string -> list val -> list (string * val) -> state -> outcome val.
  Lemma execB_seq_assoc a b c st : exec ext (SSeq (SSeq a b) c) st = exec ext (SSeq a (SSeq b c)) st.
  Proof. cbn [exec]. destruct (exec ext a st) as [[|v] st1|n st1|m]; cbn [bind]; reflexivity. Qed.
  Lemma execB_seq_cong a b b' st : (forall st1, exec ext b st1 = exec ext b' st1) -> exec ext (SSeq a b) st = exec ext (SSeq a b') st.
  Proof. intros Hb. cbn [exec]. destruct (exec ext a st) as [[|v] st1|n st1|m]; cbn [bind]; try reflexivity. apply Hb. Qed.
  Lemma execB_seq4 a b c d t st :
    exec ext (SSeq (SSeq a (SSeq b (SSeq c d))) t) st = exec ext (SSeq a (SSeq b (SSeq c (SSeq d t)))) st.
  Proof.
    rewrite execB_seq_assoc. apply execB_seq_cong. intros st1.
    rewrite execB_seq_assoc. apply execB_seq_cong. intros st2.
    apply execB_seq_assoc.
  Qed.
  Lemma execB_seq_pass b st : exec ext (SSeq SPass b) st = exec ext b st.
  Proof. reflexivity. Qed.
  Lemma execB_seq_assign x e b st v st1 : eval ext e st = Ok v st1 ->
    exec ext (SSeq (SAssign [TName x] e) b) st = exec ext b (set_var x v st1).
  Proof. intros H. cbn [exec]. rewrite H. reflexivity. Qed.
  Lemma execB_assign x e st v st1 : eval ext e st = Ok v st1 ->
    exec ext (SAssign [TName x] e) st = Ok CNormal (set_var x v st1).
  Proof. intros H. cbn [exec]. rewrite H. reflexivity. Qed.
  Lemma execB_seq_if c t f b st v st1 : eval ext c st = Ok v st1 ->
    exec ext (SSeq (SIf c t f) b) st = exec ext (SSeq (if truthy v then t else f) b) st1.
  Proof. intros H. cbn [exec]. rewrite H. cbn [bind]. destruct (truthy v); reflexivity. Qed.
  Lemma execB_if c t f st v st1 : eval ext c st = Ok v st1 ->
    exec ext (SIf c t f) st = exec ext (if truthy v then t else f) st1.
  Proof. intros H. cbn [exec]. rewrite H. cbn [bind]. destruct (truthy v); reflexivity. Qed.
  Lemma execB_seq_raise n b st : exec ext (SSeq (SRaise n) b) st = Exc n st.
  Proof. reflexivity. Qed.
  Lemma execB_return e st v st1 : eval ext e st = Ok v st1 -> exec ext (SReturn e) st = Ok (CReturn v) st1.
  Proof. intros H. cbn [exec]. rewrite H. reflexivity. Qed.
End Exec.

(* one rewriting step of the symbolic evaluation *)
Ltac rw_extB f :=
  lazymatch f with
  | "$method.dim" => first [rewrite extB_dim_i | rewrite extB_dim_x]
  | "$attr.shape" => first [rewrite extB_shape_i | rewrite extB_shape_x]
  | "$method.unsqueeze" => rewrite extB_unsqueeze_i
  | "$method.repeat" => rewrite extB_repeat_i
  | "$method.size" => rewrite extB_size_i
  | "$method.reshape" => rewrite extB_reshape_i
  | "$method.view" => rewrite extB_view_x
  | "$method.mean" => first [rewrite extB_mean_keep | rewrite extB_mean_all]
  | "$method.sum" => rewrite extB_sum_all
  | "operator" => first [rewrite extB_sub_x | rewrite extB_mul_x]
  | "$getitem" => first [rewrite extB_slice3_to2 | rewrite extB_slice3_from1]
  end.

Ltac rwB :=
  match goal with
  | |- context [foreign (enc_i ?t)] => rewrite (foreign_enc_i t)
  | |- context [foreign (enc_x ?t)] => rewrite (foreign_enc_x t)
  | |- context [method (enc_i ?t) ?m ?a] => rewrite (method_enc_i t m a)
  | |- context [method (enc_x ?t) ?m ?a] => rewrite (method_enc_x t m a)
  | |- context [attribute ?e (enc_i ?t) ?a ?st] => rewrite (attribute_enc_i e t a st)
  | |- context [attribute ?e (enc_x ?t) ?a ?st] => rewrite (attribute_enc_x e t a st)
  | |- context [binop_eval Sub (enc_x ?t) (enc_x ?u) ?st] => rewrite (binop_sub_x_x t u st)
  | |- context [binop_eval Mul (enc_x ?t) (enc_x ?u) ?st] => rewrite (binop_mul_x_x t u st)
  | |- context [extB ?w ?f _ _ _] => rw_extB f
  end.

Ltac evB := repeat (progress (cbn; repeat rwB; try change (Pos.to_nat 1) with 1%nat; try change (Pos.to_nat 2) with 2%nat)).

(* statement by statement on a concrete state: [tac] finishes the evaluation of the expression *)
Ltac seqnormB := repeat first [rewrite execB_seq_assoc | rewrite execB_seq_pass].
Ltac stateB := unfold set_var; cbn [update vars events String.eqb Ascii.eqb Bool.eqb].
Ltac asgB_t tac :=
  seqnormB;
  match goal with
  | |- context [exec ?ext (SSeq (SAssign [TName ?x] ?e) ?b) ?st] =>
      let H := fresh "Hev" in
      eassert (H : eval ext e st = Ok _ _); [ solve [tac] | rewrite (execB_seq_assign ext x e b st _ _ H); clear H; stateB ]
  | |- context [exec ?ext (SAssign [TName ?x] ?e) ?st] =>
      let H := fresh "Hev" in
      eassert (H : eval ext e st = Ok _ _); [ solve [tac] | rewrite (execB_assign ext x e st _ _ H); clear H; stateB ]
  end.
Ltac asgB := asgB_t ltac:(evB; reflexivity).
Ltac ifB_t tac :=
  seqnormB;
  match goal with
  | |- context [exec ?ext (SSeq (SIf ?c ?t ?f) ?b) ?st] =>
      let H := fresh "Hev" in
      eassert (H : eval ext c st = Ok _ _); [ solve [tac] | rewrite (execB_seq_if ext c t f b st _ _ H); clear H; cbn [truthy negb] ]
  | |- context [exec ?ext (SIf ?c ?t ?f) ?st] =>
      let H := fresh "Hev" in
      eassert (H : eval ext c st = Ok _ _); [ solve [tac] | rewrite (execB_if ext c t f st _ _ H); clear H; cbn [truthy negb] ]
  end.
Ltac ifB := ifB_t ltac:(evB; reflexivity).
Ltac asg_openB :=
  seqnormB;
  match goal with
  | |- context [exec ?ext (SSeq (SAssign [TName ?x] ?e) ?b) ?st] => eassert (Hdbg : eval ext e st = Ok _ _)
  | |- context [exec ?ext (SAssign [TName ?x] ?e) ?st] => eassert (Hdbg : eval ext e st = Ok _ _)
  | |- context [exec ?ext (SSeq (SIf ?c ?t ?f) ?b) ?st] => eassert (Hdbg : eval ext c st = Ok _ _)
  | |- context [exec ?ext (SIf ?c ?t ?f) ?st] => eassert (Hdbg : eval ext c st = Ok _ _)
  end.
