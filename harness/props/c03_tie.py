"""C03 source tie, harness side: the Python text of `_string_matching` (return_mask=True) and of `optimal_completion`
(src/pydrobert/torch/_string.py), translated to MiniPy on every run (unit C03Src -> coq/theories/Gen/C03Src.v), is
INTERPRETED inside Coq (PV.C03.SrcRun, torch calls = PV.MiniTorch.OpsC03 / OpsC01 / OpsC07) on the cases of the run and
compared with what CPython + torch compute on the same inputs:

  src_mask_check   the (H', R, N) boolean mask `_string_matching(..., return_mask=True, exclude_last=..)` returns (the call
                   optimal_completion makes; obtained here by making that very call on the case's tensors), for the blocks
                   sm3_pre; sm3_row0; sm3_main run in sequence and for the whole body sm3_body;
  src_oc_check     the (H', N, C) / (N, H', C) target tensor `optimal_completion` returned in this run (the run's own output).

This validates translator + interpreter + ext03 + the MiniTorch definitions against the implementation and is independent of
whether the tie lemmas (coq/theories/C03/Tie*.v) still compile.  Hooked into props/c03.py by one call at the end of run()."""
import time
import warnings

import torch

from vlib import cb, cl, clz, cn, cz, coq_eval_bools
from props import c01 as base
from props.c01 import _dims, _mat, _tensor

IMPORTS_SRC = "From PV Require Import C01.Obs C01.Spec C01.Model C03.Spec C03.Model.\nFrom PV Require C03.SrcRun.\n"
SRC_TIE_SAMPLE = 700
MAX_R, MAX_H, MAX_N = 10, 12, 4
SRC_THEOREMS = ["c03_source_loop_body_is_mask_step", "c03_source_loop_is_masks_loop", "c03_source_mask_is_model",
                "c03_source_string_matching_mask_is_model", "c03_source_mask_marks_preserving_tokens",
                "c03_source_optimal_completion_is_model", "c03_source_optimal_completion_rows_correct"]


def _scale(case):
    return case.get("scale", base.SCALE)


def _oc_case(case):
    """the optimal_completion call of the case (the loss calls it with exclude_last=True)"""
    if case["api"] == "oc":
        return case
    c = {k: v for k, v in case.items() if k not in ("V", "logits", "weight", "reduction")}
    c.update(api="oc", exclude_last=True)
    return c


def _eligible(case, out):
    """calls whose costs are exact dyadic rationals k/scale (every float32 step of the implementation is then exact, as the
    interpreter's rational arithmetic is) and whose tensors are small enough for the interpreter (its cost is cubic in R)"""
    N, R, H = _dims(case)
    sc = _scale(case)
    return ("exc" not in out and "unstable" not in out and sc & (sc - 1) == 0 and "cscale" not in case
            and not case.get("long") and not case.get("slow") and 1 <= N <= MAX_N and 1 <= R <= MAX_R and H <= MAX_H)


def _cfg(case):
    from vlib import co
    ki, kd, ks = case["costs"]
    eos = co(None if case["eos"] is None else cz(case["eos"]))
    return (f"(mkCfg {eos} {cb(case['include_eos'])} false {cb(case['batch_first'])} "
            f"{cz(ki)} {cz(kd)} {cz(ks)} {cz(case['padding'])} {cb(case['exclude_last'])})")


def impl_mask(case):
    """the call optimal_completion makes, on the case's (contiguous) tensors -> nested list (H', R, N) of bool"""
    from pydrobert.torch._string import _string_matching
    N, R, H = _dims(case)
    bf = case["batch_first"]
    ref, hyp = _tensor(case["ref"], R, bf), _tensor(case["hyp"], H, bf)
    ci, cd, cs = (k / _scale(case) for k in case["costs"])
    with warnings.catch_warnings():
        warnings.simplefilter("ignore")
        m = _string_matching(ref, hyp, case["eos"], case["include_eos"], bf, ci, cd, cs, False,
                             return_mask=True, exclude_last=case["exclude_last"])
    assert m.dtype == torch.bool and m.dim() == 3 and tuple(m.shape[1:]) == (R, N)
    return m.tolist()


def mask_term(case, mask):
    N, R, H = _dims(case)
    ref, hyp = _mat(case["ref"], R, case["batch_first"]), _mat(case["hyp"], H, case["batch_first"])
    obs = cl([cl([cl([cb(bool(b)) for b in row]) for row in plane]) for plane in mask])
    return f"C03.SrcRun.src_mask_check {_cfg(case)} {cz(_scale(case))} {cn(N)} {cn(R)} {ref} {hyp} {obs}"


def oc_term(case, out):
    """the whole body of optimal_completion, interpreted, against the tensor this run's call returned"""
    N, R, H = _dims(case)
    ref, hyp = _mat(case["ref"], R, case["batch_first"]), _mat(case["hyp"], H, case["batch_first"])
    obs = cl([cl([clz(row) for row in plane]) for plane in out["val"]])
    sh = cl([cn(x) for x in out["shape"]])
    return f"C03.SrcRun.src_oc_check {_cfg(case)} {cz(_scale(case))} {cn(N)} {ref} {hyp} {sh} {obs}"


def source_tie(chk, cases, outs):
    from vlib import CoqError
    idx = [i for i, (c, o) in enumerate(zip(cases, outs)) if _eligible(c, o)]
    if len(idx) > SRC_TIE_SAMPLE:  # evenly spaced over the streams
        step = len(idx) / SRC_TIE_SAMPLE
        idx = [idx[int(j * step)] for j in range(SRC_TIE_SAMPLE)]
    chk.extra["source_tie"] = {
        "unit": "C03Src", "theorems": SRC_THEOREMS,
        "what": "_string_matching(return_mask=True) and the whole body of optimal_completion (_string.py), translated on "
                "every run, interpreted in Coq (PV.C03.SrcRun.src_mask_check / src_oc_check)"}
    if not idx:
        chk.extra["source_tie_run"] = {"cases": 0, "disagreements": 0}
        return
    t0 = time.time()
    occ = [_oc_case(cases[i]) for i in idx]
    try:
        terms = [mask_term(c, impl_mask(c)) for c in occ]
        # the run's own optimal_completion outputs (plain positional / keyword calls of the function or the module)
        ocj = [j for j, i in enumerate(idx) if cases[i]["api"] == "oc" and outs[i].get("dtype") == "torch.int64"
               and len(outs[i].get("shape", ())) == 3]
        terms += [oc_term(cases[idx[j]], outs[idx[j]]) for j in ocj]
        res_all = coq_eval_bools(chk.workdir, IMPORTS_SRC, terms, shard=16, tag="src3")
    except (CoqError, Exception) as e:  # noqa: an implementation that no longer accepts the call is reported as not evaluated
        chk.extra["source_tie_run"] = "not evaluated: " + str(e)[-400:]
        return
    res, res_oc = res_all[:len(idx)], res_all[len(idx):]
    bad_oc = [j for j, ok in zip(ocj, res_oc) if not ok]
    bad = [j for j, ok in enumerate(res) if not ok] + [j for j in bad_oc]
    chk.extra["source_tie_run"] = {
        "cases": len(idx), "disagreements": len(bad), "wall_s": round(time.time() - t0, 1),
        "mask_cases": len(idx), "optimal_completion_cases": len(ocj), "optimal_completion_disagreements": len(bad_oc),
        "with_eos": sum(1 for c in occ if c["eos"] is not None),
        "include_eos": sum(1 for c in occ if c["include_eos"]),
        "exclude_last": sum(1 for c in occ if c["exclude_last"]),
        "batch_first": sum(1 for c in occ if c["batch_first"]),
        "uniform_costs": sum(1 for c in occ if len(set(c["costs"])) == 1),
        "zero_width_hyp": sum(1 for c in occ if _dims(c)[2] == 0),
        "max_R": max(_dims(c)[1] for c in occ), "max_H": max(_dims(c)[2] for c in occ)}
    chk.count("source_tie_cases", len(idx))
    if bad:
        j = bad[0]
        chk.report({"case": cases[idx[j]], "impl": outs[idx[j]], "mask_call": occ[j],
                    "what": "the Python source of _string_matching (return_mask=True) / optimal_completion as translated to "
                            "MiniPy and interpreted in Coq (PV.C03.SrcRun.src_mask_check / src_oc_check, torch calls = "
                            "PV.MiniTorch.OpsC03/OpsC01/OpsC07) does not reproduce what the implementation computes (the mask "
                            "of the call optimal_completion makes / the returned targets): translator / interpreter / ext03 / "
                            "MiniTorch no longer describe the code",
                    "disagreeing_cases": len(bad),
                    "correspondence": "tie:C03:py2coq+MiniPy.Interp+MiniTorch:_string_matching(return_mask)",
                    "theorems_at_stake": SRC_THEOREMS}, no_failing_input=True)


# ---- second tie: hard_optimal_completion_distillation_loss (unit C03BSrc, PV.C03.SrcRunB) -----------------------------------------
IMPORTS_SRCB = IMPORTS_SRC + "From PV Require C03.SrcRunB.\n"
SRCB_TIE_SAMPLE = 300
SRCB_THEOREMS = ["c03_source_loss_is_model", "c03_source_loss_blocks_is_model", "c03_source_loss_core_is_model",
                 "c03_source_src_loss_is_model", "c03_source_loss_targets_are_classes",
                 "c03_source_loss_raises_eos_not_a_class", "c03_source_loss_raises_eos_is_ignore_index",
                 "c03_source_loss_raises_bad_reduction", "c03_source_loss_none_is_mean_neg_log_prob",
                 "c03_source_loss_sum_mean_are_reductions"]


def _eligible_loss(case, out):
    """loss calls with a finite float result whose internal optimal_completion call is eligible for the first tie (exact dyadic
    costs, small tensors); logits are k/4, torch's log_softmax rows are the oracle handed over as a table (regime T)"""
    return (case["api"] == "loss" and _eligible(case, out) and out.get("val") != "nonfinite"
            and _dims(case)[2] >= 1 and out.get("dtype") in ("torch.float64", "torch.float32"))


def loss_term(case, out):
    """the whole body of hard_optimal_completion_distillation_loss (and its four blocks in sequence), interpreted, against
    the value this run's call returned (tolerance as for the model: torch sums in floating point)"""
    from fractions import Fraction
    from vlib import co, cq
    from props import c03 as p
    N, R, H = _dims(case)
    bf = case["batch_first"]
    ref, hyp = _mat(case["ref"], R, bf), _mat(case["hyp"], H, bf)
    lg = case["logits"]   # [H][N][V] quarters
    rows = [[lg[h][n] for h in range(H)] for n in range(N)] if bf else lg
    logits = cl([cl([cl([cq(Fraction(k, 4)) for k in v]) for v in row]) for row in rows])
    w = co(None if case["weight"] is None else cl([cq(Fraction(k, 4)) for k in case["weight"]]))
    red = case["reduction"]
    if red == "none":
        if out["shape"] != ([N, H] if bf else [H, N]):
            return "false"
        grid, scalar = cl([cl([p._q(x) for x in row]) for row in out["val"]]), "0%Q"
    else:
        if out["shape"] != []:
            return "false"
        grid, scalar = "[]", p._q(out["val"])
    return (f"C03.SrcRunB.src_loss_check {_cfg(dict(case, exclude_last=True))} {w} {p.REDS[red]} {cz(_scale(case))} {cn(N)} "
            f"{cn(case['V'])} {ref} {hyp} {logits} {p._logp(case)} {cq(p._tol(case))} {grid} {scalar}")


def source_tieB(chk, cases, outs):
    from vlib import CoqError
    idx = [i for i, (c, o) in enumerate(zip(cases, outs)) if _eligible_loss(c, o)]
    if len(idx) > SRCB_TIE_SAMPLE:  # evenly spaced over the streams
        step = len(idx) / SRCB_TIE_SAMPLE
        idx = [idx[int(j * step)] for j in range(SRCB_TIE_SAMPLE)]
    chk.extra["source_tieB"] = {
        "unit": "C03BSrc", "theorems": SRCB_THEOREMS,
        "what": "the whole body of hard_optimal_completion_distillation_loss (_string.py; its call of optimal_completion = the "
                "first tie's interpreted oc_body), translated on every run, interpreted in Coq (PV.C03.SrcRunB.src_loss_check; "
                "log_softmax rows = torch's, handed over as the oracle table)"}
    if not idx:
        chk.extra["source_tieB_run"] = {"cases": 0, "disagreements": 0}
        return
    t0 = time.time()
    try:
        terms = [loss_term(cases[i], outs[i]) for i in idx]
        res = coq_eval_bools(chk.workdir, IMPORTS_SRCB, terms, shard=12, tag="src3b")
    except (CoqError, Exception) as e:  # noqa
        chk.extra["source_tieB_run"] = "not evaluated: " + str(e)[-400:]
        return
    bad = [j for j, ok in enumerate(res) if not ok]
    cs = [cases[i] for i in idx]
    chk.extra["source_tieB_run"] = {
        "cases": len(idx), "disagreements": len(bad), "wall_s": round(time.time() - t0, 1),
        "reduction": {r: sum(1 for c in cs if c["reduction"] == r) for r in ("none", "sum", "mean")},
        "with_weight": sum(1 for c in cs if c["weight"] is not None),
        "batch_first": sum(1 for c in cs if c["batch_first"]),
        "with_eos": sum(1 for c in cs if c["eos"] is not None),
        "ignore_index_values": sorted({c["padding"] for c in cs}),
        "float32_logits": sum(1 for c in cs if c.get("f32")),
        "max_V": max(c["V"] for c in cs), "max_H": max(_dims(c)[2] for c in cs)}
    chk.count("source_tieB_cases", len(idx))
    if bad:
        j = bad[0]
        chk.report({"case": cases[idx[j]], "impl": outs[idx[j]],
                    "what": "the Python source of hard_optimal_completion_distillation_loss as translated to MiniPy and "
                            "interpreted in Coq (PV.C03.SrcRunB.src_loss_check, torch calls = PV.MiniTorch.OpsC03B / OpsC03 / "
                            "OpsC01 / OpsC07, log_softmax = torch's values) does not reproduce the loss the implementation "
                            "returned: translator / interpreter / ext03B / MiniTorch no longer describe the code",
                    "disagreeing_cases": len(bad),
                    "correspondence": "tie:C03:py2coq+MiniPy.Interp+MiniTorch:hard_optimal_completion_distillation_loss",
                    "theorems_at_stake": SRCB_THEOREMS}, no_failing_input=True)
