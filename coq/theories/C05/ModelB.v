(* C05, second tie — ADDITIONS to C05.Model needed to state what the loop body of `CTCPrefixSearch.forward` does with
   the language model's state (Model.v is not edited).  No proofs in this file (they are in TieBModel.v).

   Model.sstep gives slot k the row [lm (prefix_of bm k)]: the language model as a FUNCTION of the prefix.  The code
   instead carries a per-slot LM state through the search (`prev`, `in_next`, extract_by_src, mix_by_mask).  Here the
   LM is the most general state machine: the state of a slot is the SEQUENCE OF INPUTS it has been fed so far
   (start-of-sequence = [sos], then tokens), and the row it returns is [lmS inputs] (already passed through the
   transcendental the code applies, as Model's [lm]).  Any concrete MixableSequentialLanguageModel whose state is a
   function of the inputs fed is a quotient of this machine.  [sstepS] is one iteration of the loop AS CODED (rows
   read from the carried states, states re-ordered by next_src / next_is_nonext); TieBModel proves it equal to
   Model.sstep with [lm := lm_of] whenever every valid slot carries the state of its own prefix ([lm_inv]), and that
   [lm_inv] is preserved. *)
From Coq Require Import List Arith Bool QArith Qcanon.
From PV Require Import C05.Model.
Import ListNotations.
Local Open Scope nat_scope.

Section LM.
Variable sos : nat.                       (* lm.vocab_size = V: what calc_idx_log_probs feeds when idx = 0 *)
Variable lmS : list nat -> list Qc.       (* inputs fed so far -> row *)

(* the language model as Model.v sees it *)
Definition lm_of (p : list nat) : list Qc := lmS (sos :: p).

(* calc_idx_log_probs(hist, prev, idx) feeds slot k the token hist[idx_k - 1, k], or sos when idx_k = 0 *)
Definition fed_token (bm : beam) (k : nat) : nat :=
  let l := nth k (b_lens bm) 0 in
  if Nat.eqb l 0 then sos else nth (l - 1) (nth k (b_y bm) []) 0.

(* ... and returns the states after feeding (`in_next`) *)
Definition lm_feed (bm : beam) (St : list (list nat)) : list (list nat) :=
  map (fun k => nth k St [] ++ [fed_token bm k]) (seq 0 (length (b_nb bm))).

(* the frame the code hands to the step function: ext rows from the states after feeding *)
Definition frame_of_states (fus : fusion) (St' : list (list nat)) (nonext : list Qc) (blank : Qc) (bm : beam)
  : frame :=
  mkFrame (map (fun k => ext_row fus (fun _ => lmS (nth k St' [])) nonext blank [])
               (seq 0 (length (b_nb bm))))
          nonext blank.

(* prev = mix_by_mask(extract_by_src(prev, next_src), extract_by_src(in_next, next_src), next_is_nonext) *)
Definition lm_next (St St' : list (list nat)) (src : list nat) (nonext : list bool) : list (list nat) :=
  map2 (fun s (ne : bool) => if ne then nth s St [] else nth s St' []) src nonext.

(* one iteration of the loop over t as coded, with the LM states *)
Definition sstepS (V width : nat) (fus : fusion) (frozen : bool) (nonext : list Qc) (blank : Qc)
  (choice : list nat) (bm : beam) (St : list (list nat)) : beam * list (list nat) :=
  let St' := lm_feed bm St in
  let res := advance V (frame_of_states fus St' nonext blank bm) bm width choice in
  let nx := fst res in
  (if frozen then
     let kp := length (b_nb bm) in
     mkBeam (b_t nx) (map (fun c => c ++ [O]) (widen kp width (b_y bm) [])) (b_last nx)
            (widen kp width (b_lens bm) O) (pad_inf kp width (b_nb bm))
            (pad_inf kp width (b_b bm)) (b_isp nx)
   else nx,
   lm_next St St' (fst (snd res)) (snd (snd res))).

(* the state a slot must carry for the code to read the row of its own prefix: sos and all but the last token of
   the prefix fed; nothing at all while the prefix is empty *)
Definition lm_expected (bm : beam) (k : nat) : list nat :=
  let l := nth k (b_lens bm) 0 in
  if Nat.eqb l 0 then [] else sos :: firstn (l - 1) (nth k (b_y bm) []).

Definition lm_inv (bm : beam) (St : list (list nat)) : Prop :=
  length St = length (b_nb bm) /\
  forall k, k < length (b_nb bm) -> invalid bm k = false -> nth k St [] = lm_expected bm k.
End LM.

(* the fusion mode of a module: `if self.lm is None or not self.beta` *)
Definition fusion_of (has_lm : bool) (beta : Q) (vm : bool) : fusion :=
  if has_lm && negb (Qeq_bool beta 0) then (if vm then Mix (Q2Qc beta) else Plain) else NoLM.

(* the loop of the search with LM states, and the search as coded *)
Fixpoint sloopS (sos : nat) (lmS : list nat -> list Qc) (V width : nat) (fus : fusion) (len t : nat)
  (frames : list (list Qc * Qc)) (choices : list (list nat)) (bm : beam) (St : list (list nat))
  : beam * list (list nat) :=
  match frames with
  | [] => (bm, St)
  | (nonext, blank) :: frames' =>
      let r := sstepS sos lmS V width fus (Nat.leb len t) nonext blank (hd [] choices) bm St in
      sloopS sos lmS V width fus len (S t) frames' (tl choices) (fst r) (snd r)
  end.

(* every topk answer of a run has K entries, all candidate indices (what a topk answer IS; Model.choices_ok
   asks more, but only of the frames the element really processes) *)
Fixpoint choices_wf (V width : nat) (fus : fusion) (lm : list nat -> list Qc) (len t : nat)
  (frames : list (list Qc * Qc)) (choices : list (list nat)) (bm : beam) : Prop :=
  match frames with
  | [] => True
  | (nonext, blank) :: frames' =>
      (length (hd [] choices) = Kout V bm width /\ forall i, In i (hd [] choices) -> i < ncand V bm) /\
      choices_wf V width fus lm len (S t) frames' (tl choices)
                 (sstep V width fus lm (Nat.leb len t) nonext blank (hd [] choices) bm)
  end.
