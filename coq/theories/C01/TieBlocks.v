(* C01 - the blocks of `_string_matching` around the loop, for the plain edit-distance configuration: row 0 and
   del_mat (sm_row0), the loop with the gather at ref_lens (sm_main), `mult` and the normalisation (sm_fin), and the
   preamble with the length inference (sm_pre).  Each lemma: from a description of the state ([known st l]: the
   listed variables hold the listed values) the interpreted block runs to a state described by the next list. *)
From Coq Require Import ZArith QArith List String Bool Arith Lia ZifyBool ZifyNat.
From PV Require Import MiniPy.Syntax MiniPy.Interp MiniPy.Lemmas MiniTorch.Ops MiniTorch.Lemmas MiniTorch.OpsC07 MiniTorch.LemmasC07
  MiniTorch.OpsC01 MiniTorch.LemmasC01.
From PV Require Import Gen.C01Src C01.SrcRun C01.TieLib C01.TieMath C01.TieLoop.
From PV Require C01.Model C01.Proofs.
Import ListNotations.
Local Open Scope string_scope.

#[local] Arguments dec01 : simpl never.
#[local] Arguments enc_b : simpl never.
#[local] Arguments enc_i : simpl never.
#[local] Arguments enc_x : simpl never.
#[local] Arguments tab2 : simpl never.
#[local] Arguments tab3 : simpl never.
#[local] Arguments qz : simpl never.
#[local] Arguments Z.add : simpl never.
#[local] Arguments Z.sub : simpl never.
#[local] Arguments Z.of_nat : simpl never.
#[local] Arguments select0 : simpl never.
#[local] Arguments slice0 : simpl never.
#[local] Arguments set_slice0 : simpl never.
#[local] Arguments broadcast : simpl never.
#[local] Arguments where_f : simpl never.
#[local] Arguments min_dim : simpl never.
#[local] Arguments gather0 : simpl never.
#[local] Arguments unsqueeze : simpl never.
#[local] Arguments squeeze_dim : simpl never.
#[local] Arguments expand2 : simpl never.
#[local] Arguments triu_f : simpl never.
#[local] Arguments transpose2 : simpl never.
#[local] Arguments arange_f : simpl never.
#[local] Arguments full : simpl never.
#[local] Arguments fadd : simpl never.
#[local] Arguments fsub : simpl never.
#[local] Arguments fmul : simpl never.
#[local] Arguments fdiv : simpl never.
#[local] Arguments fmin : simpl never.
#[local] Arguments b2f : simpl never.
#[local] Arguments z2f : simpl never.

#[local] Arguments ext01 : simpl never.
#[local] Arguments zf : simpl never.
#[local] Arguments ofx : simpl never.
#[local] Arguments argmin_3 : simpl never.
#[local] Arguments seq : simpl never.
#[local] Arguments fmin_list : simpl never.
#[local] Arguments zrange : simpl never.

(* the listed variables hold the listed values *)
Fixpoint known (st : state) (l : list (string * val)) : Prop :=
  match l with
  | [] => True
  | (x, v) :: r => lookup x (vars st) = Some v /\ known st r
  end.

Ltac open_known H := cbn [known app] in H; repeat match type of H with _ /\ _ => let L := fresh "K" in destruct H as [L H] end; clear H.
Ltac close_known := cbn [known app]; repeat split; try assumption.

Definition returns (v : val) (o : outcome ctl) : Prop := exists st', o = Ok (CReturn v) st'.

Lemma runs_to_seq : forall (P Q : state -> Prop) a b st,
  runs_to P (exec ext01 a st) -> (forall st1, P st1 -> runs_to Q (exec ext01 b st1)) ->
  runs_to Q (exec ext01 (SSeq a b) st).
Proof. intros P Q a b st [st1 [He P1]] Hb. cbn [exec]. rewrite He. cbn [bind]. now apply Hb. Qed.

Definition torch_module : val := VDict [(VStr "long", long_token); (VStr "float", float_token); (VStr "bool", bool_token)].

Definition lens_tensor (N : nat) (l : nat -> nat) : val := enc_i (mkTn [N] (map (fun n => Z.of_nat (l n)) (seq 0 N))).

(* after the preamble: flags of the plain configuration, time-major tensors, sizes, effective costs over the
   denominator s, mult, the lengths *)
Definition stageA (s : positive) (ci cd cs : Z) (mult : Q) (R N H : nat) (rf hf : nat -> nat -> Z) (rl hl : nat -> nat)
  (nm w : bool) : list (string * val) :=
  [("exclude_last", VBool false); ("return_mistakes", VBool false); ("return_mask", VBool false);
   ("return_prf_dsts", VBool false); ("norm", VBool nm); ("warn", VBool w);
   ("ref", enc_i (mkTn [R; N] (tab2 R N rf))); ("hyp", enc_i (mkTn [H; N] (tab2 H N hf)));
   ("max_ref_steps", VInt (Z.of_nat R)); ("batch_size", VInt (Z.of_nat N)); ("max_hyp_steps", VInt (Z.of_nat H));
   ("device", device_token); ("torch", torch_module);
   ("ins_cost", VQ (qz s ci)); ("del_cost", VQ (qz s cd)); ("sub_cost", VQ (qz s cs)); ("mult", VQ mult);
   ("ref_lens", lens_tensor N rl); ("hyp_lens", lens_tensor N hl)].

Definition stageB (s : positive) (cd : Z) (R N : nat) : list (string * val) :=
  [("del_mat", enc_x (mkTn [S R; S R; 1%nat] (tab2 (S R) (S R) (fun i j => ofx s (C01.Model.del_entry cd i j)))));
   ("row", enc_x (mkTn [S R; N] (tab2 (S R) N (fun i _ => zf s (Z.of_nat i * cd)))))].

Section Blocks.
  Variables (s : positive) (ci cd cs : Z) (mult : Q) (R N H : nat) (rf hf : nat -> nat -> Z) (rl hl : nat -> nat) (nm w : bool).
  Notation A := (stageA s ci cd cs mult R N H rf hf rl hl nm w).

  Lemma row0_run : forall st, known st A -> runs_to (fun st' => known st' (A ++ stageB s cd R N)) (exec ext01 sm_row0 st).
  Proof.
    intros st K. unfold stageA in K. open_known K. unfold sm_row0.
    assign ltac:(evn; replace (Z.of_nat R + 1)%Z with (Z.of_nat (S R)) by lia; rewrite arange_f_nat; evn; reflexivity).
    ifstep. rewrite !exec_seq_assoc.
    asg. asg.
    assign ltac:(evn; change 1%Z with (Z.of_nat 1); rewrite full_mat, triu_mat; evn; reflexivity).
    asg.
    assign ltac:(evn; replace (Z.of_nat R + 1)%Z with (Z.of_nat (S R)) by lia; rewrite expand2_col; evn; reflexivity).
    apply runs_to_ok. unfold stageA, stageB. close_known.
    - match goal with L : lookup "del_mat" _ = _ |- _ => rewrite L end. do 3 f_equal. apply tab2_ext. intros i j Hi Hj.
      apply del_entry_src.
    - match goal with L : lookup "row" _ = _ |- _ => rewrite L end. do 3 f_equal. apply tab2_ext. intros i j Hi Hj.
      apply fmul_z2f_zf.
  Qed.

  (* ---- sm_main: the flag block, the loop, the exits of the other configurations, the gather ------------ *)
  Definition main_flags : stmt := match sm_main with SSeq a _ => a | _ => SPass end.
  Definition main_rest : stmt := match sm_main with SSeq _ (SSeq _ r) => r | _ => SPass end.
  Lemma sm_main_eq : sm_main = SSeq main_flags (SSeq sm_loop main_rest).
  Proof. reflexivity. Qed.

  (* column n of the table after all H steps, from row 0 = arange * del_cost *)
  Definition final_col (n : nat) : list Z :=
    iter_col ci cd cs R H rf hf hl H 0 (fun i _ => Z.of_nat i * cd)%Z n.

  Definition stageC : list (string * val) :=
    [("er", enc_x (mkTn [N] (map (fun n => zf s (nth (rl n) (final_col n) 0%Z)) (seq 0 N))));
     ("mult", VQ mult); ("norm", VBool nm); ("warn", VBool w);
     ("ref_lens", lens_tensor N rl); ("hyp_lens", lens_tensor N hl)].

  (* with any loop statement that has the property of [loop_tie] (sm_loop, or the loop inside sm_body) *)
  Section AnyLoop.
    Variable lp : stmt.
    Hypothesis Hlp : forall st lf,
      body_pre s ci cd cs R N H rf hf hl (lens_tensor N rl) (VQ mult) (VBool nm) (VBool w) lf st ->
      lookup "max_hyp_steps" (vars st) = Some (VInt (Z.of_nat H)) ->
      runs_to (body_pre s ci cd cs R N H rf hf hl (lens_tensor N rl) (VQ mult) (VBool nm) (VBool w)
                 (fun i n => nth i (iter_col ci cd cs R H rf hf hl H 0 lf n) 0%Z)) (exec ext01 lp st).

    Lemma main_run_gen : forall st, (forall n, (n < N)%nat -> (rl n <= R)%nat) ->
      known st (A ++ stageB s cd R N) ->
      runs_to (fun st' => known st' stageC) (exec ext01 (SSeq main_flags (SSeq lp main_rest)) st).
    Proof.
      intros st Hrl K. unfold stageA, stageB in K. open_known K.
      unfold main_flags, sm_main. cbv iota. ifstep. ifstep. seqnorm.
      eapply runs_to_seq.
      - apply (Hlp st (fun i _ => Z.of_nat i * cd)%Z); [|assumption].
        unfold body_pre. repeat split; assumption.
      - intros st1 P1. destruct P1 as (Hexcl & Hmist & Hmask & Hprf & Hhl & Href & Hhyp & Hci & Hcs & Hdm & Hrl' & Hmu & Hno & Hwa & Hrow).
        unfold main_rest, sm_main. cbv iota. unfold lens_tensor in *.
        ifstep. ifstep. ifstep.
        assign ltac:(evn; rewrite gather0_row by (intros j Hj; specialize (Hrl j Hj); lia); evn; reflexivity).
        apply runs_to_ok. unfold stageC, lens_tensor. close_known.
    Qed.
  End AnyLoop.

  Lemma main_run : forall st, (forall n, (n < N)%nat -> (rl n <= R)%nat) ->
    known st (A ++ stageB s cd R N) -> runs_to (fun st' => known st' stageC) (exec ext01 sm_main st).
  Proof.
    rewrite sm_main_eq. apply main_run_gen. intros st lf P Hm.
    exact (loop_tie s ci cd cs R N H rf hf hl (lens_tensor N rl) (VQ mult) (VBool nm) (VBool w) st lf P Hm).
  Qed.

  (* ---- sm_fin: mult, the normalisation, return ---------------------------------------------------------------- *)
  Definition fin_value (n : nat) : fx :=
    let x := fmul (zf s (nth (rl n) (final_col n) 0%Z)) (Fq mult) in
    if nm then (if (Z.of_nat (rl n) =? 0)%Z then b2f (Z.of_nat (hl n) >? 0)%Z else fdiv x (z2f (Z.of_nat (rl n))))
    else x.

  Lemma fin_run : forall st, known st stageC ->
    returns (enc_x (mkTn [N] (map fin_value (seq 0 N)))) (exec ext01 sm_fin st).
  Proof.
    intros st K. unfold stageC, lens_tensor in K. open_known K. unfold sm_fin.
    asg. ifstep. unfold fin_value. destruct nm; cbv iota.
    - asg. asg. ifstep.
      match goal with |- context [if ?b then _ else _] => destruct b eqn:Hany end.
      + ifstep. destruct w; asg; cbn [exec eval]; look; cbn [bind]; eexists; reflexivity.
      + seqnorm. cbn [exec eval]. look. cbn [bind]. eexists. do 4 f_equal.
        apply map_ext_seq. intros n Hn.
        replace (Z.of_nat (rl n) =? 0)%Z with false; [reflexivity|].
        unfold any_b in Hany. cbn [dat] in Hany. symmetry.
        destruct (Z.of_nat (rl n) =? 0)%Z eqn:E; [|reflexivity].
        rewrite <- Hany. symmetry. apply existsb_exists. exists true. split; [|reflexivity].
        apply in_map_iff. exists n. split; [exact E|apply in_seq; lia].
    - seqnorm. cbn [exec eval]. look. cbn [bind]. eexists. reflexivity.
  Qed.
End Blocks.
