#!/bin/sh
# developer tool: run a check against a scratch worktree of /repo with a patch applied.
# usage: try_patch.sh <patch.diff> <Cnn> [extra vcheck args]   (the registered checks always read /repo)
# The run works on a private COPY of the Coq tree (VERIF_COQ): the Gen/*.v regenerated from the patched source and the
# rebuilt ties never land in /verif/coq, so concurrent checks of the unchanged tree are not disturbed.
set -e
PATCH=$(readlink -f "$1"); PROP=$2; shift 2
V=$(cd "$(dirname "$0")/.." && pwd)
W=/tmp/vw-$$; C=/tmp/vwcoq-$$
git -C /repo worktree add -q --detach "$W" HEAD
trap 'git -C /repo worktree remove --force "$W"; rm -rf "$C"' EXIT
git -C "$W" apply "$PATCH"
cp -a "$V/coq" "$C"; rm -f "$C/.build.lock"
VERIF_REPO="$W" VERIF_COQ="$C" /venv/bin/python "$V/harness/vcheck.py" "$PROP" "$@" || echo "exit=$?"
