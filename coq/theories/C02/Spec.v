(* C02 — declarative reading of "the error rate counts the edits of some minimum-cost
   alignment", independent of how the code works.  Built on C01's edit scripts
   ([op], [transforms], [cost], [lev], [denote]).

   An alignment is an edit script; its number of edits is the number of insertions,
   deletions and substitutions in it (a [Keep] is not an edit).  The property allows any
   count that SOME minimum-cost script has, so the spec is a relation ([er_spec]) plus a
   boolean checker ([er_okb], the set of edit counts of optimal scripts computed by the
   textbook recursion) proved equivalent to it in ProofsSpec.v. *)
From Coq Require Import List ZArith QArith Bool Arith.
From PV Require Import C01.Obs C01.Spec.
Import ListNotations.
Local Open Scope Z_scope.

Definition is_edit (o : op) : Z := match o with Keep _ => 0 | _ => 1 end.

Fixpoint edits (s : list op) : Z :=
  match s with [] => 0 | o :: t => is_edit o + edits t end.

Section Costs.
  Variables ci cd cs : Z.

  (* s is an alignment of r with h whose weighted cost is minimal *)
  Definition optimal_script (r h : list Z) (s : list op) : Prop :=
    transforms s r h /\ forall s', transforms s' r h -> cost ci cd cs s <= cost ci cd cs s'.

  (* "the error rate of a pair is the number of insertions, deletions and substitutions
     along an alignment whose weighted cost is minimal" *)
  Definition er_spec (r h : list Z) (m : Z) : Prop :=
    exists s, optimal_script r h s /\ edits s = m.

  (* "the fewest / the most edits found among minimum-cost alignments" *)
  Definition fewest_edits (r h : list Z) (lo : Z) : Prop :=
    er_spec r h lo /\ forall s, optimal_script r h s -> lo <= edits s.
  Definition most_edits (r h : list Z) (hi : Z) : Prop :=
    er_spec r h hi /\ forall s, optimal_script r h s -> edits s <= hi.

  (* ---- the checker: (minimum cost, edit counts of the minimum-cost scripts) ------------ *)
  Definition shift (dc de : Z) (p : Z * list Z) : Z * list Z :=
    (fst p + dc, map (Z.add de) (snd p)).

  Definition keep_if (v : Z) (p : Z * list Z) : list Z := if fst p =? v then snd p else [].

  Definition merge3 (x y z : Z * list Z) : Z * list Z :=
    let v := Z.min (Z.min (fst x) (fst y)) (fst z) in
    (v, nodup Z.eq_dec (keep_if v x ++ keep_if v y ++ keep_if v z)).

  Fixpoint optdp (r h : list Z) {struct r} : Z * list Z :=
    match r with
    | [] => (Z.of_nat (length h) * ci, [Z.of_nat (length h)])
    | a :: r' =>
        (fix inner (h : list Z) {struct h} : Z * list Z :=
           match h with
           | [] => (Z.of_nat (length r) * cd, [Z.of_nat (length r)])
           | b :: h' =>
               merge3 (shift cd 1 (optdp r' h))
                      (shift ci 1 (inner h'))
                      (shift (if a =? b then 0 else cs) (if a =? b then 0 else 1) (optdp r' h'))
           end) h
    end.

  (* all edit counts that minimum-cost alignments of r with h have *)
  Definition opt_counts (r h : list Z) : list Z := snd (optdp r h).

  Definition er_okb (r h : list Z) (m : Z) : bool := existsb (Z.eqb m) (opt_counts r h).

  Definition min_opt_edits (r h : list Z) : Z :=
    fold_right Z.min (hd 0 (opt_counts r h)) (opt_counts r h).
  Definition max_opt_edits (r h : list Z) : Z :=
    fold_right Z.max (hd 0 (opt_counts r h)) (opt_counts r h).
End Costs.

(* ---- the values the property demands, as a judgement of an observed value --------------- *)
Section Expected.
  Variables (eos : option Z) (incl norm : bool) (ci cd cs : Z).

  (* [v] is an acceptable result for reference r and hypothesis (prefix) h *)
  Definition spec_er_val (r h : list Z) (v : val) : Prop :=
    if norm then
      match length r with
      | O => v = Lit (if (0 <? length h)%nat then 1 else 0)
      | S _ => exists m, v = Ratio m (length r) /\ er_spec ci cd cs r h m
      end
    else exists m, v = Cost m /\ er_spec ci cd cs r h m.

  (* boolean judgement of an observed float (exact rational [q]) *)
  Definition spec_er_q_okb (r h : list Z) (q : Q) : bool :=
    if norm then
      match length r with
      | O => match_val 1 (Lit (if (0 <? length h)%nat then 1 else 0)) q
      | S _ => existsb (fun m => match_val 1 (Ratio m (length r)) q) (opt_counts ci cd cs r h)
      end
    else existsb (fun m => match_val 1 (Cost m) q) (opt_counts ci cd cs r h).

  Definition spec_pair_er_okb (rcol hcol : list Z) (q : Q) : bool :=
    spec_er_q_okb (denote eos incl rcol) (denote eos incl hcol) q.

  Definition spec_pair_prefix_er_okb (excl : bool) (pad : Z) (rcol hcol : list Z) (qs : list Q)
    : bool :=
    let r := denote eos incl rcol in
    let h := denote eos incl hcol in
    forall2b (fun k q => if (k <? length h + (if excl then 0 else 1))%nat
                         then spec_er_q_okb r (firstn k h) q
                         else match_val 1 (Lit pad) q)
             (seq 0 (length qs)) qs.
End Expected.

(* ---- the minimum-error-rate loss ----------------------------------------------------- *)
Inductive sreduction := SMean | SSum | SNone.

Definition qsum_s (l : list Q) : Q := fold_right Qplus 0%Q l.

(* "the softmax-weighted (optionally mean-subtracted) error rates of the supplied samples":
   E = error rates (N rows of M), W = softmax weights (N rows of M) *)
Definition spec_loss_row (sub_avg : bool) (M : nat) (E W : list Q) : list Q :=
  let mu := if sub_avg then (qsum_s E / (Z.of_nat M # 1))%Q else 0%Q in
  map (fun ew => ((fst ew - mu) * snd ew)%Q) (combine E W).

Definition spec_loss (sub_avg : bool) (M : nat) (E W : list (list Q)) : list (list Q) :=
  map (fun ew => spec_loss_row sub_avg M (fst ew) (snd ew)) (combine E W).

(* every way of picking one element from each list *)
Fixpoint choices {A} (l : list (list A)) : list (list A) :=
  match l with
  | [] => [[]]
  | x :: t => flat_map (fun a => map (cons a) (choices t)) x
  end.

Section ExpectedLoss.
  Variables (eos : option Z) (incl norm : bool) (ci cd cs : Z).

  (* the numbers the property admits as the error rate of one (reference, hypothesis) pair *)
  Definition adm_vals (rh : list Z * list Z) : list Q :=
    let r := denote eos incl (fst rh) in
    let h := denote eos incl (snd rh) in
    if norm then
      match length r with
      | O => [if (0 <? length h)%nat then 1%Q else 0%Q]
      | S _ => map (fun m => ((m # 1) / (Z.of_nat (length r) # 1))%Q) (opt_counts ci cd cs r h)
      end
    else map (fun m => m # 1) (opt_counts ci cd cs r h).

  Inductive sobs := SErr | SScalar (q : Q) | SMat (rows : list (list Q)).

  Definition sclose (tol a b : Q) : bool := Qle_bool (Qabs.Qabs (a - b)) tol.

  (* pairs: N rows of M (reference column, hypothesis column) *)
  Definition spec_mer_core (sub_avg : bool) (red : sreduction) (M : nat)
    (pairs : list (list (list Z * list Z))) (W : list (list Q)) (tol : Q) (obs : sobs) : bool :=
    if (M <? 2)%nat then match obs with SErr => true | _ => false end
    else
      existsb
        (fun E =>
           let L := spec_loss sub_avg M E W in
           match red, obs with
           | SNone, SMat rows => forall2b (forall2b (sclose tol)) L rows
           | SSum, SScalar q => sclose tol (qsum_s (map qsum_s L)) q
           | SMean, SScalar q =>
               sclose tol (qsum_s (map qsum_s L) / (Z.of_nat (length pairs * M) # 1)) q
           | _, _ => false
           end)
        (choices (map (fun row => choices (map adm_vals row)) pairs)).
End ExpectedLoss.
