(* C05 - invariants of the vectorised step function (Model.advance). *)
From Coq Require Import List Arith Bool QArith Qcanon Lia.
From PV Require Import C05.Model C05.ProofsNum.
Import ListNotations.
Local Open Scope nat_scope.

(* ---- lists ------------------------------------------------------------------------------ *)

Lemma upd_length : forall {A} (l : list A) i x, length (upd l i x) = length l.
Proof. induction l; destruct i; cbn; auto. Qed.

Lemma nth_upd_eq : forall {A} (l : list A) i x d, i < length l -> nth i (upd l i x) d = x.
Proof. induction l; destruct i; cbn; intros; auto; try lia. apply IHl. lia. Qed.

Lemma nth_upd_neq : forall {A} (l : list A) i j x d, i <> j -> nth j (upd l i x) d = nth j l d.
Proof. induction l; destruct i, j; cbn; intros; auto; try lia. Qed.

Lemma firstn_upd_ge : forall {A} (l : list A) i n x, n <= i -> firstn n (upd l i x) = firstn n l.
Proof.
  induction l; destruct i, n; cbn; intros; auto; try lia. f_equal. apply IHl. lia.
Qed.

Lemma firstn_snoc_upd : forall {A} (l : list A) n x d, n <= length l ->
  firstn (S n) (upd (l ++ [d]) n x) = firstn n l ++ [x].
Proof.
  induction l; destruct n; cbn [length]; intros; try lia; auto.
  cbn [app upd firstn]. f_equal. apply IHl. lia.
Qed.

Lemma firstn_app_le : forall {A} (l m : list A) n, n <= length l -> firstn n (l ++ m) = firstn n l.
Proof. intros. rewrite firstn_app. replace (n - length l) with 0 by lia. cbn. apply app_nil_r. Qed.

Lemma nth_firstn : forall {A} (l : list A) n i d, i < n -> nth i (firstn n l) d = nth i l d.
Proof.
  induction l; destruct n, i; cbn; intros; auto; try lia. apply IHl. lia.
Qed.

Lemma nth_map_app_repeat : forall {A B} (f : A -> B) (l : list A) (d : B) n j a,
  nth j (map f l ++ repeat d n) d = if j <? length l then f (nth j l a) else d.
Proof.
  intros. destruct (j <? length l) eqn:E.
  - apply Nat.ltb_lt in E. rewrite app_nth1 by (rewrite map_length; auto).
    rewrite (nth_indep _ d (f a)) by (rewrite map_length; auto). apply map_nth.
  - apply Nat.ltb_ge in E. rewrite app_nth2 by (rewrite map_length; auto).
    rewrite map_length. destruct (le_lt_dec n (j - length l)).
    + apply nth_overflow. rewrite repeat_length. auto.
    + apply nth_repeat.
Qed.

Lemma nth_repeat_if : forall {A} (x d : A) n i, nth i (repeat x n) d = if i <? n then x else d.
Proof.
  intros. destruct (i <? n) eqn:E.
  - apply Nat.ltb_lt in E. rewrite (nth_indep _ d x) by (rewrite repeat_length; auto). apply nth_repeat.
  - apply Nat.ltb_ge in E. apply nth_overflow. rewrite repeat_length. auto.
Qed.

Lemma nodupb_NoDup : forall l, nodupb l = true -> NoDup l.
Proof.
  induction l; cbn; intros H; constructor; apply andb_true_iff in H; destruct H as [H1 H2]; auto.
  intro I. apply negb_true_iff in H1.
  assert (existsb (Nat.eqb a) l = true); [|congruence].
  apply existsb_exists. exists a. split; auto. apply Nat.eqb_refl.
Qed.

(* ---- prefixes --------------------------------------------------------------------------- *)

Definition is_pre (p q : list nat) : Prop := firstn (length p) q = p.

Lemma is_pre_refl : forall p, is_pre p p.
Proof. intros. unfold is_pre. apply firstn_all. Qed.

Lemma is_pre_len : forall p q, is_pre p q -> length p <= length q.
Proof.
  unfold is_pre. intros p q H. apply (f_equal (@length nat)) in H. rewrite firstn_length in H. lia.
Qed.

Lemma is_pre_app : forall p q, is_pre p (p ++ q).
Proof. intros. unfold is_pre. rewrite firstn_app, firstn_all, Nat.sub_diag. cbn. apply app_nil_r. Qed.

Lemma is_pre_exists : forall p q, is_pre p q <-> exists s, q = p ++ s.
Proof.
  split.
  - intros H. exists (skipn (length p) q). unfold is_pre in H. rewrite <- H at 1. symmetry. apply firstn_skipn.
  - intros (s & ->). apply is_pre_app.
Qed.

Lemma is_pre_trans : forall p q r, is_pre p q -> is_pre q r -> is_pre p r.
Proof.
  intros p q r H1 H2. apply is_pre_exists in H1, H2. destruct H1 as (s & ->). destruct H2 as (s' & ->).
  rewrite <- app_assoc. apply is_pre_app.
Qed.

Lemma is_pre_eq_len : forall p q, is_pre p q -> length p = length q -> p = q.
Proof. unfold is_pre. intros p q H L. rewrite L, firstn_all in H. auto. Qed.

(* p a prefix of q ++ [v]: of q already, or the whole *)
Lemma is_pre_snoc_r : forall p q v, is_pre p (q ++ [v]) -> is_pre p q \/ p = q ++ [v].
Proof.
  intros p q v H. destruct (le_lt_dec (length p) (length q)).
  - left. unfold is_pre in *. rewrite firstn_app_le in H; auto.
  - right. apply is_pre_eq_len; auto. apply is_pre_len in H. rewrite app_length in *. cbn in *. lia.
Qed.

Lemma is_pre_snoc_l : forall p q v, is_pre (p ++ [v]) q ->
  is_pre p q /\ length p < length q /\ nth (length p) q 0 = v.
Proof.
  intros p q v H. apply is_pre_exists in H. destruct H as (s & ->). rewrite <- app_assoc. cbn [app].
  split; [apply is_pre_app|]. split; [rewrite app_length; cbn; lia|].
  rewrite app_nth2 by lia. rewrite Nat.sub_diag. reflexivity.
Qed.

Lemma is_pre_snoc_intro : forall p q v, is_pre p q -> length p < length q ->
  nth (length p) q 0 = v -> is_pre (p ++ [v]) q.
Proof.
  intros p q v H L N. apply is_pre_exists in H. destruct H as (s & ->). apply is_pre_exists.
  destruct s as [|x s]; [rewrite app_nil_r in L; lia|].
  rewrite app_nth2, Nat.sub_diag in N by lia. cbn in N. subst x.
  exists s. rewrite <- app_assoc. reflexivity.
Qed.

(* ---- shape of a beam ------------------------------------------------------------------------ *)

Definition col (bm : beam) (k : nat) : list nat := nth k (b_y bm) [].
Definition pref (bm : beam) (k : nat) : list nat := prefix_of bm k.

Record wf (bm : beam) : Prop := mkWf
  { wf_pos : 1 <= Kp bm;
    wf_b : length (b_b bm) = Kp bm;
    wf_y : length (b_y bm) = Kp bm;
    wf_last : length (b_last bm) = Kp bm;
    wf_lens : length (b_lens bm) = Kp bm;
    wf_isp : length (b_isp bm) = Kp bm;
    wf_col : forall k, k < Kp bm -> length (col bm k) = b_t bm;
    wf_len : forall k, lens bm k <= b_t bm }.

Lemma pref_length : forall bm k, wf bm -> k < Kp bm -> length (pref bm k) = lens bm k.
Proof.
  intros bm k W L. unfold pref, prefix_of. fold (lens bm k). fold (col bm k).
  rewrite firstn_length, (wf_col bm W k L). pose proof (wf_len bm W k). lia.
Qed.

Lemma pref_nth : forall bm k i, i < lens bm k -> nth i (pref bm k) 0 = ycell bm k i.
Proof. intros. unfold pref, prefix_of, ycell. fold (lens bm k). apply nth_firstn. auto. Qed.

Definition valid (bm : beam) (k : nat) : Prop := k < Kp bm /\ invalid bm k = false.

(* ---- what the step function returns, slot by slot -------------------------------------------- *)

Section Step.
  Variables (V width : nat) (fr : frame) (bm : beam) (choice : list nat).
  Hypothesis Vpos : 1 <= V.
  Hypothesis Wpos : 1 <= width.
  Hypothesis W : wf bm.
  Hypothesis Clen : length choice = Kout V bm width.
  Hypothesis Crange : forall i, In i choice -> i < ncand V bm.

  Let nx := fst (advance V fr bm width choice).
  Let K := Kout V bm width.
  Definition ch (j : nat) : nat := nth j choice 0.

  Lemma K_le : K <= width. Proof. unfold K, Kout. lia. Qed.

  Lemma ch_range : forall j, j < K -> ch j < ncand V bm.
  Proof. intros. apply Crange. apply nth_In. rewrite Clen. auto. Qed.

  Lemma nx_Kp : Kp nx = width.
  Proof.
    unfold nx, advance, Kp. cbn [fst b_nb]. rewrite app_length, map_length, repeat_length, Clen.
    pose proof K_le. unfold K in *. lia.
  Qed.

  Lemma nx_t : b_t nx = S (b_t bm). Proof. reflexivity. Qed.

  Lemma nx_nb : forall j, nth j (b_nb nx) NegInf = if j <? K then c_nb V fr bm (ch j) else NegInf.
  Proof. intros. unfold nx, advance. cbn [fst b_nb]. rewrite (nth_map_app_repeat _ _ _ _ _ 0), Clen. reflexivity. Qed.

  Lemma nx_b : forall j, nth j (b_b nx) NegInf = if j <? K then c_b V fr bm (ch j) else NegInf.
  Proof. intros. unfold nx, advance. cbn [fst b_b]. rewrite (nth_map_app_repeat _ _ _ _ _ 0), Clen. reflexivity. Qed.

  Lemma nx_lens : forall j, lens nx j = if j <? K then c_len V bm (ch j) else 0.
  Proof. intros. unfold lens, nx, advance. cbn [fst b_lens]. rewrite (nth_map_app_repeat _ _ _ _ _ 0), Clen. reflexivity. Qed.

  Lemma nx_last : forall j, nth j (b_last nx) 0 = if j <? K then c_last V bm (ch j) else 0.
  Proof. intros. unfold nx, advance. cbn [fst b_last]. rewrite (nth_map_app_repeat _ _ _ _ _ 0), Clen. reflexivity. Qed.

  Lemma nx_col : forall j, j < K -> col nx j = c_col V bm (ch j).
  Proof.
    intros j L. unfold col, nx, advance. cbn [fst b_y].
    rewrite app_nth1 by (rewrite map_length, Clen; auto).
    rewrite (nth_indep _ [] (c_col V bm 0)) by (rewrite map_length, Clen; auto). apply map_nth.
  Qed.

  Lemma nx_col_fill : forall j, K <= j -> j < width -> col nx j = repeat 0 (S (b_t bm)).
  Proof.
    intros j L L'. unfold col, nx, advance. cbn [fst b_y].
    rewrite app_nth2 by (rewrite map_length, Clen; auto). rewrite map_length, Clen.
    rewrite (nth_indep _ [] (repeat 0 (S (b_t bm)))); [apply nth_repeat|].
    rewrite repeat_length. unfold K in *. lia.
  Qed.

  Lemma nx_isp : forall j j', isp nx j j' = if (j <? K) && (j' <? K) then c_isp V bm (ch j) (ch j') else false.
  Proof.
    intros. unfold isp, nx, advance. cbn [fst b_isp].
    destruct (j <? K) eqn:E.
    - apply Nat.ltb_lt in E. rewrite app_nth1 by (rewrite map_length, Clen; auto).
      rewrite (nth_indep _ [] ((fun i => map (c_isp V bm i) choice ++ repeat false (width - Kout V bm width)) 0))
        by (rewrite map_length, Clen; auto).
      rewrite (map_nth (fun i => map (c_isp V bm i) choice ++ repeat false (width - Kout V bm width))).
      rewrite (nth_map_app_repeat _ _ _ _ _ 0), Clen. reflexivity.
    - apply Nat.ltb_ge in E. cbn [andb]. rewrite app_nth2 by (rewrite map_length, Clen; auto).
      rewrite map_length, Clen. fold K.
      rewrite nth_repeat_if. destruct (j - K <? width - K).
      + rewrite nth_repeat_if. destruct (j' <? width); reflexivity.
      + destruct j'; reflexivity.
  Qed.

  (* source slot and token of a chosen index *)
  Lemma src_range : forall ind, ind < ncand V bm -> c_src V bm ind < Kp bm.
  Proof.
    intros ind H. unfold c_src, c_nonext, ncand in *.
    destruct (Kp bm * V <=? ind) eqn:E.
    - apply Nat.leb_le in E. lia.
    - apply Nat.leb_gt in E. apply Nat.div_lt_upper_bound; lia.
  Qed.

  Lemma ext_range : forall ind, c_ext V ind < V.
  Proof. intros. unfold c_ext. apply Nat.mod_upper_bound. lia. Qed.

  Lemma c_col_length : forall ind, ind < ncand V bm -> length (c_col V bm ind) = S (b_t bm).
  Proof.
    intros. unfold c_col. rewrite upd_length, app_length. fold (col bm (c_src V bm ind)).
    rewrite (wf_col bm W) by (apply src_range; auto). cbn; lia.
  Qed.

  Lemma c_len_le : forall ind, c_len V bm ind <= S (b_t bm).
  Proof. intros. unfold c_len. pose proof (wf_len bm W (c_src V bm ind)). destruct (c_nonext V bm ind); lia. Qed.

  Lemma nx_wf : wf nx.
  Proof.
    pose proof K_le as KL. pose proof nx_Kp as KP.
    constructor.
    - rewrite KP. auto.
    - rewrite KP. unfold nx, advance. cbn [fst b_b]. rewrite app_length, map_length, repeat_length, Clen. fold K. lia.
    - rewrite KP. unfold nx, advance. cbn [fst b_y]. rewrite app_length, map_length, repeat_length, Clen. fold K. lia.
    - rewrite KP. unfold nx, advance. cbn [fst b_last]. rewrite app_length, map_length, repeat_length, Clen. fold K. lia.
    - rewrite KP. unfold nx, advance. cbn [fst b_lens]. rewrite app_length, map_length, repeat_length, Clen. fold K. lia.
    - rewrite KP. unfold nx, advance. cbn [fst b_isp]. rewrite app_length, map_length, repeat_length, Clen. fold K. lia.
    - rewrite KP, nx_t. intros k Lk. destruct (le_lt_dec K k).
      + rewrite nx_col_fill by auto. apply repeat_length.
      + rewrite nx_col by auto. apply c_col_length, ch_range; auto.
    - intros k. rewrite nx_lens, nx_t. destruct (k <? K); [apply c_len_le|lia].
  Qed.

  (* the new prefix of a chosen slot: its source's prefix, plus the token when extending *)
  Lemma nx_pref : forall j, j < K ->
    pref nx j = if c_nonext V bm (ch j) then pref bm (c_src V bm (ch j))
                else pref bm (c_src V bm (ch j)) ++ [c_ext V (ch j)].
  Proof.
    intros j L. unfold pref at 1, prefix_of. fold (lens nx j). fold (col nx j).
    rewrite nx_lens, nx_col by auto. apply Nat.ltb_lt in L. rewrite L. apply Nat.ltb_lt in L.
    pose proof (ch_range j L) as R. pose proof (src_range _ R) as SR.
    unfold c_len, c_col. fold (col bm (c_src V bm (ch j))).
    pose proof (wf_len bm W (c_src V bm (ch j))) as LL. pose proof (wf_col bm W _ SR) as LC.
    destruct (c_nonext V bm (ch j)).
    - rewrite Nat.add_0_r, firstn_upd_ge by lia. rewrite firstn_app_le by lia. reflexivity.
    - rewrite Nat.add_1_r, firstn_snoc_upd by lia. reflexivity.
  Qed.

  Lemma nx_invalid : forall j, invalid nx j = if j <? K then is_neginf (cand V fr bm (ch j)) else true.
  Proof.
    intros. unfold invalid. rewrite nx_nb, nx_b. destruct (j <? K) eqn:E; [|reflexivity].
    apply Nat.ltb_lt in E. pose proof (ch_range j E) as R.
    unfold c_nb, c_b, cand, c_src, c_nonext. unfold ncand in R.
    destruct (Kp bm * V <=? ch j) eqn:E1.
    - apply Nat.leb_le in E1. replace (ch j <? Kp bm * V) with false by (symmetry; apply Nat.ltb_ge; auto).
      reflexivity.
    - apply Nat.leb_gt in E1. replace (ch j <? Kp bm * V) with true by (symmetry; apply Nat.ltb_lt; auto).
      replace (Nat.min (ch j) (Kp bm * V - 1)) with (ch j) by lia.
      destruct (nb_ext_c V fr bm (ch j / V) (ch j mod V)); reflexivity.
  Qed.
End Step.

(* ---- the invariant ---------------------------------------------------------------------------- *)

Record inv (V : nat) (bm : beam) : Prop := mkInv
  { inv_wf : wf bm;
    (* valid prefixes are blank-free *)
    inv_lt : forall k, valid bm k -> Forall (fun x => x < V) (pref bm k);
    (* ... and pairwise distinct *)
    inv_dist : forall k k', valid bm k -> valid bm k' -> pref bm k = pref bm k' -> k = k';
    (* the prefix matrix never claims a relation that does not hold (any slots) *)
    inv_snd : forall k k', k < Kp bm -> k' < Kp bm -> isp bm k k' = true ->
              is_pre (pref bm k) (pref bm k');
    (* ... and records every relation between valid slots *)
    inv_cmp : forall k k', valid bm k -> valid bm k' -> is_pre (pref bm k) (pref bm k') ->
              isp bm k k' = true;
    inv_last : forall k, valid bm k -> 0 < lens bm k -> lastc V bm k = last (pref bm k) 0;
    inv_nb0 : forall k, valid bm k -> lens bm k = 0 -> nbq bm k = 0%Qc }.

Lemma has_match_of_ext : forall V bm k k' v, 1 <= V -> inv V bm -> valid bm k -> valid bm k' ->
  v < V -> pref bm k' = pref bm k ++ [v] -> has_match V bm k v = true.
Proof.
  intros V bm k k' v Vpos I Vk Vk' Hv E. pose proof (inv_wf V bm I) as W.
  destruct Vk as [Lk IVk]. destruct Vk' as [Lk' IVk'].
  assert (LL : lens bm k' = lens bm k + 1).
  { rewrite <- !pref_length by auto. rewrite E, app_length. reflexivity. }
  pose proof (wf_len bm W k') as LT.
  unfold has_match. apply existsb_exists. exists k'. split; [apply in_seq; lia|].
  apply andb_true_iff. split.
  - apply Nat.eqb_eq. unfold to_match.
    replace (b_t bm =? 0) with false by (symmetry; apply Nat.eqb_neq; lia).
    replace (Nat.min (lens bm k) (b_t bm - 1)) with (lens bm k) by lia.
    rewrite <- pref_nth by lia. rewrite E, <- (pref_length bm k) by auto.
    rewrite app_nth2, Nat.sub_diag by lia. cbn [nth]. unfold clampV. lia.
  - unfold ext_is_exact. apply andb_true_iff. split; [apply Nat.eqb_eq; lia|].
    apply (inv_cmp V bm I); [split; auto|split; auto|]. rewrite E. apply is_pre_app.
Qed.

Section Preserve.
  Variables (V width : nat) (fr : frame) (bm : beam) (choice : list nat).
  Hypothesis Vpos : 1 <= V.
  Hypothesis Wpos : 1 <= width.
  Hypothesis I : inv V bm.
  Hypothesis Clen : length choice = Kout V bm width.
  Hypothesis Crange : forall i, In i choice -> i < ncand V bm.
  Hypothesis Cnodup : NoDup choice.

  Let W := inv_wf V bm I.
  Let nx := fst (advance V fr bm width choice).
  Let K := Kout V bm width.
  Notation chj := (ch choice).
  Let SR := src_range V width bm choice Vpos Wpos Clen.
  Let ER := ext_range V width bm choice Vpos Wpos Clen.
  Let CR := ch_range V width bm choice Clen Crange.

  Lemma valid_nx : forall j, valid nx j ->
    j < K /\ chj j < ncand V bm /\ valid bm (c_src V bm (chj j)) /\
    (c_nonext V bm (chj j) = false -> has_match V bm (c_src V bm (chj j)) (c_ext V (chj j)) = false).
  Proof.
    intros j [Lj IV]. unfold nx in IV. rewrite (nx_invalid V width fr bm choice Vpos Wpos Clen Crange) in IV.
    fold K in IV. destruct (j <? K) eqn:E; [|discriminate]. apply Nat.ltb_lt in E.
    pose proof (CR j E) as R.
    pose proof (SR _ R) as SRj.
    repeat split; auto.
    - unfold cand, c_src, c_nonext in *. unfold ncand in R.
      destruct (Kp bm * V <=? chj j) eqn:E1.
      + apply Nat.leb_le in E1. replace (chj j <? Kp bm * V) with false in IV by (symmetry; apply Nat.ltb_ge; auto).
        unfold nb_nonext_c in IV. destruct (invalid bm (chj j - Kp bm * V)); [discriminate|reflexivity].
      + apply Nat.leb_gt in E1. replace (chj j <? Kp bm * V) with true in IV by (symmetry; apply Nat.ltb_lt; auto).
        unfold nb_ext_c in IV. destruct (invalid bm (chj j / V)); [|reflexivity].
        rewrite orb_true_r in IV. discriminate.
    - intros NE. unfold cand, c_src, c_ext in *. rewrite NE. unfold c_nonext in NE.
      apply Nat.leb_gt in NE. replace (chj j <? Kp bm * V) with true in IV by (symmetry; apply Nat.ltb_lt; auto).
      unfold nb_ext_c in IV. destruct (has_match V bm (chj j / V) (chj j mod V)); [discriminate|reflexivity].
  Qed.

  Lemma ch_inj : forall j j', j < K -> j' < K -> chj j = chj j' -> j = j'.
  Proof.
    intros j j' L L' E. apply (proj1 (NoDup_nth choice 0) Cnodup); auto; rewrite Clen; auto.
  Qed.

  (* an index is determined by (non-extending?, source, token) *)
  Lemma ind_eq : forall a b, a < ncand V bm -> b < ncand V bm ->
    c_nonext V bm a = c_nonext V bm b -> c_src V bm a = c_src V bm b ->
    (c_nonext V bm a = false -> c_ext V a = c_ext V b) -> a = b.
  Proof.
    intros a b Ra Rb N S E. unfold c_src, c_ext in *. rewrite <- N in S.
    destruct (c_nonext V bm a) eqn:Na; symmetry in N; unfold c_nonext in *.
    - apply Nat.leb_le in Na, N. lia.
    - specialize (E eq_refl). rewrite (Nat.div_mod_eq a V), (Nat.div_mod_eq b V). congruence.
  Qed.

  Lemma pref_nx : forall j, j < K ->
    pref nx j = if c_nonext V bm (chj j) then pref bm (c_src V bm (chj j))
                else pref bm (c_src V bm (chj j)) ++ [c_ext V (chj j)].
  Proof. intros. apply (nx_pref V width fr bm choice Vpos Wpos W Clen Crange). auto. Qed.

  Lemma nx_lt : forall j, valid nx j -> Forall (fun x => x < V) (pref nx j).
  Proof.
    intros j Vj. destruct (valid_nx j Vj) as (Lj & R & VS & HM). rewrite pref_nx by auto.
    destruct (c_nonext V bm (chj j)); [apply (inv_lt V bm I); auto|].
    apply Forall_app. split; [apply (inv_lt V bm I); auto|]. constructor; auto.
  Qed.

  Lemma nx_dist : forall j j', valid nx j -> valid nx j' -> pref nx j = pref nx j' -> j = j'.
  Proof.
    intros j j' Vj Vj' E.
    destruct (valid_nx j Vj) as (Lj & R & VS & HM). destruct (valid_nx j' Vj') as (Lj' & R' & VS' & HM').
    rewrite !pref_nx in E by auto. apply ch_inj; auto.
    destruct (c_nonext V bm (chj j)) eqn:N; destruct (c_nonext V bm (chj j')) eqn:N'.
    - apply ind_eq; auto; try congruence. apply (inv_dist V bm I); auto.
    - exfalso. specialize (HM' eq_refl).
      rewrite (has_match_of_ext V bm _ _ (c_ext V (chj j')) Vpos I VS' VS) in HM'; auto; discriminate.
    - exfalso. specialize (HM eq_refl).
      rewrite (has_match_of_ext V bm _ _ (c_ext V (chj j)) Vpos I VS VS') in HM; auto; discriminate.
    - apply snoc_inj in E. destruct E as [E1 E2].
      apply ind_eq; auto; try congruence. apply (inv_dist V bm I); auto.
  Qed.

  Lemma pref_nx_def : forall j, pref nx j = firstn (lens nx j) (col nx j).
  Proof. reflexivity. Qed.

  Let Wnx : wf nx := nx_wf V width fr bm choice Vpos Wpos W Clen Crange.
  Let KPnx : Kp nx = width := nx_Kp V width fr bm choice Vpos Wpos Clen.

  Lemma lens_nx : forall j, j < K -> lens nx j = c_len V bm (chj j).
  Proof.
    intros j L. unfold nx. rewrite (nx_lens V width fr bm choice Clen). fold K.
    apply Nat.ltb_lt in L. rewrite L. reflexivity.
  Qed.

  Lemma col_nx : forall j, j < K -> col nx j = c_col V bm (chj j).
  Proof. intros. apply (nx_col V width fr bm choice Clen). auto. Qed.

  Lemma K_le_width : K <= width. Proof. unfold K, Kout. lia. Qed.

  Lemma pre_src_nx : forall j, j < K -> is_pre (pref bm (c_src V bm (chj j))) (pref nx j).
  Proof.
    intros j L. rewrite pref_nx by auto. destruct (c_nonext V bm (chj j)); [apply is_pre_refl|apply is_pre_app].
  Qed.

  Lemma len_src : forall ind, ind < ncand V bm -> length (pref bm (c_src V bm ind)) = lens bm (c_src V bm ind).
  Proof. intros. apply pref_length; auto. Qed.

  (* below the source's length a new column is the source's prefix *)
  Lemma c_col_low : forall ind i, ind < ncand V bm -> i < lens bm (c_src V bm ind) ->
    nth i (c_col V bm ind) 0 = nth i (pref bm (c_src V bm ind)) 0.
  Proof.
    intros ind i R L. unfold c_col. rewrite nth_upd_neq by lia.
    pose proof (wf_len bm W (c_src V bm ind)) as LT. pose proof (wf_col bm W _ (SR _ R)) as LC.
    unfold col in LC. rewrite app_nth1 by lia. rewrite pref_nth by auto. reflexivity.
  Qed.

  Lemma c_col_at : forall ind, ind < ncand V bm ->
    nth (lens bm (c_src V bm ind)) (c_col V bm ind) 0 = c_ext V ind.
  Proof.
    intros ind R. unfold c_col. apply nth_upd_eq.
    pose proof (wf_len bm W (c_src V bm ind)) as LT. pose proof (wf_col bm W _ (SR _ R)) as LC.
    unfold col in LC. rewrite app_length. cbn. lia.
  Qed.

  Lemma nx_snd : forall j j', j < Kp nx -> j' < Kp nx -> isp nx j j' = true ->
    is_pre (pref nx j) (pref nx j').
  Proof.
    intros j j' _ _ H. unfold nx in H. rewrite (nx_isp V width fr bm choice Clen) in H. fold K in H.
    destruct (j <? K) eqn:E; [|discriminate]. destruct (j' <? K) eqn:E'; [|discriminate].
    apply Nat.ltb_lt in E, E'. cbn [andb] in H.
    pose proof (CR j E) as R. pose proof (CR j' E') as R'.
    unfold c_isp in H. apply andb_true_iff in H. destruct H as [H H3].
    apply andb_true_iff in H. destruct H as [H1 H2]. apply Nat.leb_le in H2.
    apply (inv_snd V bm I) in H1; auto.
    pose proof (is_pre_trans _ _ _ H1 (pre_src_nx j' E')) as PT.
    assert (LN : length (pref nx j') = c_len V bm (chj j')).
    { rewrite pref_length; auto; [apply lens_nx; auto|rewrite KPnx; pose proof K_le_width; lia]. }
    rewrite (pref_nx j) by auto. unfold c_len in H2 at 1.
    destruct (c_nonext V bm (chj j)) eqn:N; auto.
    cbn [negb orb andb] in H3. apply Nat.eqb_eq in H3.
    apply is_pre_snoc_intro; auto; rewrite len_src by auto.
    - lia.
    - unfold c_len in H3 at 1. rewrite N in H3. replace (lens bm (c_src V bm (chj j)) + 1 - 1) with (lens bm (c_src V bm (chj j))) in H3 by lia.
      rewrite pref_nx_def, nth_firstn, col_nx by (rewrite ?lens_nx by auto; lia). auto.
  Qed.

  Lemma nx_cmp : forall j j', valid nx j -> valid nx j' -> is_pre (pref nx j) (pref nx j') ->
    isp nx j j' = true.
  Proof.
    intros j j' Vj Vj' P.
    destruct (valid_nx j Vj) as (Lj & R & VS & HM). destruct (valid_nx j' Vj') as (Lj' & R' & VS' & HM').
    unfold nx. rewrite (nx_isp V width fr bm choice Clen). fold K.
    apply Nat.ltb_lt in Lj, Lj'. rewrite Lj, Lj'. apply Nat.ltb_lt in Lj, Lj'. cbn [andb].
    rewrite !pref_nx in P by auto. unfold c_isp, c_len.
    pose proof (len_src _ R) as LS. pose proof (len_src _ R') as LS'.
    pose proof (ER (chj j)) as EV. pose proof (ER (chj j')) as EV'.
    destruct (c_nonext V bm (chj j)) eqn:N; destruct (c_nonext V bm (chj j')) eqn:N'; cbn [negb orb andb].
    - rewrite (inv_cmp V bm I) by auto. apply is_pre_len in P. rewrite andb_true_r. apply Nat.leb_le. lia.
    - apply is_pre_snoc_r in P. destruct P as [P|P].
      + rewrite (inv_cmp V bm I) by auto. apply is_pre_len in P. rewrite andb_true_r. apply Nat.leb_le. lia.
      + exfalso. specialize (HM' eq_refl).
        rewrite (has_match_of_ext V bm _ _ _ Vpos I VS' VS EV' P) in HM'. discriminate.
    - apply is_pre_snoc_l in P. destruct P as (P1 & P2 & P3).
      rewrite (inv_cmp V bm I) by auto. cbn [andb]. apply andb_true_iff. split; [apply Nat.leb_le; lia|].
      apply Nat.eqb_eq. replace (lens bm (c_src V bm (chj j)) + 1 - 1) with (lens bm (c_src V bm (chj j))) by lia.
      rewrite c_col_low by (auto; lia). rewrite <- LS. auto.
    - apply is_pre_snoc_r in P. destruct P as [P|P].
      + apply is_pre_snoc_l in P. destruct P as (P1 & P2 & P3).
        rewrite (inv_cmp V bm I) by auto. cbn [andb]. apply andb_true_iff. split; [apply Nat.leb_le; lia|].
        apply Nat.eqb_eq. replace (lens bm (c_src V bm (chj j)) + 1 - 1) with (lens bm (c_src V bm (chj j))) by lia.
        rewrite c_col_low by (auto; lia). rewrite <- LS. auto.
      + apply snoc_inj in P. destruct P as [P1 P2].
        assert (ES : c_src V bm (chj j) = c_src V bm (chj j')) by (apply (inv_dist V bm I); auto).
        rewrite (inv_cmp V bm I) by (auto; rewrite P1; apply is_pre_refl). cbn [andb].
        apply andb_true_iff. split; [apply Nat.leb_le; rewrite ES; lia|].
        apply Nat.eqb_eq. replace (lens bm (c_src V bm (chj j)) + 1 - 1) with (lens bm (c_src V bm (chj j))) by lia.
        rewrite ES, c_col_at by auto. auto.
  Qed.

  Lemma clampV_lt : forall x, x < V -> clampV V x = x.
  Proof. intros. unfold clampV. lia. Qed.

  Lemma nx_lastc : forall j, valid nx j -> 0 < lens nx j -> lastc V nx j = last (pref nx j) 0.
  Proof.
    intros j Vj L. destruct (valid_nx j Vj) as (Lj & R & VS & HM).
    unfold lastc, nx. rewrite (nx_last V width fr bm choice Clen). fold K. fold nx.
    apply Nat.ltb_lt in Lj. rewrite Lj. apply Nat.ltb_lt in Lj.
    rewrite lens_nx in L by auto. rewrite pref_nx by auto. unfold c_last, c_len in *.
    destruct (c_nonext V bm (chj j)).
    - rewrite <- (inv_last V bm I) by (auto; lia). unfold lastc, clampV. lia.
    - rewrite last_snoc. apply clampV_lt. apply ER.
  Qed.

  Lemma nx_nbq0 : forall j, valid nx j -> lens nx j = 0 -> nbq nx j = 0%Qc.
  Proof.
    intros j Vj L. destruct (valid_nx j Vj) as (Lj & R & VS & HM). destruct Vj as [_ IV].
    unfold nbq. rewrite IV. unfold nx. rewrite (nx_nb V width fr bm choice Clen). fold K.
    apply Nat.ltb_lt in Lj. rewrite Lj. apply Nat.ltb_lt in Lj.
    rewrite lens_nx in L by auto. unfold c_len, c_nb in *.
    destruct (c_nonext V bm (chj j)); [|lia]. rewrite Nat.add_0_r in L.
    unfold nb_nonext_c. destruct VS as [VS1 VS2]. rewrite VS2. cbn [fin0].
    unfold nb_nonext1, nb_nonext0. rewrite (inv_nb0 V bm I) by (auto; split; auto).
    unfold merged. rewrite qsum_map_zero; [ring|].
    intros k _. unfold ext_is_exact. rewrite L.
    replace (lens bm k + 1 =? 0) with false by (symmetry; apply Nat.eqb_neq; lia). reflexivity.
  Qed.

  (* the step function preserves the invariant, for ANY K distinct in-range indices *)
  Lemma advance_inv : inv V nx.
  Proof.
    constructor.
    - exact Wnx.
    - exact nx_lt.
    - exact nx_dist.
    - exact nx_snd.
    - exact nx_cmp.
    - exact nx_lastc.
    - exact nx_nbq0.
  Qed.
End Preserve.

Lemma init_inv : forall V, inv V init_beam.
Proof.
  intros V. constructor.
  - constructor; cbn; auto.
    + intros k L. assert (k = 0) by lia. subst. reflexivity.
    + intros [|[|k]]; cbn; lia.
  - intros k [L _]. cbn in L. assert (k = 0) by lia. subst. constructor.
  - intros k k' [L _] [L' _] _. cbn in L, L'. lia.
  - intros k k' L L' _. cbn in L, L'. assert (k = 0) by lia. assert (k' = 0) by lia. subst. reflexivity.
  - intros k k' [L _] [L' _] _. cbn in L, L'. assert (k = 0) by lia. assert (k' = 0) by lia. subst. reflexivity.
  - intros k [L _] H. cbn in L. assert (k = 0) by lia. subst. cbn in H. lia.
  - intros k [L _] _. cbn in L. assert (k = 0) by lia. subst. reflexivity.
Qed.
