(* C13 — epoch samplers (src/pydrobert/torch/_dataloaders.py:
   AbstractEpochSampler, EpochRandomSampler, EpochSequentialSampler).

   Executable model of what the code does.  No proofs in this file.

   The permutation NumPy draws for (base_seed, epoch) is *data* here: the
   iterator takes an oracle [order : nat -> list nat] (epoch |-> the order
   [get_samples_for_epoch_ignoring_distributed] returns).  The correspondence
   harness supplies NumPy's actual permutation; the theorems only assume it is
   a list of the right length (and, where stated, duplicate-free). *)
From Coq Require Import List Arith Bool.
Import ListNotations.

Inductive uneven := Raise | Drop | Uneven | Ignore.

Record sampler := mkSampler
  { total : nat; eff : nat; rank : nat; world : nat; epoch : nat }.

(* AbstractEpochSampler.__init__.  [dist = Some (rank, world)] when
   torch.distributed is available, initialised and get_rank() >= 0.
   [None] is the ValueError of the "raise" setting. *)
Definition init (n : nat) (dist : option (nat * nat)) (m : uneven) (e0 : nat)
  : option sampler :=
  match m, dist with
  | Ignore, _ => Some (mkSampler n n 0 1 e0)
  | _, None => Some (mkSampler n n 0 1 e0)
  | _, Some (r, w) =>
      if Nat.eqb (n mod w) 0 then Some (mkSampler n n r w e0)
      else match m with
           | Raise => None
           | Drop => Some (mkSampler n (n - n mod w) r w e0)
           | _ => Some (mkSampler n n r w e0)
           end
  end.

(* __len__: (effective_total - rank + world_size - 1) // world_size *)
Definition len (s : sampler) : nat := (eff s + world s - 1 - rank s) / world s.

(* itertools.islice(it, start, stop, step) on a list *)
Fixpoint stride {A} (w k : nat) (l : list A) : list A :=
  match l with
  | [] => []
  | x :: t => match k with
              | 0 => x :: stride w (w - 1) t
              | S k' => stride w k' t
              end
  end.

Definition islice {A} (l : list A) (start stop step : nat) : list A :=
  stride step 0 (skipn start (firstn stop l)).

(* get_samples_for_epoch, given the epoch's order ignoring distribution *)
Definition samples (s : sampler) (order : list nat) : list nat :=
  islice order (rank s) (eff s) (world s).

(* __iter__: yields the current epoch's samples and increments the epoch *)
Definition next (order : nat -> list nat) (s : sampler) : list nat * sampler :=
  (samples s (order (epoch s)),
   mkSampler (total s) (eff s) (rank s) (world s) (S (epoch s))).

Fixpoint iterate (order : nat -> list nat) (k : nat) (s : sampler)
  : list (list nat) * sampler :=
  match k with
  | 0 => ([], s)
  | S k' => let '(y, s') := next order s in
            let '(ys, s'') := iterate order k' s' in (y :: ys, s'')
  end.

(* EpochSequentialSampler's order *)
Definition seq_order (n : nat) (_ : nat) : list nat := seq 0 n.

(* ---- correspondence entry point -------------------------------------- *)
(* One case: constructor arguments, number of epochs already consumed by
   iteration, the orders of the epochs e0 .. e0+k (supplied by the harness
   from NumPy / range), and what the implementation returned:
   None = ValueError; Some (len, yields for k+1 successive __iter__ calls). *)
Definition list_eqb := fun (a b : list nat) => if list_eq_dec Nat.eq_dec a b then true else false.

Definition run (n : nat) (dist : option (nat * nat)) (m : uneven) (e0 : nat)
  (orders : list (list nat)) : option (nat * list (list nat)) :=
  match init n dist m e0 with
  | None => None
  | Some s =>
      let order := fun e => nth (e - e0) orders [] in
      Some (len s, fst (iterate order (length orders) s))
  end.

Definition out_eqb (a b : option (nat * list (list nat))) : bool :=
  match a, b with
  | None, None => true
  | Some (l1, y1), Some (l2, y2) =>
      Nat.eqb l1 l2 &&
      (if list_eq_dec (list_eq_dec Nat.eq_dec) y1 y2 then true else false)
  | _, _ => false
  end.

Definition check n dist m e0 orders (impl : option (nat * list (list nat))) : bool :=
  out_eqb (run n dist m e0 orders) impl.
