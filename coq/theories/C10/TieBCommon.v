(* C10, second source tie — common machinery for the symbolic runs of PV.Gen.C10BSrc.slice_body under SrcRunB.extB:
   encoding facts, the one-statement-at-a-time executor, lookups in a state of which only some variables are known
   (the branches of the function assign their temporaries in different orders), Python-number facts. *)
From Coq Require Import ZArith QArith List String Bool Arith Lia ZifyBool ZifyNat.
From PV Require Import MiniPy.Syntax MiniPy.Interp MiniTorch.Ops MiniTorch.Value MiniTorch.Lemmas.
From PV Require Import MiniTorch.OpsC10 MiniTorch.ValueC10 MiniTorch.LemmasC10 MiniTorch.OpsC10B MiniTorch.LemmasC10B.
From PV Require Import C10.SrcRun C10.SrcRunB.
Import ListNotations.
Local Open Scope string_scope.

(* ---- encoding ---- *)
Lemma dec_cells_enc : forall d, dec_cells (map enc_cell d) = Some d.
Proof. induction d as [|c d IH]; [reflexivity|]. destruct c; cbn [map enc_cell dec_cells]; now rewrite IH. Qed.

Lemma dec10_enc10 : forall t, dec10 (enc10 t) = Some t.
Proof.
  intros [sh d]. unfold dec10, enc10, enc_shape. cbn [ishape idata]. rewrite String.eqb_refl, dec_nats_enc, dec_cells_enc.
  reflexivity.
Qed.

Lemma operand_enc10 : forall t, operand (enc10 t) = Some t.
Proof.
  intros t. unfold operand.
  change (enc10 t) with (VTuple [VStr itensor_tag; VList (enc_shape (ishape t)); VList (map enc_cell (idata t))]) at 1.
  cbv beta iota. apply dec10_enc10.
Qed.

Lemma on1_enc : forall why t k st, on1 why (enc10 t) k st = ret10 why (k t) st.
Proof. intros. unfold on1. now rewrite dec10_enc10. Qed.
Lemma on2_enc : forall why t u k st, on2 why (enc10 t) (enc10 u) k st = ret10 why (k t u) st.
Proof. intros. unfold on2. now rewrite !operand_enc10. Qed.
Lemma on2_enc_int : forall why t z k st, on2 why (enc10 t) (VInt z) k st = ret10 why (k t (scalar_int z)) st.
Proof. intros. unfold on2. now rewrite operand_enc10. Qed.
Lemma ret10_some : forall why t st, ret10 why (Some t) st = Ok (enc10 t) st.
Proof. reflexivity. Qed.

Lemma method_enc10 : forall t m args, method (enc10 t) m args = None.
Proof. reflexivity. Qed.
Lemma attribute_enc10 : forall ext t a st, attribute ext (enc10 t) a st = ext ("$attr." ++ a) [enc10 t] [] st.
Proof. reflexivity. Qed.
Lemma foreign_enc10 : forall t, foreign (enc10 t) = true.
Proof. reflexivity. Qed.
Lemma subscript_enc10 : forall t k st, subscript (enc10 t) (VTuple k) st = Stuck "subscript".
Proof. reflexivity. Qed.
Lemma binop_enc10_l : forall op t v st, binop_eval op (enc10 t) v st = Stuck (binop_name op) \/ True.
Proof. intros. now right. Qed.
Lemma is_slice_enc10 : forall t, is_slice (enc10 t) = None.
Proof. reflexivity. Qed.
Lemma dec_index_enc10 : forall t, dec_index (enc10 t) = None.
Proof. reflexivity. Qed.

(* ---- one statement at a time ---- *)
Definition then_ (b : stmt) : ctl -> state -> outcome ctl :=
  fun c st1 => match c with CNormal => exec extB b st1 | CReturn v => Ok c st1 end.
Lemma exec_seq' : forall a b st, exec extB (SSeq a b) st = bind (exec extB a st) (then_ b).
Proof. reflexivity. Qed.
Lemma then_normal : forall b st, then_ b CNormal st = exec extB b st.
Proof. reflexivity. Qed.
Lemma then_return : forall b v st, then_ b (CReturn v) st = Ok (CReturn v) st.
Proof. reflexivity. Qed.

Lemma run_of_exec : forall body vars v st,
  exec extB body (mkState vars []) = Ok (CReturn v) st -> Interp.run extB body vars = Ok v st.
Proof. intros body vars v st H. unfold Interp.run. now rewrite H. Qed.

Lemma run_of_exc : forall body vars n st,
  exec extB body (mkState vars []) = Exc n st -> Interp.run extB body vars = Exc n st.
Proof. intros body vars n st H. unfold Interp.run. now rewrite H. Qed.

Fixpoint drop_seq (k : nat) (s : stmt) : stmt :=
  match k, s with S k', SSeq _ b => drop_seq k' b | _, _ => s end.

(* ---- variables ---- *)
Lemma lookup_update : forall x y v l, lookup x (update y v l) = if String.eqb x y then Some v else lookup x l.
Proof.
  intros x y v l. induction l as [|[z w] l IH]; cbn [update lookup].
  - destruct (String.eqb x y); reflexivity.
  - destruct (String.eqb y z) eqn:E; cbn [lookup].
    + apply String.eqb_eq in E. subst z. destruct (String.eqb x y); reflexivity.
    + destruct (String.eqb x z) eqn:E2; [|exact IH].
      apply String.eqb_eq in E2. subst z. rewrite String.eqb_sym in E. now rewrite E.
Qed.

(* ---- Python numbers ---- *)
Lemma q_cmp_inj : forall op a b, q_cmp op (inject_Z a) (inject_Z b) =
  match op with Lt => (a <? b)%Z | LtE => (a <=? b)%Z | Gt => (a >? b)%Z | GtE => (a >=? b)%Z | _ => false end.
Proof.
  intros op a b. unfold q_cmp, Qcompare. cbn [Qnum Qden inject_Z]. rewrite !Z.mul_1_r.
  destruct op; try reflexivity; unfold Z.ltb, Z.leb, Z.gtb, Z.geb; destruct (a ?= b)%Z; reflexivity.
Qed.

Lemma cmp_eval_int : forall op a b, rich op = true ->
  cmp_eval op (VInt a) (VInt b) =
  Some match op with Lt => (a <? b)%Z | LtE => (a <=? b)%Z | Gt => (a >? b)%Z | GtE => (a >=? b)%Z
              | Eq => (a =? b)%Z | _ => negb (a =? b)%Z end.
Proof. intros op a b H. destruct op; try discriminate; cbn [cmp_eval val_eqb as_q]; try rewrite q_cmp_inj; reflexivity. Qed.

Lemma max_int : forall a b st, extreme_of true [VInt a; VInt b] st = Ok (VInt (Z.max a b)) st.
Proof.
  intros. unfold extreme_of, q_extreme. rewrite (cmp_eval_int Gt b a eq_refl).
  destruct (b >? a)%Z eqn:E; do 2 f_equal; lia.
Qed.

Lemma min_int : forall a b st, extreme_of false [VInt a; VInt b] st = Ok (VInt (Z.min a b)) st.
Proof.
  intros. unfold extreme_of, q_extreme. rewrite (cmp_eval_int Lt b a eq_refl).
  destruct (b <? a)%Z eqn:E; do 2 f_equal; lia.
Qed.

(* ---- shapes ---- *)
Lemma ndim_of_shape : forall x s, ishape x = s -> ndim x = List.length s.
Proof. intros x s Hs. unfold ndim. now rewrite Hs. Qed.

Lemma size_of_shape : forall x s z k, ishape x = s -> wrap_dim (List.length s) z = Some k ->
  OpsC10.size x z = Some (nth k s 0%nat).
Proof. intros x s z k Hs Hk. unfold OpsC10.size, ndim. now rewrite Hs, Hk. Qed.
