(* MiniTorch, unit C07B - the algebra of OpsC07B.v needed by the second C07 tie (no new definitions of meaning): each
   operation on tabulated arguments of the ranks `ctc_greedy_search`, `random_walk_advance` and
   `_sequence_log_probs_ps` meet. *)
From Coq Require Import List ZArith QArith Bool Arith Lia.
From Coq Require String.
From PV Require Import MiniPy.Syntax MiniTorch.Ops MiniTorch.Lemmas MiniTorch.OpsC07 MiniTorch.LemmasC07 MiniTorch.OpsC07B.
Import ListNotations.
Local Open Scope nat_scope.

(* ---- tabulated data -------------------------------------------------------------------------------------------- *)
Lemma tab2_col1 : forall {X} N (F : nat -> nat -> X), tab2 N 1 F = map (fun n => F n 0) (seq 0 N).
Proof. intros. unfold tab2. cbn [seq map]. apply flat_map_singleton. Qed.

Lemma tab1_as_tab2 : forall {X} N (F : nat -> X), map F (seq 0 N) = tab2 N 1 (fun n _ => F n).
Proof. intros. now rewrite tab2_col1. Qed.

Lemma tab3_inner1 : forall {X} A B (F : nat -> nat -> nat -> X), tab3 A B 1 F = tab2 A B (fun a b => F a b 0).
Proof.
  intros. unfold tab3, tab2. apply flat_map_ext_seq. intros a Ha. cbn [seq map]. apply flat_map_singleton.
Qed.

Lemma tab2_as_map : forall {X} N T (G : nat -> X), map G (seq 0 (N * T)) = tab2 N T (fun n t => G (n * T + t)).
Proof. intros. unfold tab2. apply seq_mul. Qed.

Lemma length_tab2 : forall {X} N T (f : nat -> nat -> X), length (tab2 N T f) = N * T.
Proof. intros. unfold tab2. apply length_plane. Qed.

Lemma nth_tab2' : forall {X} N T (f : nat -> nat -> X) n t d, n < N -> t < T -> nth ((n * T + t) * 1 + 0) (tab2 N T f) d = f n t.
Proof. intros. replace ((n * T + t) * 1 + 0) with (n * T + t) by lia. now apply nth_tab2. Qed.

Lemma forallb_tab2 : forall {X} (p : X -> bool) N T f,
  (forall n t, n < N -> t < T -> p (f n t) = true) -> forallb p (tab2 N T f) = true.
Proof.
  intros X p N T f H. apply forallb_forall. intros x Hx. unfold tab2 in Hx.
  apply in_flat_map in Hx. destruct Hx as [n [Hn Hx]]. apply in_map_iff in Hx. destruct Hx as [t [<- Ht]].
  apply in_seq in Hn, Ht. apply H; lia.
Qed.

Lemma forallb_map_seq : forall {X} (p : X -> bool) N f, (forall n, n < N -> p (f n) = true) -> forallb p (map f (seq 0 N)) = true.
Proof.
  intros X p N f H. apply forallb_forall. intros x Hx. apply in_map_iff in Hx. destruct Hx as [n [<- Hn]].
  apply in_seq in Hn. apply H. lia.
Qed.

Lemma tab2_rows : forall {X} N T (f : nat -> nat -> X), tab2 N T f = concat (map (fun n => map (f n) (seq 0 T)) (seq 0 N)).
Proof. intros. unfold tab2. now rewrite flat_map_concat_map. Qed.

(* ---- shape / data movement ---------------------------------------------------------------------------------------- *)
Lemma transpose01_3 : forall {X} (d : X) A B C g,
  transpose01 d (mkTn [A; B; C] (tab3 A B C g)) = Some (mkTn [B; A; C] (tab3 B A C (fun j i k => g i j k))).
Proof.
  intros. unfold transpose01. cbn [shp dat numel]. do 2 f_equal. apply tab3_ext. intros j i k Hj Hi Hk. now apply nth_tab3.
Qed.

Lemma transpose01_2 : forall {X} (d : X) A B g,
  transpose01 d (mkTn [A; B] (tab2 A B g)) = Some (mkTn [B; A] (tab2 B A (fun j i => g i j))).
Proof.
  intros. unfold transpose01. cbn [shp dat numel]. rewrite tab3_inner1. do 2 f_equal. apply tab2_ext.
  intros j i Hj Hi. now apply nth_tab2'.
Qed.

(* x[:, 1:] *)
Lemma slice_cols_from1 : forall {X} (d : X) N T g,
  slice_cols d (mkTn [N; T] (tab2 N T g)) (Some 1%Z) None = Some (mkTn [N; T - 1] (tab2 N (T - 1) (fun n j => g n (S j)))).
Proof.
  intros. unfold slice_cols. cbn [shp dat norm_bound]. change (1 <? 0)%Z with false. cbv iota.
  change (Z.to_nat 1) with 1. replace (T - Nat.min T 1) with (T - 1) by lia. do 2 f_equal.
  apply tab2_ext. intros n j Hn Hj. replace (Nat.min T 1) with 1 by lia.
  replace (n * T + (1 + j)) with (n * T + S j) by lia. apply nth_tab2; lia.
Qed.

(* x[:, :-1] *)
Lemma slice_cols_to_m1 : forall {X} (d : X) N T g,
  slice_cols d (mkTn [N; T] (tab2 N T g)) None (Some (-1)%Z) = Some (mkTn [N; T - 1] (tab2 N (T - 1) (fun n j => g n j))).
Proof.
  intros. unfold slice_cols. cbn [shp dat norm_bound]. change (-1 <? 0)%Z with true. cbv iota.
  replace (Z.to_nat (Z.max 0 (-1 + Z.of_nat T)) - 0) with (T - 1) by lia. do 2 f_equal.
  apply tab2_ext. intros n j Hn Hj. cbn [Nat.add]. apply nth_tab2; lia.
Qed.

(* x[:, :1] *)
Lemma slice_cols_to1 : forall {X} (d : X) N T g,
  slice_cols d (mkTn [N; T] (tab2 N T g)) None (Some 1%Z) = Some (mkTn [N; Nat.min T 1] (tab2 N (Nat.min T 1) (fun n j => g n j))).
Proof.
  intros. unfold slice_cols. cbn [shp dat norm_bound]. change (1 <? 0)%Z with false. cbv iota.
  change (Z.to_nat 1) with 1. rewrite Nat.sub_0_r. do 2 f_equal.
  apply tab2_ext. intros n j Hn Hj. cbn [Nat.add]. apply nth_tab2; lia.
Qed.

(* torch.cat([x[:, :1], y], 1) with y of T - 1 columns: T columns again *)
Lemma cat2_first_rest : forall {X} (d : X) N T g1 g2,
  cat2 d (mkTn [N; Nat.min T 1] (tab2 N (Nat.min T 1) g1)) (mkTn [N; T - 1] (tab2 N (T - 1) g2)) 1 =
  Some (mkTn [N; T] (tab2 N T (fun n j => if j <? 1 then g1 n j else g2 n (j - 1)))).
Proof.
  intros. unfold cat2. cbn [shp dat]. change (wrap_dim 2 1) with (Some 1). cbv iota. rewrite Nat.eqb_refl.
  replace (Nat.min T 1 + (T - 1)) with T by lia. do 2 f_equal.
  apply tab2_ext. intros n j Hn Hj.
  destruct (Nat.ltb_spec j (Nat.min T 1)), (Nat.ltb_spec j 1); try lia.
  - apply nth_tab2; lia.
  - replace (j - Nat.min T 1) with (j - 1) by lia. apply nth_tab2; lia.
Qed.

(* torch.cat([y (S x N), row (1 x N)], 0) *)
Lemma cat2_rows : forall {X} (d : X) R N g1 g2,
  cat2 d (mkTn [R; N] (tab2 R N g1)) (mkTn [1; N] (tab2 1 N g2)) 0 =
  Some (mkTn [R + 1; N] (tab2 (R + 1) N (fun r n => if r <? R then g1 r n else g2 0 n))).
Proof.
  intros. unfold cat2. cbn [shp dat]. change (wrap_dim 2 0) with (Some 0). cbv iota. rewrite Nat.eqb_refl.
  do 2 f_equal. unfold tab2. rewrite seq_app, flat_map_app. f_equal.
  - apply flat_map_ext_seq. intros r Hr. replace (r <? R) with true by (symmetry; apply Nat.ltb_lt; lia). reflexivity.
  - cbn [seq flat_map Nat.add]. rewrite Nat.ltb_irrefl. reflexivity.
Qed.

(* ---- element-wise ------------------------------------------------------------------------------------------------- *)
(* arange(T).unsqueeze(0) < lens.unsqueeze(1): (1 x T) against (N x 1) *)
Lemma lt_t_row_col : forall N T (f g : nat -> Z),
  lt_t (mkTn [1; T] (map f (seq 0 T))) (mkTn [N; 1] (map g (seq 0 N))) =
  Some (mkTn [N; T] (tab2 N T (fun n t => Z.ltb (f t) (g n)))).
Proof.
  intros. unfold lt_t, broadcast. cbn [rank shp dat length Nat.max pad_shape Nat.sub repeat app].
  cbn [bc_shape bc_data]. rewrite !bdim_1_l, !bdim_1_r. do 2 f_equal.
  unfold tab2. apply flat_map_ext_seq. intros n Hn.
  rewrite <- (flat_map_singleton (fun t => Z.ltb (f t) (g n))). apply flat_map_ext_seq. intros t Ht.
  change (bidx 1 n) with 0. change (bidx 1 t) with 0.
  rewrite (bidx_same N n), (bidx_same T t) by assumption.
  f_equal. f_equal.
  - replace ((0 * 1 + 0) * T + t) with t by lia. now apply nth_map_seq.
  - replace ((0 * N + n) * 1 + 0) with n by lia. now apply nth_map_seq.
Qed.

(* arange(N).unsqueeze(1) < batch_sizes: (N x 1) against (L) *)
Lemma lt_t_col_vec : forall N L (f g : nat -> Z),
  lt_t (mkTn [N; 1] (map f (seq 0 N))) (mkTn [L] (map g (seq 0 L))) =
  Some (mkTn [N; L] (tab2 N L (fun n t => Z.ltb (f n) (g t)))).
Proof.
  intros. unfold lt_t, broadcast. cbn [rank shp dat length Nat.max pad_shape Nat.sub repeat app].
  cbn [bc_shape bc_data]. rewrite !bdim_1_l, !bdim_1_r. do 2 f_equal.
  unfold tab2. apply flat_map_ext_seq. intros n Hn.
  rewrite <- (flat_map_singleton (fun t => Z.ltb (f n) (g t))). apply flat_map_ext_seq. intros t Ht.
  change (bidx 1 n) with 0. change (bidx 1 t) with 0.
  rewrite (bidx_same N n), (bidx_same L t) by assumption.
  f_equal. f_equal.
  - replace ((0 * N + n) * 1 + 0) with n by lia. now apply nth_map_seq.
  - replace ((0 * 1 + 0) * L + t) with t by lia. now apply nth_map_seq.
Qed.

(* ---- reductions ------------------------------------------------------------------------------------------------------ *)
Lemma row_of_tab3 : forall {X} (d : X) N T V f n t, n < N -> t < T ->
  row_of d V (tab3 N T V f) (n * T + t) = map (f n t) (seq 0 V).
Proof. intros. unfold row_of. apply map_ext_seq. intros v Hv. now apply nth_tab3. Qed.

Lemma row_of_tab2 : forall {X} (d : X) N V f n, n < N -> row_of d V (tab2 N V f) n = map (f n) (seq 0 V).
Proof. intros. unfold row_of. apply map_ext_seq. intros v Hv. now apply nth_tab2. Qed.

Lemma max_last_3 : forall N T V f, V <> 0 ->
  max_last (mkTn [N; T; V] (tab3 N T V f)) 2 =
  Some (Some (mkTn [N; T] (tab2 N T (fun n t => fst (xargmax (map (f n t) (seq 0 V))))),
              mkTn [N; T] (tab2 N T (fun n t => Z.of_nat (snd (xargmax (map (f n t) (seq 0 V)))))))).
Proof.
  intros N T V f HV. unfold max_last. cbn [rank shp dat length]. change (wrap_dim 3 2) with (Some 2).
  cbn [Nat.eqb last removelast numel]. replace (V =? 0) with false by (symmetry; now apply Nat.eqb_neq).
  rewrite !tab2_as_map. do 3 f_equal; f_equal; apply tab2_ext; intros n t Hn Ht; now rewrite row_of_tab3.
Qed.

Lemma sum_long_2 : forall N T g,
  sum_long (mkTn [N; T] (tab2 N T g)) 1 =
  Some (mkTn [N] (map (fun n => fold_right Z.add 0%Z (map (g n) (seq 0 T))) (seq 0 N))).
Proof.
  intros. unfold sum_long. cbn [rank shp dat length]. change (wrap_dim 2 1) with (Some 1).
  cbv beta iota zeta. cbn [outer extent inner drop_dim firstn skipn nth numel app]. rewrite tab2_col1. do 2 f_equal.
  apply map_ext_seq. intros n Hn. f_equal. unfold fibre. apply map_ext_seq. intros t Ht. now apply nth_tab2'.
Qed.

Lemma sum_dim_2 : forall N T g,
  sum_dim (mkTn [N; T] (tab2 N T g)) 1 =
  Some (mkTn [N] (map (fun n => fold_right xadd xzero (map (g n) (seq 0 T))) (seq 0 N))).
Proof.
  intros. unfold sum_dim. cbn [rank shp dat length]. change (wrap_dim 2 1) with (Some 1).
  cbv beta iota zeta. cbn [outer extent inner drop_dim firstn skipn nth numel app]. rewrite tab2_col1. do 2 f_equal.
  apply map_ext_seq. intros n Hn. f_equal. unfold fibre. apply map_ext_seq. intros t Ht. now apply nth_tab2'.
Qed.

Lemma prod_dim_2 : forall N T g, (forall n t, n < N -> t < T -> is_fin (g n t) = true) ->
  prod_dim (mkTn [N; T] (tab2 N T g)) 1 =
  Some (mkTn [N] (map (fun n => fold_right xmul xone (map (g n) (seq 0 T))) (seq 0 N))).
Proof.
  intros N T g H. unfold prod_dim. cbn [rank shp dat length]. change (wrap_dim 2 1) with (Some 1).
  cbv beta iota zeta. cbn [outer extent inner drop_dim firstn skipn nth numel app].
  rewrite forallb_tab2 by assumption. rewrite tab2_col1. do 2 f_equal.
  apply map_ext_seq. intros n Hn. f_equal. unfold fibre. apply map_ext_seq. intros t Ht. now apply nth_tab2'.
Qed.
