(* C14, second tie - ContextWindowDataSet.get_windowed_utterance (PV.Gen.C14BWinSrc.get_windowed_utterance): the
   interpreted method - super().get_utterance_tuple(idx)[:2], torch.empty, the loop over the frames that CALLS the
   interpreted extract_window, both suppress_uttids branches - returns the item Model.cw_loader collates:
   (Model.windowed of the features, the alignment, the id), for every utterance with at least one frame. *)
From Coq Require Import ZArith QArith List String Bool Arith Lia.
From PV Require Import C14.Model MiniPy.Syntax MiniPy.Interp MiniPy.Lemmas MiniTorch.OpsC14B MiniTorch.LemmasC14B
  Gen.C14BWinSrc C14.SrcRunB C14.TieBWin.
Import ListNotations.
Local Open Scope string_scope.
Local Open Scope list_scope.

#[local] Arguments Z.of_nat : simpl never.
#[local] Arguments Z.add : simpl never.
#[local] Arguments Z.sub : simpl never.
#[local] Arguments Z.ltb : simpl never.
#[local] Arguments Z.leb : simpl never.
#[local] Arguments Interp.run : simpl never.
#[local] Arguments window_vars : simpl never.
#[local] Arguments new_cube : simpl never.
#[local] Arguments shape2 : simpl never.
#[local] Arguments getitem_slice : simpl never.
#[local] Arguments nat_arg : simpl never.
#[local] Arguments subscript : simpl never.
#[local] Arguments List.length : simpl never.
#[local] Arguments zrange : simpl never.
#[local] Arguments list_set : simpl never.
#[local] Arguments nth : simpl never.
#[local] Arguments Model.windowed : simpl never.
#[local] Arguments Model.extract_window : simpl never.

Lemma zrange0 n : zrange 0 (Z.of_nat n) = map zn (seq 0 n).
Proof.
  unfold zrange. rewrite Z.sub_0_r, Nat2Z.id. apply map_ext. intros i. reflexivity.
Qed.

Lemma list_set_app_mid (a : list val) x (b : list val) v :
  list_set (a ++ x :: b) (List.length a) v = a ++ v :: b.
Proof. induction a as [|y a IH]; [reflexivity|]. cbn [app]. change (List.length (y :: a)) with (S (List.length a)).
  cbn [list_set]. unfold list_set in *. fold list_set in *. rewrite IH. reflexivity. Qed.

(* the loop body: window[center_frame] = extract_window(feat, center_frame, self.left, self.right, reverse=self.reverse) *)
Definition gw_body : stmt :=
  match get_windowed_utterance with SSeq _ (SSeq _ (SSeq _ (SSeq (SFor _ _ b) _))) => b | _ => SPass end.

Section Loop.
  Variable junk : nat -> nat -> val.
  Variables (W : nat) (ds : list utt) (left right : nat) (reverse suppress : bool).
  Variables (idxv t1 ali t2 nf nfl : val) (F : list val).
  Hypothesis Hok : rows_ok F.
  Let self := cw_self W ds left right reverse suppress.

  Definition gw_vars (L : list val) (cf : option val) : list (string * val) :=
    [("self", self); ("idx", idxv); ("$t1", t1); ("feat", VList F); ("ali", ali); ("$t2", t2);
     ("num_frames", nf); ("num_filts", nfl); ("window", VList L)]
    ++ match cf with None => [] | Some c => [("center_frame", c)] end.

  Lemma body_exec L cf k : (k < List.length F)%nat -> (k < List.length L)%nat ->
    exec (extB junk) gw_body (set_var "center_frame" (zn k) (mkState (gw_vars L cf) []))
    = Ok CNormal (mkState (gw_vars (list_set L k (VList (Model.extract_window VNone F k left right reverse)))
                                   (Some (zn k))) []).
  Proof.
    intros Hk HL. destruct (window_run junk F k left right reverse Hok Hk) as [stw Hw].
    unfold gw_body, get_windowed_utterance, gw_vars, self, cw_self.
    destruct cf; cbn; rewrite Hw; cbn.
    all: destruct (Z.ltb_spec (Z.of_nat k) 0); [lia|].
    all: destruct (Z.leb_spec 0 (Z.of_nat k)); [|lia].
    all: destruct (Z.ltb_spec (Z.of_nat k) (Z.of_nat (List.length L))); [|lia].
    all: cbn; rewrite Nat2Z.id; reflexivity.
  Qed.

  (* the loop: after the frames k .. k+n-1 the first k+n slots hold the model's windows, the rest is untouched *)
  Lemma loop_exec n : forall k (done rest : list val) cf,
    List.length done = k -> List.length rest = n -> (k + n <= List.length F)%nat ->
    exists cf',
      for_loop (extB junk) "center_frame" gw_body (map zn (seq k n)) (mkState (gw_vars (done ++ rest) cf) [])
      = Ok CNormal (mkState (gw_vars (done ++ map (fun c => VList (Model.extract_window VNone F c left right reverse))
                                                   (seq k n)) cf') []).
  Proof.
    induction n as [|n IH]; intros k done rest cf Hd Hr Hle.
    - destruct rest; [|discriminate]. exists cf. reflexivity.
    - destruct rest as [|x rest]; [discriminate|]. cbn [seq map for_loop].
      rewrite body_exec by (try rewrite app_length; unfold List.length in *; fold (@List.length val) in *; lia).
      cbn [bind]. rewrite <- Hd, list_set_app_mid.
      replace (done ++ VList (Model.extract_window VNone F (List.length done) left right reverse) :: rest)
        with ((done ++ [VList (Model.extract_window VNone F (List.length done) left right reverse)]) ++ rest)
        by (rewrite <- app_assoc; reflexivity).
      destruct (IH (S (List.length done)) (done ++ [VList (Model.extract_window VNone F (List.length done) left right reverse)])
                   rest (Some (zn (List.length done)))) as [cf' H].
      + rewrite app_length. unfold List.length at 2. lia.
      + injection Hr as Hr. exact Hr.
      + lia.
      + exists cf'. rewrite H. rewrite <- app_assoc. reflexivity.
  Qed.
End Loop.

(* ---- the whole method ------------------------------------------------------------------------------------------------ *)
Definition gw_h1 : stmt := match get_windowed_utterance with SSeq a _ => a | _ => SPass end.
Definition gw_h2 : stmt := match get_windowed_utterance with SSeq _ (SSeq a _) => a | _ => SPass end.
Definition gw_h3 : stmt := match get_windowed_utterance with SSeq _ (SSeq _ (SSeq a _)) => a | _ => SPass end.
Definition gw_iter : expr :=
  match get_windowed_utterance with SSeq _ (SSeq _ (SSeq _ (SSeq (SFor _ e _) _))) => e | _ => EConst VNone end.
Definition gw_ret : stmt :=
  match get_windowed_utterance with SSeq _ (SSeq _ (SSeq _ (SSeq _ r))) => r | _ => SPass end.

Lemma gw_split : get_windowed_utterance
  = SSeq gw_h1 (SSeq gw_h2 (SSeq gw_h3 (SSeq (SFor "center_frame" gw_iter gw_body) gw_ret))).
Proof. reflexivity. Qed.

Lemma nth_map_enc {A} (f : A -> val) (l : list A) d i : (i < List.length l)%nat ->
  nth i (map f l) VNone = f (nth i l d).
Proof. intros H. rewrite (nth_indep _ VNone (f d)) by (rewrite map_length; exact H). apply map_nth. Qed.

Lemma getitem_to2 a b c d :
  getitem_slice (VTuple [a; b; c; d]) (VTuple [VStr "$slice"; VNone; VInt 2; VNone]) = Some (VTuple [a; b]).
Proof. reflexivity. Qed.

Lemma sub_tuple_key l k st : subscript (VTuple l) (VTuple k) st = Stuck "subscript".
Proof. reflexivity. Qed.

Lemma sub_list_nat l i st : (i < List.length l)%nat ->
  subscript (VList l) (VInt (Z.of_nat i)) st = Ok (nth i l VNone) st.
Proof.
  intros H. unfold subscript.
  destruct (Z.ltb_spec (Z.of_nat i) 0); [lia|].
  destruct (Z.leb_spec 0 (Z.of_nat i)); [|lia].
  destruct (Z.ltb_spec (Z.of_nat i) (Z.of_nat (List.length l))); [|lia].
  cbn [andb]. rewrite Nat2Z.id. reflexivity.
Qed.

Theorem windowed_tie junk W (ds : list utt) left right reverse suppress i :
  (i < List.length ds)%nat -> u_feat (nth i ds dflt_utt) <> [] ->
  let u := nth i ds dflt_utt in
  exists st', src_windowed junk W ds left right reverse suppress i
              = Ok (enc_cw_item suppress (Model.windowed [] (u_feat u) left right reverse, u_ali u, u_id u)) st'.
Proof.
  intros Hi Hne u. unfold src_windowed, Interp.run. rewrite gw_split.
  set (self := cw_self W ds left right reverse suppress).
  set (featv := map enc_row (u_feat u)).
  set (aliv := enc_opt enc_row (u_ali u)).
  (* feat, ali = super().get_utterance_tuple(idx)[:2] *)
  assert (H1 : exec (extB junk) gw_h1 (mkState [("self", self); ("idx", zn i)] [])
               = Ok CNormal (mkState [("self", self); ("idx", zn i); ("$t1", VTuple [VList featv; aliv]);
                                      ("feat", VList featv); ("ali", aliv)] [])).
  { unfold gw_h1, get_windowed_utterance, self, cw_self, zn. cbn.
    destruct (Z.leb_spec 0 (Z.of_nat i)); [|lia].
    destruct (Z.ltb_spec (Z.of_nat i) (Z.of_nat (List.length (map (enc_utt W) ds)))); [|rewrite map_length in *; lia].
    cbn. rewrite Nat2Z.id, (nth_map_enc (enc_utt W) ds dflt_utt i Hi). fold u. unfold enc_utt.
    rewrite sub_tuple_key. cbn. rewrite getitem_to2. cbn. rewrite !sub2_0. cbn. rewrite !sub2_1. cbn. reflexivity. }
  rewrite exec_seq, H1. cbn [bind].
  destruct (u_feat u) as [|r fr] eqn:Ef; [contradiction|].
  set (T := List.length featv). set (Fw := List.length (map VInt r)).
  assert (HT : T = S (List.length fr)) by (unfold T, featv; rewrite map_length; reflexivity).
  (* num_frames, num_filts = feat.shape *)
  set (vars2 := [("self", self); ("idx", zn i); ("$t1", VTuple [VList featv; aliv]); ("feat", VList featv); ("ali", aliv);
                 ("$t2", VTuple [VInt (Z.of_nat T); VInt (Z.of_nat Fw)]); ("num_frames", VInt (Z.of_nat T));
                 ("num_filts", VInt (Z.of_nat Fw))]).
  assert (H2 : exec (extB junk) gw_h2 (mkState [("self", self); ("idx", zn i); ("$t1", VTuple [VList featv; aliv]);
                                                ("feat", VList featv); ("ali", aliv)] [])
               = Ok CNormal (mkState vars2 [])).
  { unfold gw_h2, get_windowed_utterance, vars2. cbn.
    rewrite (shape2_rows _ _ (cells_ints r)). cbn. rewrite sub2_0. cbn. rewrite sub2_1. cbn.
    unfold T, featv, Fw. rewrite !map_length. reflexivity. }
  rewrite exec_seq, H2. cbn [bind].
  (* window = torch.empty(num_frames, 1 + self.left + self.right, num_filts) *)
  set (J := map (fun a => VList (map (fun j => junk_row junk (a * (1 + left + right) + j) Fw) (seq 0 (1 + left + right)))) (seq 0 T)).
  assert (H3 : exec (extB junk) gw_h3 (mkState vars2 []) = Ok CNormal (mkState (vars2 ++ [("window", VList J)]) [])).
  { unfold gw_h3, get_windowed_utterance, vars2, self, cw_self, zn. cbn.
    rewrite !nat_arg_pos by lia. cbn. unfold new_cube, J.
    replace (Z.to_nat (1 + Z.of_nat left + Z.of_nat right)) with (1 + left + right)%nat by lia.
    rewrite !Nat2Z.id. reflexivity. }
  rewrite exec_seq, H3. cbn [bind].
  (* the loop *)
  rewrite exec_seq, exec_for.
  assert (H4 : eval (extB junk) gw_iter (mkState (vars2 ++ [("window", VList J)]) [])
               = Ok (VList (map zn (seq 0 T))) (mkState (vars2 ++ [("window", VList J)]) [])).
  { unfold gw_iter, get_windowed_utterance, vars2. cbn. rewrite zrange0. reflexivity. }
  rewrite H4. cbn [bind iter_items container_items].
  assert (Hok : rows_ok featv) by (unfold featv; rewrite <- Ef; apply rows_ok_enc).
  destruct (loop_exec junk W ds left right reverse suppress (zn i) (VTuple [VList featv; aliv]) aliv
              (VTuple [VInt (Z.of_nat T); VInt (Z.of_nat Fw)]) (VInt (Z.of_nat T)) (VInt (Z.of_nat Fw)) featv Hok
              T 0%nat [] J None eq_refl) as [cf' H5].
  { unfold J. rewrite map_length, seq_length. reflexivity. }
  { fold T. lia. }
  change (vars2 ++ [("window", VList J)]) with (gw_vars W ds left right reverse suppress (zn i) (VTuple [VList featv; aliv]) aliv
              (VTuple [VInt (Z.of_nat T); VInt (Z.of_nat Fw)]) (VInt (Z.of_nat T)) (VInt (Z.of_nat Fw)) featv ([] ++ J) None).
  rewrite H5. cbn [bind app].
  assert (Hw : map (fun c => VList (Model.extract_window VNone featv c left right reverse)) (seq 0 T)
               = map enc_mat (Model.windowed [] (r :: fr) left right reverse)).
  { unfold Model.windowed. rewrite map_map. unfold T, featv. rewrite map_length. apply map_ext. intros c.
    unfold enc_mat. f_equal. rewrite (extract_window_map enc_row).
    apply extract_window_default. discriminate. }
  rewrite Hw.
  assert (Hid : nth i (map (fun u0 : utt => zn (u_id u0)) ds) VNone = zn (u_id u))
    by (apply (nth_map_enc (fun u0 => zn (u_id u0)) ds dflt_utt i Hi)).
  unfold gw_ret, get_windowed_utterance, gw_vars, self, cw_self, enc_cw_item, enc_cube, zn.
  destruct suppress; destruct cf'; cbn.
  3,4: rewrite sub_list_nat by (rewrite map_length; exact Hi); cbn; unfold zn in Hid; rewrite Hid.
  all: eexists; reflexivity.
Qed.

Lemma nth_map_seq {A} (f : nat -> A) d n : forall s c, (c < n)%nat -> nth c (map f (seq s n)) d = f (s + c)%nat.
Proof.
  induction n as [|n IH]; intros s c Hc; [lia|]. destruct c as [|c].
  - cbn [seq map]. unfold nth. f_equal. lia.
  - cbn [seq map]. change (nth (S c) (f s :: map f (seq (S s) n)) d) with (nth c (map f (seq (S s) n)) d).
    rewrite IH by lia. f_equal. lia.
Qed.

(* composed with the model's window theorems: purely about the interpreted method - it returns ONE window per frame
   of the utterance, the c-th being the edge-replicated window around frame c, together with the utterance's own
   alignment and id: no frame is lost, none duplicated *)
Theorem source_windowed_every_frame_once junk W (ds : list utt) left right reverse suppress i :
  (i < List.length ds)%nat -> u_feat (nth i ds dflt_utt) <> [] ->
  let u := nth i ds dflt_utt in
  exists st' ws,
    src_windowed junk W ds left right reverse suppress i = Ok (enc_cw_item suppress (ws, u_ali u, u_id u)) st' /\
    List.length ws = List.length (u_feat u) /\
    forall c k, (c < List.length (u_feat u))%nat -> (k < 1 + left + right)%nat ->
      nth k (nth c ws []) []
      = nth (C14.Spec.clamp_frame (List.length (u_feat u)) c left (if reverse then left + right - k else k)) (u_feat u) [].
Proof.
  intros Hi Hne u. destruct (windowed_tie junk W ds left right reverse suppress i Hi Hne) as [st' H].
  exists st', (Model.windowed [] (u_feat u) left right reverse). split; [exact H|]. split.
  - apply C14.ProofsWindow.windowed_length.
  - intros c k Hc Hk. unfold Model.windowed.
    rewrite nth_map_seq by exact Hc. cbn [Nat.add].
    destruct reverse.
    + apply C14.ProofsWindow.window_nth_reverse; assumption.
    + apply C14.ProofsWindow.window_nth; assumption.
Qed.
