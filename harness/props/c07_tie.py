"""C07 second source tie, harness side: the translated Python text of `ctc_greedy_search`, `random_walk_advance` and
`_sequence_log_probs_ps` (_decoding.py; unit C07BSrc), interpreted inside Coq (PV.C07.SrcRunB: src_greedy_check /
src_adv_check / src_ps_check; torch calls = PV.MiniTorch.OpsC07 + OpsC07B through SrcRunB.ext07B) on the greedy / adv / ps
cases of the run, against the implementation's output.  Validates the translator, MiniPy's semantics, ext07B and the
MiniTorch definitions against CPython + torch on every run; independent of whether the tie lemmas
(coq/theories/C07/TieB*.v) still compile."""
import re
import time

from vlib import cl, cn, co, cp, cz, coq_eval_bools

IMPORTS_SRCB = "From PV Require Import C07.Model C07.Spec.\nFrom PV Require C07.SrcRunB.\n"
SRCB_MAX = {"greedy": 700, "adv": 500, "ps": 500}     # cases evaluated per run and api (evenly spaced sample beyond)
SRCB_THEOREMS = {
    "greedy": ["c07_source_greedy_is_model", "c07_source_greedy_raises", "c07_source_greedy_is_model_Z", "c07_source_greedy_correct"],
    "adv": [],     # executed on every run only (no tie lemma yet)
    "ps": [],      # executed on every run only (no tie lemma yet)
}
WHAT = {
    "greedy": "ctc_greedy_search (whole body; both layouts of every case)",
    "adv": "random_walk_advance (whole body; torch.multinomial = the recorded draw)",
    "ps": "_sequence_log_probs_ps (whole body; hyp time-major with dim 0 and batch-major with dim 1)",
}


def _greedy_term(c07, case, res):
    """SrcRunB.src_greedy_check on exactly the arguments of the model term (check_greedy ...)"""
    for n, t in res.get("terms", []):
        if n == "model" and t.startswith("check_greedy "):
            if case["N"] * case["T"] * case["V"] > 1500:
                return None
            return "SrcRunB.src_greedy_check " + t[len("check_greedy "):]
    return None


def _adv_term(c07, case, res):
    """SrcRunB.src_adv_check S N V y lens yt log_probs_t log_probs_prev (Some (y_next, log_probs_next)): the inputs are
    re-drawn exactly as adv_eval draws them (quarter units as integers, -inf as None); the draw is read from the model term"""
    impl = res.get("impl")
    if not isinstance(impl, dict):
        return None
    m = None
    for n, t in res.get("terms", []):
        if n == "model_advance":
            m = re.match(r"zmat_eqb \(rw_advance (\[.*\]) (\[.*\]) (\[.*\])\) (\[.*\])$", t)
    if m is None:
        return None
    N, V, S, lens = case["N"], case["V"], case["S"], case["lens"]
    r = c07.rnd(case, "adv")
    [[r.randrange(V) for _ in range(N)] for _ in range(S)]
    lpt_l = [[(None if r.random() < case.get("pinf", 0.0) else r.randint(-12, 0)) for _ in range(V)] for _ in range(N)]
    for row in lpt_l:
        if all(v is None for v in row):
            row[r.randrange(V)] = 0
    prev_l = [r.randint(-40, 0) for _ in range(N)]
    lp4 = [x * 4 for x in impl["lp"]]
    if any(x != int(x) for x in lp4):
        return None
    lpt_c = cl([cl([c07.oz(v) for v in row]) for row in lpt_l])
    lens_c = "None" if lens is None else co(c07.lz(lens))
    return (f"SrcRunB.src_adv_check {cn(S)} {cn(N)} {cn(V)} {m.group(1)} {lens_c} {m.group(3)} {lpt_c} {c07.lz(prev_l)} "
            f"{co(cp(m.group(4), c07.lz([int(x) for x in lp4])))}")


def _ps_term(c07, case, res):
    for n, t in res.get("terms", []):
        if n == "model" and t.startswith("check_slp_ps "):
            return "SrcRunB.src_ps_check " + t[len("check_slp_ps "):]
    return None


TERMS = {"greedy": _greedy_term, "adv": _adv_term, "ps": _ps_term}


def source_tieB(chk, cases, results):
    from vlib import CoqError
    from props import c07
    chk.extra["source_tie_B"] = {
        "unit": "C07BSrc (harness/py2coq/units/C07BSrc.json)", "coq": "PV.C07.SrcRunB / PV.C07.TieB*",
        "what": WHAT, "theorems": SRCB_THEOREMS}
    idx, terms = [], []
    for api in ("greedy", "adv", "ps"):
        sel = []
        for i, (c, r) in enumerate(zip(cases, results)):
            if c.get("api") != api:
                continue
            try:
                t = TERMS[api](c07, c, r)
            except Exception:  # noqa: BLE001  (a case the generator itself cannot rebuild is not a verdict here)
                t = None
            if t is not None:
                sel.append((i, t))
        if len(sel) > SRCB_MAX[api]:
            keep = sorted({(k * len(sel)) // SRCB_MAX[api] for k in range(SRCB_MAX[api])})
            sel = [sel[k] for k in keep]
        idx += [i for i, _ in sel]
        terms += [t for _, t in sel]
    if not idx:
        chk.extra["source_tie_B_run"] = {"cases": 0, "disagreements": 0}
        return
    t0 = time.time()
    try:
        res = coq_eval_bools(chk.workdir, IMPORTS_SRCB, terms, shard=40, tag="srcB")
    except CoqError as e:
        chk.extra["source_tie_B_run"] = "not evaluated: " + str(e)[-400:]
        return
    bad = [idx[j] for j, ok in enumerate(res) if not ok]
    per = {api: sum(1 for i in idx if cases[i]["api"] == api) for api in ("greedy", "adv", "ps")}
    chk.extra["source_tie_B_run"] = {
        "cases": len(idx), "per_api": per, "disagreements": len(bad), "wall_s": round(time.time() - t0, 1),
        "greedy": {"is_probs": sum(1 for i in idx if cases[i]["api"] == "greedy" and cases[i]["is_probs"]),
                   "in_lens": sum(1 for i in idx if cases[i]["api"] == "greedy" and cases[i]["lens"] is not None),
                   "raised": sum(1 for i in idx if cases[i]["api"] == "greedy" and isinstance(results[i].get("impl"), str))},
        "adv": {"lens_unset": sum(1 for i in idx if cases[i]["api"] == "adv" and cases[i]["lens"] is None),
                "empty_buffer": sum(1 for i in idx if cases[i]["api"] == "adv" and cases[i]["S"] == 0)},
        "ps": {"with_sorted_indices": sum(1 for i in idx if cases[i]["api"] == "ps" and not cases[i]["sorted"])}}
    chk.count("source_tie_B_cases", len(idx))
    if bad:
        i = bad[0]
        api = cases[i]["api"]
        chk.report({"case": cases[i], "impl": results[i].get("impl"),
                    "what": f"the Python source of {WHAT[api]} as translated to MiniPy and interpreted in Coq "
                            "(PV.C07.SrcRunB, torch calls = PV.MiniTorch.OpsC07 + OpsC07B) does not reproduce the implementation's "
                            "output: translator / interpreter / ext07B / MiniTorch no longer describe the code",
                    "disagreeing_cases": len(bad),
                    "disagreeing_per_api": {a: sum(1 for k in bad if cases[k]["api"] == a) for a in ("greedy", "adv", "ps")},
                    "correspondence": f"tie:C07:py2coq+MiniPy.Interp+MiniTorch:{api}",
                    "theorems_at_stake": SRCB_THEOREMS[api]}, no_failing_input=True)
