(* MiniPy — a deep embedding of the small, loop-light subset of Python in which the
   pure-Python parts of pydrobert-pytorch anchored by C13 / C15 / C16 are written.

   harness/py2coq/translate.py maps a function's `ast` node for node into a [stmt]
   (fail-closed: any construct without a counterpart here aborts the translation);
   Interp.v gives the subset its semantics.  The generated terms live in
   theories/Gen/*.v and are re-generated from /repo's working tree on every run.

   No proofs in this file. *)
From Coq Require Import ZArith QArith List String Bool.
Import ListNotations.

(* ---- values ------------------------------------------------------------------- *)
(* Python float is modelled as an exact rational (DESIGN.md section 3). Objects with
   attributes (self, self.params) are [VDict]s keyed by [VStr]; sets are duplicate-free
   lists in insertion order (only membership / emptiness / the listed operations are
   observable in the translated code). *)
Inductive val :=
| VNone
| VBool (b : bool)
| VInt (z : Z)
| VQ (q : Q)
| VInf (pos : bool)               (* float('inf') / float('-inf') *)
| VStr (s : string)
| VList (l : list val)
| VTuple (l : list val)
| VSet (l : list val)
| VDict (d : list (val * val)).

Inductive binop := Add | Sub | Mul | FloorDiv | Mod | Pow | BitAnd | BitOr | Div (* a / b: true division *).
Inductive cmpop := Eq | NotEq | Lt | LtE | Gt | GtE | In | NotIn | Is | IsNot.

Inductive expr :=
| EConst (v : val)
| EName (x : string)
| EAttr (e : expr) (a : string)                 (* e.a *)
| ESub (e k : expr)                             (* e[k] *)
| EBin (op : binop) (a b : expr)
| ENeg (a : expr)
| ECmp (op : cmpop) (a b : expr)
| EAnd (a b : expr)                             (* Python's: a if not a else b *)
| EOr (a b : expr)
| ENot (a : expr)
| EIfExp (c a b : expr)
| ECall (f : string) (args : list expr) (kw : list (string * expr))
| EMeth (obj : expr) (m : string) (args : list expr) (kw : list (string * expr)) (* obj.m(...) with obj a value *)
| ESetLit (items : list expr)
| EListLit (items : list expr)
| ETupleLit (items : list expr)
| EDictLit (items : list (expr * expr))
| EStar (e : expr)                              (* *e as a positional call argument: the items of e are spliced in *)
| ESorted (e : expr) (x : string) (key : expr)    (* sorted(e, key=lambda x: key); sorted(e) has key = x *)
| EGenCall (f : string) (elt : expr) (x : string) (names : list string) (it : expr) (cond : expr)
    (* f(elt for x in it if cond): a call whose ONLY argument is a generator expression (x / names / cond as for EListComp).
       The generator is consumed LAZILY by f, item by item (Interp.gen_step): all / any stop at the first deciding item
       and never evaluate the later ones. *)
| EListComp (elt : expr) (x : string) (names : list string) (it : expr) (cond : expr).
    (* [elt for x in it if cond]  (names = [], cond = True when there is no `if`);
       [elt for a, b in it if cond]  has x = a fresh "$t.." and names = [a; b]: each item is bound to x and
       unpacked into the names (ValueError unless it has exactly that many components).  The names bound by the
       comprehension are local to it (Python 3): their previous bindings are restored afterwards. *)

(* assignment targets *)
Inductive target :=
| TName (x : string)
| TAttr (obj : expr) (a : string)     (* obj.a = ...   (obj is a name or attribute chain) *)
| TSub (obj : expr) (k : expr).       (* obj[k] = ... *)

Inductive stmt :=
| SPass
| SSeq (a b : stmt)
| SAssign (ts : list target) (e : expr)          (* t1 = t2 = ... = e *)
| SAug (t : target) (op : binop) (e : expr)      (* t op= e *)
| SIf (c : expr) (t f : stmt)
| SFor (x : string) (e : expr) (body : stmt)     (* for x in <list/tuple/set/dict-keys> *)
| SRaise (exc : string)
| SReRaise                                       (* bare `raise` inside an except handler *)
| SReturn (e : expr)
| SAssert (e : expr)
| SExpr (e : expr)                               (* call evaluated for its effects *)
| STry (body handler : stmt)                     (* try: body / except: handler  (catches every exception) *)
| SYield (e : expr)
| SDel (t : target)
| STryExc (body : stmt) (handlers : list (list string * stmt))
    (* try: body / except A: h1 / except (B, C): h2 ...  - the first handler that names the exception runs (a handler
       naming "Exception" / "BaseException" catches every exception); an exception no handler names propagates *)
| SContinue                                      (* `continue`: ends the current iteration of the enclosing SForC *)
| SWith (e : expr) (x : string) (body : stmt)
    (* with e as x: body  (one item, a plain name).  The unit's [ext] is the context manager protocol:
       ext "$enter" [m] gives the value bound to x; ext "$exit" [m; <value of x at the end>; VNone | VStr <exception>] is
       called when the block is left; a truthy answer suppresses the exception. *)
| SForC (x : string) (e : expr) (body : stmt).   (* a `for` whose body contains a `continue` of its own *)
