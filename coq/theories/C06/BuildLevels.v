(* C06 — build_trie_ok, part 3: the allocation loops of _build_trie, level by level.
   [LevOK] is the intermediate specification of the finished buffers: for every level, the
   cells of the parent level hold  first-child-position - own-position  (children counted in
   sorted order), and the cells of the level hold the label / log-probability / back-off of its
   entries in sorted order.  [build_levels_spec]: the model's `while prob_dicts` loop
   establishes it for every well-formed chain of levels. *)
From Coq Require Import List ZArith Bool Arith Lia ZifyBool ZifyNat Permutation Sorted.
From PV Require Import C06.Model C06.Spec C06.Proofs C06.BuildBase C06.BuildSort.
Import ListNotations.
Local Open Scope Z_scope.

(* ---------- small facts about dictionaries --------------------------------------------------------- *)

Lemma dget_some {A} (d : list (list Z * A)) k v : dget d k = Some v -> In (k, v) d.
Proof.
  induction d as [|e d IH]; cbn [dget]; [discriminate|].
  destruct (list_eqb (fst e) k) eqn:E.
  - intros [= <-]. apply list_eqb_eq in E. subst k. left. destruct e; reflexivity.
  - intros H. right. apply IH. assumption.
Qed.

Lemma dget_in {A} (d : list (list Z * A)) k : In k (map fst d) -> dget d k <> None.
Proof.
  induction d as [|e d IH]; cbn [map dget]; intros H; [destruct H|].
  destruct (list_eqb (fst e) k) eqn:E; [discriminate|].
  destruct H as [H|H]; [rewrite H, list_eqb_refl in E; discriminate|]. apply IH. assumption.
Qed.

Lemma dget_nodup {A} (d : list (list Z * A)) k v : NoDup (map fst d) -> In (k, v) d -> dget d k = Some v.
Proof.
  induction d as [|e d IH]; cbn [map dget]; intros Hnd Hin; [destruct Hin|].
  inversion Hnd as [|? ? Hnin Hnd']; subst. destruct Hin as [->|Hin].
  - cbn [fst snd]. rewrite list_eqb_refl. reflexivity.
  - rewrite list_eqb_neq; [apply IH; assumption|].
    intros E. apply Hnin. rewrite E. change k with (fst (k, v)). apply in_map. assumption.
Qed.

Lemma nodup_fst_unique {A} (d : list (list Z * A)) k v v' : NoDup (map fst d) ->
  In (k, v) d -> In (k, v') d -> v = v'.
Proof.
  intros Hnd H1 H2. pose proof (dget_nodup d k v Hnd H1) as E1.
  pose proof (dget_nodup d k v' Hnd H2) as E2. congruence.
Qed.

Lemma removelast_rev (k : list Z) : removelast (rev k) = rev (tl k).
Proof. destruct k as [|x t]; [reflexivity|]. cbn [rev tl]. apply removelast_last. Qed.

Lemma last_rev (k : list Z) d : last (rev k) d = hd d k.
Proof. destruct k as [|x t]; [reflexivity|]. cbn [rev hd]. apply last_last. Qed.

Lemma snoc_removelast_last (k : list Z) : k <> [] -> k = removelast k ++ [last k 0].
Proof. apply app_removelast_last. Qed.

(* ---------- the allocation loop of one level, component by component ---------------------------------- *)

(* absolute position of the parent of entry e (reversed key) *)
Definition ppar (parents : list (list Z * Z)) (ls : Z) (e : list Z * (val * val)) : Z :=
  match dget parents (removelast (fst e)) with Some pr => pr + ls | None => 0 end.

Fixpoint children_from (es : dict) (a : Z) : list (list Z * Z) :=
  match es with [] => [] | e :: r => (fst e, a) :: children_from r (a + 1) end.

Lemma fold_alloc U start ls il parents : forall es st,
  (forall e, In e es -> dget parents (removelast (fst e)) <> None) ->
  fold_left (alloc_one U start ls il parents) es (Some st) =
  Some (mkB (offs_loop (map (ppar parents ls) es) (b_offs st) (b_alloc st))
            (fill (map (fun e => last (fst e) 0) es) (b_ids st) (b_alloc st - U))
            (fill (map (fun e => fst (snd e)) es) (b_lps st) (b_alloc st))
            (if il then b_lbs st else fill (map (fun e => snd (snd e)) es) (b_lbs st) (b_alloc st))
            (b_children st ++ children_from es (b_alloc st - start))
            (b_alloc st + zlen es)).
Proof.
  induction es as [|e es IH]; intros st Hpar.
  - destruct st as [o i p b c a]. cbn. rewrite app_nil_r. destruct il; do 2 f_equal; unfold zlen; cbn; lia.
  - cbn [fold_left].
    destruct (dget parents (removelast (fst e))) as [pr|] eqn:Ed.
    2:{ exfalso. apply (Hpar e (or_introl eq_refl)). assumption. }
    assert (Hstep : alloc_one U start ls il parents (Some st) e =
      Some (mkB (backfill (S (length (b_offs st))) (b_offs st) (pr + ls) (b_alloc st))
                (pyset (b_ids st) (b_alloc st - U) (last (fst e) 0))
                (pyset (b_lps st) (b_alloc st) (fst (snd e)))
                (if il then b_lbs st else pyset (b_lbs st) (b_alloc st) (snd (snd e)))
                (b_children st ++ [(fst e, b_alloc st - start)])
                (b_alloc st + 1))).
    { unfold alloc_one. rewrite Ed. reflexivity. }
    rewrite Hstep.
    rewrite IH by (intros; apply Hpar; right; assumption).
    cbn [b_offs b_ids b_lps b_lbs b_children b_alloc map offs_loop fill children_from].
    assert (Hp : ppar parents ls e = pr + ls) by (unfold ppar; rewrite Ed; reflexivity). rewrite Hp.
    replace (b_alloc st + 1 - U) with (b_alloc st - U + 1) by lia.
    replace (b_alloc st + 1 - start) with (b_alloc st - start + 1) by lia.
    rewrite <- app_assoc. cbn [app].
    replace (b_alloc st + 1 + zlen es) with (b_alloc st + zlen (e :: es)) by (unfold zlen; cbn [length]; lia).
    destruct il; reflexivity.
Qed.

Lemma children_from_dget : forall es a i e, NoDup (map fst es) -> nth_error es i = Some e ->
  dget (children_from es a) (fst e) = Some (a + Z.of_nat i).
Proof.
  induction es as [|h es IH]; intros a i e Hnd Hi; [destruct i; discriminate|].
  cbn [children_from dget fst snd]. inversion Hnd as [|? ? Hnin Hnd']; subst.
  destruct i as [|i]; cbn [nth_error] in Hi.
  - injection Hi as ->. rewrite list_eqb_refl. f_equal. lia.
  - rewrite list_eqb_neq.
    + rewrite (IH (a + 1) i e Hnd' Hi). f_equal. lia.
    + intros E. apply Hnin. rewrite E. apply in_map. eapply nth_error_In. exact Hi.
Qed.

(* ---------- well-formed levels ------------------------------------------------------------------------ *)

(* d: the closed, renamed dictionary of order n + 1 (keys earliest-first); pk: the reversed keys
   of the order-n level *)
Record level_wf (nuni : Z) (n : nat) (pk : list (list Z)) (d : dict) : Prop := mkLW
  { lw_nodup : NoDup (map fst d);
    lw_len : forall e, In e d -> length (fst e) = S n;
    lw_tok : forall e, In e d -> Forall (fun x => 0 <= x < nuni) (fst e);
    lw_par : forall e, In e d -> In (rev (tl (fst e))) pk;
    lw_ne : d <> [] }.

Fixpoint chain_wf (nuni : Z) (n : nat) (prev : dict) (ds : list dict) : Prop :=
  match ds with
  | [] => True
  | d :: rest => level_wf nuni n (map fst prev) d /\ chain_wf nuni (S n) (sort_rev d) rest
  end.

(* a sorted level: strictly increasing reversed keys, all of length n *)
Definition sorted_level (n : nat) (lv : dict) : Prop :=
  StronglySorted klt lv /\ forall e, In e lv -> length (fst e) = n.

Lemma sort_rev_level nuni n pk d : level_wf nuni n pk d -> sorted_level (S n) (sort_rev d).
Proof.
  intros H. split; [apply sort_rev_sorted, (lw_nodup _ _ _ _ H)|].
  intros [rk v] Hin. apply sort_rev_in in Hin. cbn [fst].
  rewrite <- (rev_length rk). apply (lw_len _ _ _ _ H _ Hin).
Qed.

Lemma sort_rev_parent nuni n pk d e : level_wf nuni n pk d -> In e (sort_rev d) ->
  In (removelast (fst e)) pk /\ length (fst e) = S n.
Proof.
  intros H Hin. destruct e as [rk v]. apply sort_rev_in in Hin. cbn [fst]. split.
  - rewrite <- (rev_involutive rk) at 1. rewrite removelast_rev. apply (lw_par _ _ _ _ H _ Hin).
  - rewrite <- (rev_length rk). apply (lw_len _ _ _ _ H _ Hin).
Qed.

(* parent positions of the sorted entries of a level *)
Definition ppos (pk : list (list Z)) (Lpos : Z) (lv : dict) : list Z :=
  map (fun e => Lpos + Z.of_nat (kindex (removelast (fst e)) pk)) lv.

Lemma ppos_length pk Lpos lv : length (ppos pk Lpos lv) = length lv.
Proof. apply map_length. Qed.

Lemma ppos_nth pk Lpos lv k e : nth_error lv k = Some e ->
  nth k (ppos pk Lpos lv) 0 = Lpos + Z.of_nat (kindex (removelast (fst e)) pk).
Proof.
  intros H. unfold ppos.
  apply nth_error_nth. rewrite nth_error_map, H. reflexivity.
Qed.

Section PposFacts.
  Variables (nuni : Z) (n : nat) (prev : dict) (d : dict) (Lpos : Z).
  Hypothesis Hprev : sorted_level n prev.
  Hypothesis Hwf : level_wf nuni n (map fst prev) d.
  Let lv := sort_rev d.
  Let ps := ppos (map fst prev) Lpos lv.

  Lemma ppos_range : Forall (fun p => Lpos <= p < Lpos + zlen prev) ps.
  Proof.
    unfold ps, ppos. rewrite Forall_forall. intros p Hp. apply in_map_iff in Hp as (e & <- & He).
    destruct (sort_rev_parent _ _ _ _ e Hwf He) as [Hin _].
    pose proof (kindex_lt _ _ Hin) as Hlt. rewrite map_length in Hlt. unfold zlen. lia.
  Qed.

  Lemma prev_nth_lt i j ki kj : (i < j)%nat -> nth_error (map fst prev) i = Some ki ->
    nth_error (map fst prev) j = Some kj -> lex_ltb ki kj = true.
  Proof.
    intros Hij Hi Hj. destruct Hprev as [Hs _].
    assert (Hjl : (j < length prev)%nat).
    { rewrite <- (map_length fst). apply nth_error_Some. rewrite Hj. discriminate. }
    pose proof (sorted_nth prev ([], (NaN, NaN)) Hs i j Hij Hjl) as Hlt. unfold klt in Hlt.
    rewrite nth_error_map in Hi, Hj.
    destruct (nth_error prev i) as [ei|] eqn:Ei; [|discriminate].
    destruct (nth_error prev j) as [ej|] eqn:Ej; [|discriminate].
    cbn in Hi, Hj. injection Hi as <-. injection Hj as <-.
    rewrite (nth_error_nth _ _ _ Ei), (nth_error_nth _ _ _ Ej) in Hlt. exact Hlt.
  Qed.

  Lemma ppos_nondecr : nondecr ps.
  Proof.
    unfold ps, ppos.
    apply (nondecr_map klt (fun e => In (removelast (fst e)) (map fst prev) /\ length (fst e) = S n)).
    - apply sort_rev_sorted, (lw_nodup _ _ _ _ Hwf).
    - rewrite Forall_forall. intros e He. apply (sort_rev_parent _ _ _ _ e Hwf He).
    - intros a b [Ha La] [Hb Lb] Hab.
      destruct (Nat.le_gt_cases (kindex (removelast (fst a)) (map fst prev))
                                (kindex (removelast (fst b)) (map fst prev))) as [Hle|Hgt]; [lia|].
      exfalso.
      pose proof (prev_nth_lt _ _ _ _ Hgt (kindex_nth _ _ Hb) (kindex_nth _ _ Ha)) as Hlt.
      assert (Hane : fst a <> []) by (intros E; rewrite E in La; cbn in La; lia).
      assert (Hbne : fst b <> []) by (intros E; rewrite E in Lb; cbn in Lb; lia).
      pose proof (snoc_removelast_last _ Hane) as Ea. pose proof (snoc_removelast_last _ Hbne) as Eb.
      assert (Hl : length (removelast (fst b)) = length (removelast (fst a))).
      { apply (f_equal (@length Z)) in Ea, Eb. rewrite app_length in Ea, Eb. cbn [length] in Ea, Eb. lia. }
      unfold klt in Hab. pose proof (lex_asym _ _ Hab) as Hba.
      rewrite Eb, Ea, lex_snoc, Hlt in Hba by assumption. discriminate.
  Qed.

  (* the parent cell of entry k holds the entry's key minus its last token *)
  Lemma ppos_parent k e : nth_error lv k = Some e ->
    exists i, nth k ps 0 = Lpos + Z.of_nat i /\ nth_error (map fst prev) i = Some (removelast (fst e)).
  Proof.
    intros Hk. exists (kindex (removelast (fst e)) (map fst prev)). split.
    - apply ppos_nth. exact Hk.
    - apply kindex_nth. apply nth_error_In in Hk. apply (sort_rev_parent _ _ _ _ e Hwf Hk).
  Qed.
End PposFacts.

(* ---------- the specification of the finished buffers --------------------------------------------------- *)

Definition bufs_of (st : bstate) : bufs := mkBufs (b_offs st) (b_ids st) (b_lps st) (b_lbs st).

(* prev: the sorted parent level (reversed keys), stored from cell Lpos on; ds: the remaining
   closed dictionaries in increasing order *)
Fixpoint LevOK (b : bufs) (U : Z) (prev : dict) (Lpos : Z) (ds : list dict) : Prop :=
  match ds with
  | [] => True
  | d :: rest =>
      let lv := sort_rev d in
      let Lm := Lpos + zlen prev + 1 in
      let ps := ppos (map fst prev) Lpos lv in
      (forall j, Lpos <= j <= Lpos + zlen prev -> zget (offsets b) j 0 = Lm + count_lt ps j - j) /\
      (forall k e, nth_error lv k = Some e ->
         zget (ids b) (Lm + Z.of_nat k - U) 0 = last (fst e) 0 /\
         zget (logps b) (Lm + Z.of_nat k) NaN = fst (snd e) /\
         (rest <> [] -> zget (logbs b) (Lm + Z.of_nat k) NaN = snd (snd e))) /\
      (Lm + zlen lv <= zlen (logps b) /\ (rest <> [] -> Lm + zlen lv < zlen (offsets b)) /\
       (rest = [] -> zlen (offsets b) <= Lm)) /\
      LevOK b U lv Lm rest
  end.

Record st_ok (O I P Lpos start : Z) (st : bstate) : Prop := mkSO
  { so_alloc : b_alloc st = start;
    so_lo : zlen (b_offs st) = O; so_li : zlen (b_ids st) = I;
    so_lp : zlen (b_lps st) = P; so_lb : zlen (b_lbs st) = O;
    so_zero : forall q, Lpos <= q -> zget (b_offs st) q 0 = 0;
    so_nz : Lpos = 0 \/ zget (b_offs st) (Lpos - 1) 0 <> 0 }.

Definition parents_ok (parents : list (list Z * Z)) (prev : dict) (Lpos ls : Z) : Prop :=
  forall i k, nth_error (map fst prev) i = Some k -> dget parents k = Some (Lpos + Z.of_nat i - ls).

Fixpoint tot (ds : list dict) : Z := match ds with [] => 0 | d :: r => zlen d + 1 + tot r end.

Lemma tot_last ds : ds <> [] -> zlen (last ds []) + 1 <= tot ds.
Proof.
  induction ds as [|d r IH]; intros H; [congruence|]. cbn [tot]. destruct r as [|d' r'].
  - cbn [last tot]. lia.
  - rewrite !last_cons. specialize (IH ltac:(discriminate)). rewrite last_cons in IH.
    assert (0 <= zlen d) by (unfold zlen; lia). lia.
Qed.

(* the state after one level *)
Definition level_result (U : Z) (il : bool) (d : dict) (parents : list (list Z * Z)) (ls : Z)
  (st : bstate) : bstate :=
  let start := b_alloc st in
  let lv := sort_rev d in
  mkB (level_offs (map (ppar parents ls) lv) (b_offs st) start)
      (fill (map (fun e => last (fst e) 0) lv) (b_ids st) (start + 1 - U))
      (fill (map (fun e => fst (snd e)) lv) (pyset (b_lps st) start NaN) (start + 1))
      (if il then pyset (b_lbs st) start NaN
       else fill (map (fun e => snd (snd e)) lv) (pyset (b_lbs st) start NaN) (start + 1))
      [] (start + 1 + zlen lv).

Lemma build_levels_step U d rest parents ls st :
  (forall e, In e (sort_rev d) -> dget parents (removelast (fst e)) <> None) ->
  build_levels U (d :: rest) parents ls st =
  build_levels U rest (children_from (sort_rev d) 1) (b_alloc st)
    (level_result U (match rest with [] => true | _ => false end) d parents ls st).
Proof.
  intros Hpar. cbn [build_levels]. rewrite fold_alloc by assumption.
  cbn [b_offs b_ids b_lps b_lbs b_children b_alloc app].
  unfold level_result, level_offs.
  replace (b_alloc st + 1 - b_alloc st) with 1 by lia.
  replace (zlen (map (ppar parents ls) (sort_rev d))) with (zlen d)
    by (unfold zlen; rewrite map_length, sort_rev_length; reflexivity).
  destruct rest; reflexivity.
Qed.

Lemma nth_map_error {A B} (f : A -> B) l k e d : nth_error l k = Some e -> nth k (map f l) d = f e.
Proof. intros H. apply nth_error_nth. rewrite nth_error_map, H. reflexivity. Qed.

Lemma build_levels_spec U nuni O I P (HU : U = nuni + 1) (HI : I = P - U) :
  forall ds n prev Lpos parents ls st,
    chain_wf nuni n prev ds -> sorted_level n prev -> prev <> [] -> 0 <= Lpos ->
    st_ok O I P Lpos (Lpos + zlen prev) st -> parents_ok parents prev Lpos ls ->
    nuni <= Lpos + zlen prev ->
    (ds <> [] -> Lpos + zlen prev + tot ds = P /\ O = P - zlen (last ds [])) ->
    exists st', build_levels U ds parents ls st = Some st' /\
      LevOK (bufs_of st') U prev Lpos ds /\
      zlen (b_offs st') = O /\ zlen (b_ids st') = I /\ zlen (b_lps st') = P /\ zlen (b_lbs st') = O /\
      (forall q, q < Lpos -> zget (b_offs st') q 0 = zget (b_offs st) q 0) /\
      (forall q, q < Lpos + zlen prev + 1 - U -> zget (b_ids st') q 0 = zget (b_ids st) q 0) /\
      (forall q, q < Lpos + zlen prev -> zget (b_lps st') q NaN = zget (b_lps st) q NaN) /\
      (forall q, q < Lpos + zlen prev -> zget (b_lbs st') q NaN = zget (b_lbs st) q NaN).
Proof.
  induction ds as [|d rest IH]; intros n prev Lpos parents ls st Hwf Hprev Hpne HL Hst Hpar Hnuni Hsz.
  - exists st. destruct Hst. cbn [build_levels LevOK]. repeat split; auto.
  - destruct Hwf as [Hwf Hchain]. destruct (Hsz ltac:(discriminate)) as [HP HO]. clear Hsz.
    cbn [tot] in HP.
    set (start := Lpos + zlen prev) in *. set (lv := sort_rev d).
    set (ps := ppos (map fst prev) Lpos lv).
    assert (Hc : zlen lv = zlen d) by (unfold zlen, lv; rewrite sort_rev_length; reflexivity).
    assert (Hc1 : 1 <= zlen d).
    { pose proof (lw_ne _ _ _ _ Hwf). unfold zlen. destruct d; [congruence|cbn [length]; lia]. }
    assert (Hp1 : 1 <= zlen prev) by (unfold zlen; destruct prev; [congruence|cbn [length]; lia]).
    assert (Htr : 0 <= tot rest) by (clear; induction rest as [|x r IHr]; cbn [tot]; unfold zlen in *; lia).
    assert (HstO : start < O /\ (rest <> [] -> start + 1 + zlen d < O) /\ (rest = [] -> O = start + 1)).
    { destruct rest as [|d' r'].
      - cbn [last tot] in *. split; [lia|]. split; [congruence|intros _; lia].
      - rewrite !last_cons in HO. pose proof (tot_last (d' :: r') ltac:(discriminate)) as Ht.
        rewrite last_cons in Ht. unfold dict in *. split; [lia|]. split; [intros _; lia|discriminate]. }
    destruct HstO as (HstO & HstO' & HstO'').
    destruct Hst as [Ha Hlo Hli Hlp Hlb Hz Hnz].
    (* every entry finds its parent *)
    assert (Hfound : forall e, In e lv -> dget parents (removelast (fst e)) <> None).
    { intros e He. destruct (sort_rev_parent _ _ _ _ e Hwf He) as [Hin _].
      apply In_nth_error in Hin as [i Hi]. rewrite (Hpar i _ Hi). discriminate. }
    assert (Hps : map (ppar parents ls) lv = ps).
    { unfold ps, ppos. apply map_ext_in. intros e He.
      destruct (sort_rev_parent _ _ _ _ e Hwf He) as [Hin _].
      unfold ppar. rewrite (Hpar _ _ (kindex_nth _ _ Hin)). lia. }
    rewrite build_levels_step by assumption.
    set (il := match rest with [] => true | _ => false end).
    set (st1 := level_result U il d parents ls st).
    (* the offsets after this level *)
    assert (Hoffs : forall j, zget (b_offs st1) j 0 =
              if (Lpos <=? j) && (j <=? start) then start + 1 + count_lt ps j - j else zget (b_offs st) j 0).
    { intros j. unfold st1, level_result. cbn [b_offs]. fold lv. rewrite Hps, Ha.
      apply level_offs_spec; try lia.
      - unfold ps. intros E. apply (f_equal (@length Z)) in E. rewrite ppos_length in E.
        unfold zlen in Hc, Hc1. cbn [length] in E. lia.
      - apply (ppos_nondecr nuni n prev d Lpos Hprev Hwf).
      - apply (ppos_range nuni n prev d Lpos Hwf). }
    assert (Hcnt : count_lt ps start = zlen d).
    { rewrite count_lt_all.
      - unfold zlen, ps. rewrite ppos_length. exact Hc.
      - pose proof (ppos_range nuni n prev d Lpos Hwf) as Hr. fold lv in Hr. fold ps in Hr.
        rewrite Forall_forall in *. intros p Hp. specialize (Hr p Hp). lia. }
    assert (Hlen1 : zlen (b_offs st1) = O /\ zlen (b_ids st1) = I /\ zlen (b_lps st1) = P /\ zlen (b_lbs st1) = O).
    { unfold st1, level_result, zlen. cbn [b_offs b_ids b_lps b_lbs].
      rewrite level_offs_length, !fill_length, pyset_length. destruct il; rewrite ?fill_length, pyset_length; auto. }
    destruct Hlen1 as (Hlo1 & Hli1 & Hlp1 & Hlb1).
    assert (Hlvne : lv <> []) by (intros E; rewrite E in Hc; unfold zlen in Hc, Hc1; cbn in Hc; lia).
    assert (Hlvs : sorted_level (S n) lv) by (apply (sort_rev_level nuni n (map fst prev) d Hwf)).
    destruct (IH (S n) lv (start + 1) (children_from lv 1) (b_alloc st) st1) as (st' & Hb & HLev & Hlo' & Hli' & Hlp' & Hlb' & Fo & Fi & Fp & Fb);
      try assumption; try lia.
    { constructor; try assumption.
      - unfold st1, level_result. cbn [b_alloc]. fold lv. lia.
      - intros q Hq. rewrite Hoffs. replace ((Lpos <=? q) && (q <=? start)) with false by lia. apply Hz. lia.
      - right. replace (start + 1 - 1) with start by lia. rewrite Hoffs.
        replace ((Lpos <=? start) && (start <=? start)) with true by lia. lia. }
    { intros i k Hi. rewrite nth_error_map in Hi. destruct (nth_error lv i) as [e|] eqn:Ei; [|discriminate].
      cbn in Hi. injection Hi as <-.
      rewrite (children_from_dget lv 1 i e (sorted_NoDup lv (proj1 Hlvs)) Ei). f_equal. lia. }
    { intros Hr. rewrite Hc. split; [lia|]. rewrite HO, last_cons.
      destruct rest as [|d' r']; [congruence|]. rewrite !last_cons. reflexivity. }
    exists st'. split; [exact Hb|].
    assert (Hfill_pre : 0 <= start + 1 - U /\ start + 1 + zlen lv <= P) by lia.
    split; [|repeat split; try assumption].
    + cbn [LevOK]. fold lv. fold start. fold ps. split; [|split; [|split]].
      * intros j Hj. cbn [bufs_of offsets]. rewrite Fo by lia. rewrite Hoffs.
        replace ((Lpos <=? j) && (j <=? start)) with true by lia. reflexivity.
      * intros k e Hk.
        assert (Hklt : Z.of_nat k < zlen lv).
        { unfold zlen. assert (k < length lv)%nat; [|lia]. apply nth_error_Some. rewrite Hk. discriminate. }
        cbn [bufs_of ids logps logbs]. split; [|split].
        -- rewrite Fi by lia. unfold st1, level_result. cbn [b_ids]. fold lv.
           rewrite zget_fill by (unfold zlen in *; rewrite ?map_length; lia).
           replace ((b_alloc st + 1 - U <=? start + 1 + Z.of_nat k - U) &&
                    (start + 1 + Z.of_nat k - U <? b_alloc st + 1 - U + zlen (map (fun e0 => last (fst e0) 0) lv)))
             with true by (unfold zlen in *; rewrite map_length; lia).
           replace (Z.to_nat (start + 1 + Z.of_nat k - U - (b_alloc st + 1 - U))) with k by lia.
           apply (nth_map_error (fun e0 => last (fst e0) 0)). exact Hk.
        -- rewrite Fp by lia. unfold st1, level_result. cbn [b_lps]. fold lv.
           rewrite zget_fill by (unfold zlen in *; rewrite ?map_length, ?pyset_length; lia).
           replace ((b_alloc st + 1 <=? start + 1 + Z.of_nat k) &&
                    (start + 1 + Z.of_nat k <? b_alloc st + 1 + zlen (map (fun e0 => fst (snd e0)) lv)))
             with true by (unfold zlen in *; rewrite map_length; lia).
           replace (Z.to_nat (start + 1 + Z.of_nat k - (b_alloc st + 1))) with k by lia.
           apply (nth_map_error (fun e0 => fst (snd e0))). exact Hk.
        -- intros Hr. specialize (HstO' Hr). rewrite Fb by lia. unfold st1, level_result. cbn [b_lbs]. fold lv.
           replace il with false by (unfold il; destruct rest; [congruence|reflexivity]).
           rewrite zget_fill by (unfold zlen in *; rewrite ?map_length, ?pyset_length; lia).
           replace ((b_alloc st + 1 <=? start + 1 + Z.of_nat k) &&
                    (start + 1 + Z.of_nat k <? b_alloc st + 1 + zlen (map (fun e0 => snd (snd e0)) lv)))
             with true by (unfold zlen in *; rewrite map_length; lia).
           replace (Z.to_nat (start + 1 + Z.of_nat k - (b_alloc st + 1))) with k by lia.
           apply (nth_map_error (fun e0 => snd (snd e0))). exact Hk.
      * cbn [bufs_of logps offsets]. split; [lia|]. split; [intros Hr; specialize (HstO' Hr); lia|].
        intros Hr. specialize (HstO'' Hr). lia.
      * exact HLev.
    + intros q Hq. rewrite Fo by lia. rewrite Hoffs.
      replace ((Lpos <=? q) && (q <=? start)) with false by lia. reflexivity.
    + intros q Hq. rewrite Fi by lia. unfold st1, level_result. cbn [b_ids]. fold lv.
      rewrite zget_fill by (unfold zlen in *; rewrite ?map_length; lia).
      replace ((b_alloc st + 1 - U <=? q) && (q <? b_alloc st + 1 - U + zlen (map (fun e0 => last (fst e0) 0) lv)))
        with false by lia. reflexivity.
    + intros q Hq. rewrite Fp by lia. unfold st1, level_result. cbn [b_lps]. fold lv.
      rewrite zget_fill by (unfold zlen in *; rewrite ?map_length, ?pyset_length; lia).
      replace ((b_alloc st + 1 <=? q) && (q <? b_alloc st + 1 + zlen (map (fun e0 => fst (snd e0)) lv)))
        with false by lia.
      apply zget_pyset_other; lia.
    + intros q Hq. rewrite Fb by lia. unfold st1, level_result. cbn [b_lbs]. fold lv.
      assert (Hil : il = true \/ (il = false /\ rest <> [])).
      { unfold il. destruct rest; [left; reflexivity|right; split; [reflexivity|discriminate]]. }
      destruct Hil as [E|[E Hr]]; rewrite E.
      * apply zget_pyset_other; lia.
      * specialize (HstO' Hr).
        rewrite zget_fill by (unfold zlen in *; rewrite ?map_length, ?pyset_length; lia).
        replace ((b_alloc st + 1 <=? q) && (q <? b_alloc st + 1 + zlen (map (fun e0 => snd (snd e0)) lv)))
          with false by lia.
        apply zget_pyset_other; lia.
Qed.
