(* C05 - CTC prefix search (src/pydrobert/torch/_decoding.py:
   ctc_prefix_search_advance, CTCPrefixSearch.forward).

   Executable model of what the code does, for ONE batch element (every tensor
   operation of the anchored code is independent per batch element; the batch
   enters only through len_max, the number of frames the loop runs for).
   No proofs in this file.

   Numbers.  The code works in probability space; "-inf" is the marker of an
   invalid beam slot.  A mass is [NegInf] or [Fin q] with [q : Qc] (canonical
   rationals, Leibniz equality).  IEEE rounding is not modelled (DESIGN 3).

   Layout.  y_prev (S, K') is kept column-wise: [b_y] is the list over beam
   slots k of the column y_prev[:, k] (a list of length S = [b_t]).  Cells the
   code leaves uninitialised (torch.empty) are 0 here; the harness never
   compares them and the code only reads them under a false mask.

   topk.  torch.topk does not specify how ties are broken, so the indices it
   returned are an INPUT of the model ([choice], reconstructed by the harness
   from next_src / next_is_nonext / y_next_last) and [topk_ok] checks that they
   are a legitimate answer: K distinct in-range indices, sorted by
   non-increasing candidate mass, dominating every index left out. *)
From Coq Require Import List Arith Bool QArith Qcanon.
Import ListNotations.
Local Open Scope Qc_scope.
Local Open Scope nat_scope.

Inductive mass := NegInf | Fin (q : Qc).

Definition madd (a b : mass) : mass :=
  match a, b with Fin x, Fin y => Fin (x + y)%Qc | _, _ => NegInf end.
Definition is_neginf (m : mass) : bool := match m with NegInf => true | Fin _ => false end.
Definition fin0 (m : mass) : Qc := match m with Fin q => q | NegInf => 0%Qc end.

Definition qleb (x y : Qc) : bool := Qle_bool x y.
Definition qeqb (x y : Qc) : bool := Qeq_bool x y.

(* a >= b - eps, with -inf below everything *)
Definition mge_eps (eps : Qc) (a b : mass) : bool :=
  match a, b with
  | _, NegInf => true
  | NegInf, Fin _ => false
  | Fin x, Fin y => qleb y (x + eps)%Qc
  end.

Fixpoint upd {A} (l : list A) (i : nat) (x : A) : list A :=
  match l, i with
  | [], _ => []
  | _ :: t, O => x :: t
  | h :: t, S j => h :: upd t j x
  end.

Definition qsum (l : list Qc) : Qc := fold_right Qcplus 0%Qc l.

Record beam := mkBeam
  { b_t : nat;                 (* y_prev.size(0) *)
    b_y : list (list nat);     (* per slot: column of y_prev *)
    b_last : list nat;         (* y_prev_last *)
    b_lens : list nat;         (* y_prev_lens *)
    b_nb : list mass;          (* nb_probs_prev *)
    b_b : list mass;           (* b_probs_prev *)
    b_isp : list (list bool)   (* prev_is_prefix[k][k'] *) }.

(* probs_t = (ext_probs_t (K',V), nonext_probs_t (V), blank_probs_t) *)
Record frame := mkFrame
  { f_ext : list (list Qc); f_nonext : list Qc; f_blank : Qc }.

Section Advance.
  Variable V : nat.
  Variable fr : frame.
  Variable bm : beam.

  Definition Kp : nat := length (b_nb bm).
  Definition lens k := nth k (b_lens bm) O.
  Definition clampV (x : nat) : nat := Nat.min x (V - 1).

  (* invalid_prev = (nb + b) == -inf; both masked to 0 where invalid *)
  Definition invalid k : bool :=
    is_neginf (madd (nth k (b_nb bm) NegInf) (nth k (b_b bm) NegInf)).
  Definition nbq k : Qc := if invalid k then 0%Qc else fin0 (nth k (b_nb bm) NegInf).
  Definition bq k : Qc := if invalid k then 0%Qc else fin0 (nth k (b_b bm) NegInf).
  (* y_prev_last.clamp(0, V - 1) *)
  Definition lastc k : nat := clampV (nth k (b_last bm) O).
  Definition extp k v : Qc := nth v (nth k (f_ext fr) []) 0%Qc.

  (* (nb.expand.scatter(2, last, 0) + b) * ext_probs_t *)
  Definition nb_ext k v : Qc :=
    (((if Nat.eqb v (lastc k) then 0 else nbq k) + bq k) * extp k v)%Qc.
  (* tot_probs_prev * blank *)
  Definition b_nonext k : Qc := ((nbq k + bq k) * f_blank fr)%Qc.
  (* nb_probs_prev * nonext_probs_t.gather(1, y_prev_last) *)
  Definition nb_nonext0 k : Qc := (nbq k * nth (lastc k) (f_nonext fr) 0)%Qc.

  Definition ycell k' i : nat := nth i (nth k' (b_y bm) []) O.
  (* to_match[k,k'] = y_prev[min(lens[k], tm1-1), k'].clamp(0, V-1), zeros when tm1 = 0 *)
  Definition to_match k k' : nat :=
    if Nat.eqb (b_t bm) 0 then O
    else clampV (ycell k' (Nat.min (lens k) (b_t bm - 1))).
  Definition isp k k' : bool := nth k' (nth k (b_isp bm) []) false.
  Definition ext_is_exact k k' : bool := Nat.eqb (lens k + 1) (lens k') && isp k k'.

  (* (nb_ext.gather(2, to_match).masked_fill(~ext_is_exact, 0)).sum(1) *)
  Definition merged k' : Qc :=
    qsum (map (fun k => if ext_is_exact k k' then nb_ext k (to_match k k') else 0%Qc)
              (seq 0 Kp)).
  Definition nb_nonext1 k' : Qc := (nb_nonext0 k' + merged k')%Qc.
  (* (one_hot(to_match) & ext_is_exact.unsqueeze(3)).any(2) *)
  Definition has_match k v : bool :=
    existsb (fun k' => Nat.eqb (to_match k k') v && ext_is_exact k k') (seq 0 Kp).

  Definition nb_ext_c k v : mass :=
    if has_match k v || invalid k then NegInf else Fin (nb_ext k v).
  Definition nb_nonext_c k : mass :=
    if invalid k then NegInf else Fin (nb_nonext1 k).

  (* tot_probs_cand[ind], ind < K' * (V + 1) *)
  Definition cand (ind : nat) : mass :=
    if Nat.ltb ind (Kp * V) then nb_ext_c (ind / V) (ind mod V)
    else madd (nb_nonext_c (ind - Kp * V)) (Fin (b_nonext (ind - Kp * V))).
  Definition ncand : nat := Kp * (V + 1).

  Definition c_nonext ind : bool := Nat.leb (Kp * V) ind.
  Definition c_src ind : nat := if c_nonext ind then ind - Kp * V else ind / V.
  Definition c_ext ind : nat := ind mod V.
  Definition c_len ind : nat := lens (c_src ind) + (if c_nonext ind then 0 else 1).
  (* cat([y_prev.gather(src), empty]).scatter(0, prefix_lens, next_ext): the write
     happens for every slot, also the non-extending ones (outside their valid part) *)
  Definition c_col ind : list nat :=
    upd (nth (c_src ind) (b_y bm) [] ++ [O]) (lens (c_src ind)) (c_ext ind).
  Definition c_nb ind : mass :=
    if c_nonext ind then nb_nonext_c (c_src ind)
    else nb_ext_c (Nat.min ind (Kp * V - 1) / V) (Nat.min ind (Kp * V - 1) mod V).
  Definition c_b ind : mass :=
    if c_nonext ind then Fin (b_nonext (c_src ind)) else Fin 0%Qc.
  Definition c_last ind : nat := if c_nonext ind then lastc (c_src ind) else c_ext ind.

  Definition c_isp ind ind' : bool :=
    isp (c_src ind) (c_src ind')
    && Nat.leb (c_len ind) (c_len ind')
    && (c_nonext ind
        || (negb (c_nonext ind)
            && Nat.eqb (nth (c_len ind - 1) (c_col ind') O) (c_ext ind))).

  Definition Kout (width : nat) : nat := Nat.min width ncand.

  (* the step function; [choice] = next_ind (length K) *)
  Definition advance (width : nat) (choice : list nat) : beam * (list nat * list bool) :=
    let rem := width - Kout width in
    (mkBeam (S (b_t bm))
            (map c_col choice ++ repeat (repeat O (S (b_t bm))) rem)
            (map c_last choice ++ repeat O rem)
            (map c_len choice ++ repeat O rem)
            (map c_nb choice ++ repeat NegInf rem)
            (map c_b choice ++ repeat NegInf rem)
            (map (fun i => map (c_isp i) choice ++ repeat false rem) choice
             ++ repeat (repeat false width) rem),
     (map c_src choice ++ repeat O rem,
      map c_nonext choice ++ repeat false rem)).

  Fixpoint nodupb (l : list nat) : bool :=
    match l with [] => true | x :: t => negb (existsb (Nat.eqb x) t) && nodupb t end.

  (* consecutive entries non-increasing up to eps *)
  Fixpoint sorted_eps (eps : Qc) (l : list mass) : bool :=
    match l with
    | x :: ((y :: _) as t) => mge_eps eps x y && sorted_eps eps t
    | _ => true
    end.

  (* [choice] is an admissible answer of tot_probs_cand.topk(K) up to [eps]: K distinct
     in-range indices, values non-increasing, and nothing left out beats the last one *)
  Definition topk_ok (eps : Qc) (width : nat) (choice : list nat) : bool :=
    let cs := map cand (seq 0 ncand) in
    let vals := map (fun i => nth i cs NegInf) choice in
    Nat.eqb (length choice) (Kout width)
    && forallb (fun i => Nat.ltb i ncand) choice
    && nodupb choice
    && sorted_eps eps vals
    && forallb (fun u => existsb (Nat.eqb u) choice
                         || mge_eps eps (last vals NegInf) (nth u cs NegInf))
               (seq 0 ncand).
End Advance.

(* ---- the whole search (CTCPrefixSearch.forward), one batch element ------------ *)

(* how ext_probs_t is formed.  [lm p] is the language model's row for prefix p, already
   passed through the transcendental the code applies to it (regime T oracle):
   Plain: exp(beta * log_softmax(.));  Mix: softmax(.) *)
Inductive fusion := NoLM | Plain | Mix (beta : Qc).

Definition prefix_of (bm : beam) (k : nat) : list nat :=
  firstn (nth k (b_lens bm) O) (nth k (b_y bm) []).

Fixpoint map2 {A B C} (f : A -> B -> C) (l : list A) (m : list B) : list C :=
  match l, m with a :: l', b :: m' => f a b :: map2 f l' m' | _, _ => [] end.

Definition ext_row (fus : fusion) (lm : list nat -> list Qc) (nonext : list Qc) (blank : Qc)
  (p : list nat) : list Qc :=
  match fus with
  | NoLM => nonext
  | Plain => map2 Qcmult (lm p) nonext
  | Mix beta => map2 (fun l x => ((1 - beta) * x + beta * l * (1 - blank))%Qc) (lm p) nonext
  end.

Definition mk_frame fus lm (nonext : list Qc) (blank : Qc) (bm : beam) : frame :=
  mkFrame (map (fun k => ext_row fus lm nonext blank (prefix_of bm k))
               (seq 0 (length (b_nb bm))))
          nonext blank.

Definition init_beam : beam :=
  mkBeam 0 [[]] [O] [O] [Fin 0%Qc] [Fin 1%Qc] [[true]].

(* one iteration of the loop over t.  [frozen] = not (t < lens[n]).  A frozen element keeps
   y (padded with pad_y's zero row), y_prev_lens and both masses, but y_prev_last and
   prev_is_prefix "continue spinning" with whatever the step function returned. *)
Definition widen {A} (kp width : nat) (l : list A) (d : A) : list A :=
  if Nat.ltb kp width then repeat (nth 0 l d) width else l.
Definition pad_inf (kp width : nat) (l : list mass) : list mass :=
  if Nat.ltb kp width then l ++ repeat NegInf (width - kp) else l.

Definition sstep (V width : nat) fus lm (frozen : bool) (nonext : list Qc) (blank : Qc)
  (choice : list nat) (bm : beam) : beam :=
  let nx := fst (advance V (mk_frame fus lm nonext blank bm) bm width choice) in
  if frozen then
    let kp := length (b_nb bm) in
    mkBeam (b_t nx) (map (fun c => c ++ [O]) (widen kp width (b_y bm) [])) (b_last nx)
           (widen kp width (b_lens bm) O) (pad_inf kp width (b_nb bm))
           (pad_inf kp width (b_b bm)) (b_isp nx)
  else nx.

(* frames: (nonext_probs[t], blank_probs[t]) for t < len_max; [len] = lens[n];
   choices[t] = next_ind of step t *)
Fixpoint sloop (V width : nat) fus lm (len t : nat)
  (frames : list (list Qc * Qc)) (choices : list (list nat)) (bm : beam) : beam :=
  match frames with
  | [] => bm
  | (nonext, blank) :: frames' =>
      sloop V width fus lm len (S t) frames' (tl choices)
            (sstep V width fus lm (Nat.leb len t) nonext blank (hd [] choices) bm)
  end.

(* returned (y columns, y_lens, y_probs) *)
Definition search (V width : nat) fus lm (len : nat)
  (frames : list (list Qc * Qc)) (choices : list (list nat))
  : list (list nat) * list nat * list mass :=
  let bm := sloop V width fus lm len 0 frames choices init_beam in
  let probs := map2 madd (b_nb bm) (b_b bm) in
  if Nat.eqb (length (b_nb bm)) 1 && negb (Nat.eqb width 1) then
    (repeat (nth 0 (b_y bm) []) width, repeat (nth 0 (b_lens bm) O) width,
     probs ++ repeat NegInf (width - 1))
  else (b_y bm, b_lens bm, probs).

(* all the steps an element really takes (t < len) used a legitimate topk answer *)
Fixpoint choices_ok (V width : nat) fus lm (eps : Qc) (len t : nat)
  (frames : list (list Qc * Qc)) (choices : list (list nat)) (bm : beam) : bool :=
  match frames with
  | [] => true
  | (nonext, blank) :: frames' =>
      (Nat.leb len t
       || topk_ok V (mk_frame fus lm nonext blank bm) bm eps width (hd [] choices))
      && choices_ok V width fus lm eps len (S t) frames' (tl choices)
           (sstep V width fus lm (Nat.leb len t) nonext blank (hd [] choices) bm)
  end.

(* "nothing had to be pruned": at every frame the element really processes, every candidate
   the topk answer left out was an invalid (-inf) one *)
Definition all_kept (V : nat) (fr : frame) (bm : beam) (choice : list nat) : bool :=
  forallb (fun u => existsb (Nat.eqb u) choice || is_neginf (cand V fr bm u))
          (seq 0 (ncand V bm)).

Fixpoint nothing_pruned (V width : nat) fus lm (len t : nat)
  (frames : list (list Qc * Qc)) (choices : list (list nat)) (bm : beam) : bool :=
  match frames with
  | [] => true
  | (nonext, blank) :: frames' =>
      (Nat.leb len t || all_kept V (mk_frame fus lm nonext blank bm) bm (hd [] choices))
      && nothing_pruned V width fus lm len (S t) frames' (tl choices)
           (sstep V width fus lm (Nat.leb len t) nonext blank (hd [] choices) bm)
  end.

(* the model's own deterministic topk (stable: ties to the smaller index), used when the
   harness could not observe the implementation's choices, in Examples, and to show that
   an admissible choice always exists *)
Definition mgtb (a b : mass) : bool :=   (* a > b *)
  match a, b with
  | NegInf, _ => false
  | Fin _, NegInf => true
  | Fin x, Fin y => negb (qleb x y)
  end.

Fixpoint insert_desc (val : nat -> mass) (i : nat) (l : list nat) : list nat :=
  match l with
  | [] => [i]
  | j :: t => if mgtb (val i) (val j) then i :: l else j :: insert_desc val i t
  end.

Definition topk_stable (val : nat -> mass) (n k : nat) : list nat :=
  firstn k (fold_left (fun acc i => insert_desc val i acc) (seq 0 n) []).

Fixpoint auto_choices (V width : nat) fus lm (len t : nat)
  (frames : list (list Qc * Qc)) (bm : beam) : list (list nat) :=
  match frames with
  | [] => []
  | (nonext, blank) :: frames' =>
      let fr := mk_frame fus lm nonext blank bm in
      let cs := map (cand V fr bm) (seq 0 (ncand V bm)) in
      let ch := topk_stable (fun i => nth i cs NegInf) (ncand V bm) (Kout V bm width) in
      ch :: auto_choices V width fus lm len (S t) frames'
              (sstep V width fus lm (Nat.leb len t) nonext blank ch bm)
  end.

(* ---- correspondence entry points ---------------------------------------------- *)

Definition list_nat_eqb (a b : list nat) : bool :=
  if list_eq_dec Nat.eq_dec a b then true else false.
Definition list_bool_eqb (a b : list bool) : bool :=
  if list_eq_dec Bool.bool_dec a b then true else false.

Definition qabs_le (x y eps : Qc) : bool := qleb x (y + eps)%Qc && qleb y (x + eps)%Qc.
Definition mass_close (eps : Qc) (a b : mass) : bool :=
  match a, b with
  | NegInf, NegInf => true
  | Fin x, Fin y => qabs_le x y eps
  | _, _ => false
  end.

Fixpoint all2 {A B} (f : A -> B -> bool) (l : list A) (m : list B) : bool :=
  match l, m with
  | [], [] => true
  | a :: l', b :: m' => f a b && all2 f l' m'
  | _, _ => false
  end.

(* ctc_prefix_search_advance: everything it returns, compared exactly (regime E);
   y is compared on the valid part of every column only *)
Definition check_advance (V width : nat) (fr : frame) (bm : beam) (choice : list nat)
  (o_y : list (list nat)) (o_last o_lens : list nat) (o_nb o_b : list mass)
  (o_isp : list (list bool)) (o_src : list nat) (o_nonext : list bool) : bool :=
  let '(nx, (src, nonext)) := advance V fr bm width choice in
  topk_ok V fr bm 0%Qc width choice
  && list_nat_eqb (b_lens nx) o_lens
  && list_nat_eqb (b_last nx) o_last
  && all2 (fun k c => list_nat_eqb (prefix_of nx k) (firstn (nth k o_lens O) c))
          (seq 0 width) o_y
  && all2 (mass_close 0%Qc) (b_nb nx) o_nb
  && all2 (mass_close 0%Qc) (b_b nx) o_b
  && all2 list_bool_eqb (b_isp nx) o_isp
  && list_nat_eqb src o_src
  && list_bool_eqb nonext o_nonext.

(* the part of the step function's output the property cares about: every slot the model holds
   valid (total mass not -inf) agrees in all fields and in the prefix matrix among valid slots;
   a slot the model holds invalid may carry any mixture of -inf and 0 *)
Definition zero_or_neginf (m : mass) : bool :=
  match m with NegInf => true | Fin q => qeqb q 0%Qc end.

Definition check_advance_weak (V width : nat) (fr : frame) (bm : beam) (choice : list nat)
  (o_y : list (list nat)) (o_last o_lens : list nat) (o_nb o_b : list mass)
  (o_isp : list (list bool)) : bool :=
  let nx := fst (advance V fr bm width choice) in
  let ok k := negb (is_neginf (madd (nth k (b_nb nx) NegInf) (nth k (b_b nx) NegInf))) in
  topk_ok V fr bm 0%Qc width choice
  && Nat.eqb (length o_nb) width && Nat.eqb (length o_b) width
  && Nat.eqb (length o_lens) width && Nat.eqb (length o_y) width
  && forallb (fun k =>
       if ok k then
         Nat.eqb (nth k (b_lens nx) O) (nth k o_lens O)
         && Nat.eqb (nth k (b_last nx) O) (nth k o_last O)
         && list_nat_eqb (prefix_of nx k) (firstn (nth k o_lens O) (nth k o_y []))
         && mass_close 0%Qc (nth k (b_nb nx) NegInf) (nth k o_nb NegInf)
         && mass_close 0%Qc (nth k (b_b nx) NegInf) (nth k o_b NegInf)
         && forallb (fun k' => negb (ok k')
                               || Bool.eqb (nth k' (nth k (b_isp nx) []) false)
                                           (nth k' (nth k o_isp []) false)) (seq 0 width)
       else zero_or_neginf (nth k o_nb NegInf) && zero_or_neginf (nth k o_b NegInf))
     (seq 0 width).

(* CTCPrefixSearch.__call__ for one element.  The implementation's output is given as
   (valid part of each column, y_lens, y_probs). *)
Definition out_close (eps : Qc) (m : list (list nat) * list nat * list mass)
  (o_y : list (list nat)) (o_lens : list nat) (o_probs : list mass) : bool :=
  let '(y, ls, ps) := m in
  list_nat_eqb ls o_lens
  && all2 list_nat_eqb (map2 (fun l c => firstn l c) ls y) o_y
  && all2 (mass_close eps) ps o_probs
  && Nat.eqb (length y) (length o_y).

Definition check_search (V width : nat) fus lm (len : nat) (frames : list (list Qc * Qc))
  (choices : list (list nat)) (eps : Qc)
  (o_y : list (list nat)) (o_lens : list nat) (o_probs : list mass) : bool :=
  choices_ok V width fus lm eps len 0 frames choices init_beam
  && out_close eps (search V width fus lm len frames choices) o_y o_lens o_probs.

(* the test language model of the harness: a state machine over prefixes.
   h([]) = step h0 sos, h(p ++ [v]) = step (h p) v, step h x = (a * h + x + 1) mod M,
   row = table[h] *)
Definition hash_lm (M a h0 sos : nat) (table : list (list Qc)) (p : list nat) : list Qc :=
  let step h x := (a * h + x + 1) mod M in
  nth (fold_left step p (step h0 sos)) table [].

(* literals for the harness *)
Definition qc (n : Z) (d : positive) : Qc := Q2Qc (n # d).
Definition F (n : Z) (d : positive) : mass := Fin (qc n d).
Definition no_lm (_ : list nat) : list Qc := [].
