(* C06 — the tie lemmas of the source tie, assembled:  interpreted source = tensor program (TieRun, TieRunMain) =
   model (TieSrc, TieTop) under the in-range hypothesis (TieSafe, TieSafeProofs), then = Katz back-off (Proofs). *)
From Coq Require Import List ZArith QArith Bool Arith Lia ZifyBool ZifyNat String.
From PV Require Import MiniPy.Syntax MiniPy.Interp MiniTorch.OpsC06 MiniTorch.LemmasC06 Gen.C06Src.
From PV Require Import C06.SrcRun C06.TieRun C06.TieRunMain.
From PV Require C06.Model C06.Spec C06.Proofs C06.TieSafe C06.TieSrc C06.TieTop C06.TieSafeProofs C06.BuildTrie C06.BuildEnd.
Import ListNotations.
Local Open Scope Z_scope.

#[local] Arguments enc6 : simpl never.
#[local] Arguments Interp.run : simpl never.

(* the method `LookupLanguageModel.calc_idx_log_probs` passes the buffers and constants of `self` on and returns `prev` *)
Lemma method_run b sh hist B ix out st0 :
  Interp.run ext06_ops lookup_body (lookup_vars b sh hist B ix) = Ok out st0 ->
  exists st, Interp.run ext06 calc_idx_body (method_vars b sh hist B ix) = Ok (VTuple [out; VDict []]) st.
Proof.
  intros H. unfold calc_idx_body, method_vars, self_value.
  unfold Interp.run at 1. cbn - [ext06].
  unfold ext06. cbn - [call_body lookup_body]. unfold call_body.
  unfold lookup_vars, vars06 in H. cbn [app] in H. rewrite H. cbn. eexists. reflexivity.
Qed.

(* ---- reading the result back ---- *)
Lemma val_of_fl_of v : val_of (CF (fl_of v)) = Some v.
Proof.
  destruct v as [z| |]; try reflexivity. cbn [fl_of val_of].
  pose proof (Qred_correct (z # 8)) as Hq. set (q := Qred (z # 8)) in *.
  assert (Hz : (Qnum q * 8 / Zpos (Qden q))%Z = z).
  { unfold Qeq in Hq. cbn [Qnum Qden] in Hq. rewrite Hq. apply Z.div_mul. discriminate. }
  rewrite Hz. replace (Qeq_bool q (z # 8)) with true; [reflexivity|].
  symmetry. apply Qeq_bool_iff. exact Hq.
Qed.

Lemma rows_of_data_concat (Vn : nat) : forall (rows : list (list Model.val)),
  Forall (fun r => List.length r = Vn) rows -> rows_of_data (List.length rows) Vn (List.concat rows) = rows.
Proof.
  induction 1 as [|r rows Hr _ IH]; [reflexivity|]. cbn [List.length rows_of_data List.concat].
  rewrite firstn_app, firstn_all2 by lia. rewrite Hr, Nat.sub_diag, firstn_O, app_nil_r.
  rewrite skipn_app, skipn_all2 by lia. rewrite Hr, Nat.sub_diag, skipn_O. cbn [app]. rewrite IH. reflexivity.
Qed.

Lemma rows_of_rows (B Vn : nat) (rows : list (list Model.val)) :
  List.length rows = B -> Forall (fun r => List.length r = Vn) rows ->
  rows_of (enc6 (rows_tensor B Vn rows)) = Some rows.
Proof.
  intros Hl Hr. unfold rows_of. rewrite dec6_enc6. unfold rows_tensor. cbn [sh6 dt6].
  rewrite map_map. rewrite (sequence_map_ext _ (fun v => v)) by (intros; apply val_of_fl_of). rewrite map_id.
  unfold wf6. cbn [sh6 dt6 prodn fold_right]. rewrite map_length.
  assert (Hc : List.length (List.concat rows) = (B * Vn)%nat).
  { subst B. clear - Hr. induction Hr as [|r rows Hr _ IH]; [reflexivity|]. cbn [List.concat List.length].
    rewrite app_length, IH, Hr. lia. }
  rewrite Hc. replace (B * Vn =? B * (Vn * 1))%nat with true by lia. subst B. rewrite rows_of_data_concat by exact Hr.
  reflexivity.
Qed.

Lemma batch_rows_shape b sh hist B i : (Z.to_nat (Model.vocab sh) <= List.length (Model.logps b))%nat ->
  List.length (Proofs.batch_rows b sh hist B (repeat i B)) = B /\
  Forall (fun r => List.length r = Z.to_nat (Model.vocab sh)) (Proofs.batch_rows b sh hist B (repeat i B)).
Proof.
  intros Hv. rewrite Proofs.batch_rows_repeat. split; [rewrite map_length, seq_length; reflexivity|].
  apply Forall_forall. intros r Hr. apply in_map_iff in Hr as (bi & <- & _). unfold Proofs.elem_row.
  destruct (Nat.eqb (Model.order sh) 1).
  - rewrite firstn_length. lia.
  - rewrite map_length. unfold Model.zrange. rewrite map_length, seq_length. reflexivity.
Qed.

(* ---- scalar index ---- *)
Section Scalar.
  Variable b : Model.bufs.
  Variable sh : Model.shape.
  Variable hist : list (list Z).
  Variable B : nat.
  Variable i : nat.

  Hypothesis Hsafe : TieSafe.safe_okb b sh = true.
  Hypothesis HV : 1 <= Model.vocab sh.
  Hypothesis Hhist : Proofs.hist_ok sh hist B.
  Hypothesis Hi : (i <= List.length hist)%nat.

  Let Vn := Z.to_nat (Model.vocab sh).
  Let rows := Proofs.batch_rows b sh hist B (repeat i B).

  Lemma vocab_le_logps : Model.vocab sh <= Model.zlen (Model.logps b).
  Proof.
    destruct (TieSafeProofs.safe_okb_sound b sh Hsafe) as (_ & _ & Hr & _).
    unfold Spec.nroots, Model.shiftz in Hr. destruct (Model.shiftb _ _); lia.
  Qed.

  Lemma scalar_model : Model.lookup_batch b sh hist B (Model.Scalar (Z.of_nat i)) = Some rows.
  Proof.
    destruct (TieSafeProofs.safe_okb_sound b sh Hsafe) as (Hl & Ho & _).
    apply Proofs.lookup_batch_scalar; assumption.
  Qed.

  Lemma scalar_tensor_program :
    lookup_fn (hist_tensor hist B) (idx_tensor (Model.Scalar (Z.of_nat i))) (ivec (Model.offsets b)) (ivec (Model.ids b))
      (fvec (Model.logps b)) (fvec (Model.logbs b)) (Model.sos sh) (Model.vocab sh) (Z.of_nat (Model.order sh))
      (Model.gnodes sh) (Z.of_nat (Model.maxdesc sh))
    = Some (rows_tensor B Vn rows).
  Proof.
    destruct (TieSafeProofs.safe_okb_sound b sh Hsafe) as (Hl & Ho & Hr & HS & Hsf).
    destruct Hhist as [Hrect Htoks].
    apply TieTop.lookup_fn_scalar; try assumption; try apply vocab_le_logps.
    intros Ho2 bi v h Hb Hv Hh. apply Hsf; try assumption.
    - rewrite Proofs.mapwin_length. unfold TieTop.ctx_of. apply Proofs.context_length.
    - apply Proofs.last_mapwin_range; [lia| |].
      + intros E. apply (f_equal (@List.length Z)) in E. unfold TieTop.ctx_of in E. rewrite Proofs.context_length in E. cbn in E. lia.
      + unfold TieTop.ctx_of. apply Proofs.context_toks. apply Forall_forall. intros x Hx.
        pose proof (Proofs.column_toks sh hist B bi Hhist Hb) as Hc. rewrite Forall_forall in Hc. apply Hc.
        eapply Proofs.In_firstn_in. exact Hx.
    - unfold Vn in Hv. lia.
  Qed.

  (* the interpreted function returns the tensor of the model's rows *)
  Theorem source_lookup_scalar_is_model :
    Model.lookup_batch b sh hist B (Model.Scalar (Z.of_nat i)) = Some rows /\
    exists st, Interp.run ext06_ops lookup_body (lookup_vars b sh hist B (Model.Scalar (Z.of_nat i)))
               = Ok (enc6 (rows_tensor B Vn rows)) st.
  Proof. split; [exact scalar_model|]. apply lookup_run. exact scalar_tensor_program. Qed.

  (* ... and so does the method, with `prev` untouched *)
  Theorem source_method_scalar_is_model :
    exists st, Interp.run ext06 calc_idx_body (method_vars b sh hist B (Model.Scalar (Z.of_nat i)))
               = Ok (VTuple [enc6 (rows_tensor B Vn rows); VDict []]) st.
  Proof. destruct source_lookup_scalar_is_model as [_ [st0 R]]. apply (method_run _ _ _ _ _ _ st0 R). Qed.

  Theorem source_scalar_refines_model :
    src_lookup_batch b sh hist B (Model.Scalar (Z.of_nat i)) = Some (Model.lookup_batch b sh hist B (Model.Scalar (Z.of_nat i))).
  Proof.
    destruct source_method_scalar_is_model as [st R]. unfold src_lookup_batch, run_method. rewrite R, scalar_model.
    pose proof vocab_le_logps as Hvl. unfold Model.zlen in Hvl.
    destruct (batch_rows_shape b sh hist B i ltac:(lia)) as [H1 H2].
    rewrite (rows_of_rows B Vn rows H1 H2). reflexivity.
  Qed.
End Scalar.

(* the harness-side executable is the model's check on every scalar index query (invalid indices included) *)
Theorem source_scalar_check_is_check b sh hist B z impl :
  TieSafe.safe_okb b sh = true -> 1 <= Model.vocab sh -> Proofs.hist_ok sh hist B ->
  src_lookup_check b sh hist B (Model.Scalar z) impl = Model.out_eqb (Model.forward b sh hist B (Some (Model.Scalar z))) impl.
Proof.
  intros Hs HV Hh. unfold src_lookup_check, src_forward, Model.forward, Model.norm_idx.
  destruct ((z <? - Model.zlen hist - 1) || (Model.zlen hist <? z))%bool eqn:Eb; [reflexivity|].
  set (z' := (z + Model.zlen hist + 1) mod (Model.zlen hist + 1)).
  assert (Hz : 0 <= z' <= Model.zlen hist) by (unfold z'; pose proof (Z.mod_pos_bound (z + Model.zlen hist + 1) (Model.zlen hist + 1)); unfold Model.zlen in *; lia).
  replace z' with (Z.of_nat (Z.to_nat z')) by lia.
  rewrite (source_scalar_refines_model b sh hist B (Z.to_nat z') Hs HV Hh) by (unfold Model.zlen in Hz; lia).
  cbn [option_map]. destruct (Model.lookup_batch b sh hist B (Model.Scalar (Z.of_nat (Z.to_nat z')))); reflexivity.
Qed.

(* composed with the model's theorems: purely about the interpreted source *)
Theorem source_scalar_is_katz b sh t hist B i :
  Spec.trie_okb b sh (Spec.tmap sh t) = true -> Spec.tab_okb (Model.vocab sh) (Model.sos sh) t = true ->
  TieSafe.safe_okb b sh = true -> 1 <= Model.vocab sh -> Proofs.hist_ok sh hist B -> (i <= List.length hist)%nat ->
  exists st, Interp.run ext06 calc_idx_body (method_vars b sh hist B (Model.Scalar (Z.of_nat i)))
             = Ok (VTuple [enc6 (rows_tensor B (Z.to_nat (Model.vocab sh))
                                   (Spec.spec_at t (Model.order sh) (Model.vocab sh) (Model.sos sh) hist B (repeat i B)));
                           VDict []]) st.
Proof.
  intros Ht Htab Hs HV Hh Hi.
  destruct (source_method_scalar_is_model b sh hist B i Hs HV Hh Hi) as [st R]. exists st. rewrite R.
  pose proof (Proofs.lookup_scalar_katz b sh t hist B i Ht Htab Hh Hi) as Hk.
  rewrite (scalar_model b sh hist B i Hs Hi) in Hk. injection Hk as ->. reflexivity.
Qed.

(* for every built model (the premise on the table replaced by wf_dicts + build_trie = Some bt); the in-range validator on
   the built buffers remains a premise (it is evaluated on the implementation's actual buffers on every run) *)
Theorem source_built_scalar_is_katz V s dicts bt hist B i :
  BuildTrie.wf_dicts V s dicts = true -> Model.build_trie V s dicts = Some bt ->
  TieSafe.safe_okb (Model.bt_bufs bt) (BuildTrie.built_shape V s bt) = true ->
  Proofs.hist_ok (BuildTrie.built_shape V s bt) hist B -> (i <= List.length hist)%nat ->
  exists st, Interp.run ext06 calc_idx_body
               (method_vars (Model.bt_bufs bt) (BuildTrie.built_shape V s bt) hist B (Model.Scalar (Z.of_nat i)))
             = Ok (VTuple [enc6 (rows_tensor B (Z.to_nat V)
                                   (Spec.spec_at (BuildTrie.table_of dicts) (List.length dicts) V s hist B (repeat i B)));
                           VDict []]) st.
Proof.
  intros Hwf Hb Hs Hh Hi.
  assert (HV : 1 <= V).
  { unfold BuildTrie.wf_dicts in Hwf. repeat (apply andb_prop in Hwf as [Hwf _]). lia. }
  destruct (source_method_scalar_is_model _ _ hist B i Hs HV Hh Hi) as [st R]. exists st. rewrite R.
  pose proof (BuildEnd.build_then_index V s dicts bt Hwf Hb hist B i Hh Hi) as Hk.
  rewrite (scalar_model _ _ hist B i Hs Hi) in Hk. injection Hk as ->. reflexivity.
Qed.
