(* C05, second tie, part 2: the programs of TieBRun (= the interpreted blocks of `CTCPrefixSearch.forward`) evaluated on
   the tensors that encode a beam of the model (ONE batch element, N = 1).
     [final_tie]      the interpreted EPILOGUE returns the three tensors that encode the tail of Model.search
                      ([epilogue]: mass = non-blank + blank, the fill to `width` when only the initial slot exists)
                      for every well-formed beam, every width >= 1, every module configuration.
   The loop body is tied to its tensor program for ALL tensors in part 1 (TieBRun.frame_is_prog); its evaluation on the
   model's encoding (= Model.sstep) is NOT proved here (see notes/C05_tie_report.md, "Second tie"). *)
From Coq Require Import ZArith QArith Qcanon List String Bool Arith Lia ZifyBool ZifyNat.
From PV Require Import MiniPy.Syntax MiniPy.Interp MiniTorch.Ops MiniTorch.OpsC05 MiniTorch.LemmasC05 MiniTorch.OpsC05B
  MiniTorch.LemmasC05B Gen.C05Src Gen.C05BSrc.
From PV Require Import C05.Model C05.ModelB C05.ProofsModel C05.ProofsSearch C05.SrcRun C05.SrcRunB C05.TieRun C05.TieBRun.
Import ListNotations.
Local Open Scope nat_scope.

#[local] Ltac Zify.zify_post_hook ::= Z.to_euclidean_division_equations.

Tactic Notation "bstep" uconstr(L) := rewrite L; cbn [bo].

Lemma some3 {A B C} (a a' : A) (b b' : B) (c c' : C) : a = a' -> b = b' -> c = c' -> Some (a, b, c) = Some (a', b', c').
Proof. now intros -> -> ->. Qed.

(* the tail of Model.search: what forward returns for a final beam *)
Definition epilogue (width : nat) (bm : beam) : list (list nat) * list nat * list mass :=
  let probs := map2 madd (b_nb bm) (b_b bm) in
  if Nat.eqb (List.length (b_nb bm)) 1 && negb (Nat.eqb width 1) then
    (repeat (nth 0 (b_y bm) []) width, repeat (nth 0 (b_lens bm) O) width, probs ++ repeat NegInf (width - 1))
  else (b_y bm, b_lens bm, probs).

Lemma search_is_epilogue V width fus lm len frames choices :
  search V width fus lm len frames choices = epilogue width (sloop V width fus lm len 0 frames choices init_beam).
Proof. reflexivity. Qed.

(* (columns, lens, probs) with columns of height H as the three returned tensors *)
Definition enc_result (H : nat) (r : list (list nat) * list nat * list mass) : val :=
  let '(cols, ls, ps) := r in
  let W := List.length ps in
  VTuple [enc_i (T3 H 1 W (fun s _ k => Z.of_nat (nth s (nth k cols []) 0)));
          enc_i (T2 1 W (fun _ k => Z.of_nat (nth k ls 0)));
          enc_f (T2 1 W (fun _ k => nth k ps NegInf))].

Section Final.
Variables (width : nat) (bm : beam).
Hypothesis Wpos : 1 <= width.
Hypothesis W : wf bm.
Notation K' := (Kp bm).
Notation S := (b_t bm).

Lemma enc_nb_T : enc_nb bm = T2 1 K' (fun _ k => nth k (b_nb bm) NegInf). Proof. reflexivity. Qed.
Lemma enc_bb_T : enc_bb bm = T2 1 K' (fun _ k => nth k (b_b bm) NegInf). Proof. reflexivity. Qed.
Lemma enc_y_T : enc_y bm = T3 S 1 K' (fun s _ k => Z.of_nat (ycell bm k s)). Proof. reflexivity. Qed.
Lemma enc_lens_T : enc_lens bm = T2 1 K' (fun _ k => Z.of_nat (lens bm k)). Proof. reflexivity. Qed.

Lemma probs_len : List.length (map2 madd (b_nb bm) (b_b bm)) = K'.
Proof. rewrite map2_length; [reflexivity|]. symmetry. apply (wf_b bm W). Qed.

Lemma probs_nth k : k < K' -> nth k (map2 madd (b_nb bm) (b_b bm)) NegInf = madd (nth k (b_nb bm) NegInf) (nth k (b_b bm) NegInf).
Proof. intros H. apply map2_nth; [symmetry; apply (wf_b bm W)|exact H]. Qed.

Lemma final_prog_model pv :
  final_prog width 1 (mkCarT (Z.of_nat K') (enc_nb bm) (enc_bb bm) (enc_y bm) (enc_last bm) (enc_lens bm) (enc_isp bm) pv)
  = match epilogue width bm with
    | (cols, ls, ps) =>
        Some (T3 S 1 (List.length ps) (fun s _ k => Z.of_nat (nth s (nth k cols []) 0)),
              T2 1 (List.length ps) (fun _ k => Z.of_nat (nth k ls 0)),
              T2 1 (List.length ps) (fun _ k => nth k ps NegInf))
    end.
Proof.
  unfold final_prog, epilogue. cbn [k_pw k_nb k_b k_y k_last k_lens k_isp k_prev]. change (List.length (b_nb bm)) with K'.
  rewrite enc_nb_T, enc_bb_T, enc_y_T, enc_lens_T. unfold fadd at 1. bstep zipb_T2_same.
  destruct (Nat.eqb_spec K' 1) as [E1|E1]; [destruct (Nat.eqb_spec width 1) as [Ew|Ew]|]; cbn [andb negb].
  - replace (Z.of_nat K' =? 1)%Z with true by lia. replace (negb (1 =? Z.of_nat width)%Z) with false by lia.
    rewrite probs_len. apply some3.
    + apply T3_ext. intros; reflexivity.
    + apply T2_ext. intros; reflexivity.
    + apply T2_ext. intros i k _ Hk. now rewrite probs_nth.
  - replace (Z.of_nat K' =? 1)%Z with true by lia. replace (negb (1 =? Z.of_nat width)%Z) with true by lia.
    rewrite app_length, repeat_length, probs_len, E1. replace (1 + (width - 1)) with width by lia.
    change 1%Z with (Z.of_nat 1).
    assert (Ey : repeat_ 0%Z (T3 S 1 1 (fun s _ k => Z.of_nat (ycell bm k s))) [Z.of_nat 1; Z.of_nat 1; Z.of_nat width]
                 = Some (T3 S 1 width (fun s _ _ => Z.of_nat (ycell bm 0 s)))).
    { destruct (b_t bm) as [|S0] eqn:ES.
      - rewrite (repeat_T3_0 _ _ _ _ _ _ _ (fun _ _ _ => 0%Z)). f_equal. replace (1 * 1) with 1 by lia. replace (1 * width) with width by lia.
        apply T3_ext. intros; lia.
      - rewrite repeat_T3 by lia. f_equal. replace (Datatypes.S S0 * 1) with (Datatypes.S S0) by lia.
        replace (1 * 1) with 1 by lia. replace (1 * width) with width by lia.
        apply T3_ext. intros s i k Hs Hi Hk. rewrite (Nat.mod_small s) by lia. now rewrite !Nat.mod_1_r. }
    bstep Ey. rewrite repeat_T2 by lia. cbn [bo]. replace (1 * 1) with 1 by lia. replace (1 * width) with width by lia.
    replace (Z.of_nat width - Z.of_nat 1)%Z with (Z.of_nat (width - 1)) by lia. bstep full_T2. bstep cat2_T2_1.
    replace (1 + (width - 1)) with width by lia. apply some3.
    + apply T3_ext. intros s i k _ _ Hk. rewrite nth_repeat_if. replace (k <? width) with true by lia. reflexivity.
    + apply T2_ext. intros i k _ Hk. rewrite Nat.mod_1_r. rewrite nth_repeat_if. replace (k <? width) with true by lia. reflexivity.
    + apply T2_ext. intros i k _ Hk. destruct (Nat.ltb_spec k 1).
      * rewrite app_nth1 by (rewrite probs_len; lia). rewrite probs_nth by lia. reflexivity.
      * rewrite app_nth2 by (rewrite probs_len; lia). rewrite probs_len, E1. rewrite nth_repeat_if.
        replace (k - 1 <? width - 1) with true by lia. reflexivity.
  - replace (Z.of_nat K' =? 1)%Z with false by lia.
    rewrite probs_len. apply some3.
    + apply T3_ext. intros; reflexivity.
    + apply T2_ext. intros; reflexivity.
    + apply T2_ext. intros i k _ Hk. now rewrite probs_nth.
Qed.
End Final.

(* the interpreted epilogue on the encoding of a well-formed beam: the encoding of Model.search's tail *)
Theorem final_tie : forall V width has_lm beta vm lmS bm pv, 1 <= width -> wf bm ->
  exists st, run_final V width has_lm beta vm lmS (enc_car bm pv) = Ok (enc_result (b_t bm) (epilogue width bm)) st.
Proof.
  intros V width has_lm beta vm lmS bm pv Wpos W. unfold run_final, the_self.
  pose proof (final_is_prog (sel_given []) lmS beta V V has_lm vm width 1 (Kp bm) (enc_nb bm) (enc_bb bm) (enc_y bm)
                (enc_lens bm) (enc_last bm) (enc_isp bm) pv) as Hsim.
  cbv zeta in Hsim. rewrite (final_prog_model width bm Wpos W pv) in Hsim.
  change (enc_carT (mkCarT (Z.of_nat (Kp bm)) (enc_nb bm) (enc_bb bm) (enc_y bm) (enc_last bm) (enc_lens bm) (enc_isp bm) pv))
    with (enc_car bm pv) in Hsim.
  destruct (epilogue width bm) as [[cols ls] ps]. unfold simR in Hsim.
  destruct (Interp.run _ fwd_final _) as [v st|n st|w]; try contradiction.
  exists st. rewrite Hsim. reflexivity.
Qed.

(* composed with Model.search = epilogue of the final beam: the interpreted epilogue, run on the beam the model's loop
   ends with, returns the encoding of Model.search's answer *)
Theorem final_tie_search : forall V width has_lm beta vm lmS fus lm len frames choices pv, 1 <= width ->
  wf (sloop V width fus lm len 0 frames choices init_beam) ->
  exists st, run_final V width has_lm beta vm lmS (enc_car (sloop V width fus lm len 0 frames choices init_beam) pv)
             = Ok (enc_result (b_t (sloop V width fus lm len 0 frames choices init_beam))
                              (search V width fus lm len frames choices)) st.
Proof. intros. rewrite search_is_epilogue. now apply final_tie. Qed.
