(* C07, second source tie - facts about the as-coded helpers of ModelB.v, independent of the interpreter:
   * ctc_greedy_g at the carrier Z IS Model.ctc_greedy; it commutes with order-embedding homomorphisms of the carrier
     (in particular Z -> xq, z |-> the float z), so the model theorems transfer;
   * ctc_greedy_g on tabulated scores (lp[n][t][v] = f n t v) in the tabulated form the tensor program computes
     (keep mask by index, lengths as sums, the compaction as ONE masked_scatter over the flattened batch);
   * the paths and lengths are the collapse of the frame-wise best labels, for every carrier. *)
From Coq Require Import List ZArith QArith Bool Arith Lia.
From PV Require Import MiniPy.Syntax MiniTorch.Ops MiniTorch.Lemmas MiniTorch.OpsC07 MiniTorch.LemmasC07 MiniTorch.OpsC07B MiniTorch.LemmasC07B.
From PV Require Import C07.Model C07.Spec C07.Lib C07.ProofsGreedy C07.ModelB.
From PV Require C07.SrcRun.
Notation zq := SrcRun.zq.
Import ListNotations.
Local Close Scope Q_scope.
Local Open Scope nat_scope.

(* ---- the carrier Z ---------------------------------------------------------------------------------------------- *)
Lemma argmax_from_g_Z : forall l best bi i, argmax_from_g Z.ltb best bi i l = argmax_from best bi i l.
Proof. induction l as [|x l IH]; intros; cbn; [reflexivity|]. destruct (best <? x)%Z; apply IH. Qed.

Lemma argmax_first_g_Z : forall row, argmax_first_g Z.ltb 0%Z row = argmax_first row.
Proof. intros [|x t]; [reflexivity|]. apply argmax_from_g_Z. Qed.

Lemma ctc_greedy_g_Z : forall ip one V blank T il lp,
  ctc_greedy_g Z.ltb Z.add Z.mul 0%Z 1%Z one ip V blank T il lp =
  option_map (fun g => mkGG (g_score g) (g_paths g) (g_lens g)) (ctc_greedy ip one V blank T il lp).
Proof.
  intros. unfold ctc_greedy_g, ctc_greedy. destruct ((blank <? - V)%Z || (V - 1 <? blank)%Z); [reflexivity|].
  unfold greedy_core, greedy_in_mask. cbn [option_map g_score g_paths g_lens].
  replace (map (map (argmax_first_g Z.ltb 0%Z)) lp) with (map (map argmax_first) lp)
    by (apply map_ext; intros; apply map_ext; intros; symmetry; apply argmax_first_g_Z).
  reflexivity.
Qed.

(* ---- homomorphisms of the carrier --------------------------------------------------------------------------------- *)
Lemma map_map2 : forall {X Y W U} (h : W -> U) (g : X -> Y -> W) l1 l2,
  map h (map2 g l1 l2) = map2 (fun x y => h (g x y)) l1 l2.
Proof. induction l1 as [|x l1 IH]; intros [|y l2]; cbn; try reflexivity. now rewrite IH. Qed.

Lemma map2_ext : forall {X Y W} (f g : X -> Y -> W) l1 l2, (forall x y, f x y = g x y) -> map2 f l1 l2 = map2 g l1 l2.
Proof. induction l1 as [|x l1 IH]; intros [|y l2] H; cbn; try reflexivity. now rewrite H, IH. Qed.

Section Hom.
  Context {A B : Type} (ltA : A -> A -> bool) (ltB : B -> B -> bool) (addA mulA : A -> A -> A) (addB mulB : B -> B -> B)
          (zA oA fA : A) (zB oB fB : B) (h : A -> B).
  Hypothesis Hlt : forall x y, ltB (h x) (h y) = ltA x y.
  Hypothesis Hadd : forall x y, h (addA x y) = addB (h x) (h y).
  Hypothesis Hmul : forall x y, h (mulA x y) = mulB (h x) (h y).
  Hypothesis Hz : h zA = zB.
  Hypothesis Ho : h oA = oB.
  Hypothesis Hf : h fA = fB.

  Lemma argmax_from_g_hom : forall l best bi i,
    argmax_from_g ltB (h best) bi i (map h l) = (h (fst (argmax_from_g ltA best bi i l)), snd (argmax_from_g ltA best bi i l)).
  Proof.
    induction l as [|x l IH]; intros; cbn [map argmax_from_g]; [reflexivity|]. rewrite Hlt. destruct (ltA best x); apply IH.
  Qed.

  Lemma argmax_first_g_hom : forall row,
    argmax_first_g ltB zB (map h row) = (h (fst (argmax_first_g ltA zA row)), snd (argmax_first_g ltA zA row)).
  Proof. intros [|x t]; cbn [map argmax_first_g fst snd]; [now rewrite Hz|]. apply argmax_from_g_hom. Qed.

  Lemma fold_add_hom : forall l, fold_right addB zB (map h l) = h (fold_right addA zA l).
  Proof. induction l as [|x l IH]; cbn; [now rewrite Hz|]. now rewrite IH, Hadd. Qed.

  Lemma fold_mul_hom : forall l, fold_right mulB oB (map h l) = h (fold_right mulA oA l).
  Proof. induction l as [|x l IH]; cbn; [now rewrite Ho|]. now rewrite IH, Hmul. Qed.

  Lemma fill_row_hom : forall (ip : bool) (m : list bool) (r : list A),
    map2 (fun (i : bool) v => if i then v else if ip then fB else zB) m (map h r)
    = map h (map2 (fun (i : bool) v => if i then v else if ip then fA else zA) m r).
  Proof.
    intros ip. induction m as [|i m IH]; intros [|x r]; cbn [map map2]; try reflexivity. rewrite IH. f_equal.
    destruct i; [reflexivity|]. destruct ip; symmetry; assumption.
  Qed.

  Lemma score_hom : forall (ip : bool) (im : list (list bool)) (mx : list (list A)),
    map (if ip then fold_right mulB oB else fold_right addB zB)
        (map2 (map2 (fun (i : bool) v => if i then v else if ip then fB else zB)) im (map (map h) mx))
    = map h (map (if ip then fold_right mulA oA else fold_right addA zA)
                (map2 (map2 (fun (i : bool) v => if i then v else if ip then fA else zA)) im mx)).
  Proof.
    intros ip. induction im as [|m im IH]; intros [|r mx]; cbn [map map2]; try reflexivity. rewrite IH. f_equal.
    rewrite fill_row_hom. destruct ip; [apply fold_mul_hom|apply fold_add_hom].
  Qed.

  Lemma ctc_greedy_g_hom : forall ip V blank T il lp,
    ctc_greedy_g ltB addB mulB zB oB fB ip V blank T il (map (map (map h)) lp) =
    option_map (fun g => mkGG (map h (gg_score g)) (gg_paths g) (gg_lens g))
               (ctc_greedy_g ltA addA mulA zA oA fA ip V blank T il lp).
  Proof.
    intros. unfold ctc_greedy_g. destruct ((blank <? - V)%Z || (V - 1 <? blank)%Z); [reflexivity|].
    assert (Hmx : map (map (argmax_first_g ltB zB)) (map (map (map h)) lp) =
                  map (map (fun r => (h (fst (argmax_first_g ltA zA r)), snd (argmax_first_g ltA zA r)))) lp).
    { rewrite map_map. apply map_ext. intros fr. rewrite map_map. apply map_ext. intros r. apply argmax_first_g_hom. }
    rewrite Hmx. clear Hmx.
    assert (Ham : map (map snd) (map (map (fun r => (h (fst (argmax_first_g ltA zA r)), snd (argmax_first_g ltA zA r)))) lp)
                  = map (map snd) (map (map (argmax_first_g ltA zA)) lp)).
    { rewrite !map_map. apply map_ext. intros fr. rewrite !map_map. reflexivity. }
    rewrite Ham. clear Ham.
    assert (Hmax : map (map fst) (map (map (fun r => (h (fst (argmax_first_g ltA zA r)), snd (argmax_first_g ltA zA r)))) lp)
                   = map (map h) (map (map fst) (map (map (argmax_first_g ltA zA)) lp))).
    { rewrite !map_map. apply map_ext. intros fr. rewrite !map_map. reflexivity. }
    rewrite Hmax. clear Hmax.
    assert (Him : greedy_in_mask T il (map (map (map h)) lp) = greedy_in_mask T il lp).
    { unfold greedy_in_mask. destruct il; [reflexivity|]. now rewrite map_map. }
    rewrite Him. clear Him.
    set (am := map (map snd) (map (map (argmax_first_g ltA zA)) lp)).
    set (mxA := map (map fst) (map (map (argmax_first_g ltA zA)) lp)).
    set (im := greedy_in_mask T il lp).
    destruct (greedy_core (Z.to_nat ((blank + V) mod V)) T im am) as [paths ol]. cbn [option_map gg_score gg_paths gg_lens].
    do 2 f_equal. apply score_hom.
  Qed.
End Hom.

(* the floats that are integers: Z -> xq *)
Lemma xltb_zq : forall a b, xltb (zq a) (zq b) = Z.ltb a b.
Proof. intros. unfold xltb, zq, Qcompare, Z.ltb. cbn [Qnum Qden inject_Z]. now rewrite !Z.mul_1_r. Qed.

Lemma Qeq_bool_inject_0 : forall a, Qeq_bool (inject_Z a) 0 = (a =? 0)%Z.
Proof. intros. unfold Qeq_bool. cbn [Qnum Qden inject_Z]. rewrite Z.mul_1_r. cbn. destruct a; reflexivity. Qed.

Lemma xadd_zq : forall a b, xadd (zq a) (zq b) = zq (a + b).
Proof.
  intros. unfold xadd, zq. rewrite !Qeq_bool_inject_0.
  destruct (Z.eqb_spec a 0) as [->|Ha]; [reflexivity|].
  destruct (Z.eqb_spec b 0) as [->|Hb]; [now rewrite Z.add_0_r|].
  f_equal. replace (inject_Z a + inject_Z b)%Q with (inject_Z (a + b)).
  - apply Qred_inject_Z.
  - unfold Qplus, inject_Z. cbn [Qnum Qden]. now rewrite !Z.mul_1_r.
Qed.

Lemma xmul_zq : forall a b, xmul (zq a) (zq b) = zq (a * b).
Proof.
  intros. unfold xmul, zq. f_equal. replace (inject_Z a * inject_Z b)%Q with (inject_Z (a * b)) by reflexivity.
  apply Qred_inject_Z.
Qed.

(* ctc_greedy_g on floats that are integers = Model.ctc_greedy on those integers (fill 1.0 <-> one = 1) *)
Lemma ctc_greedy_g_zq : forall ip V blank T il lp,
  ctc_greedy_g xltb xadd xmul xzero xone xone ip V blank T il (map (map (map zq)) lp) =
  option_map (fun g => mkGG (map zq (g_score g)) (g_paths g) (g_lens g)) (ctc_greedy ip 1%Z V blank T il lp).
Proof.
  intros.
  rewrite (ctc_greedy_g_hom Z.ltb xltb Z.add Z.mul xadd xmul 0%Z 1%Z 1%Z xzero xone xone zq
             xltb_zq (fun x y => eq_sym (xadd_zq x y)) (fun x y => eq_sym (xmul_zq x y)) eq_refl eq_refl eq_refl).
  rewrite ctc_greedy_g_Z. destruct (ctc_greedy ip 1%Z V blank T il lp); reflexivity.
Qed.

(* ---- xargmax (OpsC07B) is the generic argmax at the carrier xq ---------------------------------------------------- *)
Lemma xargmax_from_g : forall l best bi i, xargmax_from best bi i l = argmax_from_g xltb best bi i l.
Proof. induction l as [|x l IH]; intros; cbn; [reflexivity|]. destruct (xltb best x); apply IH. Qed.

Lemma xargmax_g : forall row, xargmax row = argmax_first_g xltb xzero row.
Proof. intros [|x t]; [reflexivity|]. apply xargmax_from_g. Qed.

(* ---- lists ---------------------------------------------------------------------------------------------------------- *)
Lemma map2_maps : forall {A X Y W} (f : X -> Y -> W) (g : A -> X) (k : A -> Y) l,
  map2 f (map g l) (map k l) = map (fun a => f (g a) (k a)) l.
Proof. induction l as [|a l IH]; cbn; [reflexivity|now rewrite IH]. Qed.

Lemma select_same : forall {X} (m : list bool) (l : list X), OpsC07B.select m l = Model.select m l.
Proof. induction m as [|b m IH]; intros [|x l]; cbn; try reflexivity; now rewrite IH. Qed.

Lemma select_map : forall {X Y} (h : X -> Y) (m : list bool) (l : list X), Model.select m (map h l) = map h (Model.select m l).
Proof. induction m as [|b m IH]; intros [|x l]; cbn; try reflexivity. destruct b; cbn; now rewrite IH. Qed.

Lemma select_app : forall {X} (m1 m2 : list bool) (l1 l2 : list X), length m1 = length l1 ->
  Model.select (m1 ++ m2) (l1 ++ l2) = Model.select m1 l1 ++ Model.select m2 l2.
Proof.
  induction m1 as [|b m1 IH]; intros m2 [|x l1] l2 H; cbn in *; try discriminate; [reflexivity|].
  rewrite IH by lia. destruct b; reflexivity.
Qed.

Lemma select_concat : forall {X} (ms : list (list bool)) (ls : list (list X)),
  length ms = length ls -> (forall n, n < length ms -> length (nth n ms []) = length (nth n ls [])) ->
  Model.select (concat ms) (concat ls) = concat (map2 (@Model.select X) ms ls).
Proof.
  induction ms as [|m ms IH]; intros [|l ls] H Hr; cbn in *; try discriminate; [reflexivity|].
  rewrite select_app by (apply (Hr 0); lia). f_equal. apply IH; [lia|]. intros n Hn. apply (Hr (S n)). lia.
Qed.

Definition count (m : list bool) : nat := sumn (map b2n m).

Lemma mscatter_fst_length : forall {X} (m : list bool) (src d : list X), length (fst (mscatter m src d)) = length d.
Proof.
  induction m as [|b m IH]; intros src [|x d]; cbn; try reflexivity.
  destruct b.
  - destruct src as [|s st].
    + specialize (IH [] d). destruct (mscatter m [] d). cbn in *. now rewrite IH.
    + specialize (IH st d). destruct (mscatter m st d). cbn in *. now rewrite IH.
  - specialize (IH src d). destruct (mscatter m src d). cbn in *. now rewrite IH.
Qed.

Lemma count_cons : forall b m, count (b :: m) = b2n b + count m.
Proof. reflexivity. Qed.

Lemma mscatter_snd_length : forall {X} (m : list bool) (src d : list X), length m = length d -> count m <= length src ->
  length (snd (mscatter m src d)) = length src - count m.
Proof.
  induction m as [|b m IH]; intros src [|x d] H Hc; cbn [length] in H; try discriminate; [cbn; lia|].
  rewrite count_cons in *. cbn [mscatter]. destruct b; cbn [b2n] in *.
  - destruct src as [|s st]; [cbn in Hc; lia|]. cbn [length] in *.
    specialize (IH st d ltac:(lia) ltac:(lia)). destruct (mscatter m st d). cbn [snd] in *. lia.
  - specialize (IH src d ltac:(lia) ltac:(lia)). destruct (mscatter m src d). cbn [snd] in *. lia.
Qed.

Lemma option_map_app_nil : forall {X} (o : option (list X)), option_map (app []) o = o.
Proof. intros X [l|]; reflexivity. Qed.

Lemma mscat_row : forall {X} (m : list bool) (src d : list X) M D, length m = length d -> count m <= length src ->
  mscat (m ++ M) src (d ++ D) = option_map (app (fst (mscatter m src d))) (mscat M (snd (mscatter m src d)) D).
Proof.
  induction m as [|b m IH]; intros src [|x d] M D H Hc; cbn [length] in H; try discriminate.
  - cbn. now rewrite option_map_app_nil.
  - rewrite count_cons in Hc. cbn [app mscat mscatter]. destruct b; cbn [b2n] in *.
    + destruct src as [|s st]; [cbn in Hc; lia|]. cbn [length] in Hc.
      rewrite (IH st d M D) by lia. destruct (mscatter m st d) as [r rest]. cbn [fst snd].
      destruct (mscat M rest D); reflexivity.
    + rewrite (IH src d M D) by lia. destruct (mscatter m src d) as [r rest]. cbn [fst snd].
      destruct (mscat M rest D); reflexivity.
Qed.

Lemma mscat_rows : forall {X} (masks : list (list bool)) (dst : list (list X)) (src : list X),
  length masks = length dst -> (forall n, n < length masks -> length (nth n masks []) = length (nth n dst [])) ->
  sumn (map count masks) <= length src ->
  mscat (concat masks) src (concat dst) = Some (concat (mscatter_rows masks src dst)).
Proof.
  induction masks as [|m masks IH]; intros [|d dst] src H Hr Hc; cbn in H; try discriminate; [reflexivity|].
  cbn [concat mscatter_rows map sumn fold_right] in *.
  assert (Hm : length m = length d) by (apply (Hr 0); cbn; lia).
  rewrite mscat_row by (try assumption; lia).
  pose proof (mscatter_snd_length m src d Hm ltac:(lia)) as Hl.
  destruct (mscatter m src d) as [r rest]. cbn [fst snd] in *.
  rewrite IH; [reflexivity|lia| |].
  - intros n Hn. apply (Hr (S n)). cbn. lia.
  - change (fold_right Nat.add 0 (map count masks)) with (sumn (map count masks)) in Hc. lia.
Qed.

Lemma mscat_map : forall {X Y} (h : X -> Y) (m : list bool) (src d : list X),
  mscat m (map h src) (map h d) = option_map (map h) (mscat m src d).
Proof.
  induction m as [|b m IH]; intros src [|x d]; cbn; try reflexivity.
  destruct b.
  - destruct src as [|s st]; cbn; [reflexivity|]. rewrite IH. destruct (mscat m st d); reflexivity.
  - rewrite IH. destruct (mscat m src d); reflexivity.
Qed.

Lemma mscatter_rows_length : forall {X} (masks : list (list bool)) (src : list X) dst,
  length (mscatter_rows masks src dst) = length dst.
Proof.
  induction masks as [|m masks IH]; intros src [|d dst]; cbn; try reflexivity.
  destruct (mscatter m src d) as [r rest]. cbn. now rewrite IH.
Qed.

Lemma mscatter_rows_row_length : forall {X} (masks : list (list bool)) (src : list X) dst n,
  length (nth n (mscatter_rows masks src dst) []) = length (nth n dst []).
Proof.
  induction masks as [|m masks IH]; intros src [|d dst] n; cbn; try reflexivity.
  pose proof (mscatter_fst_length m src d) as Hl. destruct (mscatter m src d) as [r rest]. cbn [fst] in Hl.
  destruct n; cbn; [assumption|apply IH].
Qed.

Lemma concat_as_tab2 : forall {X} (d : X) N T (P : list (list X)), length P = N -> (forall n, n < N -> length (nth n P []) = T) ->
  concat P = tab2 N T (fun n t => nth t (nth n P []) d).
Proof.
  intros X d N T P HN HT. rewrite tab2_rows. f_equal.
  rewrite (list_as_map_nth P N [] HN) at 1. apply map_ext_seq. intros n Hn. apply list_as_map_nth. now apply HT.
Qed.

Lemma count_pmask : forall T l, count (pmask l T) = Nat.min l T.
Proof.
  induction T as [|T IH]; intros l; [cbn; lia|]. rewrite pmask_S, count_cons, IH.
  destruct l; cbn [Nat.ltb Nat.leb b2n pred]; lia.
Qed.

Lemma count_le_length : forall m, count m <= length m.
Proof. induction m as [|b m IH]; [cbn; lia|]. rewrite count_cons. cbn [length]. destruct b; cbn [b2n]; lia. Qed.

Lemma sumn_b2n_Z : forall (k : list bool), fold_right Z.add 0%Z (map b2z k) = Z.of_nat (count k).
Proof.
  induction k as [|b k IH]; [reflexivity|]. rewrite count_cons. cbn [map fold_right]. rewrite IH.
  destruct b; cbn [b2z b2n]; lia.
Qed.

(* keep_from on a tabulated row: by index *)
Lemma keep_from_tab_gen : forall b (a : nat -> nat) T s prev,
  keep_from b prev (map a (seq s T)) =
  map (fun t => negb (a t =? b) && match (if t =? s then prev else Some (a (t - 1))) with None => true | Some p => negb (a t =? p) end)
      (seq s T).
Proof.
  intros b a. induction T as [|T IH]; intros s prev; [reflexivity|].
  cbn [seq map keep_from]. rewrite Nat.eqb_refl. f_equal. rewrite IH. apply map_ext_in. intros t Ht. apply in_seq in Ht.
  replace (t =? s) with false by (symmetry; apply Nat.eqb_neq; lia).
  destruct (Nat.eqb_spec t (S s)) as [->|_]; [|reflexivity]. now replace (S s - 1) with s by lia.
Qed.

Lemma keep_from_tab : forall b (a : nat -> nat) T,
  keep_from b None (map a (seq 0 T)) =
  map (fun t => negb (a t =? b) && (if t <? 1 then true else negb (a t =? a (t - 1)))) (seq 0 T).
Proof.
  intros. rewrite keep_from_tab_gen. apply map_ext. intros t. destruct t; reflexivity.
Qed.

(* ---- ctc_greedy_g on tabulated scores ------------------------------------------------------------------------------------ *)
Section Tab.
  Variables (N T V : nat) (f : nat -> nat -> nat -> xq) (b : nat) (inl : option (list Z)) (ip : bool).

  Definition lp_of : list (list (list xq)) := map (fun n => map (fun t => map (f n t) (seq 0 V)) (seq 0 T)) (seq 0 N).
  Definition amf (n t : nat) : nat := snd (xargmax (map (f n t) (seq 0 V))).
  Definition mxf (n t : nat) : xq := fst (xargmax (map (f n t) (seq 0 V))).
  Definition inm (n t : nat) : bool := match inl with None => true | Some ls => (Z.of_nat t <? nth n ls 0%Z)%Z end.
  Definition keep0f (n t : nat) : bool := negb (amf n t =? b) && (if t <? 1 then true else negb (amf n t =? amf n (t - 1))).
  Definition keepf (n t : nat) : bool := keep0f n t && inm n t.
  Definition olen (n : nat) : nat := count (map (keepf n) (seq 0 T)).
  Definition fillv : xq := if ip then xone else xzero.
  Definition scoref (n : nat) : xq :=
    (if ip then fold_right xmul xone else fold_right xadd xzero) (map (fun t => if inm n t then mxf n t else fillv) (seq 0 T)).

  Definition am_rows : list (list nat) := map (fun n => map (amf n) (seq 0 T)) (seq 0 N).
  Definition im_rows : list (list bool) := map (fun n => map (inm n) (seq 0 T)) (seq 0 N).
  Definition keep_rows : list (list bool) := map (fun n => map (keepf n) (seq 0 T)) (seq 0 N).
  Definition paths_tab : list (list nat) := fst (greedy_core b T im_rows am_rows).

  Hypothesis Hinl : forall ls, inl = Some ls -> length ls = N.

  Lemma in_mask_tab : greedy_in_mask T inl lp_of = im_rows.
  Proof.
    unfold greedy_in_mask, im_rows, inm, lp_of. destruct inl as [ls|].
    - rewrite (list_as_map_nth ls N 0%Z (Hinl ls eq_refl)) at 1. rewrite map_map. reflexivity.
    - rewrite map_map. apply map_ext. intros n. clear. induction T as [|T' IH]; [reflexivity|].
      rewrite seq_S, map_app. cbn [map]. rewrite <- IH. clear. induction T' as [|k IH]; [reflexivity|]. cbn. now rewrite <- IH.
  Qed.

  Lemma keep_tab : map2 (map2 andb) (map (keep_from b None) am_rows) im_rows = keep_rows.
  Proof.
    unfold am_rows, im_rows, keep_rows. rewrite map_map. rewrite (map2_maps (map2 andb)).
    apply map_ext. intros n. rewrite keep_from_tab. rewrite (map2_maps andb). reflexivity.
  Qed.

  Lemma greedy_core_lens : snd (greedy_core b T im_rows am_rows) = map olen (seq 0 N).
  Proof. unfold greedy_core. cbn [snd]. rewrite keep_tab. unfold keep_rows. rewrite map_map. reflexivity. Qed.

  Lemma ctc_greedy_g_tab : forall blank,
    (- Z.of_nat V <= blank <= Z.of_nat V - 1)%Z -> b = Z.to_nat ((blank + Z.of_nat V) mod Z.of_nat V) ->
    ctc_greedy_g xltb xadd xmul xzero xone xone ip (Z.of_nat V) blank T inl lp_of =
    Some (mkGG (map scoref (seq 0 N)) paths_tab (map olen (seq 0 N))).
  Proof.
    intros blank Hb Hbb. unfold ctc_greedy_g. rewrite <- Hbb.
    replace ((blank <? - Z.of_nat V)%Z || (Z.of_nat V - 1 <? blank)%Z) with false by lia.
    rewrite in_mask_tab.
    assert (Ham : map (map snd) (map (map (argmax_first_g xltb xzero)) lp_of) = am_rows).
    { unfold lp_of, am_rows, amf. rewrite !map_map. apply map_ext. intros n. rewrite !map_map. apply map_ext. intros t.
      first [reflexivity | now rewrite xargmax_g]. }
    assert (Hmx : map (map fst) (map (map (argmax_first_g xltb xzero)) lp_of) = map (fun n => map (mxf n) (seq 0 T)) (seq 0 N)).
    { unfold lp_of, mxf. rewrite !map_map. apply map_ext. intros n. rewrite !map_map. apply map_ext. intros t.
      first [reflexivity | now rewrite xargmax_g]. }
    rewrite Ham, Hmx.
    pose proof greedy_core_lens as Hl. unfold paths_tab.
    destruct (greedy_core b T im_rows am_rows) as [paths ol]. cbn [fst snd] in *.
    subst ol. do 2 f_equal.
    unfold im_rows. rewrite (map2_maps (map2 (fun (i : bool) v => if i then v else if ip then xone else xzero))).
    rewrite map_map. apply map_ext. intros n. unfold scoref, fillv. f_equal.
    apply (map2_maps (fun (i : bool) (v : xq) => if i then v else if ip then xone else xzero) (inm n) (mxf n)).
  Qed.

  (* the compaction as the tensor program does it: ONE masked_select / masked_scatter over the flattened batch *)
  Lemma olen_le : forall n, olen n <= T.
  Proof. intros n. unfold olen. etransitivity; [apply count_le_length|]. now rewrite map_length, seq_length. Qed.

  Lemma paths_tab_shape : length paths_tab = N /\ forall n, n < N -> length (nth n paths_tab []) = T.
  Proof.
    unfold paths_tab, greedy_core. cbn [fst]. split.
    - rewrite mscatter_rows_length. unfold am_rows. now rewrite map_length, seq_length.
    - intros n Hn. rewrite mscatter_rows_row_length. unfold am_rows.
      rewrite (nth_map_seq (fun n => map (amf n) (seq 0 T))) by assumption. now rewrite map_length, seq_length.
  Qed.

  Lemma greedy_scatter_tab :
    mscat (tab2 N T (fun n t => (Z.of_nat t <? Z.of_nat (olen n))%Z))
          (OpsC07B.select (tab2 N T keepf) (tab2 N T (fun n t => Z.of_nat (amf n t))))
          (tab2 N T (fun n t => Z.of_nat (amf n t)))
    = Some (tab2 N T (fun n t => Z.of_nat (nth t (nth n paths_tab []) 0))).
  Proof.
    destruct paths_tab_shape as [HPN HPT].
    assert (Eam : tab2 N T (fun n t => Z.of_nat (amf n t)) = map Z.of_nat (concat am_rows)).
    { rewrite tab2_rows, concat_map. unfold am_rows. rewrite !map_map. f_equal. apply map_ext. intros n. now rewrite map_map. }
    assert (Ek : tab2 N T keepf = concat keep_rows) by (apply tab2_rows).
    assert (Em : tab2 N T (fun n t => (Z.of_nat t <? Z.of_nat (olen n))%Z) = concat (map (fun n => pmask (olen n) T) (seq 0 N))).
    { rewrite tab2_rows. f_equal. apply map_ext. intros n. unfold pmask. apply map_ext. intros t.
      destruct (Z.ltb_spec (Z.of_nat t) (Z.of_nat (olen n))), (Nat.ltb_spec t (olen n)); try reflexivity; lia. }
    assert (Er : tab2 N T (fun n t => Z.of_nat (nth t (nth n paths_tab []) 0)) = map Z.of_nat (concat paths_tab)).
    { rewrite (concat_as_tab2 0 N T paths_tab HPN HPT). now rewrite map_tab2. }
    rewrite Eam, Ek, Em, Er, select_same, select_map, mscat_map.
    assert (Hkl : length keep_rows = length am_rows) by (unfold keep_rows, am_rows; now rewrite !map_length).
    assert (Hkr : forall n, n < length keep_rows -> length (nth n keep_rows []) = length (nth n am_rows [])).
    { intros n Hn. unfold keep_rows in Hn. rewrite map_length, seq_length in Hn. unfold keep_rows, am_rows.
      rewrite (nth_map_seq (fun n => map (keepf n) (seq 0 T))), (nth_map_seq (fun n => map (amf n) (seq 0 T))) by assumption.
      now rewrite !map_length. }
    rewrite (select_concat keep_rows am_rows Hkl Hkr).
    unfold paths_tab, greedy_core. cbn [fst]. rewrite keep_tab.
    assert (Hol : map (fun l => map (fun t => t <? l) (seq 0 T)) (map (fun k => sumn (map b2n k)) keep_rows)
                  = map (fun n => pmask (olen n) T) (seq 0 N)).
    { unfold keep_rows. rewrite !map_map. reflexivity. }
    rewrite Hol.
    rewrite mscat_rows; [reflexivity| | |].
    - unfold am_rows. now rewrite !map_length.
    - intros n Hn. rewrite map_length, seq_length in Hn. unfold am_rows.
      rewrite (nth_map_seq (fun n => pmask (olen n) T)), (nth_map_seq (fun n => map (amf n) (seq 0 T))) by assumption.
      now rewrite pmask_length, map_length, seq_length.
    - rewrite map_map.
      assert (Hlen : length (concat (map2 (@Model.select nat) keep_rows am_rows)) = sumn (map olen (seq 0 N))).
      { unfold keep_rows, am_rows. rewrite (map2_maps (@Model.select nat)).
        clear. induction (seq 0 N) as [|n l IH]; [reflexivity|]. cbn [map concat sumn fold_right]. rewrite app_length, IH.
        f_equal. unfold olen, count. symmetry. apply count_select. now rewrite !map_length. }
      rewrite Hlen. apply Nat.eq_le_incl. f_equal. apply map_ext. intros n. rewrite count_pmask. pose proof (olen_le n). lia.
  Qed.
End Tab.
