(* C04 — the property clauses for the batched model [Model.search], obtained from the
   single-element search (Abstract.v) through the refinement (Refine.v). *)
From Coq Require Import List Arith Lia ZArith Bool.
From PV Require Import C04.Model C04.Spec C04.Lists C04.Topk C04.Abstract C04.Refine.
Import ListNotations.
Local Open Scope nat_scope.

Section Final.
Context {state : Type}.
Variable topk : nat -> list score -> list nat.
Variable calc : list Z -> state -> nat -> list score * state.
Variable dstate : state.
Variables (V width : nat) (eos : option Z) (fin_all : bool) (pad : Z).

Hypothesis Htopk : topk_ok topk.
Hypothesis Hlm : lm_ok calc V.
Hypothesis HV : 1 <= V.
Hypothesis Hwidth : 1 <= width.

Definition beams_of (max_iters : nat) (inits : list state) : list (list slot) :=
  fst (fst (search topk calc dstate V width eos fin_all pad max_iters inits)).

Local Notation asearch := (asearch topk calc dstate V width eos fin_all).

Lemma map_eq_nth {A B C} (f : A -> C) (g : B -> C) (l : list A) (l' : list B) (d : A) (d' : B) k :
  map f l = map g l' -> k < length l -> f (nth k l d) = g (nth k l' d').
Proof.
  intros H Hk. assert (Hl : length l' = length l).
  { apply (f_equal (@length _)) in H. now rewrite !map_length in H. }
  rewrite <- (nth_map_lt f l (f d) d k Hk), H. apply nth_map_lt. lia.
Qed.

Section One.
Variables (max_iters : nat) (inits : list state) (n : nat).
Hypothesis Hn : n < length inits.
Let beam := nth n (beams_of max_iters inits) [].
Let s0 := nth n inits dstate.
Let x := asearch max_iters s0.

Lemma beam_view : map (vslot) beam = map (@vaslot state) x.
Proof.
  destruct (search_refines topk calc dstate V width eos fin_all pad Htopk Hlm HV Hwidth max_iters inits) as (_ & H).
  now destruct (H n Hn).
Qed.

Lemma beam_len_ok sl : In sl beam -> len sl <= length (col sl).
Proof.
  destruct (search_refines topk calc dstate V width eos fin_all pad Htopk Hlm HV Hwidth max_iters inits) as (_ & H).
  destruct (H n Hn) as (_ & H2). apply H2.
Qed.

Lemma beam_length : length beam = width.
Proof.
  pose proof beam_view as H. apply (f_equal (@length _)) in H. rewrite !map_length in H. rewrite H.
  apply asearch_length; assumption.
Qed.

Lemma x_out : AOut calc dstate V eos s0 x.
Proof. apply asearch_out; assumption. Qed.

Lemma slot_view k : k < width ->
  vpath (nth k beam dslot) = apath (nth k x (adflt dstate)) /\
  sc (nth k beam dslot) = asc (nth k x (adflt dstate)).
Proof.
  intros Hk. pose proof (map_eq_nth vslot (@vaslot state) beam x dslot (adflt dstate) k beam_view) as H.
  rewrite beam_length in H. specialize (H Hk). unfold vslot, vaslot in H. now injection H.
Qed.

Lemma in_beam_nth sl : In sl beam -> exists k, k < width /\ nth k beam dslot = sl.
Proof. intros H. apply (In_nth _ _ dslot) in H. now rewrite beam_length in H. Qed.

Lemma x_length : length x = width.
Proof. apply asearch_length; assumption. Qed.

Lemma scores_chain sl z : In sl beam -> sc sl = Some z ->
  chain calc s0 (vpath sl) = Some z /\ in_vocab V (vpath sl) /\ length (vpath sl) = len sl.
Proof.
  intros Hin Hz. destruct (in_beam_nth sl Hin) as (k & Hk & <-).
  destruct (slot_view k Hk) as (Hp & Hs).
  assert (Ha : In (nth k x (adflt dstate)) x) by (apply nth_In; now rewrite x_length).
  split; [|split].
  - rewrite Hp, <- Hz, Hs. symmetry. apply (ao_chain _ _ _ _ _ _ x_out _ Ha). now rewrite <- Hs, Hz.
  - rewrite Hp. apply (ao_vocab _ _ _ _ _ _ x_out _ Ha).
  - unfold vpath. apply firstn_length_le. apply beam_len_ok. apply nth_In. now rewrite beam_length.
Qed.

Lemma eos_is_first sl : In sl beam -> sfin (sc sl) = true -> eos_first eos (vpath sl).
Proof.
  intros Hin Hf. destruct (in_beam_nth sl Hin) as (k & Hk & <-).
  destruct (slot_view k Hk) as (Hp & Hs).
  assert (Ha : In (nth k x (adflt dstate)) x) by (apply nth_In; now rewrite x_length).
  rewrite Hp. apply (ao_eos _ _ _ _ _ _ x_out _ Ha). now rewrite <- Hs.
Qed.

Lemma paths_distinct i j : i < width -> j < width -> i <> j ->
  sfin (sc (nth i beam dslot)) = true -> sfin (sc (nth j beam dslot)) = true ->
  vpath (nth i beam dslot) <> vpath (nth j beam dslot).
Proof.
  intros Hi Hj Hij Hfi Hfj.
  destruct (slot_view i Hi) as (Hpi & Hsi). destruct (slot_view j Hj) as (Hpj & Hsj).
  rewrite Hpi, Hpj. apply (ao_distinct _ _ _ _ _ _ x_out); rewrite ?x_length; auto; congruence.
Qed.

Lemma sorted_inf_last :
  sorted_desc (map sc beam) /\
  forall i j, i <= j -> j < width -> sc (nth i beam dslot) = None -> sc (nth j beam dslot) = None.
Proof.
  assert (Hs : sorted_desc (map sc beam)).
  { replace (map sc beam) with (map asc x); [apply (ao_sorted _ _ _ _ _ _ x_out)|].
    pose proof beam_view as H. apply (f_equal (map snd)) in H. rewrite !map_map in H. symmetry. exact H. }
  split; [exact Hs|]. intros i j Hij Hj Hi.
  specialize (Hs i j Hij). rewrite map_length, beam_length in Hs. specialize (Hs Hj).
  rewrite (nth_map_lt sc beam None dslot j) in Hs by (now rewrite beam_length).
  rewrite (nth_map_lt sc beam None dslot i) in Hs by (rewrite beam_length; lia).
  rewrite Hi in Hs. destruct (sc (nth j beam dslot)); [discriminate|reflexivity].
Qed.

Lemma exhaustive_wide p :
  eos_ok V eos -> wide V width eos max_iters -> to_completion eos fin_all ->
  complete V eos max_iters p -> sfin (chain calc s0 p) = true ->
  exists sl, In sl beam /\ vpath sl = p /\ sc sl = chain calc s0 p.
Proof.
  intros He Hw Hr Hc Hf.
  destruct (asearch_exhaustive topk calc dstate V width eos fin_all Htopk Hlm HV Hwidth
              max_iters s0 p He Hw Hr Hc Hf) as (a & Hin & Hp & Hs).
  fold x in Hin. apply (In_nth _ _ (adflt dstate)) in Hin. destruct Hin as (k & Hk & Hka).
  rewrite x_length in Hk. destruct (slot_view k Hk) as (Hv & Hsc).
  exists (nth k beam dslot). split; [apply nth_In; now rewrite beam_length|].
  rewrite Hv, Hsc, Hka. auto.
Qed.
End One.

Theorem shape max_iters inits :
  length (beams_of max_iters inits) = length inits /\
  forall beam, In beam (beams_of max_iters inits) ->
    length beam = width /\ forall sl, In sl beam -> len sl <= length (col sl).
Proof.
  assert (Hl : length (beams_of max_iters inits) = length inits).
  { now destruct (search_refines topk calc dstate V width eos fin_all pad Htopk Hlm HV Hwidth max_iters inits). }
  split; [exact Hl|]. intros beam Hin. apply (In_nth _ _ []) in Hin. destruct Hin as (n & Hn & <-).
  rewrite Hl in Hn. split; [now apply beam_length|]. intros sl. now apply beam_len_ok.
Qed.

(* batched = alone *)
Theorem batch_independent max_iters inits n : n < length inits ->
  map vslot (nth n (beams_of max_iters inits) [])
  = map vslot (nth 0 (beams_of max_iters [nth n inits dstate]) []).
Proof.
  intros Hn. rewrite (beam_view max_iters inits n Hn).
  rewrite (beam_view max_iters [nth n inits dstate] 0) by (cbn; lia). reflexivity.
Qed.
End Final.

(* ---- the language model used by the correspondence meets the hypothesis on language models --- *)
Lemma hash_calc_lm_ok (a b c M : Z) (V : nat) (table : list (list score)) :
  Forall (fun r => length r = V) table -> lm_ok (hash_calc a b c M V table) V.
Proof.
  intros Ht. split.
  - intros h h' st t Hp. unfold hash_calc. destruct t as [|t']; [reflexivity|].
    replace (nth t' h' 0%Z) with (nth t' h 0%Z); [reflexivity|].
    rewrite <- (nth_firstn_lt 0%Z h (S t') t'), Hp, nth_firstn_lt by lia. reflexivity.
  - intros h st t. unfold hash_calc. cbn [fst].
    set (i := Z.to_nat _). destruct (Nat.lt_ge_cases i (length table)) as [Hi|Hi].
    + eapply Forall_forall in Ht; [exact Ht|]. now apply nth_In.
    + rewrite nth_overflow by exact Hi. apply repeat_length.
Qed.

Definition ex_table : list (list score) :=
  [[Some (-3)%Z; Some (-10)%Z]; [Some (-12)%Z; Some (-2)%Z]; [Some (-5)%Z; Some (-6)%Z]].
Definition ex_lm := hash_calc 2 1 1 3 2 ex_table.

Lemma ex_nonvacuous :
  topk_ok topk_stable /\ lm_ok ex_lm 2 /\
  map (map vslot) (beams_of topk_stable ex_lm 0%Z 2 2 (Some 1%Z) true (-100)%Z 3 [0%Z; 1%Z])
  = [[([0%Z; 1%Z], Some (-5)%Z); ([1%Z], Some (-10)%Z)];
     [([1%Z], Some (-2)%Z); ([0%Z; 0%Z; 1%Z], Some (-17)%Z)]].
Proof.
  split; [apply topk_stable_ok|]. split.
  - apply hash_calc_lm_ok. repeat constructor.
  - vm_compute. reflexivity.
Qed.

(* ---- "the number of complete sequences", computably -------------------------------------------- *)
Lemma live_seqs_all V eos : forall t p, in_vocab V p ->
  match eos with Some e => ~ In e p | None => True end -> length p = t -> In p (live_seqs V eos t).
Proof.
  induction t as [|t IH]; intros p Hv Hne Hl.
  - destruct p; [now left|discriminate].
  - assert (Hnn : p <> []) by (intros ->; discriminate).
    destruct (exists_last Hnn) as (q & v & ->). rewrite app_length in Hl. cbn in Hl.
    apply Forall_app in Hv. destruct Hv as (Hvq & Hvv). inversion Hvv as [|? ? Hv0 _]; subst.
    cbn [live_seqs]. apply in_flat_map. exists q. split.
    + apply IH; [exact Hvq| |lia]. destruct eos; [|exact I]. intros Hin. apply Hne. apply in_or_app. now left.
    + apply in_flat_map. exists (Z.to_nat v). split; [apply in_seq; lia|].
      rewrite Z2Nat.id by lia. destruct eos as [e|]; [|now left].
      destruct (v =? e)%Z eqn:E; [|now left]. apply Z.eqb_eq in E. subst e.
      exfalso. apply Hne. apply in_or_app. right. now left.
Qed.

Lemma complete_in_enum V eos T p : complete V eos T p -> In p (complete_seqs V eos T).
Proof.
  unfold complete, complete_seqs. destruct eos as [e|].
  - intros (Hv & [(Hnn & Hl & Hef & Hlen)|(Hne & Hlen)]); apply in_or_app.
    + left. destruct (exists_last Hnn) as (q & v & ->). rewrite last_last in Hl. subst v.
      rewrite removelast_snoc in Hef. rewrite app_length in Hlen. cbn in Hlen.
      apply Forall_app in Hv. destruct Hv as (Hvq & _).
      apply in_flat_map. exists (length q). split; [apply in_seq; lia|].
      apply in_map_iff. exists q. split; [reflexivity|]. now apply live_seqs_all.
    + right. now apply live_seqs_all.
  - intros (Hv & Hlen). now apply live_seqs_all.
Qed.

Lemma wide_of_count V width eos T : length (complete_seqs V eos T) <= width -> wide V width eos T.
Proof.
  intros H l Hnd Hall. etransitivity; [|exact H]. apply NoDup_incl_length; [exact Hnd|].
  intros p Hp. apply complete_in_enum. now apply Hall.
Qed.

Lemma ex_wide : wide 2 3 (Some 1%Z) 2 /\ eos_ok 2 (Some 1%Z) /\ to_completion (Some 1%Z) true /\
  complete 2 (Some 1%Z) 2 [0%Z; 1%Z] /\ sfin (chain ex_lm 0%Z [0%Z; 1%Z]) = true.
Proof.
  split; [apply wide_of_count; vm_compute; lia|]. split; [cbn; lia|]. split; [now left|]. split.
  - split.
    + repeat constructor; lia.
    + left. split; [discriminate|]. split; [reflexivity|]. split; [|cbn; lia].
      cbn. intros [H|[]]. discriminate.
  - reflexivity.
Qed.
