(* MiniTorch, unit C09Src — the meaning given to the torch operations that occur in the translated
   `_get_padding_buffers` and `pad_variable` (src/pydrobert/torch/_pad.py), and the encoding of their
   tensors as MiniPy values.  DEFINITIONS ONLY; the algebra is in LemmasC09.v.

   Tensors are (shape, row-major flat data) over three element types:
     bool   (torch.bool)                                tagged "$tensor.bool"   masks
     Z      (torch.long; UNBOUNDED, no int64 wrap)      tagged "$tensor.long"   lens, pad, arange, gather indices
     val    (the PAYLOAD: x, the fill value, buffers)   tagged "$tensor"
   A payload element is an arbitrary MiniPy value that the code only MOVES (gather, masked_select,
   masked_scatter, new_full, expand, slicing); no arithmetic / comparison is defined on it, so the payload dtype
   (float32/64, int64, NaN and infinities included) is irrelevant and not modelled.  Devices, strides /
   contiguity and aliasing of views are not modelled either: a tensor is its logical row-major content
   (`view` = reshape of that content; `clamp_` returns the clamped tensor, which is Python's meaning where
   the code applies it to a fresh temporary and uses the result).
   Every operation is defined on the dimensionalities stated with it and returns [None] outside that domain;
   the unit's [ext] turns [None] into [Stuck], so a tie lemma about a run that leaves the domain cannot be
   proved (fail-closed).  The two documented RuntimeErrors that the code can meet are modelled as such
   (`max()` of an empty tensor, `masked_scatter` with too short a source), see SrcRun.ext09.

   Each definition quotes the sentence of the torch documentation (2.x) it models.  This file is TRUSTED by
   the C09 tie; it is exercised on every run by the harness-side [src_pad_variable_check] (torch vs the
   interpreted source on the same inputs). *)
From Coq Require Import List ZArith Bool Arith String.
From PV Require Import MiniPy.Syntax MiniTorch.Ops.      (* Ops: wrap_dim *)
Import ListNotations.
Local Open Scope nat_scope.

Record tn (X : Type) := mkTn { shp : list nat; dat : list X }.
Arguments mkTn {X}. Arguments shp {X}. Arguments dat {X}.

Definition rank {X} (x : tn X) : nat := List.length (shp x).

(* number of elements of a shape *)
Fixpoint numel (sh : list nat) : nat :=
  match sh with [] => 1 | n :: r => n * numel r end.

(* tabulated row-major data: (f 0 .. f (n-1)), the n x m block, the n x m x k block *)
Definition tab1 {X} (n : nat) (f : nat -> X) : list X := map f (seq 0 n).
Definition tab2 {X} (n m : nat) (f : nat -> nat -> X) : list X := flat_map (fun i => tab1 m (f i)) (seq 0 n).
Definition tab3 {X} (n m k : nat) (f : nat -> nat -> nat -> X) : list X :=
  flat_map (fun i => tab2 m k (f i)) (seq 0 n).

(* row-major access; a position outside the buffer reads the default [d] *)
Definition at2 {X} (d : X) (m : nat) (l : list X) (i j : nat) : X := nth (i * m + j) l d.
Definition at3 {X} (d : X) (m k : nat) (l : list X) (i j c : nat) : X := nth ((i * m + j) * k + c) l d.

Fixpoint zipw {X Y W} (f : X -> Y -> W) (l1 : list X) (l2 : list Y) : list W :=
  match l1, l2 with
  | x :: t1, y :: t2 => f x y :: zipw f t1 t2
  | _, _ => []
  end.

Fixpoint nats_eqb (a b : list nat) : bool :=
  match a, b with
  | [], [] => true
  | x :: a', y :: b' => (x =? y) && nats_eqb a' b'
  | _, _ => false
  end.

(* ---- shape queries and shape-only operations (any element type) ---------------------------------- *)

(* Tensor.size(dim): "If dim is specified, returns an int holding the size of that dimension."
   None: dimension out of range (torch: IndexError).  Tensor.shape / Tensor.ndim are [shp] / [rank]. *)
Definition size {X} (x : tn X) (d : Z) : option nat :=
  option_map (fun k => nth k (shp x) 0) (wrap_dim (rank x) d).

(* Tensor.unsqueeze(dim): "Returns a new tensor with a dimension of size one inserted at the specified
   position. ... A dim value within the range [-input.dim() - 1, input.dim() + 1) can be used.  Negative dim
   will correspond to unsqueeze() applied at dim = dim + input.dim() + 1."  The data are unchanged. *)
Definition unsqueeze {X} (x : tn X) (d : Z) : option (tn X) :=
  match wrap_dim (S (rank x)) d with
  | Some k => Some (mkTn (firstn k (shp x) ++ 1 :: skipn k (shp x)) (dat x))
  | None => None
  end.

(* Tensor.flatten(start_dim): "Flattens input by reshaping it into a one-dimensional tensor.  If start_dim or
   end_dim are passed, only dimensions starting with start_dim and ending with end_dim are flattened.  The
   order of elements in input is unchanged."  (end_dim = -1.)  None: start_dim outside [-rank, rank) *)
Definition flatten_from {X} (x : tn X) (s : Z) : option (tn X) :=
  match wrap_dim (rank x) s with
  | Some k => Some (mkTn (firstn k (shp x) ++ [numel (skipn k (shp x))]) (dat x))
  | None => None
  end.

(* Tensor.view( *shape ): "Returns a new tensor with the same data as the self tensor but of a different
   shape. ... must have the same number of elements".  -1 is not modelled; the condition that the new shape be
   compatible with the STRIDES of self is not modelled (strides are not). *)
Definition view {X} (x : tn X) (s : list nat) : option (tn X) :=
  if numel (shp x) =? numel s then Some (mkTn s (dat x)) else None.

(* Tensor.expand( *sizes ): "Returns a new view of the self tensor with singleton dimensions expanded to a
   larger size. ... Any dimension of size 1 can be expanded to an arbitrary value".  Modelled for THREE
   dimensions on both sides, no -1; a dimension that is not 1 must keep its size (torch raises otherwise).
   Tensor.expand_as(other) "is equivalent to self.expand(other.size())". *)
Definition xdim_ok (a n : nat) : bool := (a =? n) || (a =? 1).
Definition xidx (a i : nat) : nat := if a =? 1 then 0 else i.

Definition expand3 {X} (d : X) (x : tn X) (s : list nat) : option (tn X) :=
  match shp x, s with
  | [a; b; c], [n; m; k] =>
      if xdim_ok a n && xdim_ok b m && xdim_ok c k
      then Some (mkTn [n; m; k] (tab3 n m k (fun i j l => at3 d b c (dat x) (xidx a i) (xidx b j) (xidx c l))))
      else None
  | _, _ => None
  end.

(* Basic slicing x[:k] of a 1-dimensional tensor with 0 <= k ("slice indices are clipped": k beyond the size
   means the whole tensor). *)
Definition slice1 {X} (x : tn X) (k : nat) : option (tn X) :=
  match shp x with
  | [n] => Some (mkTn [Nat.min k n] (firstn k (dat x)))
  | _ => None
  end.

(* Basic slicing x[:, :k] of a 3-dimensional tensor with 0 <= k: the first and last dimensions are kept
   whole, the second is cut to its first min(k, size) entries. *)
Definition slice3_1 {X} (d : X) (x : tn X) (k : nat) : option (tn X) :=
  match shp x with
  | [n; m; c] => Some (mkTn [n; Nat.min k m; c] (tab3 n (Nat.min k m) c (fun i j l => at3 d m c (dat x) i j l)))
  | _ => None
  end.

(* Integer indexing x[i] of a 2-dimensional tensor with 0 <= i < size(0): "an integer selects that index and
   removes the dimension" - row i.  None: out of range (torch: IndexError); negative i not modelled. *)
Definition select0 {X} (x : tn X) (i : nat) : option (tn X) :=
  match shp x with
  | [r; m] => if i <? r then Some (mkTn [m] (firstn m (skipn (i * m) (dat x)))) else None
  | _ => None
  end.

(* Tensor.new_full(size, fill_value): "Returns a Tensor of size size filled with fill_value." *)
Definition full {X} (s : list nat) (v : X) : tn X := mkTn s (repeat v (numel s)).

(* ---- integer tensors ----------------------------------------------------------------------------- *)

(* torch.arange(end), integer end >= 0, default dtype int64: "Returns a 1-D tensor of size
   ceil((end - start) / step) with values from the interval [start, end) taken with common difference step
   beginning from start" (start = 0, step = 1).  device= is ignored.  None: negative end. *)
Definition arange (n : Z) : option (tn Z) :=
  if (n <? 0)%Z then None else Some (mkTn [Z.to_nat n] (tab1 (Z.to_nat n) Z.of_nat)).

(* Element-wise binary operations / comparisons (`a - b`, `a + b`, `a > b`, `a >= b`, `a < b`; torch.sub:
   "Subtracts other ... from input", torch.gt: "Computes input > other element-wise ... The second argument can
   be a number or a tensor whose shape is broadcastable with the first argument").  Broadcasting is modelled in
   exactly the three forms the code uses:
     equal shapes                  element by element;
     (n, 1) with (w,)              "the dimension sizes must either be equal, one of them is 1, or one of them
                                    does not exist": result (n, w), out[i, j] = f a[i, 0] b[j];
     tensor with a Python number   every element with that number.
   Everything else: None. *)
Definition ew2 {X Y W} (f : X -> Y -> W) (dx : X) (dy : Y) (a : tn X) (b : tn Y) : option (tn W) :=
  match shp a, shp b with
  | [n; 1], [w] => Some (mkTn [n; w] (tab2 n w (fun i j => f (nth i (dat a) dx) (nth j (dat b) dy))))
  | _, _ => if nats_eqb (shp a) (shp b) then Some (mkTn (shp a) (zipw f (dat a) (dat b))) else None
  end.

Definition ew_s {X Y W} (f : X -> Y -> W) (a : tn X) (c : Y) : tn W := mkTn (shp a) (map (fun v => f v c) (dat a)).

(* Tensor.clamp_(min=c) = torch.clamp(input, min=c): "Clamps all elements in input into the range [min, max]",
   here y_i = max(x_i, c).  (In place on its receiver; the code uses the returned tensor.) *)
Definition clamp_min (x : tn Z) (c : Z) : tn Z := mkTn (shp x) (map (Z.max c) (dat x)).

(* Tensor.max() without dim: "Returns the maximum value of all elements in the input tensor", a 0-dimensional
   tensor.  None: no element (torch raises RuntimeError: "max(): Expected reduction dim to be specified for
   input.numel() == 0") *)
Definition max_all (x : tn Z) : option (tn Z) :=
  match dat x with
  | [] => None
  | a :: r => Some (mkTn [] [fold_left Z.max r a])
  end.

(* Tensor.sum(0) of a 2-dimensional integer tensor: "Returns the sum of each row of the input tensor in the
   given dimension dim ... dim is squeezed": out[j] = sum_i x[i, j] *)
Definition sum0 (x : tn Z) : option (tn Z) :=
  match shp x with
  | [r; m] => Some (mkTn [m] (tab1 m (fun j => fold_right Z.add 0%Z (map (fun i => at2 0%Z m (dat x) i j) (seq 0 r)))))
  | _ => None
  end.

(* the value of a 0-dimensional integer tensor: Tensor.item() "Returns the value of this tensor as a standard
   Python number", int(t), and t.__index__() where Python wants an integer (a slice bound, a size) *)
Definition scalar_of (x : tn Z) : option Z :=
  match shp x, dat x with [], [z] => Some z | _, _ => None end.

(* ---- boolean tensors ----------------------------------------------------------------------------- *)

(* Tensor.any(): "Tests if any element in input evaluates to True."  The code uses the result only as the
   condition of an `if` / operand of `or`: it is returned as the Python bool that `bool(t)` gives. *)
Definition any_true (x : tn bool) : bool := existsb (fun b => b) (dat x).

(* `~m` = torch.bitwise_not: "For bool tensors, it computes the logical NOT." *)
Definition bnot (x : tn bool) : tn bool := mkTn (shp x) (map negb (dat x)).

(* `a & b` = torch.bitwise_and: "For bool tensors, it computes the logical AND."  Equal shapes only. *)
Definition band (a b : tn bool) : option (tn bool) :=
  if nats_eqb (shp a) (shp b) then Some (mkTn (shp a) (zipw andb (dat a) (dat b))) else None.

(* ---- gather, masked_select, masked_scatter -------------------------------------------------------- *)

(* Tensor.gather(1, index) on 3-dimensional tensors: "Gathers values along an axis specified by dim.  For a
   3-D tensor the output is specified by: out[i][j][k] = input[i][index[i][j][k]][k]  # if dim == 1.  input and
   index must have the same number of dimensions.  It is also required that index.size(d) <= input.size(d) for
   all dimensions d != dim.  out will have the same shape as index."  Modelled when the sizes of dimensions 0
   and 2 are EQUAL (not just <=) and every index lies in [0, input.size(1)); None otherwise (torch raises
   RuntimeError for an index out of range). *)
Definition gather1 {X} (d : X) (x : tn X) (idx : tn Z) : option (tn X) :=
  match shp x, shp idx with
  | [n; t; f], [n'; w; f'] =>
      if (n =? n') && (f =? f') && forallb (fun z => (0 <=? z)%Z && (z <? Z.of_nat t)%Z) (dat idx)
      then Some (mkTn [n; w; f]
                   (tab3 n w f (fun i j l => at3 d t f (dat x) i (Z.to_nat (at3 0%Z w f (dat idx) i j l)) l)))
      else None
  | _, _ => None
  end.

(* torch.masked_select(input, mask) with a mask of input's shape: "Returns a new 1-D tensor which indexes the
   input tensor according to the boolean mask mask which is a BoolTensor" - the selected elements in row-major
   order.  None: shapes differ (torch broadcasts; not modelled). *)
Fixpoint mselect {X} (m : list bool) (x : list X) : list X :=
  match m, x with
  | b :: m', a :: x' => if b then a :: mselect m' x' else mselect m' x'
  | _, _ => []
  end.

Definition masked_select {X} (x : tn X) (mask : tn bool) : option (tn X) :=
  if nats_eqb (shp x) (shp mask)
  then let r := mselect (dat mask) (dat x) in Some (mkTn [List.length r] r)
  else None.

(* Tensor.masked_scatter(mask, source) with a mask of self's shape: "Copies elements from source into self
   tensor at positions where the mask is True.  Elements from source are copied into self starting at position
   0 of source and continuing in order one-by-one for each occurrence of mask being True. ... The source should
   have at least as many elements as the number of ones in mask."  (out of place: a new tensor.)
   outer None: shapes differ (not modelled); inner None: source too short - torch raises RuntimeError. *)
Fixpoint mscatter {X} (m : list bool) (dst src : list X) : option (list X) :=
  match m, dst with
  | b :: m', d :: dst' =>
      if b then
        match src with
        | s :: src' => option_map (cons s) (mscatter m' dst' src')
        | [] => None
        end
      else option_map (cons d) (mscatter m' dst' src)
  | _, _ => Some []
  end.

Definition masked_scatter {X} (x : tn X) (mask : tn bool) (src : tn X) : option (option (tn X)) :=
  if nats_eqb (shp x) (shp mask)
  then Some (option_map (mkTn (shp x)) (mscatter (dat mask) (dat x) (dat src)))
  else None.

(* ---- tensors as MiniPy values ------------------------------------------------------------------- *)
Local Open Scope string_scope.

Definition tag_bool : string := "$tensor.bool".
Definition tag_long : string := "$tensor.long".
Definition tag_pay : string := "$tensor".

Definition enc_shape (sh : list nat) : list val := map (fun n => VInt (Z.of_nat n)) sh.

Definition enc_b (t : tn bool) : val := VTuple [VStr tag_bool; VList (enc_shape (shp t)); VList (map VBool (dat t))].
Definition enc_i (t : tn Z) : val := VTuple [VStr tag_long; VList (enc_shape (shp t)); VList (map VInt (dat t))].
Definition enc_p (t : tn val) : val := VTuple [VStr tag_pay; VList (enc_shape (shp t)); VList (dat t)].

Fixpoint dec_nats (l : list val) : option (list nat) :=
  match l with
  | [] => Some []
  | VInt z :: r => if Z.leb 0 z then option_map (cons (Z.to_nat z)) (dec_nats r) else None
  | _ => None
  end.

Fixpoint dec_bools (l : list val) : option (list bool) :=
  match l with
  | [] => Some []
  | VBool b :: r => option_map (cons b) (dec_bools r)
  | _ => None
  end.

Fixpoint dec_ints (l : list val) : option (list Z) :=
  match l with
  | [] => Some []
  | VInt z :: r => option_map (cons z) (dec_ints r)
  | _ => None
  end.

Inductive anyt := TB (t : tn bool) | TI (t : tn Z) | TP (t : tn val).

Definition dec_any (v : val) : option anyt :=
  match v with
  | VTuple [VStr tag; VList sh; VList d] =>
      match dec_nats sh with
      | Some s =>
          if String.eqb tag tag_bool then option_map (fun l => TB (mkTn s l)) (dec_bools d)
          else if String.eqb tag tag_long then option_map (fun l => TI (mkTn s l)) (dec_ints d)
          else if String.eqb tag tag_pay then Some (TP (mkTn s d))
          else None
      | None => None
      end
  | _ => None
  end.

Definition enc_any (t : anyt) : val :=
  match t with TB x => enc_b x | TI x => enc_i x | TP x => enc_p x end.

Definition any_shape (t : anyt) : list nat :=
  match t with TB x => shp x | TI x => shp x | TP x => shp x end.

(* an operation that does not look at the elements, applied to a tensor of any element type; [dflt] supplies the
   element read outside a buffer (never reached on well-formed tensors) *)
Definition any_map (f : forall X, X -> tn X -> option (tn X)) (t : anyt) : option anyt :=
  match t with
  | TB x => option_map TB (f bool false x)
  | TI x => option_map TI (f Z 0%Z x)
  | TP x => option_map TP (f val VNone x)
  end.
