"""C13 — epoch samplers: correspondence between /repo's samplers and PV.C13.Model."""
import itertools
import json
from unittest import mock

import numpy as np
import torch

from vlib import COQ, CoqError, cb, cl, cln, cn, co, cp, cz, coq_eval_bools, coq_eval_print, exc_kind, shrink

IMPORTS = "From PV Require Import C13.Model C13.Spec.\nLocal Open Scope nat_scope.\n"
MODES = ["raise", "drop", "uneven", "ignore"]
CMODE = {"raise": "Raise", "drop": "Drop", "uneven": "Uneven", "ignore": "Ignore"}


class _DS:
    def __init__(self, n):
        self.n = n

    def __len__(self):
        return self.n


def _cln(xs):
    """list nat literal written as binary Z numerals converted inside Coq (a unary `513%nat` costs ~500 parser nodes;
    this made the `wide` stream two thirds of the run time)"""
    xs = [int(x) for x in xs]
    assert all(x >= 0 for x in xs)
    if not xs:
        return "(@nil nat)"
    return "(List.map Z.to_nat [" + "; ".join(map(str, xs)) + "]%Z)"


def _ds(case):
    n, kind = case["n"], case.get("ds", "sized")
    if kind == "list":
        return list(range(n))
    if kind == "tds":
        return torch.utils.data.TensorDataset(torch.arange(n))
    return _DS(n)


class _group:
    """simulated process-group state: W == 0 -> no (initialised) group, else this process is `rank` of W"""

    def __init__(self, W, rank):
        d = torch.distributed
        if W > 0:
            self.pats = [mock.patch.object(d, "is_available", lambda: True),
                         mock.patch.object(d, "is_initialized", lambda: True),
                         mock.patch.object(d, "get_rank", lambda *a, **k: rank),
                         mock.patch.object(d, "get_world_size", lambda *a, **k: W)]
        else:
            self.pats = [mock.patch.object(d, "is_initialized", lambda: False)]

    def __enter__(self):
        for p in self.pats:
            p.start()

    def __exit__(self, *a):
        for p in reversed(self.pats):
            p.stop()


def _mk(case, rank, init_epoch, ds=None, W=None):
    """construct one sampler while the process group looks like (W, rank). Entry-point variants: positional /
    keyword / mixed constructor call, defaults omitted where the value is the default, base_seed=None after
    torch.manual_seed, three kinds of Sized data source."""
    from pydrobert.torch.data import EpochRandomSampler, EpochSequentialSampler

    W = case["W"] if W is None else W
    ds = _ds(case) if ds is None else ds
    ctor, omit = case.get("ctor", "mixed"), case.get("omit_defaults", False)
    rand = case["kind"] == "random"
    cls = EpochRandomSampler if rand else EpochSequentialSampler
    if rand and case["seed"] is None:
        torch.manual_seed(case["tseed"])
    with _group(W, rank):
        if ctor == "pos":
            args = [ds, init_epoch] + ([case["seed"]] if rand else []) + [case["mode"]]
            if omit and case["mode"] == "raise":
                args.pop()
                if rand and case["seed"] is None:
                    args.pop()
                    if init_epoch == 0:
                        args.pop()
            return cls(*args)
        kw = dict(init_epoch=init_epoch, on_uneven_distributed=case["mode"])
        if rand:
            kw["base_seed"] = case["seed"]
        if omit:
            if init_epoch == 0:
                del kw["init_epoch"]
            if case["mode"] == "raise":
                del kw["on_uneven_distributed"]
            if rand and case["seed"] is None:
                del kw["base_seed"]
        if ctor == "kw":
            return cls(data_source=ds, **kw)
        return cls(ds, **kw)


def _ints(it):
    return [int(x) for x in it]


def _iterate_one(case, s):
    k, run = case["k"], case.get("run", "seq")
    if run == "seq":
        return [_ints(s) for _ in range(k + 1)]
    if run == "overlap":
        # several iterators of one sampler alive at once, consumed interleaved: iterator j must
        # still deliver epoch e0+j (the order is a function of (seed, epoch), not of call history)
        return _round_robin([iter(s) for _ in range(k + 1)])
    # "probe": other epochs are queried (as a length computation would) while one is consumed
    ys = []
    for _ in range(k + 1):
        y = []
        for i, x in enumerate(iter(s)):
            y.append(int(x))
            if i % 2 == 0:
                list(s.get_samples_for_epoch(case["e0"] + 7 + i))
                len(s)
        ys.append(y)
    return ys


def _round_robin(its):
    ys = [[] for _ in its]
    live = list(range(len(its)))
    step = 0
    while live:
        j = live[step % len(live)]
        try:
            ys[j].append(int(next(its[j])))
            step += 1
        except StopIteration:
            live.remove(j)
    return ys


def _consume(case, W, sams, ds):
    """sams: per rank a sampler / None (ValueError at construction) / 'exc:..'.  Per rank:
    [len, yields of k+1 successive iterations, first yield of a sampler constructed at epoch e0+k, side observations]"""
    e0, k = case["e0"], case["k"]
    out = list(sams)
    real = [r for r, s in enumerate(sams) if s is not None and not isinstance(s, str)]
    try:
        side = {}
        for r in real:
            s = sams[r]
            side[r] = {"len": int(len(s)), "pre_last": _ints(s.get_samples_for_epoch(e0 + k)),
                       "ignoring": _ints(s.get_samples_for_epoch_ignoring_distributed(e0 + k)),
                       "base_seed": int(s.base_seed) if case["kind"] == "random" else None}
            side[r]["ignoring_plain"] = _plain_epoch_order(case, s, ds, e0 + k)
        if case.get("xrank") == "interleaved" and case.get("run", "seq") == "seq":
            # the ranks' samplers live in one process and are advanced in lock step
            yss = {r: [] for r in real}
            for _ in range(k + 1):
                for r, y in zip(real, _round_robin([iter(sams[r]) for r in real])):
                    yss[r].append(y)
        else:
            yss = {r: _iterate_one(case, sams[r]) for r in (reversed(real) if case.get("xrank") == "built_first" else real)}
        for r in real:
            s = sams[r]
            sd = side[r]
            sd["post_first"] = _ints(s.get_samples_for_epoch(e0))
            sd["epoch_after"] = int(s.epoch)
            sd["len_after"] = int(len(s))
            s3 = _mk(case, r, e0, ds, W)          # resume by assigning the public attribute
            s3.epoch = e0 + k
            sd["assigned"] = _ints(s3)
            s2 = _mk(case, r, e0 + k, ds, W)      # resume through the constructor
            out[r] = [sd.pop("len"), yss[r], _ints(s2), sd]
    except Exception as e:  # no exception is a legal outcome once the sampler exists
        for r in real:
            out[r] = "exc:" + exc_kind(e)
    return out


def _plain_epoch_order(case, s, ds, epoch):
    """the epoch's order as a fresh sampler OUTSIDE any process group gives it for the same data source and
    (seed, epoch): 'the order a sampler yields for an epoch is a function of (seed, epoch) alone' - the documented
    get_samples_for_epoch_ignoring_distributed of a sampler inside a group (any world size, rank, mode) must be it"""
    from pydrobert.torch.data import EpochRandomSampler, EpochSequentialSampler

    with _group(0, 0):
        if case["kind"] == "random":
            p = EpochRandomSampler(ds if ds is not None else _ds(case), init_epoch=epoch, base_seed=int(s.base_seed))
        else:
            p = EpochSequentialSampler(ds if ds is not None else _ds(case), init_epoch=epoch)
        return _ints(p.get_samples_for_epoch_ignoring_distributed(epoch))


def _build(case, W, ranks, ds):
    sams = []
    for r in ranks:
        try:
            sams.append(_mk(case, r, case["e0"], ds, W))
        except ValueError:
            sams.append(None)
        except Exception as e:
            sams.append("exc:" + exc_kind(e))
    return sams


def _run_group(case, W, ds, sams=None):
    ranks = list(range(W)) if W > 0 else [0]
    cu = case.get("consume_under")
    ctx = _group(*cu) if cu else _group(0, 0)
    if sams is None and case.get("xrank", "serial") == "serial":
        out = []
        for r in ranks:
            s = _build(case, W, [r], ds)
            with ctx:
                out += _consume_at(case, W, r, s, ds)
        return out
    if sams is None:
        sams = _build(case, W, ranks, ds)
    with ctx:
        return _consume(case, W, sams, ds)


def _consume_at(case, W, r, s, ds):
    # one rank alone: pad so that _consume's rank index is r
    full = [None] * r + s
    return [_consume(case, W, full, ds)[r]]


def sub_cases(case):
    """a `groups` case is a sequence of process-group states met by ONE process; each state is judged like a plain case"""
    if "groups" not in case:
        return [case]
    subs = []
    for g in case["groups"]:
        c = {key: v for key, v in case.items() if key != "groups"}
        c["W"] = g
        subs.append(c)
    return subs


def run_impl(case):
    """Plain case: per rank None (ValueError) / 'exc:..' / [len, yields for k+1 successive epochs, first yield when
    constructed directly at epoch e0+k, side observations].  `groups` case: the list of that, one per group state: the
    samplers of every state (all ranks) are built first, one state after the other, on one shared data source, and
    only then consumed (reverse order when consume_order=rev)."""
    ds = _ds(case) if case.get("share_ds", True) else None
    if "groups" not in case:
        return _run_group(case, case["W"], ds)
    subs = sub_cases(case)
    built = [_build(c, c["W"], list(range(c["W"])) if c["W"] > 0 else [0], ds) for c in subs]
    order = list(range(len(subs)))
    if case.get("consume_order") == "rev":
        order.reverse()
    outs = [None] * len(subs)
    for i in order:
        outs[i] = _run_group(subs[i], subs[i]["W"], ds, built[i])
    return outs


def _seed_of(case, out):
    if case["kind"] != "random" or case["seed"] is not None:
        return case["seed"]
    for o in out:
        if isinstance(o, list):
            return o[3]["base_seed"]
    return 0


def oracle_orders(case, out=()):
    n = case["n"]
    seed = _seed_of(case, out)
    res = []
    for e in range(case["e0"], case["e0"] + case["k"] + 1):
        if case["kind"] == "random":
            res.append([int(x) for x in np.random.RandomState((seed, e)).permutation(n)])
        else:
            res.append(list(range(n)))
    return res


def _bad(out):
    """an illegal exception, or a negative index (cannot be written as a nat)"""
    for o in out:
        if isinstance(o, str):
            return True
        if o is not None and any(x < 0 for y in o[1] + [o[2]] for x in y):
            return True
    return False


def side_failures(case, out, orders=None):
    """Observations judged in Python.  `rel`: relations the property states (an epoch's samples are the same
    whether queried before / after iterating, reached by iterating, by assigning .epoch, or through the constructor;
    len() does not change).  `mod`: what the model additionally fixes (the undistributed order is the oracle's,
    .epoch counts the iterations, .base_seed is the seed used and - drawn after the same torch.manual_seed - is the
    same for every rank)."""
    orders = orders or oracle_orders(case, out)
    rel, mod = [], []
    seeds = set()
    for r, o in enumerate(out):
        if not isinstance(o, list):
            continue
        sd = o[3]
        if sd["pre_last"] != o[1][-1]:
            rel.append(f"rank {r}: get_samples_for_epoch(e0+k) before iterating != the iteration that reached e0+k")
        if sd["post_first"] != o[1][0]:
            rel.append(f"rank {r}: get_samples_for_epoch(e0) after iterating != the first iteration")
        if sd["assigned"] != o[1][-1]:
            rel.append(f"rank {r}: iterating after sampler.epoch = e0+k != the iteration that reached e0+k")
        if sd["len_after"] != o[0]:
            rel.append(f"rank {r}: len() changed by iterating")
        if "ignoring_plain" in sd and sd["ignoring"] != sd["ignoring_plain"]:
            rel.append(f"rank {r}: the epoch order (get_samples_for_epoch_ignoring_distributed(e0+k)) inside the group differs "
                       "from the order a sampler outside any group gives for the same (seed, epoch)")
        if sd["ignoring"] != orders[-1]:
            mod.append(f"rank {r}: get_samples_for_epoch_ignoring_distributed(e0+k) is not the (seed, epoch) permutation")
        if sd["epoch_after"] != case["e0"] + case["k"] + 1:
            mod.append(f"rank {r}: .epoch after k+1 iterations is {sd['epoch_after']}")
        if case["kind"] == "random":
            seeds.add(sd["base_seed"])
            if case["seed"] is not None and sd["base_seed"] != case["seed"]:
                mod.append(f"rank {r}: .base_seed is {sd['base_seed']}")
            if not 0 <= sd["base_seed"] <= 2**31 - 1:
                mod.append(f"rank {r}: .base_seed out of range")
    if len(seeds) > 1:
        mod.append("ranks drew different base seeds after the same torch.manual_seed")
    return rel, mod


def _rank_out(o):
    if o is None:
        return "None"
    return co(cp(cn(o[0]), cl([_cln(y) for y in o[1]])))


def _dist(case, r):
    return co(cp(cn(r), cn(case["W"]))) if case["W"] > 0 else "None"


def _plain_term(case, out, fn, with_side):
    if _bad(out):
        return "false"
    oo = oracle_orders(case, out)
    parts = []
    for r, o in enumerate(out):
        parts.append(f"{fn} {cn(case['n'])} {_dist(case, r)} {CMODE[case['mode']]} {cn(case['e0'])} vords {_rank_out(o)}")
        if o is not None and with_side:
            parts.append(f"list_eqb {_cln(o[2])} {_cln(o[1][-1])}")
    if with_side:
        rel, mod = side_failures(case, out, oo)
        parts.append(cb(not rel and not mod))
    elif case["kind"] == "sequential":
        parts.append(f"src_seq_order_check {cn(case['n'])}")
    else:
        # the translated EpochRandomSampler.get_samples_for_epoch_ignoring_distributed, NumPy's permutation of n items
        # for (seed, e0+k) as the oracle's answer, against what the implementation returned for that epoch
        seed = _seed_of(case, out)
        for r, o in enumerate(out):
            if isinstance(o, list):
                parts.append(f"src_rand_order_check {cn(case['n'])} {_dist(case, r)} {CMODE[case['mode']]} {cn(case['e0'])} "
                             f"({cz(seed)}) {cn(case['e0'] + case['k'])} {_cln(oo[-1])} {_cln(o[3]['ignoring'])}")
    return f"(let vords := {cl([_cln(o) for o in oo])} in " + " && ".join(parts) + ")"


def model_term(case, out):
    """bool: every rank's output equals the model's, starting at epoch e0+k gives the
    last of the iterated yields, and the side observations hold."""
    return "(" + " && ".join(_plain_term(c, o, "check", True) for c, o in zip(sub_cases(case), _outs(case, out))) + ")"


def _outs(case, out):
    return out if "groups" in case else [out]


IMPORTS_SRC = "From PV Require Import C13.Model C13.SrcRun.\nLocal Open Scope nat_scope.\n"


def src_term(case, out):
    """bool: the regenerated source terms (PV.Gen.C13Src), run by PV.MiniPy.Interp inside Coq, give what the
    implementation gave - per rank: ValueError / (len, the k+1 successive iterations)."""
    return "(" + " && ".join(_plain_term(c, o, "src_check", False) for c, o in zip(sub_cases(case), _outs(case, out))) + ")"


def source_tie(chk, cases, outs):
    """run the translated source inside Coq on the cases of this run (validates the translator + MiniPy semantics +
    ext13 against CPython; independent of whether the tie lemmas still compile)"""
    idx = [i for i, c in enumerate(cases) if c["n"] <= 64]
    try:
        res = coq_eval_bools(chk.workdir, IMPORTS_SRC, [src_term(cases[i], outs[i]) for i in idx], tag="src")
    except CoqError as e:
        chk.extra["source_tie_run"] = "not evaluated: " + str(e)[-400:]
        return
    bad = [idx[j] for j, ok in enumerate(res) if not ok]
    chk.extra["source_tie_run"] = {"cases": len(idx), "disagreements": len(bad)}
    chk.count("source_tie_cases", len(idx))
    if bad:
        i = bad[0]
        chk.report({"case": cases[i], "impl": outs[i],
                    "what": "the Python source as translated to MiniPy and interpreted in Coq (PV.C13.SrcRun.src_run) does not "
                            "reproduce the implementation's output: translator / interpreter / ext13 no longer describe the code",
                    "correspondence": "tie:C13:py2coq+MiniPy.Interp:AbstractEpochSampler.{__init__,__len__,get_samples_for_epoch,__iter__}",
                    "theorems_at_stake": ["c13_source_refines_model"]}, no_failing_input=True)


def _spec_plain(case, out):
    if _bad(out):
        return "false"
    W = max(case["W"], 1)
    mode = CMODE[case["mode"]] if case["W"] > 0 else "Ignore"
    parts = [f"spec_okb {cn(case['n'])} {cn(W)} {mode} {cn(case['k'] + 1)} {cl([_rank_out(o) for o in out])}"]
    for o in out:
        if o is not None:
            parts.append(f"list_eqb {_cln(o[2])} {_cln(o[1][-1])}")
    parts.append(cb(not side_failures(case, out)[0]))
    return "(" + " && ".join(parts) + ")"


def spec_term(case, out):
    return "(" + " && ".join(_spec_plain(c, o) for c, o in zip(sub_cases(case), _outs(case, out))) + ")"


def nontrivial(case):
    return any(c["W"] >= 2 and c["n"] >= c["W"] for c in sub_cases(case))


def _variant(rng, case):
    """entry-point / optional-state / call-history dimensions, drawn independently of the arithmetic ones"""
    case["ctor"] = rng.choice(["pos", "kw", "mixed"])
    case["omit_defaults"] = rng.random() < 0.5
    case["ds"] = rng.choice(["sized", "list", "tds"])
    case["xrank"] = rng.choice(["serial", "built_first", "interleaved"])
    case["share_ds"] = rng.random() < 0.7
    if rng.random() < 0.4:
        W2 = rng.choice([0, 1, 2, 3, 5])
        case["consume_under"] = [W2, rng.randrange(W2) if W2 else 0]
    if case["kind"] == "random" and rng.random() < 0.15:
        case["seed"], case["tseed"] = None, rng.choice([0, 1, rng.randint(0, 2**40)])
    return case


def gen_cases(chk):
    cases = []
    if chk.tier == "thorough":
        space = itertools.product(range(0, 25), range(0, 7), MODES, ["random", "sequential"], [0, 1, 3], [0, 1, 2])
        for n, W, mode, kind, e0, k in space:
            cases.append(dict(n=n, W=W, mode=mode, kind=kind, e0=e0, k=k, seed=(n * 7 + W + e0) % 1000, stream="exhaustive"))
        chk.extra["exhaustive"] = True
        chk.extra["exhaustive_scope"] = "n<=24, W in 0..6 (0 = no process group), all ranks, 4 modes, 2 samplers, e0 in {0,1,3}, k in {0,1,2}"
    else:
        for n, W, mode, kind in itertools.product(range(0, 13), range(0, 5), MODES, ["random", "sequential"]):
            cases.append(dict(n=n, W=W, mode=mode, kind=kind, e0=(n + W) % 3, k=(n + W) % 2 + (1 if n % 5 == 0 else 0),
                              seed=n * 5 + W, stream="exhaustive-slice"))
    rng = chk.rng
    # histories: overlapping iterators / probing other epochs mid-iteration (deterministic slice)
    for n, W, mode in itertools.product([0, 1, 5, 8, 9], [0, 2, 3], MODES):
        for run in ("overlap", "probe"):
            cases.append(dict(n=n, W=W, mode=mode, kind="random", e0=n % 3, k=1 + n % 2, seed=n * 11 + W, run=run,
                              stream="history"))
    # index-width boundaries: data sets just around 2^8 (and 2^9) items split over a few ranks
    for n in [254, 255, 256, 257, 258, 300, 511, 513]:
        for W in (2, 3, 4):
            for mode in ("drop", "uneven") + (("raise",) if n % W == 0 else ()):
                cases.append(dict(n=n, W=W, mode=mode, kind="random", e0=0, k=0, seed=n + W, stream="wide"))
    # one process meeting several process-group states in sequence: a sampler built before any group exists, then
    # every rank of groups of sizes 3, 2, 4, 1 (and other sequences), all built before any is consumed, on one data
    # source object (a per-process / per-data-source memo of rank or world size mixes the states up)
    seqs = [[0, 3, 2, 4, 1], [0, 2, 3], [3, 0, 2], [4, 2, 1, 0], [1, 3], [2, 4, 2]]
    for i, (n, mode, kind) in enumerate(itertools.product([0, 5, 6, 7, 12], MODES, ["random", "sequential"])):
        cases.append(dict(n=n, groups=seqs[i % len(seqs)], W=0, mode=mode, kind=kind, e0=i % 2, k=i % 2, seed=i,
                          xrank=["built_first", "interleaved"][i % 2], consume_order=["fwd", "rev"][(i // 2) % 2],
                          consume_under=[None, [3, 1], [2, 0]][i % 3], ds=["sized", "list", "tds"][i % 3], stream="group-sequence"))
    for _ in range(300 if chk.tier == "thorough" else 30):
        groups = [rng.choice([0, 1, 2, 3, 4, 5]) for _ in range(rng.randint(2, 5))]
        if rng.random() < 0.5:
            groups[0] = 0
        c = dict(n=rng.randint(0, 13), groups=groups, W=0, mode=rng.choice(MODES), kind=rng.choice(["random", "sequential"]),
                 e0=rng.randint(0, 3), k=rng.randint(0, 1), seed=rng.choice([0, 1, rng.randint(0, 2**31 - 1)]),
                 run=rng.choice(["seq", "seq", "overlap", "probe"]), consume_order=rng.choice(["fwd", "rev"]), stream="group-sequence")
        _variant(rng, c)
        c["xrank"] = rng.choice(["built_first", "interleaved"])
        cases.append(c)
    nrand = 4000 if chk.tier == "thorough" else 500
    for _ in range(nrand):
        W = rng.choice([0, 1, 2, 2, 3, 3, 4, 5, 6, 7, 9])
        n = rng.randint(0, 40)
        c = dict(n=n, W=W, mode=rng.choice(MODES), kind=rng.choice(["random", "random", "sequential"]),
                 e0=rng.choice([0, 1, 2, 3, 4, 5, 255, 256, 1000]), k=rng.randint(0, 3),
                 seed=rng.choice([0, 0, 1, 2**31 - 1, rng.randint(0, 2**31 - 1), rng.randint(0, 2**31 - 1)]),
                 run=rng.choice(["seq", "seq", "overlap", "probe"]), stream="random")
        if rng.random() < 0.6:
            _variant(rng, c)
        cases.append(c)
    return cases


def big_relation(chk):
    """Implementation-only search at sizes too large for Coq literals: per-rank lists for N around 2^15 and 2^16 must be
    pairwise disjoint, cover every index below the effective total, and have the reported lengths."""
    for n, W, mode, kind in [(65535, 2, "uneven", "random"), (65537, 2, "uneven", "random"), (65537, 3, "drop", "random"),
                             (70001, 4, "uneven", "random"), (131073, 3, "uneven", "random"), (32767, 2, "uneven", "random"),
                             (32768, 1, "raise", "random"), (32769, 2, "drop", "random"), (32768, 0, "raise", "random"),
                             (65536, 1, "uneven", "sequential"), (65539, 4, "drop", "sequential"), (32770, 3, "uneven", "sequential")]:
        case = dict(n=n, W=W, mode=mode, kind=kind, e0=0, k=0, seed=n % 97)
        out = run_impl(case)
        eff = n - n % W if mode == "drop" else n
        ok = all(isinstance(o, list) for o in out)
        allv = [x for o in out for x in o[1][0]] if ok else []
        rel = side_failures(case, out)[0] if ok else []
        ok = (ok and len(allv) == eff and len(set(allv)) == eff and not rel
              and all(0 <= x < n for x in allv) and all(o[0] == len(o[1][0]) and o[2] == o[1][0] for o in out))
        chk.count("big_relation")
        chk.note_case(case, True, "wide-impl-only")
        if not ok:
            chk.report({"case": case, "what": "per-rank index lists are not a partition of the first effective_total positions "
                        "of a permutation (lost / duplicated / out-of-range index) at a large data-set size",
                        "relations_failed": rel,
                        "impl_summary": {"lens": [o[0] if isinstance(o, list) else o for o in out], "yielded": len(allv),
                                         "distinct": len(set(allv)), "max": max(allv) if allv else None}})


def _fails(chk, case):
    out = run_impl(case)
    return not coq_eval_bools(chk.workdir, IMPORTS, [model_term(case, out)], tag="shr")[0]


def _cands(case):
    if "groups" in case:
        g = case["groups"]
        for i in range(len(g)):
            if len(g) > 1:
                c = dict(case)
                c["groups"] = g[:i] + g[i + 1:]
                yield c
        if len(g) == 1:
            c = {k: v for k, v in case.items() if k != "groups"}
            c["W"] = g[0]
            yield c
    for key, lo in (("k", 0), ("e0", 0), ("n", 0), ("W", 0)):
        if case[key] > lo:
            c = dict(case)
            c[key] = case[key] - 1
            yield c
    if case["kind"] == "random":
        c = dict(case)
        c["kind"] = "sequential"
        yield c
    for key, dflt in (("run", "seq"), ("xrank", "serial"), ("ctor", "mixed"), ("ds", "sized"), ("omit_defaults", False),
                      ("consume_under", None), ("share_ds", True)):
        if case.get(key, dflt) != dflt:
            c = dict(case)
            c[key] = dflt
            yield c
    if case["kind"] == "random" and case["seed"] is None:
        c = dict(case)
        c["seed"] = 1
        yield c
    if case["e0"] > 10:
        c = dict(case)
        c["e0"] = 3
        yield c
    if case["n"] > 40:
        for n2 in (case["n"] // 2, case["n"] - 10):
            c = dict(case)
            c["n"] = n2
            yield c


def judge(chk, case, out, model_ok):
    """Called for a case whose implementation output differs from the model."""
    spec_ok = coq_eval_bools(chk.workdir, IMPORTS, [spec_term(case, out)], tag="spec")[0]
    sides = [side_failures(c, o) for c, o in zip(sub_cases(case), _outs(case, out)) if not _bad(o)]
    rec = {"case": case, "impl": out,
           "model": coq_eval_print(chk.workdir, IMPORTS, model_show(case, out)),
           "spec_accepts_impl": spec_ok,
           "relations_failed": [x for rel, _ in sides for x in rel],
           "model_side_observations_failed": [x for _, mod in sides for x in mod],
           "correspondence": "corr:C13:EpochRandomSampler/EpochSequentialSampler",
           "theorems_at_stake": ["c13_len_eq_yielded", "c13_ranks_disjoint", "c13_ranks_cover_count",
                                 "c13_drop_equal_counts", "c13_raise_iff_indivisible",
                                 "c13_ignore_gives_full_epoch", "c13_order_function_of_epoch"]}
    if spec_ok:
        rec["what"] = "implementation differs from the model but its output satisfies the property's boolean reading"
    else:
        rec["what"] = "sampler output violates the property (lost/duplicated index, wrong length, wrong raise, or epoch-dependent order)"
    return rec, spec_ok


def model_show(case, out):
    items = []
    for c, o in zip(sub_cases(case), _outs(case, out)):
        orders = cl([_cln(x) for x in oracle_orders(c, o)])
        ranks = range(c["W"]) if c["W"] > 0 else [0]
        items.append(cl([f"run {cn(c['n'])} {_dist(c, r)} {CMODE[c['mode']]} {cn(c['e0'])} {orders}" for r in ranks]))
    return cl(items)


def _balanced(terms, shard=300):
    """order in which to hand the terms to coq_eval_bools so that the few long ones (stream wide) are dealt over the
    shards instead of sitting in one"""
    S = max(1, -(-len(terms) // shard))
    by_size = sorted(range(len(terms)), key=lambda i: -len(terms[i]))
    return [i for j in range(S) for i in by_size[j::S]]


def run(chk, cases=None):
    chk.rule = ("case = (n, world size W, mode, sampler kind, base seed, init epoch e0, extra epochs k); every rank of the "
                "group is constructed under a patched torch.distributed, len() and k+1 successive iterations are recorded, plus "
                "the first iteration of a sampler constructed at epoch e0+k (run=overlap: k+1 iterators alive and consumed interleaved; run=probe: other epochs and len() queried mid-iteration; stream wide: N around 2^8/2^9, and around 2^15/2^16 judged on the implementation alone); compared with PV.C13.Model.run evaluated by "
                "vm_compute on NumPy's permutation for (seed, epoch). Side observations per rank (get_samples_for_epoch before/after "
                "iterating, resuming by assigning .epoch, len() after iterating, get_samples_for_epoch_ignoring_distributed, .epoch, "
                ".base_seed) are judged in Python against the iterations / the oracle. Variants drawn independently: positional / keyword / "
                "mixed constructor call, defaults omitted, base_seed=None after torch.manual_seed, data source = Sized object / list / "
                "TensorDataset, ranks consumed serially / after all were built / in lock step, consumption while the process group looks "
                "different from construction time. Stream group-sequence: one process meets several group states in sequence (none, "
                "3, 2, 4, 1, ...), every rank of every state built on one shared data source before any is consumed; each state is judged "
                "like a plain case. non-trivial = W>=2 and n>=W (the epoch is really split)")
    chk.assumptions += ["np.random.RandomState((seed, epoch)).permutation(n) is the order oracle handed to the model",
                        "torch.distributed is simulated by patching is_available/is_initialized/get_rank/get_world_size",
                        "rank and world size are those of construction time (the model's init); later changes of the process group do not re-split a sampler"]
    if cases is None:
        big_relation(chk)
    cases = cases if cases is not None else gen_cases(chk)
    outs, terms = [], []
    for c in cases:
        stream = c.pop("stream", "random")
        out = run_impl(c)
        outs.append(out)
        terms.append(model_term(c, out))
        chk.note_case(c, nontrivial(c), stream)
        chk.count("mode=" + c["mode"])
        chk.count("kind=" + c["kind"])
        chk.count("W=%d" % c["W"] if "groups" not in c else "W=sequence")
        chk.count("outcome=" + ("raise" if any(o is None for g in _outs(c, out) for o in g) else "ok"))
        chk.count("run=" + c.get("run", "seq"))
        for key in ("ctor", "ds", "xrank"):
            chk.count(f"{key}={c.get(key, 'default')}")
        chk.count("consume_under=" + ("other-group" if c.get("consume_under") else "none"))
        chk.count("seed=" + ("None" if c["seed"] is None else "0" if c["seed"] == 0 else "int"))
    order = _balanced(terms)
    pres = coq_eval_bools(chk.workdir, IMPORTS, [terms[i] for i in order])
    res = [True] * len(terms)
    for i, ok in zip(order, pres):
        res[i] = ok
    source_tie(chk, cases, outs)
    bad = [i for i, ok in enumerate(res) if not ok]
    chk.extra["model_disagreements"] = len(bad)
    found_concrete = False
    for i in bad[:5]:
        case = shrink(cases[i], lambda c: _fails(chk, c), _cands, budget=25)
        out = run_impl(case)
        rec, spec_ok = judge(chk, case, out, False)
        if not spec_ok:
            found_concrete = True
            chk.report(rec)
    if bad and not found_concrete:
        # search the rest of the disagreements for a spec-level failure before giving up
        sterms = [spec_term(cases[i], outs[i]) for i in bad]
        sres = coq_eval_bools(chk.workdir, IMPORTS, sterms, tag="specall")
        hit = [bad[j] for j, ok in enumerate(sres) if not ok]
        if hit:
            rec, _ = judge(chk, cases[hit[0]], outs[hit[0]], False)
            chk.report(rec)
        else:
            rec, _ = judge(chk, cases[bad[0]], outs[bad[0]], False)
            chk.report(rec, no_failing_input=True)


def replay(chk, path):
    rec = json.loads(open(path).read())
    case = rec["case"]
    case.pop("stream", None)
    run(chk, [dict(case)])
