"""C13 — epoch samplers: correspondence between /repo's samplers and PV.C13.Model."""
import itertools
import json
from unittest import mock

import numpy as np
import torch

from vlib import COQ, CoqError, cb, cl, cln, cn, co, cp, coq_eval_bools, coq_eval_print, exc_kind, shrink

IMPORTS = "From PV Require Import C13.Model C13.Spec.\nLocal Open Scope nat_scope.\n"
MODES = ["raise", "drop", "uneven", "ignore"]
CMODE = {"raise": "Raise", "drop": "Drop", "uneven": "Uneven", "ignore": "Ignore"}


class _DS:
    def __init__(self, n):
        self.n = n

    def __len__(self):
        return self.n


def _mk(case, rank, init_epoch):
    from pydrobert.torch.data import EpochRandomSampler, EpochSequentialSampler

    n, W = case["n"], case["W"]
    pats = []
    if W > 0:
        d = torch.distributed
        pats = [mock.patch.object(d, "is_available", lambda: True),
                mock.patch.object(d, "is_initialized", lambda: True),
                mock.patch.object(d, "get_rank", lambda *a, **k: rank),
                mock.patch.object(d, "get_world_size", lambda *a, **k: W)]
    else:
        d = torch.distributed
        pats = [mock.patch.object(d, "is_initialized", lambda: False)]
    for p in pats:
        p.start()
    try:
        if case["kind"] == "random":
            s = EpochRandomSampler(_DS(n), init_epoch=init_epoch, base_seed=case["seed"],
                                   on_uneven_distributed=case["mode"])
        else:
            s = EpochSequentialSampler(_DS(n), init_epoch=init_epoch, on_uneven_distributed=case["mode"])
    finally:
        for p in pats:
            p.stop()
    return s


def run_impl(case):
    """Per rank: None (ValueError) or [len, yields for k+1 successive epochs, first yield when
    constructed directly at epoch e0+k]."""
    out = []
    ranks = range(case["W"]) if case["W"] > 0 else [0]
    for r in ranks:
        try:
            s = _mk(case, r, case["e0"])
            ln = len(s)
            run = case.get("run", "seq")
            if run == "seq":
                ys = [[int(x) for x in s] for _ in range(case["k"] + 1)]
            elif run == "overlap":
                # several iterators of one sampler alive at once, consumed interleaved: iterator j must
                # still deliver epoch e0+j (the order is a function of (seed, epoch), not of call history)
                its = [iter(s) for _ in range(case["k"] + 1)]
                ys = [[] for _ in its]
                live = list(range(len(its)))
                step = 0
                while live:
                    j = live[step % len(live)]
                    try:
                        ys[j].append(int(next(its[j])))
                        step += 1
                    except StopIteration:
                        live.remove(j)
            else:  # "probe": other epochs are queried (as a length computation would) while one is consumed
                ys = []
                for _ in range(case["k"] + 1):
                    it = iter(s)
                    y = []
                    for i, x in enumerate(it):
                        y.append(int(x))
                        if i % 2 == 0:
                            list(s.get_samples_for_epoch(case["e0"] + 7 + i))
                            len(s)
                    ys.append(y)
            s2 = _mk(case, r, case["e0"] + case["k"])
            direct = [int(x) for x in s2]
            out.append([int(ln), ys, direct])
        except ValueError:
            out.append(None)
        except Exception as e:  # any other exception is not a legal outcome
            out.append("exc:" + exc_kind(e))
    return out


def oracle_orders(case):
    n = case["n"]
    res = []
    for e in range(case["e0"], case["e0"] + case["k"] + 1):
        if case["kind"] == "random":
            res.append([int(x) for x in np.random.RandomState((case["seed"], e)).permutation(n)])
        else:
            res.append(list(range(n)))
    return res


def _rank_out(o):
    if o is None:
        return "None"
    return co(cp(cn(o[0]), cl([cln(y) for y in o[1]])))


def model_term(case, out):
    """bool: every rank's output equals the model's, and starting at epoch e0+k gives the
    last of the iterated yields."""
    if any(isinstance(o, str) for o in out):
        return "false"
    orders = cl([cln(o) for o in oracle_orders(case)])
    parts = []
    ranks = range(case["W"]) if case["W"] > 0 else [0]
    for r, o in zip(ranks, out):
        dist = co(cp(cn(r), cn(case["W"]))) if case["W"] > 0 else "None"
        parts.append(f"check {cn(case['n'])} {dist} {CMODE[case['mode']]} {cn(case['e0'])} {orders} {_rank_out(o)}")
        if o is not None:
            parts.append(f"list_eqb {cln(o[2])} {cln(o[1][-1])}")
    return "(" + " && ".join(parts) + ")"


IMPORTS_SRC = "From PV Require Import C13.Model C13.SrcRun.\nLocal Open Scope nat_scope.\n"


def src_term(case, out):
    """bool: the regenerated source terms (PV.Gen.C13Src), run by PV.MiniPy.Interp inside Coq, give what the
    implementation gave - per rank: ValueError / (len, the k+1 successive iterations)."""
    if any(isinstance(o, str) for o in out):
        return "false"
    orders = cl([cln(o) for o in oracle_orders(case)])
    parts = []
    ranks = range(case["W"]) if case["W"] > 0 else [0]
    for r, o in zip(ranks, out):
        dist = co(cp(cn(r), cn(case["W"]))) if case["W"] > 0 else "None"
        parts.append(f"src_check {cn(case['n'])} {dist} {CMODE[case['mode']]} {cn(case['e0'])} {orders} {_rank_out(o)}")
    if case["kind"] == "sequential":
        parts.append(f"src_seq_order_check {cn(case['n'])}")
    return "(" + " && ".join(parts) + ")"


def source_tie(chk, cases, outs):
    """run the translated source inside Coq on the cases of this run (validates the translator + MiniPy semantics +
    ext13 against CPython; independent of whether the tie lemmas still compile)"""
    idx = [i for i, c in enumerate(cases) if c["n"] <= 64]
    try:
        res = coq_eval_bools(chk.workdir, IMPORTS_SRC, [src_term(cases[i], outs[i]) for i in idx], tag="src")
    except CoqError as e:
        chk.extra["source_tie_run"] = "not evaluated: " + str(e)[-400:]
        return
    bad = [idx[j] for j, ok in enumerate(res) if not ok]
    chk.extra["source_tie_run"] = {"cases": len(idx), "disagreements": len(bad)}
    chk.count("source_tie_cases", len(idx))
    if bad:
        i = bad[0]
        chk.report({"case": cases[i], "impl": outs[i],
                    "what": "the Python source as translated to MiniPy and interpreted in Coq (PV.C13.SrcRun.src_run) does not "
                            "reproduce the implementation's output: translator / interpreter / ext13 no longer describe the code",
                    "correspondence": "tie:C13:py2coq+MiniPy.Interp:AbstractEpochSampler.{__init__,__len__,get_samples_for_epoch,__iter__}",
                    "theorems_at_stake": ["c13_source_refines_model"]}, no_failing_input=True)


def spec_term(case, out):
    if any(isinstance(o, str) for o in out):
        return "false"
    W = max(case["W"], 1)
    mode = CMODE[case["mode"]] if case["W"] > 0 else "Ignore"
    parts = [f"spec_okb {cn(case['n'])} {cn(W)} {mode} {cn(case['k'] + 1)} {cl([_rank_out(o) for o in out])}"]
    for o in out:
        if o is not None:
            parts.append(f"list_eqb {cln(o[2])} {cln(o[1][-1])}")
    return "(" + " && ".join(parts) + ")"


def nontrivial(case):
    return case["W"] >= 2 and case["n"] >= case["W"]


def gen_cases(chk):
    cases = []
    if chk.tier == "thorough":
        space = itertools.product(range(0, 25), range(0, 7), MODES, ["random", "sequential"], [0, 1, 3], [0, 1, 2])
        for n, W, mode, kind, e0, k in space:
            cases.append(dict(n=n, W=W, mode=mode, kind=kind, e0=e0, k=k, seed=(n * 7 + W + e0) % 1000, stream="exhaustive"))
        chk.extra["exhaustive"] = True
        chk.extra["exhaustive_scope"] = "n<=24, W in 0..6 (0 = no process group), all ranks, 4 modes, 2 samplers, e0 in {0,1,3}, k in {0,1,2}"
    else:
        for n, W, mode, kind in itertools.product(range(0, 13), range(0, 5), MODES, ["random", "sequential"]):
            cases.append(dict(n=n, W=W, mode=mode, kind=kind, e0=(n + W) % 3, k=(n + W) % 2 + (1 if n % 5 == 0 else 0),
                              seed=n * 5 + W, stream="exhaustive-slice"))
    rng = chk.rng
    # histories: overlapping iterators / probing other epochs mid-iteration (deterministic slice)
    for n, W, mode in itertools.product([0, 1, 5, 8, 9], [0, 2, 3], MODES):
        for run in ("overlap", "probe"):
            cases.append(dict(n=n, W=W, mode=mode, kind="random", e0=n % 3, k=1 + n % 2, seed=n * 11 + W, run=run,
                              stream="history"))
    # index-width boundaries: data sets just around 2^8 (and 2^9) items split over a few ranks
    for n in ([254, 255, 256, 257, 258, 300, 511, 513] if chk.tier == "thorough" else [255, 257, 300, 513]):
        for W in (2, 3, 4):
            for mode in ("drop", "uneven") + (("raise",) if n % W == 0 else ()):
                cases.append(dict(n=n, W=W, mode=mode, kind="random", e0=0, k=0, seed=n + W, stream="wide"))
    nrand = 4000 if chk.tier == "thorough" else 500
    for _ in range(nrand):
        W = rng.choice([0, 1, 2, 2, 3, 3, 4, 5, 6, 7, 9])
        n = rng.randint(0, 40)
        cases.append(dict(n=n, W=W, mode=rng.choice(MODES), kind=rng.choice(["random", "random", "sequential"]),
                          e0=rng.randint(0, 5), k=rng.randint(0, 3), seed=rng.choice([0, 0, 1, 2**31 - 1, rng.randint(0, 2**31 - 1), rng.randint(0, 2**31 - 1)]),
                          run=rng.choice(["seq", "seq", "overlap", "probe"]), stream="random"))
    return cases


def big_relation(chk):
    """Implementation-only search at sizes too large for Coq literals: per-rank lists for N around 2^16 must be
    pairwise disjoint, cover every index below the effective total, and have the reported lengths."""
    for n, W, mode in [(65535, 2, "uneven"), (65537, 2, "uneven"), (65537, 3, "drop"), (70001, 4, "uneven"), (131073, 3, "uneven")]:
        case = dict(n=n, W=W, mode=mode, kind="random", e0=0, k=0, seed=n % 97)
        out = run_impl(case)
        eff = n - n % W if mode == "drop" else n
        allv = [x for o in out for x in o[1][0]]
        ok = (all(o is not None and not isinstance(o, str) for o in out) and len(allv) == eff and len(set(allv)) == eff
              and all(0 <= x < n for x in allv) and all(o[0] == len(o[1][0]) for o in out))
        chk.count("big_relation")
        chk.note_case(case, True, "wide-impl-only")
        if not ok:
            chk.report({"case": case, "what": "per-rank index lists are not a partition of the first effective_total positions "
                        "of a permutation (lost / duplicated / out-of-range index) at a large data-set size",
                        "impl_summary": {"lens": [o[0] if o else None for o in out], "yielded": len(allv), "distinct": len(set(allv)), "max": max(allv) if allv else None}})


def _fails(chk, case):
    out = run_impl(case)
    return not coq_eval_bools(chk.workdir, IMPORTS, [model_term(case, out)], tag="shr")[0]


def _cands(case):
    for key, lo in (("k", 0), ("e0", 0), ("n", 0), ("W", 0)):
        if case[key] > lo:
            c = dict(case)
            c[key] = case[key] - 1
            yield c
    if case["kind"] == "random":
        c = dict(case)
        c["kind"] = "sequential"
        yield c
    if case.get("run", "seq") != "seq":
        c = dict(case)
        c["run"] = "seq"
        yield c
    if case["n"] > 40:
        for n2 in (case["n"] // 2, case["n"] - 10):
            c = dict(case)
            c["n"] = n2
            yield c


def judge(chk, case, out, model_ok):
    """Called for a case whose implementation output differs from the model."""
    spec_ok = coq_eval_bools(chk.workdir, IMPORTS, [spec_term(case, out)], tag="spec")[0]
    rec = {"case": case, "impl": out,
           "model": coq_eval_print(chk.workdir, IMPORTS, model_show(case)),
           "spec_accepts_impl": spec_ok,
           "correspondence": "corr:C13:EpochRandomSampler/EpochSequentialSampler",
           "theorems_at_stake": ["c13_len_eq_yielded", "c13_ranks_disjoint", "c13_ranks_cover_count",
                                 "c13_drop_equal_counts", "c13_raise_iff_indivisible",
                                 "c13_ignore_gives_full_epoch", "c13_order_function_of_epoch"]}
    if spec_ok:
        rec["what"] = "implementation differs from the model but its output satisfies the property's boolean reading"
    else:
        rec["what"] = "sampler output violates the property (lost/duplicated index, wrong length, wrong raise, or epoch-dependent order)"
    return rec, spec_ok


def model_show(case):
    orders = cl([cln(o) for o in oracle_orders(case)])
    ranks = range(case["W"]) if case["W"] > 0 else [0]
    items = []
    for r in ranks:
        dist = co(cp(cn(r), cn(case["W"]))) if case["W"] > 0 else "None"
        items.append(f"run {cn(case['n'])} {dist} {CMODE[case['mode']]} {cn(case['e0'])} {orders}")
    return cl(items)


def run(chk, cases=None):
    chk.rule = ("case = (n, world size W, mode, sampler kind, base seed, init epoch e0, extra epochs k); every rank of the "
                "group is constructed under a patched torch.distributed, len() and k+1 successive iterations are recorded, plus "
                "the first iteration of a sampler constructed at epoch e0+k (run=overlap: k+1 iterators alive and consumed interleaved; run=probe: other epochs and len() queried mid-iteration; stream wide: N around 2^8/2^9, and around 2^16 judged on the implementation alone); compared with PV.C13.Model.run evaluated by "
                "vm_compute on NumPy's permutation for (seed, epoch). non-trivial = W>=2 and n>=W (the epoch is really split)")
    chk.assumptions += ["np.random.RandomState((seed, epoch)).permutation(n) is the order oracle handed to the model",
                        "torch.distributed is simulated by patching is_available/is_initialized/get_rank/get_world_size"]
    if cases is None:
        big_relation(chk)
    cases = cases if cases is not None else gen_cases(chk)
    outs, terms = [], []
    for c in cases:
        stream = c.pop("stream", "random")
        out = run_impl(c)
        outs.append(out)
        terms.append(model_term(c, out))
        chk.note_case(c, nontrivial(c), stream)
        chk.count("mode=" + c["mode"])
        chk.count("W=%d" % c["W"])
        chk.count("outcome=" + ("raise" if any(o is None for o in out) else "ok"))
        chk.count("run=" + c.get("run", "seq"))
    res = coq_eval_bools(chk.workdir, IMPORTS, terms)
    source_tie(chk, cases, outs)
    bad = [i for i, ok in enumerate(res) if not ok]
    chk.extra["model_disagreements"] = len(bad)
    found_concrete = False
    for i in bad[:5]:
        case = shrink(cases[i], lambda c: _fails(chk, c), _cands, budget=25)
        out = run_impl(case)
        rec, spec_ok = judge(chk, case, out, False)
        if not spec_ok:
            found_concrete = True
            chk.report(rec)
    if bad and not found_concrete:
        # search the rest of the disagreements for a spec-level failure before giving up
        sterms = [spec_term(cases[i], outs[i]) for i in bad]
        sres = coq_eval_bools(chk.workdir, IMPORTS, sterms, tag="specall")
        hit = [bad[j] for j, ok in enumerate(sres) if not ok]
        if hit:
            rec, _ = judge(chk, cases[hit[0]], outs[hit[0]], False)
            chk.report(rec)
        else:
            rec, _ = judge(chk, cases[bad[0]], outs[bad[0]], False)
            chk.report(rec, no_failing_input=True)


def replay(chk, path):
    rec = json.loads(open(path).read())
    case = rec["case"]
    case.pop("stream", None)
    run(chk, [dict(case)])
