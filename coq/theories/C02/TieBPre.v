(* C02, second source tie - the block Gen.C02BSrc.mer_pre of `minimum_error_rate_loss` (the rank checks; per layout: the
   sizes taken from hyp.shape, the expansion of a 2-D reference by unsqueeze + repeat, the two shape checks,
   max_ref_steps, the flattening of ref and hyp by reshape), run symbolically on the arguments of a call, for every
   batch size N, number of samples M (also 0 and 1), widths R, H <> 0 and both layouts: it ends normally in the state
   [pre_vars] - ref / hyp replaced by the flattened (N*M x T | T x N*M) tensors over the SAME row-major data (for a 2-D
   reference: the data of Model.expand_ref), batch_size = N, samples = M. *)
From Coq Require Import ZArith QArith List String Bool Arith Lia.
From PV Require Import MiniPy.Syntax MiniPy.Interp MiniPy.Lemmas MiniTorch.Ops MiniTorch.Lemmas MiniTorch.OpsC07 MiniTorch.LemmasC07
  MiniTorch.OpsC01 MiniTorch.LemmasC01 MiniTorch.OpsC02 MiniTorch.OpsC02B MiniTorch.LemmasC02B.
From PV Require Import Gen.C02Src Gen.C02BSrc C01.SrcRun C01.TieLib C02.SrcRun C02.SrcRunB C02.TieBLib.
From PV Require C01.Obs C01.Model C02.Model.
Import ListNotations.
Local Open Scope string_scope.

#[local] Arguments enc_i : simpl never.
#[local] Arguments enc_x : simpl never.
#[local] Arguments enc_b : simpl never.
#[local] Arguments extB : simpl never.
#[local] Arguments view : simpl never.
#[local] Arguments repeat3 : simpl never.
#[local] Arguments Nat.mul : simpl never.

(* the variables of a call, the tensors given as they are *)
Definition call_vars (lp : tn fx) (ref hyp : tn Z) (bf : bool) (veos vincl vsub vnorm vi vd vs vred vwarn : val) : list (string * val) :=
  [("log_probs", enc_x lp); ("ref", enc_i ref); ("hyp", enc_i hyp); ("eos", veos); ("include_eos", vincl); ("sub_avg", vsub);
   ("batch_first", VBool bf); ("norm", vnorm); ("ins_cost", vi); ("del_cost", vd); ("sub_cost", vs); ("reduction", vred);
   ("warn", vwarn)] ++ globals02.

(* the flattened shape *)
Definition flat_shape (bf : bool) (K T : nat) : list nat := if bf then [K; T] else [T; K].
Definition shape3 (bf : bool) (N M T : nat) : list nat := if bf then [N; M; T] else [T; N; M].

Definition nat_v (n : nat) : val := VInt (Z.of_nat n).

(* the state after the block *)
Definition pre_vars (lp : tn fx) (ref hyp : tn Z) (bf : bool) (N M R H : nat)
  (veos vincl vsub vnorm vi vd vs vred vwarn : val) : list (string * val) :=
  [("log_probs", enc_x lp); ("ref", enc_i ref); ("hyp", enc_i hyp); ("eos", veos); ("include_eos", vincl); ("sub_avg", vsub);
   ("batch_first", VBool bf); ("norm", vnorm); ("ins_cost", vi); ("del_cost", vd); ("sub_cost", vs); ("reduction", vred);
   ("warn", vwarn)] ++ globals02 ++
  (if bf
   then [("$t1", VTuple [nat_v N; nat_v M; nat_v H]); ("batch_size", nat_v N); ("samples", nat_v M); ("max_hyp_steps", nat_v H);
         ("max_ref_steps", nat_v R)]
   else [("$t2", VTuple [nat_v H; nat_v N; nat_v M]); ("max_hyp_steps", nat_v H); ("batch_size", nat_v N); ("samples", nat_v M);
         ("max_ref_steps", nat_v R)]).

Lemma unsqueeze_2_1 : forall {X} A B (d : list X), OpsC07.unsqueeze (mkTn [A; B] d) 1 = Some (mkTn [A; 1%nat; B] d).
Proof. reflexivity. Qed.

#[local] Arguments OpsC07.unsqueeze : simpl never.

Ltac shapes_eq := evB; rewrite ?Z.eqb_refl; cbn; reflexivity.

Section Pre.
  Variable w : list (list Q).
  Variables (N M R H : nat) (lp dh : list Z) (lpx : list fx).
  Variables (veos vincl vsub vnorm vi vd vs vred vwarn : val).
  Hypothesis HR : R <> 0%nat.
  Hypothesis HH : H <> 0%nat.

  (* batch_first, 3-D reference *)
  Lemma pre_bf_3 : forall dr,
    exec (extB w) mer_pre
      (mkState (call_vars (mkTn [N; M] lpx) (mkTn [N; M; R] dr) (mkTn [N; M; H] dh) true veos vincl vsub vnorm vi vd vs vred vwarn) []) =
    Ok CNormal
      (mkState (pre_vars (mkTn [N; M] lpx) (mkTn [(N * M)%nat; R] dr) (mkTn [(N * M)%nat; H] dh) true N M R H
                  veos vincl vsub vnorm vi vd vs vred vwarn) []).
  Proof.
    intros dr. unfold mer_pre, call_vars, pre_vars, globals02, globals01, nat_v. cbn [app].
    ifB. ifB. ifB. ifB. asgB. asgB. asgB. asgB. ifB.
    ifB_t shapes_eq.
    asgB.
    asgB_t ltac:(evB; rewrite view_3_tail by assumption; reflexivity).
    asgB_t ltac:(evB; rewrite view_3_tail by assumption; reflexivity).
    reflexivity.
  Qed.

  (* batch_first, 2-D reference (N rows of width R) *)
  Lemma pre_bf_2 : forall (m : list (list Z)), List.length m = N -> rectw R m ->
    exec (extB w) mer_pre
      (mkState (call_vars (mkTn [N; M] lpx) (mkTn [N; R] (List.concat m)) (mkTn [N; M; H] dh) true veos vincl vsub vnorm vi vd vs vred vwarn) []) =
    Ok CNormal
      (mkState (pre_vars (mkTn [N; M] lpx) (mkTn [(N * M)%nat; R] (List.concat (List.concat (map (fun s => repeat s M) m))))
                  (mkTn [(N * M)%nat; H] dh) true N M R H veos vincl vsub vnorm vi vd vs vred vwarn) []).
  Proof.
    intros m HN Hm. unfold mer_pre, call_vars, pre_vars, globals02, globals01, nat_v. cbn [app].
    ifB. ifB. ifB. ifB. asgB. asgB. asgB. asgB. ifB.
    asgB_t ltac:(evB; rewrite unsqueeze_2_1; cbn; repeat rwB; rewrite (repeat3_rows N R M m HN Hm); reflexivity).
    ifB_t shapes_eq.
    asgB.
    asgB_t ltac:(evB; rewrite view_3_tail by assumption; reflexivity).
    asgB_t ltac:(evB; rewrite view_3_tail by assumption; reflexivity).
    reflexivity.
  Qed.

  (* time-major, 3-D reference *)
  Lemma pre_tm_3 : forall dr,
    exec (extB w) mer_pre
      (mkState (call_vars (mkTn [N; M] lpx) (mkTn [R; N; M] dr) (mkTn [H; N; M] dh) false veos vincl vsub vnorm vi vd vs vred vwarn) []) =
    Ok CNormal
      (mkState (pre_vars (mkTn [N; M] lpx) (mkTn [R; (N * M)%nat] dr) (mkTn [H; (N * M)%nat] dh) false N M R H
                  veos vincl vsub vnorm vi vd vs vred vwarn) []).
  Proof.
    intros dr. unfold mer_pre, call_vars, pre_vars, globals02, globals01, nat_v. cbn [app].
    ifB. ifB. ifB. ifB. asgB. asgB. asgB. asgB. ifB.
    ifB_t shapes_eq.
    asgB.
    asgB_t ltac:(evB; rewrite view_3_head by assumption; reflexivity).
    asgB_t ltac:(evB; rewrite view_3_head by assumption; reflexivity).
    reflexivity.
  Qed.

  (* time-major, 2-D reference (R rows of width N) *)
  Lemma pre_tm_2 : forall (m : list (list Z)), List.length m = R -> rectw N m ->
    exec (extB w) mer_pre
      (mkState (call_vars (mkTn [N; M] lpx) (mkTn [R; N] (List.concat m)) (mkTn [H; N; M] dh) false veos vincl vsub vnorm vi vd vs vred vwarn) []) =
    Ok CNormal
      (mkState (pre_vars (mkTn [N; M] lpx)
                  (mkTn [R; (N * M)%nat] (List.concat (List.concat (map (fun row => map (fun x => repeat x M) row) m))))
                  (mkTn [H; (N * M)%nat] dh) false N M R H veos vincl vsub vnorm vi vd vs vred vwarn) []).
  Proof.
    intros m HRm Hm. unfold mer_pre, call_vars, pre_vars, globals02, globals01, nat_v. cbn [app].
    ifB. ifB. ifB. ifB. asgB. asgB. asgB. asgB. ifB.
    asgB_t ltac:(evB; rewrite unsqueeze_2_m1; cbn; repeat rwB; rewrite (repeat3_entries R N M m HRm Hm); reflexivity).
    ifB_t shapes_eq.
    asgB.
    asgB_t ltac:(evB; rewrite view_3_head by assumption; reflexivity).
    asgB_t ltac:(evB; rewrite view_3_head by assumption; reflexivity).
    reflexivity.
  Qed.
End Pre.
