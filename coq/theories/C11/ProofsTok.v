(* C11 - lemmas: seconds <-> frames, token ids, transcript <-> token tensor round trip. *)
From Coq Require Import List ZArith Bool Lia QArith Qround Qabs Lqa.
From PV Require Import C11.Model C11.Spec C11.ProofsCtm.
Import ListNotations.
Local Open Scope Z_scope.


Lemma floordiv_bounds a d : (0 < d)%Q ->
  (inject_Z (floordiv a d) * d <= a)%Q /\ (a < (inject_Z (floordiv a d) + 1) * d)%Q.
Proof.
  intros Hd. unfold floordiv. set (y := (a / d)%Q).
  assert (Hy : (y * d == a)%Q) by (unfold y; field; lra).
  pose proof (Qfloor_le y) as H1. pose proof (Qlt_floor y) as H2.
  rewrite inject_Z_plus in H2. change (inject_Z 1) with 1%Q in H2.
  split; nra.
Qed.

Lemma floordiv_nonneg a d : (0 < d)%Q -> (0 <= a)%Q -> 0 <= floordiv a d.
Proof.
  intros Hd Ha. unfold floordiv. set (y := (a / d)%Q).
  assert (Hy : (y * d == a)%Q) by (unfold y; field; lra).
  assert (H0 : (0 <= y)%Q) by nra.
  pose proof (Qfloor_resp_le 0 y H0) as H. exact H.
Qed.

Lemma frames_within d s e : (0 < d)%Q -> (s <= e)%Q ->
  within_shift d s (back d (fst (frames_of (Some d) s e)))
  /\ within_shift d e (back d (snd (frames_of (Some d) s e)))
  /\ fst (frames_of (Some d) s e) <= snd (frames_of (Some d) s e)
  /\ ((s < e)%Q -> fst (frames_of (Some d) s e) < snd (frames_of (Some d) s e))
  /\ ((0 <= s)%Q -> 0 <= fst (frames_of (Some d) s e)).
Proof.
  intros Hd Hse. unfold frames_of, within_shift, back, Qdiv. change (/ 1000)%Q with (1 # 1000)%Q.
  destruct (floordiv_bounds (1000 * s) d Hd) as [S1 S2].
  set (sf := floordiv (1000 * s) d) in *.
  destruct (Qeq_bool s e) eqn:Eq; cbn [fst snd].
  - apply Qeq_bool_iff in Eq. repeat split.
    + apply Qabs_Qlt_condition. split; lra.
    + apply Qabs_Qlt_condition. split; lra.
    + lia.
    + intros H. lra.
    + intros H. apply floordiv_nonneg; lra.
  - assert (Hlt : (s < e)%Q).
    { destruct (Qlt_le_dec s e) as [H|H]; [exact H|]. exfalso.
      assert (E : (s == e)%Q) by lra. apply Qeq_bool_iff in E. congruence. }
    destruct (floordiv_bounds (1000 * e + (1 # 2) * d) d Hd) as [E1 E2].
    set (g := floordiv (1000 * e + (1 # 2) * d) d) in *.
    repeat split.
    + apply Qabs_Qlt_condition. split; lra.
    + destruct (Z.max_spec g (sf + 1)) as [[Hc Hm]|[Hc Hm]]; rewrite Hm.
      * (* the rounded end was not beyond the start frame: one frame is forced *)
        assert (Hq : (inject_Z g <= inject_Z sf)%Q) by (rewrite <- Zle_Qle; lia).
        rewrite inject_Z_plus. change (inject_Z 1) with 1%Q.
        apply Qabs_Qlt_condition. split; nra.
      * apply Qabs_Qlt_condition. split; lra.
    + lia.
    + intros _. lia.
    + intros H. apply floordiv_nonneg; lra.
Qed.

(* ---------- token ids ------------------------------------------------------------------------- *)

Lemma tk_eqb_eq a b : tk_eqb a b = true <-> a = b.
Proof.
  destruct a as [x|x], b as [y|y]; cbn [tk_eqb]; try (split; intros H; discriminate).
  - rewrite Z.eqb_eq. split; [intros ->; reflexivity|intros H; inversion H; reflexivity].
  - rewrite str_eqb_eq. split; [intros ->; reflexivity|intros H; inversion H; reflexivity].
Qed.


Lemma assoc_in_values {K} (eqb : K -> K -> bool) k (l : list (K * Z)) i :
  assoc eqb k l = Some i -> In i (map snd l).
Proof.
  induction l as [|[k0 i0] l IH]; cbn [assoc map snd]; [discriminate|].
  destruct (eqb k k0); [intros H; inversion H; left; reflexivity|intros H; right; apply IH; exact H].
Qed.

(* id2token = the inverse of an injective token2id *)
Lemma assoc_inverse (t2i : list (tk * Z)) t i :
  NoDup (map snd t2i) -> assoc tk_eqb t t2i = Some i -> assoc Z.eqb i (swap_pairs t2i) = Some t.
Proof.
  induction t2i as [|[t0 i0] l IH]; intros Hn H; [discriminate|].
  cbn [map snd] in Hn. inversion Hn as [|? ? Hna Hnl]; subst.
  cbn [assoc] in H. unfold swap_pairs. cbn [map fst snd assoc].
  destruct (tk_eqb t t0) eqn:E.
  - apply tk_eqb_eq in E. inversion H. subst. rewrite Z.eqb_refl. reflexivity.
  - destruct (i =? i0) eqn:Ei.
    + apply Z.eqb_eq in Ei. subst. exfalso. apply Hna. exact (assoc_in_values _ _ _ _ H).
    + apply IH; assumption.
Qed.

(* ---------- transcript -> tensor -> transcript ------------------------------------------------ *)




Lemma one_item_back d (t : tk) (s e : Q) :
  (0 < d)%Q -> (0 <= s)%Q -> (s <= e)%Q ->
  let fr := frames_of (Some d) s e in
  ((fst fr =? -1) || (snd fr =? -1)) = false
  /\ within_shift d s (inject_Z (fst fr) * d / 1000) /\ within_shift d e (inject_Z (snd fr) * d / 1000).
Proof.
  intros Hd Hs Hse fr. destruct (frames_within d s e Hd Hse) as (W1 & W2 & L1 & _ & N).
  fold fr in W1, W2, L1, N. specialize (N Hs). split; [|split; assumption].
  apply orb_false_iff. split; apply Z.eqb_neq; lia.
Qed.

Lemma tokens_roundtrip_vocab t2i d unk tr :
  (0 < d)%Q -> NoDup (map snd t2i) ->
  Forall (fun a => (exists i, assoc tk_eqb (item_tok a) t2i = Some i) /\ item_times_ok a) tr ->
  exists rows, transcript_to_token tr (Some t2i) (Some d) unk false = Ok rows
               /\ Forall2 (item_close d) tr (token_to_transcript rows (Some (swap_pairs t2i)) (Some d)).
Proof.
  intros Hd Hn H. unfold transcript_to_token.
  induction H as [|a tr [[i Hi] Ht] _ IH].
  - exists []. split; [reflexivity|constructor].
  - destruct IH as [rows [Hr Hf]]. cbn [map_res].
    destruct a as [t|t s e]; cbn [item_tok item_times_ok] in *.
    + rewrite Hi. rewrite Hr. exists ((i, -1, -1) :: rows). split; [reflexivity|].
      cbn [token_to_transcript map]. rewrite (assoc_inverse t2i t i Hn Hi). cbn. constructor; [reflexivity|exact Hf].
    + destruct Ht as [Hs Hse].
      destruct (one_item_back d t s e Hd Hs Hse) as (Hm & W1 & W2).
      destruct (frames_of (Some d) s e) as [sf ef] eqn:Ef. cbn [fst snd] in *.
      rewrite Hi. rewrite Hr. exists ((i, sf, ef) :: rows). split; [reflexivity|].
      cbn [token_to_transcript map]. rewrite (assoc_inverse t2i t i Hn Hi). rewrite Hm.
      constructor; [|exact Hf]. cbn. repeat split; assumption.
Qed.

(* without a vocabulary: integer tokens are their own ids *)
Lemma tokens_roundtrip_plain d unk tr :
  (0 < d)%Q ->
  Forall (fun a => (exists i, item_tok a = TInt i) /\ item_times_ok a) tr ->
  exists rows, transcript_to_token tr None (Some d) unk false = Ok rows
               /\ Forall2 (item_close d) tr (token_to_transcript rows None (Some d)).
Proof.
  intros Hd H. unfold transcript_to_token.
  induction H as [|a tr [[i Hi] Ht] _ IH].
  - exists []. split; [reflexivity|constructor].
  - destruct IH as [rows [Hr Hf]]. cbn [map_res].
    destruct a as [t|t s e]; cbn [item_tok item_times_ok] in *; subst t.
    + rewrite Hr. exists ((i, -1, -1) :: rows). split; [reflexivity|].
      cbn [token_to_transcript map]. cbn. constructor; [reflexivity|exact Hf].
    + destruct Ht as [Hs Hse].
      destruct (one_item_back d (TInt i) s e Hd Hs Hse) as (Hm & W1 & W2).
      destruct (frames_of (Some d) s e) as [sf ef] eqn:Ef. cbn [fst snd] in *.
      rewrite Hr. exists ((i, sf, ef) :: rows). split; [reflexivity|].
      cbn [token_to_transcript map]. rewrite Hm.
      constructor; [|exact Hf]. cbn. repeat split; assumption.
Qed.
