(* C05 — the translated source of `ctc_prefix_search_advance` as an executable: the environment [ext05], the
   encoding of the model's frame / beam as MiniPy tensors, and the correspondence entry point
   [src_advance_check] (same interface as Model.check_advance).  Definitions only; the lemmas are in
   TieRun.v / Tie*.v.

   PV.Gen.C05Src.cpsa_body is regenerated from /repo/src/pydrobert/torch/_decoding.py on every run by
   harness/py2coq/translate.py (the WHOLE body of the function; the decorators `@script` /
   `@functional_wrapper` are outside it: TorchScript compilation is NOT modelled, the tie is about the Python
   text as eager CPython runs it).

   Tensors as MiniPy values: VTuple [VStr tag; VList shape; VList data] with tag "$tensor.f" (float: elements
   [VQ q], q in lowest terms, or [VInf false] = -inf), "$tensor.i" (long: [VInt z]), "$tensor.b" (bool: [VBool b]).
   [ext05 sel] gives the torch calls of the body the meaning defined in PV.MiniTorch.OpsC05 ([sel] = the topk
   oracle).  What arrives here (see MiniPy.Interp):
     x.dim() x.size(k) x.unsqueeze(k) x.expand(a, b, c) x.transpose(a, b) x.view(a, b) x.gather(d, i)
     x.scatter(d, i, value | src) x.masked_fill(m, v) x.clamp(lo, hi) x.clamp(max=h) x.clamp(min=l) x.sum(d)
     x.any(d) x.to(torch.bool) x.topk(k, d) x.new_empty(a, b, c)        "$method.<name>", receiver first
     x.shape  x.dtype  x.device                                          "$attr.<name>"
     shape[1:]                                                           "$getitem" on a tuple with a slice
     a + b  a * b  a - 1  a % V  a & b  a | b                            "operator" [name; a; b]
     a == b  a == -inf  a <= b  a >= c                                   "compare" [name; a; b]
     ~a                                                                  "$invert"
     torch.zeros / torch.empty / torch.full (size, [fill,] device=, dtype=)  torch.cat([a, b], d)
     torch.where(c, a, b)  torch.nn.functional.one_hot(x, V)  trunc_divide(x, V)  float("inf")
   `torch.bool` is the attribute `bool` of the module object `torch`, which [advance_vars] puts among the
   initial variables as {bool: "$dtype.b"} (a module global of the source file).
   ASSUMPTIONS: `trunc_divide` is pydrobert.torch._compat's wrapper, eager branch `input.div(other,
   rounding_mode="trunc")`; dtypes are tokens naming the element KIND only (float / long / bool), devices are
   one opaque token; cells of torch.empty / new_empty are 0; long + bool and long * bool promote the bool to
   0 / 1; torch.topk's indices come from the oracle [sel].  Everything else is Stuck. *)
From Coq Require Import ZArith QArith Qcanon List String Bool Arith.
From PV Require Import MiniPy.Syntax MiniPy.Interp MiniTorch.Ops MiniTorch.OpsC05 Gen.C05Src.
From PV Require Import C05.Model.
Import ListNotations.
Local Open Scope string_scope.
Local Open Scope nat_scope.

(* ---- tensors as MiniPy values ------------------------------------------------------------------------ *)
Definition tag_f : string := "$tensor.f".
Definition tag_i : string := "$tensor.i".
Definition tag_b : string := "$tensor.b".

Definition vnat (n : nat) : val := VInt (Z.of_nat n).
Definition enc_shape (sh : list nat) : list val := map vnat sh.

Definition em (m : mass) : val := match m with Fin q => VQ (this q) | NegInf => VInf false end.

Definition enc_f (t : tn mass) : val := VTuple [VStr tag_f; VList (enc_shape (shp t)); VList (map em (dat t))].
Definition enc_i (t : tn Z) : val := VTuple [VStr tag_i; VList (enc_shape (shp t)); VList (map VInt (dat t))].
Definition enc_b (t : tn bool) : val := VTuple [VStr tag_b; VList (enc_shape (shp t)); VList (map VBool (dat t))].

Inductive anyt := TF (t : tn mass) | TI (t : tn Z) | TB (t : tn bool).

Definition enc_any (a : anyt) : val := match a with TF t => enc_f t | TI t => enc_i t | TB t => enc_b t end.

Fixpoint dec_nats (l : list val) : option (list nat) :=
  match l with
  | [] => Some []
  | VInt z :: r => if Z.leb 0 z then option_map (cons (Z.to_nat z)) (dec_nats r) else None
  | _ => None
  end.

Fixpoint dec_list {X} (f : val -> option X) (l : list val) : option (list X) :=
  match l with
  | [] => Some []
  | v :: r => match f v, dec_list f r with Some x, Some xs => Some (x :: xs) | _, _ => None end
  end.

Definition dm (v : val) : option mass :=
  match v with VQ q => Some (Fin (Q2Qc q)) | VInf false => Some NegInf | _ => None end.
Definition dz (v : val) : option Z := match v with VInt z => Some z | _ => None end.
Definition db (v : val) : option bool := match v with VBool b => Some b | _ => None end.

Definition dec (v : val) : option anyt :=
  match v with
  | VTuple [VStr tag; VList sh; VList d] =>
      match dec_nats sh with
      | Some s =>
          if String.eqb tag tag_f then option_map (fun l => TF (mkTn s l)) (dec_list dm d)
          else if String.eqb tag tag_i then option_map (fun l => TI (mkTn s l)) (dec_list dz d)
          else if String.eqb tag tag_b then option_map (fun l => TB (mkTn s l)) (dec_list db d)
          else None
      | None => None
      end
  | _ => None
  end.

Definition any_shape (a : anyt) : list nat := match a with TF t => shp t | TI t => shp t | TB t => shp t end.

(* a kind-independent operation applied to a tensor of any kind (with the kind's filler element) *)
Definition any_map (f : forall X, X -> tn X -> option (tn X)) (a : anyt) : option anyt :=
  match a with
  | TF t => option_map TF (f mass NegInf t)
  | TI t => option_map TI (f Z 0%Z t)
  | TB t => option_map TB (f bool false t)
  end.

Definition any_map2 (f : forall X, X -> tn X -> tn X -> option (tn X)) (a b : anyt) : option anyt :=
  match a, b with
  | TF x, TF y => option_map TF (f mass NegInf x y)
  | TI x, TI y => option_map TI (f Z 0%Z x y)
  | TB x, TB y => option_map TB (f bool false x y)
  | _, _ => None
  end.

Definition undef (why : string) : string := "MiniTorch(C05): outside the modelled domain: " ++ why.

Definition oka (why : string) (o : option anyt) (st : state) : outcome val :=
  match o with Some a => Ok (enc_any a) st | None => Stuck (undef why) end.
Definition okf (why : string) (o : option (tn mass)) (st : state) : outcome val := oka why (option_map TF o) st.
Definition oki (why : string) (o : option (tn Z)) (st : state) : outcome val := oka why (option_map TI o) st.
Definition okb (why : string) (o : option (tn bool)) (st : state) : outcome val := oka why (option_map TB o) st.
Definition okv (why : string) (o : option val) (st : state) : outcome val :=
  match o with Some v => Ok v st | None => Stuck (undef why) end.

Definition runtime_error : string := "RuntimeError".

(* ---- tokens ---------------------------------------------------------------------------------------------- *)
Definition device_token : val := VStr "$device".
Definition dtype_f : val := VStr "$dtype.f".
Definition dtype_i : val := VStr "$dtype.i".
Definition dtype_b : val := VStr "$dtype.b".
Definition torch_module : val := VDict [(VStr "bool", dtype_b)].

Definition dtype_of (a : anyt) : val := match a with TF _ => dtype_f | TI _ => dtype_i | TB _ => dtype_b end.

(* the keywords of a factory call: only device= (the device token) and dtype= (a dtype token, required) *)
Definition factory_dtype (kw : list (string * val)) : option val :=
  if forallb (fun kv => (is (fst kv) "device" && val_eqb (snd kv) device_token) || is (fst kv) "dtype") kw
  then match filter (fun kv => is (fst kv) "dtype") kw with
       | [(_, t)] => Some t
       | _ => None
       end
  else None.

(* a tensor of the kind named by a dtype token, every cell = that kind's zero *)
Definition zeros_of (t : val) (sizes : list Z) : option anyt :=
  if val_eqb t dtype_f then option_map TF (full sizes (Fin 0%Qc))
  else if val_eqb t dtype_i then option_map TI (full sizes 0%Z)
  else if val_eqb t dtype_b then option_map TB (full sizes false)
  else None.

Definition slice_bound (v : val) (dflt : nat) : option nat :=
  match v with
  | VNone => Some dflt
  | VInt z => if (0 <=? z)%Z then Some (Z.to_nat z) else None
  | _ => None
  end.

Definition clamp_bound (v : val) : option (option Z) :=
  match v with VInt z => Some (Some z) | VNone => Some None | _ => None end.

Definition no_kw (kw : list (string * val)) : bool := match kw with [] => true | _ => false end.

(* ---- the environment ---------------------------------------------------------------------------------- *)
Section Ext.
Variable sel : nat -> list mass -> nat -> list nat.

Definition ext05 (f : string) (args : list val) (kw : list (string * val)) (st : state) : outcome val :=
  if is f "torch.zeros" then
    match args with
    | [VTuple sizes] =>
        match factory_dtype kw, dec_list dz sizes with
        | Some t, Some zs => oka "zeros" (zeros_of t zs) st
        | _, _ => Stuck "zeros: arguments"
        end
    | _ => Stuck "zeros"
    end
  else if is f "torch.empty" then
    match args with
    | [VTuple sizes] =>
        match factory_dtype kw, dec_list dz sizes with
        | Some t, Some zs => oka "empty" (zeros_of t zs) st
        | _, _ => Stuck "empty: arguments"
        end
    | _ => Stuck "empty"
    end
  else if is f "torch.full" then
    match args with
    | [VTuple sizes; v] =>
        match factory_dtype kw, dec_list dz sizes, dm v with
        | Some t, Some zs, Some m => if val_eqb t dtype_f then okf "full" (full zs m) st else Stuck "full: dtype"
        | _, _, _ => Stuck "full: arguments"
        end
    | _ => Stuck "full"
    end
  else if is f "$method.clamp" then
    match args, kw with
    | [t; lo; hi], [] =>
        match dec t, clamp_bound lo, clamp_bound hi with
        | Some (TI x), Some l, Some h => Ok (enc_i (iclamp x l h)) st
        | _, _, _ => Stuck "clamp"
        end
    | [t], [(k, v)] =>
        match dec t, v with
        | Some (TI x), VInt z =>
            if is k "max" then Ok (enc_i (iclamp x None (Some z))) st
            else if is k "min" then Ok (enc_i (iclamp x (Some z) None)) st
            else Stuck "clamp: keyword"
        | _, _ => Stuck "clamp"
        end
    | _, _ => Stuck "clamp"
    end
  else if negb (no_kw kw) then Stuck ("ext05: keyword arguments of " ++ f)
  else if is f "$method.dim" then
    match args with
    | [t] => match dec t with Some a => Ok (vnat (List.length (any_shape a))) st | None => Stuck "dim" end
    | _ => Stuck "dim"
    end
  else if is f "$attr.shape" then
    match args with
    | [t] => match dec t with Some a => Ok (VTuple (enc_shape (any_shape a))) st | None => Stuck "shape" end
    | _ => Stuck "shape"
    end
  else if is f "$attr.device" then
    match args with
    | [t] => match dec t with Some _ => Ok device_token st | None => Stuck "device" end
    | _ => Stuck "device"
    end
  else if is f "$attr.dtype" then
    match args with
    | [t] => match dec t with Some a => Ok (dtype_of a) st | None => Stuck "dtype" end
    | _ => Stuck "dtype"
    end
  else if is f "$getitem" then
    match args with
    | [VTuple l; VTuple [VStr tag; lo; hi; VNone]] =>
        if String.eqb tag "$slice" then
          match slice_bound lo 0, slice_bound hi (List.length l) with
          | Some a, Some b => Ok (VTuple (firstn (b - a) (skipn a l))) st
          | _, _ => Stuck "tuple slice bounds"
          end
        else Stuck "getitem"
    | _ => Stuck "getitem"
    end
  else if is f "$method.size" then
    match args with
    | [t; VInt d] =>
        match dec t with
        | Some a => okv "size" (option_map vnat (size (mkTn (any_shape a) ([] : list unit)) d)) st
        | None => Stuck "size"
        end
    | _ => Stuck "size"
    end
  else if is f "float" then
    match args with
    | [VStr s] => if String.eqb s "inf" then Ok (VInf true) st
                  else if String.eqb s "-inf" then Ok (VInf false) st else Stuck "float"
    | _ => Stuck "float"
    end
  else if is f "$method.unsqueeze" then
    match args with
    | [t; VInt d] =>
        match dec t with
        | Some a => oka "unsqueeze" (any_map (fun X dx x => unsqueeze dx x d) a) st
        | None => Stuck "unsqueeze"
        end
    | _ => Stuck "unsqueeze"
    end
  else if is f "$method.expand" then
    match args with
    | t :: sizes =>
        match dec t, dec_list dz sizes with
        | Some a, Some zs => oka "expand" (any_map (fun X dx x => expand dx x zs) a) st
        | _, _ => Stuck "expand"
        end
    | _ => Stuck "expand"
    end
  else if is f "$method.transpose" then
    match args with
    | [t; VInt d0; VInt d1] =>
        match dec t with
        | Some a => oka "transpose" (any_map (fun X dx x => transpose dx x d0 d1) a) st
        | None => Stuck "transpose"
        end
    | _ => Stuck "transpose"
    end
  else if is f "$method.view" then
    match args with
    | t :: sizes =>
        match dec t, dec_list dz sizes with
        | Some a, Some zs => oka "view" (any_map (fun X dx x => view_merge dx x zs) a) st
        | _, _ => Stuck "view"
        end
    | _ => Stuck "view"
    end
  else if is f "$method.gather" then
    match args with
    | [t; VInt d; i] =>
        match dec t, dec i with
        | Some a, Some (TI ix) => oka "gather" (any_map (fun X dx x => gather dx x d ix) a) st
        | _, _ => Stuck "gather"
        end
    | _ => Stuck "gather"
    end
  else if is f "$method.scatter" then
    match args with
    | [t; VInt d; i; s] =>
        match dec t, dec i, dec s with
        | Some (TI x), Some (TI ix), Some (TI sx) => oki "scatter" (scatter_src 0%Z x d ix sx) st
        | Some (TF x), Some (TI ix), None =>
            match dm s with
            | Some m => okf "scatter" (scatter_value NegInf x d ix m) st
            | None => Stuck "scatter: value"
            end
        | _, _, _ => Stuck "scatter"
        end
    | _ => Stuck "scatter"
    end
  else if is f "$method.masked_fill" then
    match args with
    | [t; m; v] =>
        match dec t, dec m, dm v with
        | Some (TF x), Some (TB mk), Some mv => okf "masked_fill" (masked_fill NegInf x mk mv) st
        | _, _, _ => Stuck "masked_fill"
        end
    | _ => Stuck "masked_fill"
    end
  else if is f "$method.sum" then
    match args with
    | [t; VInt d] => match dec t with Some (TF x) => okf "sum" (fsum x d) st | _ => Stuck "sum" end
    | _ => Stuck "sum"
    end
  else if is f "$method.any" then
    match args with
    | [t; VInt d] => match dec t with Some (TB x) => okb "any" (bany x d) st | _ => Stuck "any" end
    | _ => Stuck "any"
    end
  else if is f "$method.to" then
    match args with
    | [t; tok] =>
        match dec t with
        | Some (TI x) => if val_eqb tok dtype_b then Ok (enc_b (to_bool x)) st else Stuck "to: dtype"
        | _ => Stuck "to"
        end
    | _ => Stuck "to"
    end
  else if is f "$method.topk" then
    match args with
    | [t; VInt k; VInt d] =>
        match dec t with
        | Some (TF x) => match topk sel x k d with
                         | Some (vals, idx) => Ok (VTuple [enc_f vals; enc_i idx]) st
                         | None => Stuck (undef "topk")
                         end
        | _ => Stuck "topk"
        end
    | _ => Stuck "topk"
    end
  else if is f "$method.new_empty" then
    match args with
    | t :: sizes =>
        match dec t, dec_list dz sizes with
        | Some a, Some zs => oka "new_empty" (zeros_of (dtype_of a) zs) st
        | _, _ => Stuck "new_empty"
        end
    | _ => Stuck "new_empty"
    end
  else if is f "operator" then
    match args with
    | [VStr o; a; b] =>
        match dec a, dec b, b with
        | Some (TF x), Some (TF y), _ =>
            if is o "add" then okf "add" (fadd x y) st
            else if is o "mul" then okf "mul" (fmul x y) st
            else Stuck ("operator " ++ o)
        | Some (TI x), Some (TB y), _ =>
            if is o "add" then oki "add" (iadd_b x y) st
            else if is o "mul" then oki "mul" (imul_b x y) st
            else Stuck ("operator " ++ o)
        | Some (TI x), Some (TI y), _ =>
            if is o "add" then oki "add" (iadd x y) st else Stuck ("operator " ++ o)
        | Some (TB x), Some (TB y), _ =>
            if is o "and" then okb "and" (band x y) st
            else if is o "or" then okb "or" (bor x y) st
            else Stuck ("operator " ++ o)
        | Some (TI x), None, VInt c =>
            if is o "add" then Ok (enc_i (iadd_s x c)) st
            else if is o "sub" then Ok (enc_i (isub_s x c)) st
            else if is o "mod" then oki "remainder" (irem_s x c) st
            else Stuck ("operator " ++ o)
        | _, _, _ => Stuck "operator"
        end
    | _ => Stuck "operator"
    end
  else if is f "compare" then
    match args with
    | [VStr o; a; b] =>
        match dec a, dec b, b with
        | Some (TI x), Some (TI y), _ =>
            if is o "eq" then okb "eq" (ieq x y) st
            else if is o "le" then okb "le" (ile x y) st
            else Stuck ("compare " ++ o)
        | Some (TI x), None, VInt c =>
            if is o "ge" then Ok (enc_b (ige_s x c)) st else Stuck ("compare " ++ o)
        | Some (TF x), None, VInf false =>
            if is o "eq" then Ok (enc_b (feq_neginf x)) st else Stuck ("compare " ++ o)
        | _, _, _ => Stuck "compare"
        end
    | _ => Stuck "compare"
    end
  else if is f "$invert" then
    match args with
    | [t] => match dec t with Some (TB x) => Ok (enc_b (bnot x)) st | _ => Stuck "invert" end
    | _ => Stuck "invert"
    end
  else if is f "torch.cat" then
    match args with
    | [VList [a; b]; VInt d] =>
        match dec a, dec b with
        | Some x, Some y => oka "cat" (any_map2 (fun X dx p q => cat2 dx p q d) x y) st
        | _, _ => Stuck "cat"
        end
    | _ => Stuck "cat"
    end
  else if is f "torch.where" then
    match args with
    | [c; a; b] =>
        match dec c, dec a, dec b with
        | Some (TB m), Some x, Some y => oka "where" (any_map2 (fun X dx p q => where_ dx m p q) x y) st
        | _, _, _ => Stuck "where"
        end
    | _ => Stuck "where"
    end
  else if is f "torch.nn.functional.one_hot" then
    match args with
    | [t; VInt n] => match dec t with Some (TI x) => oki "one_hot" (one_hot x n) st | _ => Stuck "one_hot" end
    | _ => Stuck "one_hot"
    end
  else if is f "trunc_divide" then
    match args with
    | [t; VInt c] => match dec t with Some (TI x) => oki "trunc_divide" (itrunc_div_s x c) st | _ => Stuck "trunc_divide" end
    | _ => Stuck "trunc_divide"
    end
  else Stuck ("ext05: " ++ f).
End Ext.

(* ---- the model's frame / beam as tensors (ONE batch element: N = 1) ---------------------------------------- *)
(* every cell is read with the list accessors (and defaults) the model itself uses: on a well-formed frame / beam
   (ProofsModel.wf: every list has its length) this is the row-major encoding of the lists *)
Section Enc.
Variables (V : nat) (fr : frame) (bm : beam).
Let K' := List.length (b_nb bm).

Definition enc_ext : tn mass :=
  tab [1; K'; V] (fun ix => Fin (nth (at_ ix 2) (nth (at_ ix 1) (f_ext fr) []) 0%Qc)).
Definition enc_nonext : tn mass := tab [1; V] (fun ix => Fin (nth (at_ ix 1) (f_nonext fr) 0%Qc)).
Definition enc_blank : tn mass := tab [1] (fun _ => Fin (f_blank fr)).
Definition enc_nb : tn mass := tab [1; K'] (fun ix => nth (at_ ix 1) (b_nb bm) NegInf).
Definition enc_bb : tn mass := tab [1; K'] (fun ix => nth (at_ ix 1) (b_b bm) NegInf).
Definition enc_y : tn Z :=
  tab [b_t bm; 1; K'] (fun ix => Z.of_nat (nth (at_ ix 0) (nth (at_ ix 2) (b_y bm) []) 0)).
Definition enc_last : tn Z := tab [1; K'] (fun ix => Z.of_nat (nth (at_ ix 1) (b_last bm) 0)).
Definition enc_lens : tn Z := tab [1; K'] (fun ix => Z.of_nat (nth (at_ ix 1) (b_lens bm) 0)).
Definition enc_isp : tn bool :=
  tab [1; K'; K'] (fun ix => nth (at_ ix 2) (nth (at_ ix 1) (b_isp bm) []) false).
End Enc.

Definition vars_of (ext nonext blank : tn mass) (w : Z) (nb b : tn mass) (y last lens : tn Z) (isp : tn bool)
  : list (string * val) :=
  [("probs_t", VTuple [enc_f ext; enc_f nonext; enc_f blank]);
   ("width", VInt w);
   ("probs_prev", VTuple [enc_f nb; enc_f b]);
   ("y_prev", enc_i y);
   ("y_prev_last", enc_i last);
   ("y_prev_lens", enc_i lens);
   ("prev_is_prefix", enc_b isp);
   ("torch", torch_module)].

Definition advance_vars (V width : nat) (fr : frame) (bm : beam) : list (string * val) :=
  vars_of (enc_ext V fr bm) (enc_nonext V fr) (enc_blank fr) (Z.of_nat width) (enc_nb bm) (enc_bb bm)
          (enc_y bm) (enc_last bm) (enc_lens bm) (enc_isp bm).

(* the interpreted source; the topk oracle answers [choice] *)
Definition run_advance (V width : nat) (fr : frame) (bm : beam) (choice : list nat) : outcome val :=
  Interp.run (ext05 (sel_given choice)) cpsa_body (advance_vars V width fr bm).

(* ... or the model's stable selection *)
Definition run_advance_stable (V width : nat) (fr : frame) (bm : beam) : outcome val :=
  Interp.run (ext05 sel_stable) cpsa_body (advance_vars V width fr bm).

(* ---- the returned tensors as the model's (beam, (src, nonext)) and back ------------------------------------ *)
(* (y_next (H, 1, W), y_next_last (1, W), y_next_lens (1, W), (nb (1, W), b (1, W)), next_is_prefix (1, W, W),
    next_src (1, W), next_is_nonext (1, W)) *)
Definition enc_out (res : beam * (list nat * list bool)) : val :=
  let '(nx, (src, nonext)) := res in
  let W := List.length (b_nb nx) in
  VTuple [enc_i (enc_y nx); enc_i (enc_last nx); enc_i (enc_lens nx);
          VTuple [enc_f (enc_nb nx); enc_f (enc_bb nx)];
          enc_b (enc_isp nx);
          enc_i (tab [1; W] (fun ix => Z.of_nat (nth (at_ ix 1) src 0)));
          enc_b (tab [1; W] (fun ix => nth (at_ ix 1) nonext false))].

Definition znat (z : Z) : option nat := if (0 <=? z)%Z then Some (Z.to_nat z) else None.

Fixpoint sequence {A} (l : list (option A)) : option (list A) :=
  match l with
  | [] => Some []
  | Some a :: r => option_map (cons a) (sequence r)
  | None :: _ => None
  end.

Definition dec_out (v : val) : option (beam * (list nat * list bool)) :=
  match v with
  | VTuple [vy; vlast; vlens; VTuple [vnb; vb]; visp; vsrc; vne] =>
      match dec vy, dec vlast, dec vlens, dec vnb, dec vb, dec visp, dec vsrc, dec vne with
      | Some (TI y), Some (TI last), Some (TI lens), Some (TF nb), Some (TF b), Some (TB isp), Some (TI src), Some (TB ne) =>
          match shp y with
          | [H; 1; W] =>
              if nats_eqb (shp last) [1; W] && nats_eqb (shp lens) [1; W] && nats_eqb (shp nb) [1; W]
                 && nats_eqb (shp b) [1; W] && nats_eqb (shp isp) [1; W; W] && nats_eqb (shp src) [1; W]
                 && nats_eqb (shp ne) [1; W]
              then
                match sequence (map (fun k => sequence (map (fun s => znat (get 0%Z y [s; 0; k])) (seq 0 H))) (seq 0 W)),
                      sequence (map (fun k => znat (get 0%Z last [0; k])) (seq 0 W)),
                      sequence (map (fun k => znat (get 0%Z lens [0; k])) (seq 0 W)),
                      sequence (map (fun k => znat (get 0%Z src [0; k])) (seq 0 W)) with
                | Some cols, Some lasts, Some lenss, Some srcs =>
                    Some (mkBeam H cols lasts lenss
                            (map (fun k => get NegInf nb [0; k]) (seq 0 W))
                            (map (fun k => get NegInf b [0; k]) (seq 0 W))
                            (map (fun k => map (fun k' => get false isp [0; k; k']) (seq 0 W)) (seq 0 W)),
                          (srcs, map (fun k => get false ne [0; k]) (seq 0 W)))
                | _, _, _, _ => None
                end
              else None
          | _ => None
          end
      | _, _, _, _, _, _, _, _ => None
      end
  | _ => None
  end.

(* None: the interpreter got stuck, raised, or returned something that is not seven such tensors *)
Definition src_advance (V width : nat) (fr : frame) (bm : beam) (choice : list nat)
  : option (beam * (list nat * list bool)) :=
  match run_advance V width fr bm choice with
  | Ok v _ => dec_out v
  | _ => None
  end.

(* the comparison Model.check_advance makes, on an arbitrary result *)
Definition compare_advance (V width : nat) (fr : frame) (bm : beam) (choice : list nat)
  (res : beam * (list nat * list bool))
  (o_y : list (list nat)) (o_last o_lens : list nat) (o_nb o_b : list mass)
  (o_isp : list (list bool)) (o_src : list nat) (o_nonext : list bool) : bool :=
  let '(nx, (src, nonext)) := res in
  topk_ok V fr bm 0%Qc width choice
  && list_nat_eqb (b_lens nx) o_lens
  && list_nat_eqb (b_last nx) o_last
  && all2 (fun k c => list_nat_eqb (prefix_of nx k) (firstn (nth k o_lens O) c))
          (seq 0 width) o_y
  && all2 (mass_close 0%Qc) (b_nb nx) o_nb
  && all2 (mass_close 0%Qc) (b_b nx) o_b
  && all2 list_bool_eqb (b_isp nx) o_isp
  && list_nat_eqb src o_src
  && list_bool_eqb nonext o_nonext.

(* same interface as Model.check_advance: the interpreted source (topk = the observed answer [choice], which the
   model-side [topk_ok] must accept) against the implementation's output *)
Definition src_advance_check (V width : nat) (fr : frame) (bm : beam) (choice : list nat)
  (o_y : list (list nat)) (o_last o_lens : list nat) (o_nb o_b : list mass)
  (o_isp : list (list bool)) (o_src : list nat) (o_nonext : list bool) : bool :=
  match src_advance V width fr bm choice with
  | Some res => compare_advance V width fr bm choice res o_y o_last o_lens o_nb o_b o_isp o_src o_nonext
  | None => false
  end.

(* does the observed answer coincide with the stable selection (the oracle of the c05_source_*_stable theorems)? *)
Definition choice_is_stable (V width : nat) (fr : frame) (bm : beam) (choice : list nat) : bool :=
  list_nat_eqb choice
    (topk_stable (fun i => nth i (map (cand V fr bm) (seq 0 (ncand V bm))) NegInf) (ncand V bm) (Kout V bm width)).
