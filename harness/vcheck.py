#!/venv/bin/python
"""Entry point: vcheck.py Cnn [--tier quick|thorough] [--seed N] [--replay path]."""
import argparse
import importlib
import os
import sys
import traceback

sys.path.insert(0, os.path.dirname(os.path.abspath(__file__)))
import vlib  # noqa: E402


def main():
    vlib.reexec_if_needed()
    ap = argparse.ArgumentParser()
    ap.add_argument("prop")
    ap.add_argument("--tier", default=os.environ.get("VERIF_TIER") or "quick", choices=["quick", "thorough"])
    ap.add_argument("--seed", type=int, default=int(os.environ.get("VERIF_SEED") or 0))
    ap.add_argument("--replay", default=None)
    args = ap.parse_args()
    vlib.setup_impl_path()
    mod = importlib.import_module("props." + args.prop.lower())
    chk = vlib.Check(args.prop, args.tier, args.seed)
    try:
        chk.run_proofs()
        # overall time budget of the correspondence (a hang of the implementation on the tree under test must end in a
        # verdict): generous multiples of the normal wall time; VERIF_WATCHDOG overrides (seconds)
        budget = int(os.environ.get("VERIF_WATCHDOG") or (3000 if args.tier == "quick" else 8 * 3600))
        try:
            with vlib.time_limit(budget, f"whole correspondence of {args.prop} ({args.tier})"):
                if args.replay:
                    mod.replay(chk, args.replay)
                else:
                    mod.run(chk)
        except vlib.Infrastructure:
            raise
        except (Exception, vlib.ImplTimeout):
            # The correspondence itself broke down on this tree: the harness could not process what the implementation
            # did (an output of a kind no generated case of the unchanged tree ever produces).  The property is then no
            # longer SHOWN to hold - report it as such (no concrete failing input), naming the correspondence, instead of
            # ending without a verdict.  Build / tool failures (vlib.Infrastructure) stay harness errors.
            tb = traceback.format_exc()
            print(tb, file=sys.stderr)
            chk.report({"what": f"correspondence corr:{args.prop} broke down: the harness could not process the "
                                "implementation's behaviour on a generated case (see traceback)",
                        "correspondence": f"corr:{args.prop} (harness/props/{args.prop.lower()}.py)",
                        "traceback": tb[-4000:]}, no_failing_input=True)
        rc = chk.finish()
    except Exception:
        traceback.print_exc()
        print(f"[{args.prop}] HARNESS ERROR (not a verdict about the property)")
        import shutil
        shutil.rmtree(chk.workdir, ignore_errors=True)
        rc = 2
    sys.exit(rc)


if __name__ == "__main__":
    main()
