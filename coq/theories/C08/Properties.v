(* C08 - SpecAugment draws stay within bounds and masking touches only masked cells.
   Property theorems only: each is closed by [exact <lemma>] and followed by
   [Print Assumptions].  The harness re-checks this file on every run.

   [exact] is the model over Q (no rounding), [ieee] the float32/float64 model that the
   correspondence compares bit for bit with torch (see Model.v). *)
From Coq Require Import List ZArith QArith Qround Qabs.
From PV Require Import C08.Model C08.Spec C08.ProofsDraw C08.ProofsRound C08.ProofsIeee
                       C08.ProofsMask C08.ProofsWarp C08.Proofs.
Import ListNotations.
Local Open Scope Q_scope.

(* ===== draws ========================================================================== *)

(* "For every ... configuration and random draw, the drawn parameters respect every
   configured limit": every clause of Spec.draw_ok, for all variates in [0,1) over Q, every
   eps in (0,1], every length and size >= 0, every valid configuration (including zero
   limits, proportions 0 and 1, warps larger than half the length). *)
Theorem c08_draw_within_bounds : forall eps c F len u,
  0 < eps -> eps <= 1 -> cfg_valid c -> (0 <= F)%Z -> (0 <= len)%Z -> uv_unit u ->
  draw_ok eps 0 c F len (draw exact eps c F len u).
Proof. exact draw_exact_ok. Qed.
Print Assumptions c08_draw_within_bounds.

(* "mask widths and counts obey both the absolute and the length-proportional caps, every
   mask lies inside the valid frames": 0 <= t <= Mt, t <= len * pt, #{t <> 0} <= nt and
   <= len * npt, 0 <= t_0, t_0 + t <= len *)
Theorem c08_time_mask_caps_and_inside_valid : forall eps c len us us0,
  0 < eps -> eps <= 1 -> (0 <= len)%Z -> (0 <= c_Mt c)%Z ->
  0 <= c_pt c /\ c_pt c <= 1 -> 0 <= c_npt c ->
  Forall unit_u us -> Forall unit_u us0 ->
  tmasks_ok 0 c len (time_masks exact eps c len us us0).
Proof. exact time_masks_ok. Qed.
Print Assumptions c08_time_mask_caps_and_inside_valid.

(* "... or coefficients": 0 <= f <= Mf, 0 <= f_0, f_0 + f <= F, exactly nf masks *)
Theorem c08_freq_mask_bounds : forall eps c F us us0,
  0 < eps -> eps <= 1 -> (0 <= F)%Z -> (0 <= c_Mf c)%Z ->
  Forall unit_u us -> Forall unit_u us0 ->
  fmasks_ok c F (freq_masks exact eps c F us us0).
Proof. exact freq_masks_ok. Qed.
Print Assumptions c08_freq_mask_bounds.

(* "warp centres and shifts stay within the permitted window": with the half-width
   W = clamp(len/2 - eps, 0, Wmax) the code uses: 0 <= W <= Wmax, 2W <= len,
   min(Wmax, len/2) - eps <= W, W <= w_0 <= len - W, -W <= w <= W *)
Theorem c08_time_warp_window : forall eps Wmax len u u',
  0 < eps -> 0 <= Wmax -> (0 <= len)%Z -> unit_u u -> unit_u u' ->
  let W := tw_W exact eps Wmax len in
  0 <= W /\ W <= Wmax /\ 2 * W <= z2q len /\ qmin Wmax (z2q len / 2) - eps <= W
  /\ W <= tw_w0 exact W len u /\ tw_w0 exact W len u <= z2q len - W
  /\ - W <= tw_w exact W u' /\ tw_w exact W u' <= W.
Proof. exact time_warp_window. Qed.
Print Assumptions c08_time_warp_window.

Theorem c08_freq_warp_window : forall eps Wmax F u u',
  0 < eps -> 0 <= Wmax -> (0 <= F)%Z -> unit_u u -> unit_u u' ->
  let V := fw_V exact eps Wmax F in
  0 <= V /\ V <= Wmax /\ 2 * V <= z2q F /\ qmin Wmax (z2q F / 2) - eps <= V
  /\ V <= fw_v0 exact V F u /\ fw_v0 exact V F u <= z2q F - V
  /\ - V <= fw_v exact V u' /\ fw_v exact V u' <= V.
Proof. exact freq_warp_window. Qed.
Print Assumptions c08_freq_warp_window.

(* the boolean judge the harness applies to what the implementation drew is this spec *)
Theorem c08_draw_checker_is_spec : forall ws ps c F len p,
  draw_okb ws ps c F len p = true <-> draw_ok ws ps c F len p.
Proof. exact draw_okb_iff. Qed.
Print Assumptions c08_draw_checker_is_spec.

(* ----- the same bounds under floating-point rounding ("floor/clamp arithmetic with the
   epsilon tricks must hold for every length and every seed") ----------------------------- *)

(* the float32/float64 model satisfies the three rounding laws: monotone, exact on integers
   up to 2^24, and  x <= (1 - 2^-24) R  ==>  RN(x) < R  for integers 0 < R <= 2^24 *)
Theorem c08_ieee_rounding_laws : rounding_laws ieee.
Proof. exact ieee_laws. Qed.
Print Assumptions c08_ieee_rounding_laws.

(* every time mask drawn in float32 (any dtype's eps, any float32 variate u <= 1 - 2^-24,
   len < 2^24): 0 <= t <= Mt, t <= the float32 proportional cap, 0 <= t_0, t_0 + t <= len *)
Theorem c08_time_masks_float32 : forall d c len us us0,
  (0 <= len)%Z /\ (len < two24)%Z -> (0 <= c_Mt c)%Z -> 0 <= c_pt c /\ c_pt c <= 1 ->
  Forall grid_u us -> Forall grid_u us0 ->
  Forall (fun b : Z * Z =>
      (0 <= snd b <= c_Mt c)%Z /\ z2q (snd b) <= r32 ieee (lenq ieee len * r32 ieee (c_pt c))
      /\ (0 <= fst b)%Z /\ (fst b + snd b <= len)%Z)
    (time_masks ieee (eps_of d) c len us us0).
Proof. exact time_masks_ieee. Qed.
Print Assumptions c08_time_masks_float32.

Theorem c08_freq_masks_float32 : forall d c F us us0,
  (0 <= F)%Z /\ (F < two24)%Z -> (0 <= c_Mf c)%Z -> Forall grid_u us -> Forall grid_u us0 ->
  fmasks_ok c F (freq_masks ieee (eps_of d) c F us us0).
Proof. exact freq_masks_ieee. Qed.
Print Assumptions c08_freq_masks_float32.

(* the count cap does not depend on the arithmetic: at most floor(min(len * npt, nt)) (as
   that arithmetic computes it) masks have a non-zero width *)
Theorem c08_time_mask_count_any_arith : forall a eps c len us us0,
  (count_nonzero (time_masks a eps c len us us0)
   <= Z.max 0 (cap a len (c_npt c) (Z.of_nat (c_nt c))))%Z.
Proof. exact count_nonzero_le_nums_r. Qed.
Print Assumptions c08_time_mask_count_any_arith.

(* ===== applying parameters ============================================================ *)

(* "Applying parameters zeroes exactly the masked time and frequency bands, leaves every
   other entry bit-identical when no warp was drawn" - cells are opaque values of any type *)
Theorem c08_apply_zeroes_exactly_masked : forall (A : Type) (zero : A) tm fm img t f d,
  (t < length img)%nat -> (f < length (nth t img []))%nat ->
  (masked_cell tm fm (Z.of_nat t) (Z.of_nat f) ->
     nth f (nth t (apply_masks zero tm fm img) []) d = zero)
  /\ (~ masked_cell tm fm (Z.of_nat t) (Z.of_nat f) ->
     nth f (nth t (apply_masks zero tm fm img) []) d = nth f (nth t img []) d).
Proof. exact @apply_masks_cell. Qed.
Print Assumptions c08_apply_zeroes_exactly_masked.

(* "The output always has the input's shape" *)
Theorem c08_mask_shape_preserved : forall (A : Type) (zero : A) tm fm img,
  length (apply_masks zero tm fm img) = length img
  /\ forall t, length (nth t (apply_masks zero tm fm img) []) = length (nth t img []).
Proof. exact @apply_masks_shape. Qed.
Print Assumptions c08_mask_shape_preserved.

Theorem c08_shape_preserved : forall len p img, rect (width img) img ->
  length (apply_lin len p img) = length img
  /\ forall t, (t < length img)%nat ->
       length (nth t (apply_lin len p img) []) = length (nth t img []).
Proof. exact apply_lin_shape. Qed.
Print Assumptions c08_shape_preserved.

(* "in evaluation mode the input is returned unchanged" *)
Theorem c08_eval_mode_identity : forall a eps c len u img,
  spec_augment false a eps c len u img = img.
Proof. exact eval_mode_identity. Qed.
Print Assumptions c08_eval_mode_identity.

(* ===== the linear warp ================================================================= *)

(* what the oracle must deliver: ANY exact solution of polyharmonic_spline's order-1 linear
   system on the three knots is the piecewise-linear map [lin3] (identity outside) *)
Theorem c08_order1_spline_is_piecewise_linear : forall c0 c1 c2 f1 w0 w1 w2 v1 v0,
  c0 < c1 -> c1 < c2 ->
  spline1_solution c0 c1 c2 c0 f1 c2 w0 w1 w2 v1 v0 ->
  forall x, spline1_eval c0 c1 c2 w0 w1 w2 v1 v0 x == lin3 (mkKnots c0 c1 f1 c2) x.
Proof. exact order1_spline_is_lin3. Qed.
Print Assumptions c08_order1_spline_is_piecewise_linear.

(* "the default (linear) time warp reads the valid frames in non-decreasing order": for all
   sources, flows (inside the window or not), lengths >= 1 and all pairs of output frames *)
Theorem c08_linear_warp_monotone : forall eps T src flow len i j d,
  0 < eps -> (0 < T)%Z -> 1 <= len -> (i <= j)%nat -> (j < Z.to_nat T)%nat ->
  nth i (warp_grid eps T src flow len) d <= nth j (warp_grid eps T src flow len) d.
Proof. exact linear_warp_monotone. Qed.
Print Assumptions c08_linear_warp_monotone.

(* ... and valid output frames read inside the valid input frames [0, L-1], up to the eps
   (in pixels eps*T/2) by which the two pinned knots lie outside them *)
Theorem c08_linear_warp_reads_valid_frames : forall eps T src flow (L : Z) i d,
  0 < eps -> (0 < T)%Z -> (1 <= L)%Z -> (Z.of_nat i <= L - 1)%Z -> (i < Z.to_nat T)%nat ->
  - (eps * z2q T / 2) <= unnorm T (nth i (warp_grid eps T src flow (z2q L)) d)
  /\ unnorm T (nth i (warp_grid eps T src flow (z2q L)) d) <= z2q (L - 1) + eps * z2q T / 2.
Proof. exact linear_warp_reads_valid. Qed.
Print Assumptions c08_linear_warp_reads_valid_frames.

(* "beginning and ending within half a frame of the first and last valid frame".
   FULL STATEMENT (for every draw the configuration permits) IS FALSE - see
   c08_linear_warp_pinned_refuted.  Proved here under the hypothesis that the clamped
   destination d keeps a margin from both ends: eps*T*s <= d and
   eps*T*(len-1-s) <= len-1-d (s the clamped source); together with the previous theorem
   the first / last valid frame then read within [-eps*T/2, 1/2] of frame 0 / L-1. *)
Theorem c08_linear_warp_pinned_partial : forall eps T src flow (L : Z) d0,
  0 < eps -> (0 < T)%Z -> (1 <= L)%Z -> (L <= T)%Z ->
  let len := z2q L in
  let s := qmax (qmin src (len - 1)) 0 in
  let d := qmax (qmin (s + flow) (len - 1)) 0 in
  eps * z2q T * s <= d ->
  eps * z2q T * (len - 1 - s) <= len - 1 - d ->
  unnorm T (nth 0 (warp_grid eps T src flow len) d0) <= 1 # 2
  /\ z2q (L - 1) - (1 # 2) <= unnorm T (nth (Z.to_nat (L - 1)) (warp_grid eps T src flow len) d0).
Proof. exact linear_warp_pinned_margin. Qed.
Print Assumptions c08_linear_warp_pinned_partial.

(* the unconditional pinning clause is refuted in exact arithmetic by draws inside the
   permitted window (T = len = 10, max_time_warp = 3, u = (99/100, 99/100) resp. (0, 0)):
   the last valid frame reads more than two frames early, frame 0 more than two frames
   late.  Replayed on the implementation: known finding K7. *)
Theorem c08_linear_warp_pinned_refuted :
  exists eps T (L : Z) Wmax u1 u2 u1' u2',
    0 < eps /\ (1 <= L)%Z /\ (L <= T)%Z /\ 0 <= Wmax
    /\ unit_u u1 /\ unit_u u2 /\ unit_u u1' /\ unit_u u2'
    /\ (let W := tw_W exact eps Wmax L in
        unnorm T (nth (Z.to_nat (L - 1))
                      (warp_grid eps T (tw_w0 exact W L u1) (tw_w exact W u2) (z2q L)) 0)
        < z2q (L - 1) - 2)
    /\ (let W := tw_W exact eps Wmax L in
        2 < unnorm T (nth 0 (warp_grid eps T (tw_w0 exact W L u1') (tw_w exact W u2') (z2q L)) 0)).
Proof. exact linear_warp_pinned_refuted. Qed.
Print Assumptions c08_linear_warp_pinned_refuted.

(* ===== resampling ====================================================================== *)

(* "no warp of any order yields a ... value ... outside the range of its input": bilinear
   resampling with border padding at ANY coordinates (whatever spline produced them) is a
   convex combination of in-bounds neighbours *)
Theorem c08_bilinear_border_in_range : forall lo hi img gx gy,
  (0 < zlen img)%Z -> (0 < width img)%Z -> rect (width img) img -> img_in lo hi img ->
  in_rng lo hi (bilinear img (zlen img) (width img) gx gy).
Proof. exact bilinear_in_range. Qed.
Print Assumptions c08_bilinear_border_in_range.

(* ... and so is every cell of a warped-then-masked output, with 0 added to the range *)
Theorem c08_warp_output_in_range : forall lo hi img tgrid fgrid tm fm t f,
  (0 < zlen img)%Z -> (0 < width img)%Z -> rect (width img) img -> img_in lo hi img ->
  (t < length tgrid)%nat -> (f < length fgrid)%nat ->
  let out := apply_with_grids (Some tgrid) (Some fgrid) tm fm img in
  in_rng (qmin lo 0) (qmax hi 0) (nth f (nth t out []) 0).
Proof. exact warped_masked_in_range. Qed.
Print Assumptions c08_warp_output_in_range.

(* ===== non-vacuity ====================================================================== *)
(* a concrete configuration with every group enabled, a warp larger than half the length,
   proportion 1, extreme variates: hypotheses hold, and the draw is non-trivial *)
Example c08_nonvacuous :
  let c := mkCfg 100 2 3 2 1 2 (1 # 2) 1 in
  let top := 16777215 # 16777216 in
  let u := mkUV top 0 (1 # 2) top [top; top] [top; 0] [top] [top] in
  cfg_valid c /\ uv_unit u /\ grid_u top
  /\ p_tm (draw exact eps32 c 4 7 u) = Some [(4, 3); (0, 3)]%Z
  /\ p_fm (draw exact eps32 c 4 7 u) = Some [(2, 2)]%Z
  /\ draw_okb eps32 0 c 4 7 (draw exact eps32 c 4 7 u) = true
  /\ draw ieee eps32 c 4 7 u
     = mkParams (Some (7 # 2, -7 # 2)) (Some (2, 16777213 # 8388608))
                (Some [(4, 3); (0, 3)]%Z) (Some [(2, 2)]%Z).
Proof.
  cbv zeta. unfold cfg_valid, uv_unit, unit_u, grid_u, u_top. cbn [c_Wt c_Wf c_Mt c_Mf c_pt c_npt
    u_w0 u_w u_v0 u_v u_t u_t0 u_f u_f0].
  repeat split; try (vm_compute; reflexivity); try (vm_compute; discriminate);
    repeat constructor; try (vm_compute; reflexivity); try (vm_compute; discriminate).
Qed.

(* ===== source tie: the Python text of spec_augment_draw_parameters ======================================
   PV.Gen.C08Src.draw_body is regenerated from /repo/src/pydrobert/torch/_img.py on every run by
   harness/py2coq/translate.py (the whole body; statement markers cut it into the blocks head / time warp /
   frequency warp / time masks / frequency masks / return, run one by one in TieBlocks*.v); MiniPy.Interp is
   its semantics; torch operations mean what MiniTorch.OpsC08 says through SrcRun.ext08, with the float32
   rounding [r32 a] of the model's arithmetic after every float32 operation; torch.rand is the oracle [rnd]
   (call index, flat position), exactly as the model takes the variates as data; Python-level float
   arithmetic is MiniPy's (exact): the model instance is [SrcRun.pyq a] (r64 = Qred, the identity up to ==).
   See notes/C08_tie_report.md. *)
From PV Require MiniPy.Syntax MiniPy.Interp Gen.C08Src C08.SrcRun C08.TieBlocks2 C08.TieModel C08.Tie C08.TieCor.

(* for every arithmetic satisfying the rounding laws (c08_ieee_rounding_laws: [ieee] does; [exact] does), every
   oracle, eps, configuration, N, T, F and lengths (omitted, or N values in (0, T]): interpreting the source
   returns an 8-tuple that reads back (as the harness reads torch's tensors) as one parameter set per batch
   element, equal to Model.draw on the variates the oracle served - mask groups (t_0, t), (f_0, f) EQUAL
   (max_ = floor(min(len * p, M)), nums, widths zeroed beyond nums, starts), warp groups equal as rationals *)
Theorem c08_source_draw_is_model : forall a rnd eps c N T F lens,
  rounding_laws a -> TieBlocks2.lens_ok N T lens ->
  exists v st ps,
    Interp.run (SrcRun.ext08 a rnd) C08Src.draw_body (SrcRun.draw_vars eps c N T F lens) = Interp.Ok v st
    /\ SrcRun.read_out N v = Some ps /\ length ps = N
    /\ forall n, (n < N)%nat ->
         SrcRun.params_eqv (nth n ps (mkParams None None None None))
           (draw (SrcRun.pyq a) eps c (Z.of_nat F) (SrcRun.len_of T lens n) (SrcRun.uv_of rnd c n)).
Proof. exact Tie.draw_tie. Qed.
Print Assumptions c08_source_draw_is_model.

(* at the exact arithmetic the masks are those of [draw exact], the function of c08_draw_within_bounds /
   c08_time_mask_caps_and_inside_valid / c08_freq_mask_bounds *)
Theorem c08_source_draw_exact : forall rnd eps c N T F lens, TieBlocks2.lens_ok N T lens ->
  exists v st ps,
    SrcRun.run_draw exact rnd eps c N T F lens = Interp.Ok v st /\ SrcRun.read_out N v = Some ps /\ length ps = N
    /\ forall n, (n < N)%nat ->
         let m := draw exact eps c (Z.of_nat F) (SrcRun.len_of T lens n) (SrcRun.uv_of rnd c n) in
         p_tm (nth n ps TieCor.no_params) = p_tm m /\ p_fm (nth n ps TieCor.no_params) = p_fm m.
Proof. exact TieCor.source_masks_exact. Qed.
Print Assumptions c08_source_draw_exact.

(* COMPOSED, purely about the interpreted source (over Q): every time mask it draws has
   0 <= t <= max_time_mask, t <= len * max_time_mask_proportion, at most num_time_mask and at most
   len * num_time_mask_proportion masks are non-empty, 0 <= t_0 and t_0 + t <= len (inside the valid length);
   every frequency mask has 0 <= f <= max_freq_mask, 0 <= f_0, f_0 + f <= F *)
Theorem c08_source_masks_within_limits : forall rnd eps c N T F lens,
  0 < eps -> eps <= 1 -> (0 <= c_Mt c)%Z -> (0 <= c_Mf c)%Z -> 0 <= c_pt c /\ c_pt c <= 1 -> 0 <= c_npt c ->
  (forall k i, unit_u (rnd k i)) -> TieBlocks2.lens_ok N T lens ->
  exists v st ps,
    SrcRun.run_draw exact rnd eps c N T F lens = Interp.Ok v st /\ SrcRun.read_out N v = Some ps /\ length ps = N
    /\ forall n, (n < N)%nat ->
         opt_ok (tmasks_ok 0 c (SrcRun.len_of T lens n)) (p_tm (nth n ps TieCor.no_params))
         /\ opt_ok (fmasks_ok c (Z.of_nat F)) (p_fm (nth n ps TieCor.no_params)).
Proof. exact TieCor.source_masks_within_limits. Qed.
Print Assumptions c08_source_masks_within_limits.

(* the same under float32 rounding (the arithmetic the harness compares bit for bit with torch): every
   dtype's eps, every float32 variate u <= 1 - 2^-24, T and F below 2^24 *)
Theorem c08_source_masks_float32 : forall d rnd c N T F lens,
  (Z.of_nat T < two24)%Z -> (Z.of_nat F < two24)%Z -> (0 <= c_Mt c)%Z -> (0 <= c_Mf c)%Z -> 0 <= c_pt c /\ c_pt c <= 1 ->
  (forall k i, grid_u (rnd k i)) -> TieBlocks2.lens_ok N T lens ->
  exists v st ps,
    SrcRun.run_draw ieee rnd (eps_of d) c N T F lens = Interp.Ok v st /\ SrcRun.read_out N v = Some ps /\ length ps = N
    /\ forall n, (n < N)%nat ->
         let len := SrcRun.len_of T lens n in
         opt_ok (Forall (fun b : Z * Z =>
                   (0 <= snd b <= c_Mt c)%Z /\ z2q (snd b) <= r32 ieee (lenq ieee len * r32 ieee (c_pt c))
                   /\ (0 <= fst b)%Z /\ (fst b + snd b <= len)%Z)) (p_tm (nth n ps TieCor.no_params))
         /\ opt_ok (fmasks_ok c (Z.of_nat F)) (p_fm (nth n ps TieCor.no_params)).
Proof. exact TieCor.source_masks_float32. Qed.
Print Assumptions c08_source_masks_float32.

(* the masks do not need the rounding laws: for EVERY arithmetic the per-element formulas the MiniTorch
   operations compute in the time-mask / frequency-mask blocks are Model.time_masks / Model.freq_masks *)
Theorem c08_source_time_mask_formulas : forall a eps c len (rt rt0 : nat -> Q),
  time_masks (SrcRun.pyq a) eps c len (map rt (seq 0 (c_nt c))) (map rt0 (seq 0 (c_nt c)))
  = map (fun m => let t := TieBlocks.s_t a (TieModel.om_of eps) (TieBlocks.s_cap a (c_pt c) (c_Mt c) (lenq a len))
                               (TieBlocks.s_cap a (c_npt c) (Z.of_nat (c_nt c)) (lenq a len)) m (rt m) in
                  (TieBlocks.s_t0 a (TieModel.om_of eps) (lenq a len) t (rt0 m), t)) (seq 0 (c_nt c)).
Proof. exact TieModel.time_masks_src. Qed.
Print Assumptions c08_source_time_mask_formulas.

(* non-vacuity: the configuration of c08_nonvacuous on a ragged batch of two; the interpreted source (float32
   rounding) reproduces the model's draws, and the hypotheses of the theorems above hold *)
Example c08_source_nonvacuous :
  let c := mkCfg 100 2 3 2 1 2 (1 # 2) 1 in
  let top := 16777215 # 16777216 in
  let u := mkUV top 0 (1 # 2) top [top; top] [top; 0] [top] [top] in
  TieBlocks2.lens_ok 2 7 (Some [7; 3]%Z)
  /\ SrcRun.src_draw_check F32 c 2 7 4 (Some [7; 3]%Z) [u; u] (SrcRun.model_draw ieee eps32 c 7 4 (Some [7; 3]%Z) [u; u]) = true
  /\ option_map (map p_tm) (SrcRun.src_draw ieee (SrcRun.rnd_of (SrcRun.calls_of c [u; u])) eps32 c 2 7 4 (Some [7; 3]%Z))
     = Some [Some [(4, 3); (0, 3)]; Some [(0, 3); (0, 0)]]%Z.
Proof. cbv zeta. repeat split; vm_compute; reflexivity. Qed.

(* ===== second source tie: the Python text of spec_augment_apply_parameters (masking, no warp) ================
   PV.Gen.C08BSrc.apply_body (the WHOLE body; unit harness/py2coq/units/C08BSrc.json, which also translates warp_1d_grid
   and spec_augment - executed against torch on every run by SrcRunB.src_*_check, no theorem yet) is regenerated from
   /repo/src/pydrobert/torch/_img.py on every run; torch operations mean what MiniTorch.OpsC08B / OpsC08 say through
   SrcRunB.ext_core; the feature tensor is a tensor of OPAQUE cells (arbitrary MiniPy values) which the code only
   moves or overwrites with the Python float 0.0.  See notes/C08_tie_report.md, section "Second tie". *)
From PV Require MiniTorch.OpsC08 MiniTorch.OpsC08B Gen.C08BSrc C08.SrcRunB C08.TieBLib C08.TieBMask C08.TieBApply C08.TieB.

(* for EVERY arithmetic, EVERY answer of the two kernel oracles and EVERY meaning of nested calls (none is made on this
   path), every feature tensor (N, T, F) of arbitrary cells, lengths omitted or N values in (0, T], warp groups (w_0, w),
   (v_0, v) with a member None or without element, each mask group (t_0, t), (f_0, f) either OFF (a member None or without
   element) or ON (two long tensors of one shape (N, M), N * M > 0): interpreting the source returns, without raising
   and without calling a kernel, a tensor of the input's shape whose batch element n is Model.apply_masks (zero = the
   float 0.0) on the (start, width) pairs of row n of the mask tensors *)
Theorem c08_source_apply_masks_is_model : forall a spl gso nested eps N T F cells pw0 pw pv0 pv tm fm order lens,
  TieBApply.lens_okB N T lens ->
  (TieBLib.par_on pw0 && TieBLib.par_on pw)%bool = false -> (TieBLib.par_on pv0 && TieBLib.par_on pv)%bool = false ->
  TieBApply.mspec_ok N tm -> TieBApply.mspec_ok N fm ->
  exists st out,
    Interp.run (SrcRunB.ext_core a spl gso nested) C08BSrc.apply_body
      (SrcRunB.apply_vars eps (OpsC08B.T3 N T F cells)
         (SrcRunB.enc_pars (TieBApply.pars_nowarp N pw0 pw pv0 pv tm fm)) order lens)
    = Interp.Ok (OpsC08B.enc_c eps (OpsC08.mkTn [N; T; F] out)) st
    /\ Interp.events st = []
    /\ forall n, (n < N)%nat ->
         SrcRunB.img_of Syntax.VNone T F out n
         = apply_masks (Syntax.VQ 0) (TieBApply.mspec_bands tm n) (TieBApply.mspec_bands fm n)
             (SrcRunB.img_of Syntax.VNone T F (OpsC08B.tabl3 N T F cells) n).
Proof. exact TieB.apply_nowarp_tie. Qed.
Print Assumptions c08_source_apply_masks_is_model.

(* COMPOSED with c08_apply_zeroes_exactly_masked, purely about the interpreted source: "applying parameters zeroes
   exactly the masked time and frequency bands, leaves every other entry bit-identical when no warp was drawn" - cell
   (n, t, f) of the returned tensor is the float 0.0 when t lies in a time band or f in a frequency band of batch
   element n, and is the input's cell otherwise *)
Theorem c08_source_apply_zeroes_exactly_masked : forall a spl gso nested eps N T F cells pw0 pw pv0 pv tm fm order lens,
  TieBApply.lens_okB N T lens ->
  (TieBLib.par_on pw0 && TieBLib.par_on pw)%bool = false -> (TieBLib.par_on pv0 && TieBLib.par_on pv)%bool = false ->
  TieBApply.mspec_ok N tm -> TieBApply.mspec_ok N fm ->
  exists st out,
    Interp.run (SrcRunB.ext_core a spl gso nested) C08BSrc.apply_body
      (SrcRunB.apply_vars eps (OpsC08B.T3 N T F cells)
         (SrcRunB.enc_pars (TieBApply.pars_nowarp N pw0 pw pv0 pv tm fm)) order lens)
    = Interp.Ok (OpsC08B.enc_c eps (OpsC08.mkTn [N; T; F] out)) st
    /\ forall n t f, (n < N)%nat -> (t < T)%nat -> (f < F)%nat ->
         (masked_cell (TieBApply.mspec_bands tm n) (TieBApply.mspec_bands fm n) (Z.of_nat t) (Z.of_nat f) ->
            OpsC08B.get3 Syntax.VNone T F out n t f = Syntax.VQ 0)
         /\ (~ masked_cell (TieBApply.mspec_bands tm n) (TieBApply.mspec_bands fm n) (Z.of_nat t) (Z.of_nat f) ->
            OpsC08B.get3 Syntax.VNone T F out n t f = cells n t f).
Proof. exact TieB.apply_nowarp_cells. Qed.
Print Assumptions c08_source_apply_zeroes_exactly_masked.

From Coq Require Import String.   (* string literals; shadows [length], which is not used below *)
(* the masking blocks one by one, from an arbitrary state (time masks ON: the (N, T, 1) mask the source builds is
   "some column h of row n has start <= t < start + width") *)
Theorem c08_source_time_mask_block : forall a spl gso nested vs ev N M T f0 f,
  Interp.lookup "t_0"%string vs = Some (OpsC08.enc_l (OpsC08.T2 N M f0)) ->
  Interp.lookup "t"%string vs = Some (OpsC08.enc_l (OpsC08.T2 N M f)) ->
  Nat.eqb (OpsC08.numel [N; M]) 0 = false ->
  Interp.lookup "T"%string vs = Some (Syntax.VInt (Z.of_nat T)) -> Interp.lookup "device"%string vs = Some SrcRun.device_token ->
  exists vs', Interp.exec (SrcRunB.ext_core a spl gso nested) C08BSrc.apply_tmask (Interp.mkState vs ev)
              = Interp.Ok Interp.CNormal (Interp.mkState vs' ev)
    /\ Interp.lookup "tmask"%string vs'
       = Some (OpsC08.enc_b (OpsC08B.T3 N T 1 (fun n t _ =>
                 masked (map (fun h => (f0 n h, f n h)) (seq 0 M)) (Z.of_nat t))))
    /\ forall x, String.eqb x "tmask" = false -> String.eqb x "t_1" = false -> Interp.lookup x vs' = Interp.lookup x vs.
Proof. exact TieB.tmask_block. Qed.
Print Assumptions c08_source_time_mask_block.

(* non-vacuity: a batch of one 3 x 2 image (cells 1..6), one time band (start 1, width 1), no frequency mask, no warp:
   the interpreted source zeroes row 1 only; the hypotheses of the theorems above hold for it *)
Example c08_source_apply_nonvacuous :
  let tm := TieBApply.MOn 1 (fun _ _ => 1%Z) (fun _ _ => 1%Z) in
  let fm := TieBApply.MOff SrcRunB.PN SrcRunB.PN in
  TieBApply.lens_okB 1 3 None /\ TieBApply.mspec_ok 1 tm /\ TieBApply.mspec_ok 1 fm
  /\ SrcRunB.src_apply_check 0 eps32 1 3 2
       [Syntax.VInt 1; Syntax.VInt 2; Syntax.VInt 3; Syntax.VInt 4; Syntax.VInt 5; Syntax.VInt 6]
       (TieBApply.pars_nowarp 1 SrcRunB.PN SrcRunB.PN SrcRunB.PN SrcRunB.PN tm fm) 1 None [] [] []
       (Some [Syntax.VInt 1; Syntax.VInt 2; Syntax.VQ 0; Syntax.VQ 0; Syntax.VInt 5; Syntax.VInt 6]) = true.
Proof. cbv zeta. repeat split; vm_compute; reflexivity. Qed.

(* ----- the wrapper `spec_augment` = draw then apply (C08BSrc.sa_body; the two calls are NESTED RUNS of the interpreter:
   the first tie's C08Src.draw_body under SrcRun.ext08, C08BSrc.apply_body under SrcRunB.extA), no warp configured
   (max_time_warp = max_freq_warp = 0), training mode.  For every arithmetic satisfying the rounding laws, every oracle:
   the interpreted wrapper returns, batch element by batch element, Model.apply_masks on the masks Model.draw draws from
   the variates torch.rand served *)
From PV Require C08.TieBSa C08.TieBSaCor.
Theorem c08_source_spec_augment_is_model : forall a, rounding_laws a ->
  forall spl gso rnd eps c N T F cells order lens,
  TieBlocks2.lens_ok N T lens -> nonzero (c_Wt c) = false -> nonzero (c_Wf c) = false ->
  exists st out,
    SrcRunB.run_sa a spl gso rnd eps (OpsC08B.T3 N T F cells) c order lens true
    = Interp.Ok (OpsC08B.enc_c eps (OpsC08.mkTn [N; T; F] out)) st
    /\ forall n, (n < N)%nat ->
         let p := draw (SrcRun.pyq a) eps c (Z.of_nat F) (SrcRun.len_of T lens n) (SrcRun.uv_of rnd c n) in
         SrcRunB.img_of Syntax.VNone T F out n
         = apply_masks (Syntax.VQ 0) (p_tm p) (p_fm p) (SrcRunB.img_of Syntax.VNone T F (OpsC08B.tabl3 N T F cells) n).
Proof. exact TieBSa.sa_nowarp_run. Qed.
Print Assumptions c08_source_spec_augment_is_model.

(* COMPOSED with the draw theorems (time_masks_ok / freq_masks_ok) and the masking theorem, purely about the interpreted
   wrapper over Q: there are drawn bands tm / fm per batch element such that every time band obeys the width and count
   caps and lies inside the valid length (0 <= t_0, t_0 + t <= len_n), every frequency band inside [0, F]; every cell
   inside a band is 0.0 and EVERY OTHER CELL IS THE INPUT'S CELL - so a changed cell always lies in a drawn range
   within the valid length (time) or the coefficients (frequency) *)
Theorem c08_source_spec_augment_masks_inside_valid : forall spl gso rnd eps c N T F cells order lens,
  0 < eps -> eps <= 1 -> (0 <= c_Mt c)%Z -> (0 <= c_Mf c)%Z -> 0 <= c_pt c /\ c_pt c <= 1 -> 0 <= c_npt c ->
  (forall k i, unit_u (rnd k i)) -> TieBlocks2.lens_ok N T lens ->
  nonzero (c_Wt c) = false -> nonzero (c_Wf c) = false ->
  exists st out,
    SrcRunB.run_sa exact spl gso rnd eps (OpsC08B.T3 N T F cells) c order lens true
    = Interp.Ok (OpsC08B.enc_c eps (OpsC08.mkTn [N; T; F] out)) st
    /\ forall n, (n < N)%nat -> exists tm fm,
         opt_ok (tmasks_ok 0 c (SrcRun.len_of T lens n)) tm /\ opt_ok (fmasks_ok c (Z.of_nat F)) fm
         /\ forall t f, (t < T)%nat -> (f < F)%nat ->
              (masked_cell tm fm (Z.of_nat t) (Z.of_nat f) -> OpsC08B.get3 Syntax.VNone T F out n t f = Syntax.VQ 0)
              /\ (~ masked_cell tm fm (Z.of_nat t) (Z.of_nat f) -> OpsC08B.get3 Syntax.VNone T F out n t f = cells n t f).
Proof. exact TieBSaCor.sa_masks_inside_valid. Qed.
Print Assumptions c08_source_spec_augment_masks_inside_valid.

(* ----- warp_1d_grid: the KNOT CONSTRUCTION block (C08BSrc.warp_knots: `src = torch.min(src, lengths - 1).clamp_min(0)` ..
   `dst = torch.stack([lowers, dst, uppers], 1)`), from an arbitrary state, exact arithmetic, any oracles: the two (N, 3)
   tensors handed to polyharmonic_spline (train values `src`, train points `dst`) hold per batch element exactly
   Model.warp_knots - pinned boundaries lowers = 1/T - 1 - eps and uppers = (2 len - 1)/T - 1 + eps, clamped source and
   destination mapped to grid coordinates.  (General arithmetic: TieBWarp.knots_run with the as-coded TieBWarp.wk_*.)
   The spline solve itself is an oracle; what any exact order-1 solution does with these knots is
   c08_order1_spline_is_piecewise_linear. *)
From PV Require C08.TieBWarp.
Theorem c08_source_warp_knots_block_is_model : forall spl gso nested vs ev N T eps (s fl L : nat -> Q),
  Interp.lookup "src" vs = Some (OpsC08.enc_f (OpsC08.T1 N s)) -> Interp.lookup "flow" vs = Some (OpsC08.enc_f (OpsC08.T1 N fl)) ->
  Interp.lookup "lengths" vs = Some (OpsC08.enc_f (OpsC08.T1 N L)) -> Interp.lookup "T" vs = Some (Syntax.VInt (Z.of_nat T)) ->
  Interp.lookup "eps" vs = Some (Syntax.VQ eps) -> Interp.lookup "N" vs = Some (Syntax.VInt (Z.of_nat N)) ->
  Interp.lookup "device" vs = Some SrcRun.device_token ->
  Interp.lookup "torch" vs = Some (Syntax.VDict [(Syntax.VStr "float", SrcRun.float_token); (Syntax.VStr "long", SrcRunB.long_token)]) ->
  T <> 0%nat ->
  exists vs' ks kd,
    Interp.exec (SrcRunB.ext_core exact spl gso nested) C08BSrc.warp_knots (Interp.mkState vs ev)
    = Interp.Ok Interp.CNormal (Interp.mkState vs' ev)
    /\ Interp.lookup "src" vs' = Some (OpsC08.enc_f (OpsC08.T2 N 3 ks))
    /\ Interp.lookup "dst" vs' = Some (OpsC08.enc_f (OpsC08.T2 N 3 kd))
    /\ forall n, let k := warp_knots eps (Z.of_nat T) (s n) (fl n) (L n) in
         ks n 0%nat == k_lo k /\ ks n 1%nat == k_src k /\ ks n 2%nat == k_up k
         /\ kd n 0%nat == k_lo k /\ kd n 1%nat == k_dst k /\ kd n 2%nat == k_up k.
Proof. exact TieBWarp.knots_block_exact. Qed.
Print Assumptions c08_source_warp_knots_block_is_model.

(* ----- warp_1d_grid, the WHOLE body (C08BSrc.warp_body) with max_length given, exact arithmetic, float tensors src / flow /
   lengths of N entries, any interpolation order: the interpreted source asks the spline oracle exactly ONCE - train points
   (N, 3, 1) = (lowers, dst, uppers), train values (N, 3, 1) = (lowers, src, uppers) with the knots of Model.warp_knots at
   float32's eps, query points (N, T, 1) = coord T i - and returns the oracle's answer as the (N, T) grid.  What an exact
   order-1 solve answers on such knots is lin3 (c08_order1_spline_is_piecewise_linear); the float32 solve is an oracle. *)
From PV Require C08.TieBWarp2.
Theorem c08_source_warp_1d_grid_asks_spline_with_model_knots : forall spl gso nested N T (s fl L : nat -> Q) order, T <> 0%nat ->
  exists st ks kd,
    Interp.run (SrcRunB.ext_core exact spl gso nested) C08BSrc.warp_body
      (SrcRunB.warp_vars (OpsC08.enc_f (OpsC08.T1 N s)) (OpsC08.enc_f (OpsC08.T1 N fl)) (OpsC08.enc_f (OpsC08.T1 N L))
         (Some (Z.of_nat T)) order)
    = Interp.Ok (OpsC08.enc_f (OpsC08.mkTn [N; T]
                   (SrcRunB.take 0 (N * T) (spl 0%nat (TieBWarp2.spl_args exact N T ks kd order))))) st
    /\ Interp.events st = [("polyharmonic_spline"%string, TieBWarp2.spl_args exact N T ks kd order)]
    /\ (forall n, let k := warp_knots eps32 (Z.of_nat T) (s n) (fl n) (L n) in
          ks n 0%nat == k_lo k /\ ks n 1%nat == k_src k /\ ks n 2%nat == k_up k
          /\ kd n 0%nat == k_lo k /\ kd n 1%nat == k_dst k /\ kd n 2%nat == k_up k)
    /\ forall i, TieBWarp2.wq exact T i == coord (Z.of_nat T) (z2q (Z.of_nat i)).
Proof. exact TieBWarp2.warp_run_exact. Qed.
Print Assumptions c08_source_warp_1d_grid_asks_spline_with_model_knots.
