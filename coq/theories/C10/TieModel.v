(* C10 — the tie, part 1 (no interpreter here): the tensors the interpreted source ends with, written as
   tabulated index functions (what Tie.v's symbolic run produces), ARE the model's result; and reading the
   defined cells of that result back gives the model's lists.  Pure list reasoning. *)
From Coq Require Import ZArith List Bool Arith Lia.
From PV Require Import MiniTorch.Ops MiniTorch.OpsC10 MiniTorch.LemmasC10.
From PV Require Import C10.Model C10.Spec C10.Lists C10.ProofsTokens C10.SrcRun.
Import ListNotations.
Local Open Scope Z_scope.

(* ---- the index functions ------------------------------------------------------------------------------------ *)
Definition tok0 : Z * Z * Z := (0, 0, 0).
Definition tcell (x : Z * Z * Z) (c : nat) : Z :=
  match c with O => tk_tok x | S O => tk_start x | _ => tk_end x end.
Definition rfun (refs : list (list (Z * Z * Z))) (n r c : nat) : Z := tcell (nth r (nth n refs []) tok0) c.
Definition sfun (slices : list (Z * Z)) (n c : nat) : Z :=
  match c with O => fst (nth n slices (0, 0)) | _ => snd (nth n slices (0, 0)) end.
Definition lfun (ls : list Z) (n : nat) : Z := nth n ls 0.

(* chunked_lens[i] as the code computes it: mask.long().sum(1) *)
Definition count_row (R : nat) (keep : nat -> bool) : Z := zsum (D1 R (fun l => if keep l then 1 else 0)).

(* the mask after `mask = mask & (refs[..., 1:] >= 0).all(2) & ...` and the `if partial` statement *)
Definition head_keep (rf : nat -> nat -> nat -> Z) (sf : nat -> nat -> Z) (rl : option (nat -> Z)) (partial : bool)
  (i j : nat) : bool :=
  (match rl with Some lf => lf i >? Z.of_nat j | None => true end
   && ((rf i j 1%nat >=? 0) && ((rf i j 2%nat >=? 0) && true))
   && (rf i j 2%nat >=? rf i j 1%nat))
  && (if partial then sf i 0%nat <? rf i j 2%nat else sf i 0%nat <=? rf i j 1%nat)
  && (if partial then sf i 1%nat >? rf i j 1%nat else sf i 1%nat >=? rf i j 2%nat).

(* cell (i, r, l) of `chunked` after masked_scatter_: component l of the r-th kept triple of row i, if any *)
Definition kept_cell (R : nat) (rf : nat -> nat -> nat -> Z) (keep : nat -> nat -> bool) (i r l : nat) : option Z :=
  option_map (fun p => rf i p l) (nth_error (kept_idx R (keep i)) r).

(* ... and after `chunked[..., 1:] += slices[..., 0]...` when retain is false *)
Definition out_cell (retain : bool) (R : nat) rf (sf : nat -> nat -> Z) keep (i r l : nat) : option Z :=
  if retain then kept_cell R rf keep i r l
  else match l with
       | O => kept_cell R rf keep i r O
       | S l' => option_map (fun z => z + sf i 0%nat) (kept_cell R rf keep i r (S l'))
       end.

Lemma zsum_count : forall R keep, count_row R keep = Z.of_nat (length (kept_idx R keep)).
Proof.
  intros R keep. unfold count_row, kept_idx, D1. induction (seq 0 R) as [|l s IH]; [reflexivity|].
  cbn [map zsum fold_right filter]. fold (zsum (map (fun l => if keep l then 1 else 0) s)). rewrite IH.
  destruct (keep l); cbn [length]; lia.
Qed.

(* ---- the model's inputs are tabulated tensors ------------------------------------------------------------------ *)
Lemma tok_cells_D1 : forall x, tok_cells x = D1 3 (fun c => CInt (tcell x c)).
Proof. reflexivity. Qed.

Lemma refs_tensor_tab : forall R refs, Forall (fun r => length r = R) refs ->
  refs_tensor R refs = I3 (length refs) R 3 (rfun refs).
Proof.
  intros R refs H. unfold refs_tensor, I3, C3. f_equal. unfold D3.
  rewrite <- (flat_map_nth_seq (flat_map tok_cells) refs []).
  apply flat_map_ext_in'. intros n Hn. apply in_seq in Hn.
  assert (HR : length (nth n refs []) = R).
  { rewrite Forall_forall in H. apply H. apply nth_In. lia. }
  rewrite <- (flat_map_nth_seq tok_cells (nth n refs []) tok0), HR. unfold D2.
  apply flat_map_ext_in'. intros r _. apply tok_cells_D1.
Qed.

Lemma slices_tensor_tab : forall slices, slices_tensor slices = I2 (length slices) 2 (sfun slices).
Proof.
  intros slices. unfold slices_tensor, I2, C2. f_equal. unfold D2.
  rewrite <- (flat_map_nth_seq (fun w => [CInt (fst w); CInt (snd w)]) slices (0, 0)).
  apply flat_map_ext_in'. intros n _. reflexivity.
Qed.

Lemma vec_tensor_tab : forall ls, vec_tensor ls = I1 (length ls) (lfun ls).
Proof.
  intros ls. unfold vec_tensor, I1, C1, D1. f_equal.
  rewrite (list_as_map _ ls 0) at 1. now rewrite map_map.
Qed.

Lemma I1_ext : forall k a b, (forall l, (l < k)%nat -> a l = b l) -> I1 k a = I1 k b.
Proof. intros k a b H. unfold I1, C1. f_equal. apply D1_ext. intros l Hl. now rewrite H. Qed.

(* ---- the mask is the model's tok_keep ---------------------------------------------------------------------------- *)
Definition rl_of (ref_lens : option (list Z)) : option (nat -> Z) := option_map lfun ref_lens.

Lemma keep_model : forall refs slices ref_lens partial n r,
  head_keep (rfun refs) (sfun slices) (rl_of ref_lens) partial n r
  = tok_keep partial (rowL ref_lens n) (nth n slices (0, 0)) r (nth r (nth n refs []) tok0).
Proof.
  intros refs slices ref_lens partial n r. unfold head_keep, tok_keep, rfun, sfun, tcell, rl_of, rowL, lfun.
  destruct ref_lens as [ls|]; destruct partial; cbn [option_map]; rewrite ?andb_true_r, ?andb_true_l, <- ?andb_assoc; reflexivity.
Qed.

Lemma enumerate_as_map : forall {A} (row : list A) d,
  enumerate row = map (fun r => (r, nth r row d)) (seq 0 (length row)).
Proof.
  intros A row d. unfold enumerate. rewrite (list_as_map _ row d) at 2.
  generalize (seq 0 (length row)). intros s. induction s as [|x s IH]; [reflexivity|]. cbn [map combine]. now rewrite IH.
Qed.

Lemma kept_row_idx : forall refs slices ref_lens partial R n, length (nth n refs []) = R ->
  kept_row partial (rowL ref_lens n) (nth n slices (0, 0)) (nth n refs [])
  = map (fun p => nth p (nth n refs []) tok0)
        (kept_idx R (head_keep (rfun refs) (sfun slices) (rl_of ref_lens) partial n)).
Proof.
  intros refs slices ref_lens partial R n HR. unfold kept_row, kept_idx.
  rewrite (enumerate_as_map _ tok0), HR, filter_map_comm, map_map. cbn [fst snd].
  f_equal. apply filter_ext_in. intros r _. symmetry. apply keep_model.
Qed.

(* ---- one row of the result ------------------------------------------------------------------------------------------ *)
Definition out_tok (retain : bool) (sl : Z * Z) (x : Z * Z * Z) : Z * Z * Z := shift_of as_coded retain sl x.

Lemma row_cells : forall (retain : bool) R rf sf keep (row : list (Z * Z * Z)) (sl : Z * Z) i,
  (forall p c, rf i p c = tcell (nth p row tok0) c) -> sf i 0%nat = fst sl ->
  let ki := kept_idx R (keep i) in
  flat_map tok_cells (map (fun p => out_tok retain sl (nth p row tok0)) ki)
    ++ repeat CUndef (3 * (R - length (map (fun p => out_tok retain sl (nth p row tok0)) ki)))
  = D2 R 3 (fun r c => ocell (out_cell retain R rf sf keep i r c)).
Proof.
  intros retain R rf sf keep row sl i Hrf Hsf ki.
  assert (Hle : (length ki <= R)%nat).
  { subst ki. unfold kept_idx. etransitivity; [apply filter_len_le'|]. now rewrite seq_length. }
  rewrite map_length. unfold D2. replace R with (length ki + (R - length ki))%nat at 2 by lia.
  rewrite seq_app, flat_map_app. cbn [Nat.add]. f_equal.
  - rewrite flat_map_map'. rewrite <- (flat_map_nth_seq (fun p => tok_cells (out_tok retain sl (nth p row tok0))) ki 0%nat).
    apply flat_map_ext_in'. intros r Hr. apply in_seq in Hr.
    unfold out_cell, kept_cell. fold ki. rewrite (nth_error_nth' ki 0%nat) by lia. cbn [option_map].
    unfold out_tok, shift_of, shift_tok. destruct retain; cbn [k1 as_coded D1 seq map ocell option_map tok_cells tk_tok tk_start tk_end fst snd];
      rewrite ?Hrf, ?Hsf; reflexivity.
  - rewrite (flat_map_ext_in' _ (fun _ => repeat CUndef 3)).
    + rewrite flat_map_const_repeat. f_equal. lia.
    + intros r Hr. apply in_seq in Hr. unfold out_cell, kept_cell. fold ki.
      replace (nth_error ki r) with (@None nat) by (symmetry; apply nth_error_None; lia).
      destruct retain; reflexivity.
Qed.

(* ---- the whole result ------------------------------------------------------------------------------------------------ *)
Definition lens_shape_ok (N : nat) (ref_lens : option (list Z)) : Prop :=
  match ref_lens with Some ls => length ls = N | None => True end.

Theorem tab_result_is_model : forall R refs slices ref_lens partial retain,
  Forall (fun r => length r = R) refs -> length slices = length refs ->
  let N := length refs in
  let keep := head_keep (rfun refs) (sfun slices) (rl_of ref_lens) partial in
  let M := chunk_tokens as_coded refs slices ref_lens partial retain in
  O3 N R 3 (out_cell retain R (rfun refs) (sfun slices) keep) = chunked_tensor R (fst M)
  /\ I1 N (fun i => count_row R (keep i)) = vec_tensor (snd M).
Proof.
  intros R refs slices ref_lens partial retain HR Hl N keep M.
  assert (Hn : forall n, (n < N)%nat ->
            nth n (fst M) [] = map (fun p => out_tok retain (nth n slices (0, 0)) (nth p (nth n refs []) tok0)) (kept_idx R (keep n))
            /\ nth n (snd M) 0 = zlen (nth n (fst M) [])).
  { intros n Hn. destruct (chunk_tokens_nth as_coded refs slices ref_lens partial retain R n HR Hl Hn) as (_ & _ & E & El).
    fold M in E, El. split; [|exact El]. rewrite E. unfold row_out.
    rewrite (kept_row_idx refs slices ref_lens partial R n), map_map; [reflexivity|].
    rewrite Forall_forall in HR. apply HR. apply nth_In. exact Hn. }
  assert (HL1 : length (fst M) = N /\ length (snd M) = N).
  { destruct refs as [|r0 refs'].
    - subst M N. cbn. destruct retain; split; reflexivity.
    - destruct (chunk_tokens_nth as_coded (r0 :: refs') slices ref_lens partial retain R 0 HR Hl) as (L1 & L2 & _);
        [cbn; lia|]. fold M in L1, L2. now split. }
  destruct HL1 as [L1 L2]. split.
  - unfold chunked_tensor, O3, C3. rewrite L1. f_equal. unfold D3.
    rewrite <- (flat_map_nth_seq (fun row => flat_map tok_cells row ++ repeat CUndef (3 * (R - length row))) (fst M) []), L1.
    apply flat_map_ext_in'. intros n Hn'. apply in_seq in Hn'. destruct (Hn n) as [E _]; [lia|]. rewrite E.
    symmetry. apply (row_cells retain R (rfun refs) (sfun slices) keep (nth n refs []) (nth n slices (0, 0)) n); reflexivity.
  - rewrite vec_tensor_tab, L2. apply I1_ext. intros n Hn'. destruct (Hn n Hn') as [E El].
    unfold lfun. rewrite El, E. unfold zlen. rewrite map_length. apply zsum_count.
Qed.

(* ---- reading the defined cells back ------------------------------------------------------------------------------------ *)
Lemma toks_of_tok_cells : forall row, toks_of_cells (flat_map tok_cells row) = Some row.
Proof.
  induction row as [|[[a b] c] row IH]; [reflexivity|].
  cbn [flat_map tok_cells app toks_of_cells tk_tok tk_start tk_end fst snd]. now rewrite IH.
Qed.

Lemma length_tok_cells : forall row, length (flat_map tok_cells row) = (3 * length row)%nat.
Proof. induction row as [|x row IH]; [reflexivity|]. cbn [flat_map tok_cells app length]. rewrite IH. lia. Qed.

Lemma all_some_map2_rows : forall R (rows : list (list (Z * Z * Z))) (lens : list Z),
  length lens = length rows ->
  (forall n, (n < length rows)%nat -> nth n lens 0 = zlen (nth n rows []) /\ (length (nth n rows []) <= R)%nat) ->
  all_some (map2 (fun row l => toks_of_cells (firstn (3 * Z.to_nat l) row))
              (map (fun row => flat_map tok_cells row ++ repeat CUndef (3 * (R - length row))) rows) lens)
  = Some rows.
Proof.
  intros R rows. induction rows as [|row rows IH]; intros lens Hl H; destruct lens as [|l lens]; cbn in Hl; try discriminate;
    [reflexivity|].
  unfold map2. cbn [map combine all_some fst snd]. fold (map2 (fun row l => toks_of_cells (firstn (3 * Z.to_nat l) row))
              (map (fun row => flat_map tok_cells row ++ repeat CUndef (3 * (R - length row))) rows) lens).
  destruct (H 0%nat) as [E0 _]; [cbn; lia|]. cbn [nth] in E0. subst l. unfold zlen. rewrite Nat2Z.id.
  rewrite <- length_tok_cells, firstn_app_exact, toks_of_tok_cells.
  rewrite IH; [reflexivity|lia|]. intros n Hn. apply (H (S n)). cbn. lia.
Qed.

Lemma chunks_rows : forall (k : nat) (blocks : list (list cell)),
  Forall (fun b => length b = k) blocks -> chunks (length blocks) k (concat blocks) = blocks.
Proof. intros. now apply chunks_concat. Qed.

Theorem read_model_result : forall R (rows : list (list (Z * Z * Z))) (lens : list Z),
  length lens = length rows ->
  (forall n, (n < length rows)%nat -> nth n lens 0 = zlen (nth n rows []) /\ (length (nth n rows []) <= R)%nat) ->
  read_result (chunked_tensor R rows) (vec_tensor lens) = Some (rows, lens).
Proof.
  intros R rows lens Hl H. unfold read_result, chunked_tensor, vec_tensor. cbn [ishape idata].
  rewrite map_map. cbn [as_int].
  rewrite (all_some_map_ext (fun z : Z => Some z) (fun z => z) lens) by reflexivity. rewrite map_id.
  rewrite Hl, !Nat.eqb_refl. cbn [andb].
  rewrite <- concat_map_flat.
  replace (length rows) with (length (map (fun row => flat_map tok_cells row ++ repeat CUndef (3 * (R - length row))) rows)) at 1
    by apply map_length.
  rewrite chunks_rows.
  - rewrite (all_some_map2_rows R rows lens Hl H). reflexivity.
  - apply Forall_forall. intros b Hb. apply in_map_iff in Hb. destruct Hb as [row [<- Hin]].
    rewrite app_length, length_tok_cells, repeat_length.
    destruct (In_nth _ _ [] Hin) as [n [Hn En]]. destruct (H n Hn) as [_ Hle]. rewrite En in Hle. lia.
Qed.
