(* C04 — beam search (src/pydrobert/torch/_decoding.py: beam_search_advance,
   BeamSearch.forward, BeamSearch._to_width).

   Executable model of what the code does.  No proofs in this file.

   Layout.  The code keeps y_prev as an (S, N, width) tensor; here a batch is a
   [list (list slot)] (N elements x width slots) and a slot carries its column
   ([col], height S, cells at positions >= [len] are junk exactly as in the code),
   its length and its score.  Scores are [option Z]: [None] is -inf, [Some z] is a
   log-probability on a fixed binary grid (the harness scales float64 values
   exactly).  Cells torch leaves uninitialised ([new_empty]) are 0 here; nothing
   compared with the implementation reads them.

   The language model is [calc hist st idx = (log-probabilities of the next token
   AFTER the log_softmax that forward applies, next state)]: one row of
   [lm.calc_idx_log_probs] (language models act row-wise on the batch).  Its state
   lives in the FLAT list [prev] (the dictionary of tensors whose first dimension
   is N*prev_width) and is re-ordered by source index exactly as
   [lm.extract_by_src(in_next, arange(0, N*pw, pw)[:,None] + next_src)] does.

   [topk] is an argument: [topk k l] = indices (into [l]) of the k best scores,
   best first.  The executable instance is the stable one; the theorems assume
   only the specification of topk (PV.C04.Spec.topk_ok). *)
From Coq Require Import List ZArith Bool Arith.
Import ListNotations.
Local Open Scope nat_scope.

Definition score := option Z.

Definition sadd (a b : score) : score :=
  match a, b with Some x, Some y => Some (x + y)%Z | _, _ => None end.

(* a <= b, with -inf below everything *)
Definition sleb (a b : score) : bool :=
  match a, b with
  | None, _ => true
  | Some _, None => false
  | Some x, Some y => (x <=? y)%Z
  end.

Definition sfin (a : score) : bool := match a with Some _ => true | None => false end.

Record slot := mkSlot { col : list Z; len : nat; sc : score }.
Definition dslot := mkSlot [] 0 None.

Fixpoint set_nth {A} (n : nat) (x : A) (l : list A) : list A :=
  match l, n with
  | [], _ => []
  | _ :: t, 0 => x :: t
  | y :: t, S n' => y :: set_nth n' x t
  end.

(* ---- an executable topk: stable (ties: lowest index first) ---------------- *)
Fixpoint ins (x : nat * score) (l : list (nat * score)) : list (nat * score) :=
  match l with
  | [] => [x]
  | y :: t => if sleb (snd y) (snd x) then x :: l else y :: ins x t
  end.
Definition sort_desc (l : list (nat * score)) : list (nat * score) := fold_right ins [] l.
Definition indexed (cs : list score) : list (nat * score) := combine (seq 0 (length cs)) cs.
Definition topk_stable (k : nat) (cs : list score) : list nat :=
  firstn k (map fst (sort_desc (indexed cs))).

(* ===================== beam_search_advance ================================== *)
Section Advance.
Variable topk : nat -> list score -> list nat.
Variables (V width : nat).

(* (log_probs_prev.unsqueeze(2) + log_probs_t).flatten(1): index k*V + v *)
Definition cands (slots : list slot) (logp : list (list score)) : list score :=
  concat (map (fun p => map (sadd (sc (fst p))) (snd p)) (combine slots logp)).

(* the new path of one selected candidate: prefix [p] (gathered by source index),
   token [v].  S = y_prev.size(0); [grow] = "int(y_prev_lens.max()) >= S" (a
   decision over the WHOLE batch); has_lens = y_prev_lens is not None. *)
Definition ext_slot (S : nat) (has_lens grow : bool) (p : slot) (v : Z) (s : score) : slot :=
  match S with
  | 0 => mkSlot [v] 1 s
  | _ => if has_lens
         then mkSlot (set_nth (len p) v (if grow then col p ++ [v] else col p)) (len p + 1) s
         else mkSlot (col p ++ [v]) (S + 1) s
  end.

(* one batch row.  Returns the new slots and next_src. *)
Definition advance1 (S : nat) (has_lens grow : bool) (slots : list slot)
  (logp : list (list score)) : list slot * list nat :=
  let cs := cands slots logp in
  let K := Nat.min width (length slots * V) in
  let ind := topk K cs in
  (map (fun i => ext_slot S has_lens grow (nth (i / V) slots dslot)
                          (Z.of_nat (i mod V)) (nth i cs None)) ind
     ++ repeat (mkSlot (repeat 0%Z (S + 1)) 0 None) (width - K),
   map (fun i => i / V) ind ++ repeat 0 (width - K)).

Definition grow_flag (S : nat) (beams : list (list slot)) : bool :=
  existsb (fun sl => S <=? len sl) (concat beams).

(* the functional entry point on a batch; None = RuntimeError.  Shapes are taken
   from the arguments (all rows Kp wide, all rows of logp Kp x V). *)
Definition advance_fn (S : nat) (has_lens : bool) (beams : list (list slot))
  (logp : list (list (list score))) : option (list (list slot * list nat)) :=
  let Kp := length (hd [] beams) in
  let grow := grow_flag S beams in
  if width =? 0 then None
  else if (S =? 0) && has_lens && existsb (fun sl => negb (len sl =? 0)) (concat beams) then None
  else if (Kp * V <? width) && negb (S =? 0) && has_lens && negb grow then None
       (* torch.cat of a height-S y_next with the height-(S+1) filler *)
  else Some (map (fun p => advance1 S has_lens grow (fst p) (snd p)) (combine beams logp)).

(* BeamSearch._to_width on one batch row (S = current height) *)
Definition to_width (S : nat) (slots : list slot) : list slot :=
  let pw := length slots in
  if pw <? width then slots ++ repeat (mkSlot (repeat 0%Z S) 0 None) (width - pw)
  else if width <? pw
       then map (fun i => nth i slots dslot) (topk width (map sc slots))
       else slots.
End Advance.

(* ===================== BeamSearch.forward ===================================== *)
Section Search.
Context {state : Type}.
Variable topk : nat -> list score -> list nat.
Variable calc : list Z -> state -> nat -> list score * state.
Variable dstate : state.   (* default for out-of-range reads of the flat state list; never read *)
Variables (V width : nat) (eos : option Z) (fin_all : bool) (pad : Z).

Record bstate := mkB
  { beams : list (list slot);   (* y_prev / y_prev_lens / log_probs_prev *)
    prev : list state;          (* flat, N * pw entries *)
    pw : nat;                   (* prev_width *)
    hS : nat }.                 (* y_prev.size(0) *)

(* "self.eos is not None and t" *)
Definition active (t : nat) : bool :=
  match eos with Some _ => negb (t =? 0) | None => false end.

(* y_prev.gather(S-dim, (lens - 1).clamp(min=0)) *)
Definition last_tok (sl : slot) : Z := nth (len sl - 1) (col sl) 0%Z.

Definition eos_at (t : nat) (sl : slot) : bool :=
  match eos with
  | Some e => negb (t =? 0) && ((last_tok sl =? e)%Z && (0 <? len sl))
  | None => false
  end.

Definition done_of (t : nat) (slots : list slot) : bool :=
  let m := map (eos_at t) slots in
  if active t && fin_all then forallb (fun x => x) m else hd false m.

Definition clampz (x : Z) : Z := Z.min (Z.max x 0) (Z.of_nat V - 1).
Definition clamp_slot (sl : slot) : slot := mkSlot (map clampz (col sl)) (len sl) (sc sl).

(* finished paths: all mass on eos *)
Definition mask_row (m : bool) (row : list score) : list score :=
  match eos with
  | Some e => if m then map (fun v => if (Z.of_nat v =? e)%Z then Some 0%Z else None)
                            (seq 0 (length row))
              else row
  | None => row
  end.

Definition st_of (b : bstate) (n k : nat) : state := nth (n * pw b + k) (prev b) dstate.

(* row n*pw+k of lm.calc_idx_log_probs(y_prev_.flatten(1), prev, t), log_softmax'ed *)
Definition lm_out (t : nat) (b : bstate) (n k : nat) : list score * state :=
  calc (map clampz (col (nth k (nth n (beams b) []) dslot))) (st_of b n k) t.

Definition in_next (t : nat) (b : bstate) : list state :=
  flat_map (fun n => map (fun k => snd (lm_out t b n k)) (seq 0 (pw b)))
           (seq 0 (length (beams b))).

Definition logp_of (t : nat) (b : bstate) (n : nat) : list (list score) :=
  map (fun k => mask_row (eos_at t (nth k (nth n (beams b) []) dslot)) (fst (lm_out t b n k)))
      (seq 0 (pw b)).

(* y_next_lens - eos_mask.gather(1, next_src) *)
Definition dec_len (t : nat) (slots : list slot) (adv : list slot * list nat) : list slot :=
  match eos with
  | Some _ =>
      map (fun p => mkSlot (col (fst p))
                           (len (fst p) - (if eos_at t (nth (snd p) slots dslot) then 1 else 0))
                           (sc (fst p)))
          (combine (fst adv) (snd adv))
  | None => fst adv
  end.

(* _to_width, then y_prev = cat([y_prev, pad_y]) *)
Definition freeze (S : nat) (slots : list slot) : list slot :=
  map (fun sl => mkSlot (col sl ++ [pad]) (len sl) (sc sl)) (to_width topk width S slots).

(* y_next.size(0) as beam_search_advance returns it *)
Definition adv_height (h : nat) (grow : bool) : nat :=
  match h with 0 => 1 | S _ => if grow then S h else h end.

(* "if y_next.size(0) == y_prev_.size(0): y_next = cat([y_next, pad_y])": keeps
   y.size(0) == t + 1 when beam_search_advance did not have to grow y *)
Definition pad_row (h : nat) (grow : bool) (sl : slot) : slot :=
  if adv_height h grow =? h then mkSlot (col sl ++ [pad]) (len sl) (sc sl) else sl.

(* what one iteration does to batch element n: (new beam, new slice of prev) *)
Definition elem_step (t : nat) (b : bstate) (grow frz : bool) (innext : list state) (n : nat)
  : list slot * list state :=
  let slots := nth n (beams b) [] in
  let adv := advance1 topk V width (hS b) true grow (map clamp_slot slots) (logp_of t b n) in
  let adv' := (map (pad_row (hS b) grow) (fst adv), snd adv) in
  (if frz && done_of t slots then freeze (hS b) slots else dec_len t slots adv',
   map (fun s => nth (n * pw b + s) innext dstate) (snd adv)).

Definition next_height (h : nat) (grow : bool) : nat :=
  if adv_height h grow =? h then S (adv_height h grow) else adv_height h grow.

(* one iteration of the for loop; None = break *)
Definition step (t : nat) (b : bstate) : option bstate :=
  let N := length (beams b) in
  let dones := map (done_of t) (beams b) in
  if active t && forallb (fun x => x) dones then None
  else
    let grow := grow_flag (hS b) (beams b) in
    let frz := match eos with Some _ => existsb (fun x => x) dones | None => false end in
    let innext := in_next t b in
    let res := map (elem_step t b grow frz innext) (seq 0 N) in
    Some (mkB (map fst res) (flat_map snd res) width (next_height (hS b) grow)).

Fixpoint loop (fuel t : nat) (b : bstate) : bstate * bool :=
  match fuel with
  | 0 => (b, false)
  | S f => match step t b with
           | None => (b, true)
           | Some b' => loop f (S t) b'
           end
  end.

Definition init_b (inits : list state) : bstate :=
  mkB (map (fun _ => [mkSlot [] 0 (Some 0%Z)]) inits) inits 1 0.

(* forward(initial_state, batch_size, max_iters): (beams, S, broke out of the loop) *)
Definition search (max_iters : nat) (inits : list state) : list (list slot) * nat * bool :=
  let r := loop max_iters 0 (init_b inits) in
  (map (to_width topk width (hS (fst r))) (beams (fst r)), hS (fst r), snd r).

(* near-ties: some decision of a live batch element is closer than [margin] *)
Fixpoint close_adj (margin : Z) (l : list score) : bool :=
  match l with
  | Some x :: ((Some y :: _) as t) => (x - y <? margin)%Z || close_adj margin t
  | _ => false
  end.

Definition tied_step (margin : Z) (t : nat) (b : bstate) : bool :=
  existsb (fun n =>
    let slots := nth n (beams b) [] in
    negb (done_of t slots) &&
    (let cs := cands (map clamp_slot slots) (logp_of t b n) in
     let K := Nat.min width (length slots * V) in
     close_adj margin (firstn (S K) (map snd (sort_desc (indexed cs))))))
    (seq 0 (length (beams b))).

Fixpoint tied_loop (margin : Z) (fuel t : nat) (b : bstate) : bool :=
  match fuel with
  | 0 => false
  | S f => match step t b with
           | None => false
           | Some b' => tied_step margin t b || tied_loop margin f (S t) b'
           end
  end.
End Search.

(* ===================== the test language model of the correspondence ========= *)
(* state s in 0..M-1; at idx 0 the state is the initial one (reduced mod M), at idx t>0 it
   becomes (a*s + b*hist[t-1] + c) mod M; the row of log-probabilities is table[s]
   (M rows of V entries).  *)
Definition hash_calc (a b c M : Z) (V : nat) (table : list (list score))
  (h : list Z) (s : Z) (t : nat) : list score * Z :=
  let s' := match t with
            | 0 => (s mod M)%Z
            | S t' => ((a * s + b * nth t' h 0%Z + c) mod M)%Z
            end in
  (nth (Z.to_nat s') table (repeat None V), s').

(* ===================== correspondence entry points =========================== *)
Definition list_eqb {A} (eqb : A -> A -> bool) :=
  fix go (x y : list A) : bool :=
    match x, y with
    | [], [] => true
    | a :: x', b :: y' => eqb a b && go x' y'
    | _, _ => false
    end.

(* what is compared of one slot: None for a -inf slot (its content is undefined),
   Some (valid prefix, length, score) otherwise *)
Definition canon (sl : slot) : option (list Z * nat * Z) :=
  match sc sl with
  | Some z => Some (firstn (len sl) (col sl), len sl, z)
  | None => None
  end.

Definition canon_eqb (tol : Z) (a b : option (list Z * nat * Z)) : bool :=
  match a, b with
  | None, None => true
  | Some (p, l, z), Some (p', l', z') =>
      list_eqb Z.eqb p p' && (l =? l') && (Z.abs (z - z') <=? tol)%Z
  | _, _ => false
  end.

Definition norm_eos (V : nat) (eos : option Z) : option Z :=
  match eos with
  | Some e => Some ((e + Z.of_nat V) mod Z.of_nat V)%Z   (* BeamSearch.__init__ *)
  | None => None
  end.

Definition run_search (lm : list Z -> Z -> nat -> list score * Z) (V width : nat)
  (eos : option Z) (fin_all : bool) (pad : Z) (fuel : nat) (inits : list Z) :=
  search topk_stable lm 0%Z V width (norm_eos V eos) fin_all pad fuel inits.

(* impl = (canonical slots per element, y.size(0)); [need_break]: max_iters was
   None, so the model must leave the loop through the break within [fuel] *)
Definition check_search (lm : list Z -> Z -> nat -> list score * Z) (V width : nat)
  (eos : option Z) (fin_all : bool) (pad : Z) (fuel : nat) (need_break : bool)
  (inits : list Z) (tol : Z) (cmpS : bool)
  (impl : list (list (option (list Z * nat * Z))) * nat) : bool :=
  let r := run_search lm V width eos fin_all pad fuel inits in
  list_eqb (list_eqb (canon_eqb tol)) (map (map canon) (fst (fst r))) (fst impl)
  && (negb cmpS || (snd (fst r) =? snd impl))
  && (negb need_break || snd r).

Definition tied_search (lm : list Z -> Z -> nat -> list score * Z) (V width : nat)
  (eos : option Z) (fin_all : bool) (pad : Z) (fuel : nat) (inits : list Z) (margin : Z) : bool :=
  tied_loop topk_stable lm 0%Z V width (norm_eos V eos) fin_all pad margin fuel 0 (init_b inits).

(* beam_search_advance: per slot None (-inf) or Some (valid prefix, length, score, source) *)
Definition canon_adv (p : slot * nat) : option (list Z * nat * Z * nat) :=
  match sc (fst p) with
  | Some z => Some (firstn (len (fst p)) (col (fst p)), len (fst p), z, snd p)
  | None => None
  end.

Definition canon_adv_eqb (a b : option (list Z * nat * Z * nat)) : bool :=
  match a, b with
  | None, None => true
  | Some (p, l, z, s), Some (p', l', z', s') =>
      list_eqb Z.eqb p p' && (l =? l') && (z =? z')%Z && (s =? s')
  | _, _ => false
  end.

Definition check_advance (V width S : nat) (has_lens : bool) (beams : list (list slot))
  (logp : list (list (list score)))
  (impl : option (list (list (option (list Z * nat * Z * nat))) * nat)) : bool :=
  match advance_fn topk_stable V width S has_lens beams logp, impl with
  | None, None => true
  | Some rows, Some (irows, iS) =>
      list_eqb (list_eqb canon_adv_eqb)
        (map (fun r => map canon_adv (combine (fst r) (snd r))) rows) irows
      && (iS =? match rows with
                | [] => iS
                | r :: _ => length (col (hd dslot (fst r)))
                end)
  | _, _ => false
  end.
