(* MiniTorch, unit C04 — the meaning given to the torch operations that occur in the translated
   text of `beam_search_advance` (src/pydrobert/torch/_decoding.py).  DEFINITIONS ONLY; the algebra
   is in LemmasC04.v.

   Tensors of this unit carry MiniPy VALUES as elements:
       a score (float) element is [VQ q] (an exact rational) or [VInf false] = -inf ([VInf true] = +inf),
       an integer (long) element is [VInt z],  a boolean element is [VBool b];
   a tensor is (shape, row-major data), AT MOST THREE dimensions wherever an index formula is used.
   As a MiniPy value it is the same tagged tuple as in MiniTorch.Value:
       VTuple [VStr "$tensor"; VList [VInt s_0; ...]; VList data].
   IEEE rounding, dtypes (beyond the int / float / bool kind of the elements), devices, strides and
   views are not modelled: an operation is a function from values to a value.  Anything outside
   the domain stated with a definition is [None] (the unit's [ext] makes it Stuck: fail-closed).
   Each definition quotes the sentence of the torch documentation (2.x) it models.  This file is
   TRUSTED by the C04 tie; it is exercised on every run by the harness-side
   [SrcRun.src_advance_check] (torch vs the interpreted source on the run's advance cases).

   torch.topk is given meaning through the C04 model's own executable top-k (stable: ties go to
   the lower index): torch documents "the indices of tied elements are not guaranteed to be stable",
   so the tie-break is an ORACLE; the model theorems assume only Spec.topk_ok of it. *)
From Coq Require Import List ZArith QArith Bool Arith.
From PV Require Import MiniPy.Syntax MiniTorch.Ops.
From PV Require C04.Model.
Import ListNotations.
Local Open Scope nat_scope.

Record vt := mkVT { vshape : list nat; vdata : list val }.

(* ---- tabulation and row-major access ---------------------------------------------------------- *)
Definition tl2 {A} (n m : nat) (f : nat -> nat -> A) : list A :=
  flat_map (fun i => map (f i) (seq 0 m)) (seq 0 n).
Definition tl3 {A} (a b c : nat) (f : nat -> nat -> nat -> A) : list A :=
  flat_map (fun i => flat_map (fun j => map (f i j) (seq 0 c)) (seq 0 b)) (seq 0 a).

Definition tabv2 (n m : nat) (f : nat -> nat -> val) : vt := mkVT [n; m] (tl2 n m f).
Definition tabv3 (a b c : nat) (f : nat -> nat -> nat -> val) : vt := mkVT [a; b; c] (tl3 a b c f).

(* element (i, j) of a matrix with m columns / (i, j, k) of a b x c-slab tensor; outside the buffer: None *)
Definition g2 (m : nat) (x : vt) (i j : nat) : val := nth (i * m + j) (vdata x) VNone.
Definition g3 (b c : nat) (x : vt) (i j k : nat) : val := nth ((i * b + j) * c + k) (vdata x) VNone.

Fixpoint map_opt {A B} (h : A -> option B) (l : list A) : option (list B) :=
  match l with
  | [] => Some []
  | a :: r => match h a, map_opt h r with Some b, Some bs => Some (b :: bs) | _, _ => None end
  end.

Definition sequence {A} (l : list (option A)) : option (list A) := map_opt (fun o => o) l.

(* element-wise map that may leave the domain *)
Definition tmap_opt (h : val -> option val) (x : vt) : option vt :=
  match map_opt h (vdata x) with Some d => Some (mkVT (vshape x) d) | None => None end.

Definition prodn (l : list nat) : nat := fold_right Nat.mul 1 l.

Definition z_of (v : val) : option Z := match v with VInt z => Some z | _ => None end.
Definition nat_of (v : val) : option nat :=
  match v with VInt z => if (0 <=? z)%Z then Some (Z.to_nat z) else None | _ => None end.
Definition vnat (n : nat) : val := VInt (Z.of_nat n).

(* ---- shapes ------------------------------------------------------------------------------------ *)
(* Tensor.dim(): "Returns the number of dimensions of self tensor." *)
Definition dim (x : vt) : nat := length (vshape x).

(* Tensor.size(dim): "If dim is specified, returns an int holding the size of that dimension."
   (dim in [-D, D), see Ops.wrap_dim; None: out of range - torch raises IndexError) *)
Definition size (x : vt) (d : Z) : option nat :=
  option_map (fun k => nth k (vshape x) 0) (wrap_dim (dim x) d).

(* Tensor.unsqueeze(dim): "Returns a new tensor with a dimension of size one inserted at the specified
   position. ... A dim value within the range [-input.dim() - 1, input.dim() + 1) can be used."
   The row-major data are unchanged. *)
Definition unsqueeze (x : vt) (d : Z) : option vt :=
  match wrap_dim (S (dim x)) d with
  | Some k => Some (mkVT (firstn k (vshape x) ++ 1 :: skipn k (vshape x)) (vdata x))
  | None => None
  end.

(* Tensor.flatten(start_dim) (end_dim = -1): "only dimensions starting with start_dim and ending with
   end_dim are flattened.  The order of elements in input is unchanged."  Tensors of >= 1 dimension. *)
Definition flatten (x : vt) (s : Z) : option vt :=
  match wrap_dim (dim x) s with
  | Some k => Some (mkVT (firstn k (vshape x) ++ [prodn (skipn k (vshape x))]) (vdata x))
  | None => None
  end.

(* Tensor.expand( *size ): "Returns a new view of the self tensor with singleton dimensions expanded to a
   larger size."  Modelled for a 3-D tensor and three non-negative sizes, each equal to the tensor's or
   the tensor's being 1 (-1 "not changing the size" and new leading dimensions: not modelled). *)
Definition expand (x : vt) (sizes : list Z) : option vt :=
  match vshape x, map (fun z => nat_of (VInt z)) sizes with
  | [a; b; c], [Some a'; Some b'; Some c'] =>
      if ((a =? a') || (a =? 1)) && ((b =? b') || (b =? 1)) && ((c =? c') || (c =? 1))
      then Some (tabv3 a' b' c' (fun i j k => g3 b c x (bidx a i) (bidx b j) (bidx c k)))
      else None
  | _, _ => None
  end.

(* ---- element-wise arithmetic ---------------------------------------------------------------- *)
(* IEEE addition on exact values: finite + finite is the exact sum (kept in lowest terms), an
   infinity absorbs finite values; inf + (-inf) = nan is NOT modelled (None); integers add as
   integers; int + float (type promotion) is not modelled *)
Definition el_add (a b : val) : option val :=
  match a, b with
  | VInt x, VInt y => Some (VInt (x + y)%Z)
  | VQ p, VQ q => Some (VQ (Qred (p + q)%Q))
  | VInf s, VQ _ => Some (VInf s)
  | VQ _, VInf s => Some (VInf s)
  | VInf s, VInf s' => if Bool.eqb s s' then Some (VInf s) else None
  | _, _ => None
  end.

(* Broadcasting semantics ("... starting at the trailing dimension, the dimension sizes must either be
   equal, one of them is 1, or one of them does not exist"), operands of AT MOST THREE dimensions; a
   missing leading dimension counts as size 1 (Ops.bdim / Ops.bidx as for the 2-D case in Ops.v). *)
Definition as3 (sh : list nat) : option (nat * nat * nat) :=
  match sh with
  | [] => Some (1, 1, 1)
  | [m] => Some (1, 1, m)
  | [n; m] => Some (1, n, m)
  | [a; b; c] => Some (a, b, c)
  | _ => None
  end.

Definition zip3 (f : val -> val -> option val) (x y : vt) : option vt :=
  match as3 (vshape x), as3 (vshape y) with
  | Some (a1, b1, c1), Some (a2, b2, c2) =>
      match bdim a1 a2, bdim b1 b2, bdim c1 c2 with
      | Some a, Some b, Some c =>
          match sequence (tl3 a b c (fun i j k =>
                   f (g3 b1 c1 x (bidx a1 i) (bidx b1 j) (bidx c1 k))
                     (g3 b2 c2 y (bidx a2 i) (bidx b2 j) (bidx c2 k)))) with
          | Some d => Some (mkVT (skipn (3 - Nat.max (dim x) (dim y)) [a; b; c]) d)
          | None => None
          end
      | _, _, _ => None
      end
  | _, _ => None
  end.

(* `a + b` on two tensors = torch.add(a, b): "Adds other ... to input", with broadcasting *)
Definition add (x y : vt) : option vt := zip3 el_add x y.

(* `a + c` with a Python number c: every element + c (an int c on an integer tensor, a float on a
   float tensor: el_add refuses the mixed case) *)
Definition add_scalar (x : vt) (c : val) : option vt := tmap_opt (fun v => el_add v c) x.

(* pydrobert.torch._compat.trunc_divide(input, other) = input.div(other, rounding_mode="trunc")
   (its eager branch; the compat wrapper itself is NOT translated): torch.div, rounding_mode "trunc":
   "rounds the results of the division towards zero".  Integer tensor, Python int other <> 0. *)
Definition trunc_div (x : vt) (c : Z) : option vt :=
  if (c =? 0)%Z then None
  else tmap_opt (fun v => match v with VInt z => Some (VInt (Z.quot z c)) | _ => None end) x.

(* `a % c` = torch.remainder(a, c): "Computes Python's modulus operation entrywise.  The result has the
   same sign as the divisor other and its absolute value is less than that of other."
   Integer tensor, Python int other <> 0. *)
Definition remainder (x : vt) (c : Z) : option vt :=
  if (c =? 0)%Z then None
  else tmap_opt (fun v => match v with VInt z => Some (VInt (Z.modulo z c)) | _ => None end) x.

(* `a != c` = torch.ne(a, c): "Computes input != other element-wise."  Integer tensor, Python int c;
   the result is a boolean tensor. *)
Definition ne_scalar (x : vt) (c : Z) : option vt :=
  tmap_opt (fun v => match v with VInt z => Some (VBool (negb (z =? c)%Z)) | _ => None end) x.

(* Tensor.any(): "Tests if any element in input evaluates to True."  torch returns a 0-d bool tensor;
   the source only uses its truth value, so the Python bool is returned (a MiniPy value has no
   __bool__ hook).  Boolean tensors only. *)
Definition any (x : vt) : option bool :=
  option_map (existsb (fun b => b))
    (map_opt (fun v => match v with VBool b => Some b | _ => None end) (vdata x)).

(* Tensor.max(): "Returns the maximum value of all elements in the input tensor." (a 0-d tensor).
   Integer tensors with at least one element (torch raises on an empty one: not modelled). *)
Definition tmax (x : vt) : option vt :=
  match map_opt z_of (vdata x) with
  | Some (z :: r) => Some (mkVT [] [VInt (fold_left Z.max r z)])
  | _ => None
  end.

(* Tensor.item(): "Returns the value of this tensor as a standard Python number.  This only works for
   tensors with one element." *)
Definition item (x : vt) : option val :=
  match vdata x with [v] => Some v | _ => None end.

(* ---- constructors ------------------------------------------------------------------------------ *)
(* Tensor.new_full(size, fill_value): "Returns a Tensor of size size filled with fill_value."
   Tensor.new_zeros(size): "... filled with 0."   torch.ones(size, dtype=, device=): "Returns a tensor
   filled with the scalar value 1".  Tensor.new_empty(size): "... filled with uninitialized data":
   modelled as 0 (the C04 model does the same; nothing compared with the implementation reads these
   cells).  2 or 3 sizes.  The fill value is stored as given: the caller ([ext04]) checks that its
   kind (int / float) is the receiver's. *)
Definition full (sizes : list Z) (v : val) : option vt :=
  match map (fun z => nat_of (VInt z)) sizes with
  | [Some n; Some m] => Some (tabv2 n m (fun _ _ => v))
  | [Some a; Some b; Some c] => Some (tabv3 a b c (fun _ _ _ => v))
  | _ => None
  end.

(* the KIND of the receiver's dtype is read off its elements: a fill value must be of that kind (an
   int fill into a float tensor, or the reverse, would be converted by torch: not modelled) *)
Definition is_int (v : val) : bool := match v with VInt _ => true | _ => false end.
Definition is_float (v : val) : bool := match v with VQ _ | VInf _ => true | _ => false end.
Definition all_int (x : vt) : bool := forallb is_int (vdata x).
Definition kind_ok (x : vt) (v : val) : bool :=
  (is_int v && forallb is_int (vdata x)) || (is_float v && forallb is_float (vdata x)).

Definition new_full (x : vt) (sizes : list Z) (v : val) : option vt :=
  if kind_ok x v then full sizes v else None.
(* integer receivers only (0 / 1 are stored as integers) *)
Definition new_zeros (x : vt) (sizes : list Z) : option vt := new_full x sizes (VInt 0).
Definition new_empty (x : vt) (sizes : list Z) : option vt := new_full x sizes (VInt 0).
Definition ones_int (sizes : list Z) : option vt := full sizes (VInt 1).

(* ---- indexing ------------------------------------------------------------------------------------ *)
(* torch.gather(input, dim, index): "For a 3-D tensor the output is specified by
     out[i][j][k] = input[i][j][index[i][j][k]]  # if dim == 2
   input and index must have the same number of dimensions.  It is also required that
   index.size(d) <= input.size(d) for all dimensions d != dim.  out will have the same shape as index."
   Modelled: 3-D with dim = 2 and 2-D with dim = 1 (out[i][j] = input[i][index[i][j]]); every index
   must lie in [0, input.size(dim)) (torch raises otherwise: None). *)
Definition gather (x : vt) (d : Z) (idx : vt) : option vt :=
  match vshape x, vshape idx with
  | [a; b; c], [a'; b'; c'] =>
      match wrap_dim 3 d with
      | Some 2 =>
          if (a' <=? a) && (b' <=? b) then
            match sequence (tl3 a' b' c' (fun i j k =>
                     match nat_of (g3 b' c' idx i j k) with
                     | Some l => if l <? c then Some (g3 b c x i j l) else None
                     | None => None
                     end)) with
            | Some dat => Some (mkVT [a'; b'; c'] dat)
            | None => None
            end
          else None
      | _ => None
      end
  | [n; m], [n'; m'] =>
      match wrap_dim 2 d with
      | Some 1 =>
          if n' <=? n then
            match sequence (tl2 n' m' (fun i j =>
                     match nat_of (g2 m' idx i j) with
                     | Some l => if l <? m then Some (g2 m x i l) else None
                     | None => None
                     end)) with
            | Some dat => Some (mkVT [n'; m'] dat)
            | None => None
            end
          else None
      | _ => None
      end
  | _, _ => None
  end.

(* Tensor.scatter(dim, index, src) (out-of-place scatter_): "For a 3-D tensor, self is updated as
     self[index[i][j][k]][j][k] = src[i][j][k]  # if dim == 0
   ... the values of index must be between 0 and self.size(dim) - 1 inclusive."
   Modelled: dim = 0, 3-D self of shape (H, n, k), index and src both of shape (1, n, k) (a single
   layer: no two values compete for a cell), every index in range (None otherwise: torch raises). *)
Definition scatter (x : vt) (d : Z) (idx src : vt) : option vt :=
  match vshape x, vshape idx, vshape src, wrap_dim 3 d with
  | [h; n; k], [1; n'; k'], [1; n''; k''], Some 0 =>
      if (n =? n') && (k =? k') && (n =? n'') && (k =? k'')
      then
        match map_opt (fun v => match nat_of v with
                                | Some l => if l <? h then Some l else None
                                | None => None end) (vdata idx) with
        | Some _ =>
            Some (tabv3 h n k (fun s i j =>
                    match nat_of (g3 n k idx 0 i j) with
                    | Some l => if s =? l then g3 n k src 0 i j else g3 n k x s i j
                    | None => g3 n k x s i j
                    end))
        | None => None
        end
      else None
  | _, _, _, _ => None
  end.

(* torch.cat(tensors, dim): "Concatenates the given sequence of tensors in tensors in the given
   dimension.  All tensors must either have the same shape (except in the concatenating dimension) or
   be a 1-D empty tensor with size (0,)."  Modelled: exactly two tensors, both 3-D or both 2-D (a 2-D
   pair is the 3-D pair with a leading dimension of size 1).  Shapes that differ outside the
   concatenating dimension: torch raises RuntimeError ("Sizes of tensors must match except in
   dimension ...") - [CRaise].  [CUndef]: outside the model (other ranks, a (0,) operand, dim out of
   range). *)
Inductive cres := COk (t : vt) | CRaise | CUndef.

Definition cat3 (a1 b1 c1 : nat) (x : vt) (a2 b2 c2 : nat) (y : vt) (d : nat) : option (nat * nat * nat * list val) :=
  match d with
  | 0 => if (b1 =? b2) && (c1 =? c2)
         then Some (a1 + a2, b1, c1, tl3 (a1 + a2) b1 c1 (fun i j k =>
                      if i <? a1 then g3 b1 c1 x i j k else g3 b2 c2 y (i - a1) j k))
         else None
  | 1 => if (a1 =? a2) && (c1 =? c2)
         then Some (a1, b1 + b2, c1, tl3 a1 (b1 + b2) c1 (fun i j k =>
                      if j <? b1 then g3 b1 c1 x i j k else g3 b2 c2 y i (j - b1) k))
         else None
  | _ => if (a1 =? a2) && (b1 =? b2)
         then Some (a1, b1, c1 + c2, tl3 a1 b1 (c1 + c2) (fun i j k =>
                      if k <? c1 then g3 b1 c1 x i j k else g3 b2 c2 y i j (k - c1)))
         else None
  end.

Definition cat (x y : vt) (d : Z) : cres :=
  match vshape x, vshape y with
  | [a1; b1; c1], [a2; b2; c2] =>
      match wrap_dim 3 d with
      | Some k => match cat3 a1 b1 c1 x a2 b2 c2 y k with
                  | Some (a, b, c, dat) => COk (mkVT [a; b; c] dat)
                  | None => CRaise
                  end
      | None => CUndef
      end
  | [b1; c1], [b2; c2] =>
      match wrap_dim 2 d with
      | Some k => match cat3 1 b1 c1 x 1 b2 c2 y (S k) with
                  | Some (_, b, c, dat) => COk (mkVT [b; c] dat)
                  | None => CRaise
                  end
      | None => CUndef
      end
  | _, _ => CUndef
  end.

(* ---- topk ---------------------------------------------------------------------------------------- *)
(* an element of a score tensor as the model's score: an integer-valued rational, or -inf.  The grid:
   the harness scales the float64 log-probabilities of a case exactly to integers (dyadic grid) *)
Definition score_of (v : val) : option C04.Model.score :=
  match v with
  | VQ q => if (Zpos (Qden q) =? 1)%Z then Some (Some (Qnum q)) else None
  | VInf false => Some None
  | _ => None
  end.

(* Tensor.topk(k, dim): "Returns the k largest elements of the given input tensor along a given
   dimension. ... A namedtuple of (values, indices) is returned with the values and indices of the
   largest k elements of each row of the input tensor in the given dimension dim.  The boolean option
   sorted if True, will make sure that the returned k elements are themselves sorted" (largest = True,
   sorted = True are the defaults).  "the indices of tied elements are not guaranteed to be stable":
   ORACLE = PV.C04.Model.topk_stable (ties: lowest index first).
   Modelled: a 2-D tensor of scores on the integer grid (or -inf), dim = 1 (or -1),
   0 <= k <= input.size(1) (torch raises "selected index k out of range" otherwise: None). *)
Definition topk (x : vt) (k d : Z) : option (vt * vt) :=
  match vshape x, wrap_dim 2 d with
  | [n; m], Some 1 =>
      if ((0 <=? k) && (k <=? Z.of_nat m))%Z then
        match map_opt score_of (vdata x) with
        | Some _ =>
            let row i := map (fun j => match score_of (g2 m x i j) with Some s => s | None => None end) (seq 0 m) in
            let sel i := C04.Model.topk_stable (Z.to_nat k) (row i) in
            Some (tabv2 n (Z.to_nat k) (fun i j => g2 m x i (nth j (sel i) 0)),
                  tabv2 n (Z.to_nat k) (fun i j => vnat (nth j (sel i) 0)))
        | None => None
        end
      else None
  | _, _ => None
  end.
