(* C14 - the loaders' batch samplers: plain BatchSampler, the bucketed one, len(), epochs *)
From Coq Require Import List Arith Bool ZArith Lia Sorting.Sorted Sorting.Permutation.
From PV Require Import C14.Model C14.Spec C14.ProofsSampler C14.ProofsSpec C14.ProofsParams.
Import ListNotations.

(* ------------------------------------------------------------------------------------ *)
(* torch BatchSampler                                                                   *)
(* ------------------------------------------------------------------------------------ *)

Lemma chunks_aux_spec : forall {A} (n : nat) (l cur : list A), length cur < n ->
  let '(f, r) := chunks_aux n cur l in
  cur ++ l = concat f ++ r /\ Forall (fun b => length b = n) f /\ length r < n.
Proof.
  intros A n. induction l as [|x t IH]; intros cur Hc; cbn [chunks_aux].
  - cbn. split; [apply app_nil_r|]. split; [constructor|exact Hc].
  - destruct (Nat.eqb (length (cur ++ [x])) n) eqn:E.
    + apply Nat.eqb_eq in E. specialize (IH [] ltac:(cbn; lia)).
      destruct (chunks_aux n [] t) as [f r]. destruct IH as (H1 & H2 & H3).
      split; [|split; [constructor; assumption|exact H3]].
      cbn [concat]. cbn [app] in H1. rewrite <- app_assoc, <- H1, <- app_assoc. reflexivity.
    + apply Nat.eqb_neq in E. rewrite app_length in E. cbn [length] in E.
      specialize (IH (cur ++ [x]) ltac:(rewrite app_length; cbn; lia)).
      destruct (chunks_aux n (cur ++ [x]) t) as [f r]. destruct IH as (H1 & H2 & H3).
      split; [|split; assumption]. rewrite <- H1, <- app_assoc. reflexivity.
Qed.

(* consecutive chunks of the order: all of size n, then at most one shorter non-empty one, which
   is dropped under drop_last *)
Theorem batch_sampler_spec : forall (n : nat) (drop : bool) (l : list nat), 0 < n ->
  exists full rest,
    l = concat full ++ rest /\ Forall (fun b => length b = n) full /\ length rest < n /\
    batch_sampler n drop l = full ++ (if drop then [] else match rest with [] => [] | _ => [rest] end).
Proof.
  intros n drop l Hn. unfold batch_sampler.
  pose proof (chunks_aux_spec n l [] ltac:(cbn; lia)) as H.
  destruct (chunks_aux n [] l) as [f r]. destruct H as (H1 & H2 & H3).
  exists f, r. cbn [app] in H1. repeat split; assumption.
Qed.

Theorem batch_sampler_len_eq : forall (n : nat) (drop : bool) (l : list nat), 0 < n ->
  length (batch_sampler n drop l) = batch_sampler_len n drop (length l).
Proof.
  intros n drop l Hn. destruct (batch_sampler_spec n drop l Hn) as (f & r & Hl & Hf & Hr & ->).
  rewrite Hl, !app_length, (length_concat_const n f Hf). unfold batch_sampler_len.
  destruct drop.
  - cbn [length]. rewrite Nat.add_0_r. apply Nat.div_unique with (r := length r); lia.
  - destruct r as [|x r']; cbn [length] in *.
    + apply Nat.div_unique with (r := n - 1); lia.
    + apply Nat.div_unique with (r := length r'); lia.
Qed.

(* without drop_last nothing is lost and the order is kept *)
Theorem batch_sampler_lossless : forall (n : nat) (l : list nat), 0 < n ->
  concat (batch_sampler n false l) = l.
Proof.
  intros n l Hn. destruct (batch_sampler_spec n false l Hn) as (f & r & Hl & _ & _ & ->).
  rewrite concat_app, Hl at 1. f_equal. destruct r; cbn; [reflexivity|now rewrite app_nil_r].
Qed.

(* ------------------------------------------------------------------------------------ *)
(* the loaders                                                                          *)
(* ------------------------------------------------------------------------------------ *)

Lemma loader_init_bucketed : forall lens p i2b b2s,
  loader_init lens p = Ok (Some (i2b, b2s)) ->
  1 < p_nb p /\ bucket_params lens (p_nb p) (p_bs p) (p_dyn p) = Ok (i2b, b2s).
Proof.
  intros lens p i2b b2s H. unfold loader_init in H.
  destruct (Nat.ltb 1 (p_nb p)) eqn:E; [|discriminate]. apply Nat.ltb_lt in E. split; [exact E|].
  destruct (bucket_params _ _ _ _) as [x|e]; [|discriminate]. inversion H. reflexivity.
Qed.

(* a length-bucketed loader's epoch meets the sampler specification for its own tables *)
Theorem loader_bucketed_spec : forall lens p order out i2b b2s,
  loader_init lens p = Ok (Some (i2b, b2s)) -> loader_batches lens p order = Ok out ->
  bbs_spec (tbl i2b) (tbl b2s) (p_drop p) order out.
Proof.
  intros lens p order out i2b b2s Hinit H. unfold loader_batches in H. rewrite Hinit in H.
  destruct (bucket_iter _ _ _ _) as [o|] eqn:E; [|discriminate]. inversion H; subst.
  now apply bucket_iter_spec.
Qed.

(* "length-bucketed loaders never mix utterances from different length classes": within a batch no
   bound separates two utterances' lengths *)
Theorem loader_no_mixing : forall lens p order out lb b x y,
  1 < p_nb p -> length_bounds lens (p_nb p) = Ok lb -> loader_batches lens p order = Ok out ->
  In b out -> In x b -> In y b -> same_class lb (nth x lens 0) (nth y lens 0).
Proof.
  intros lens p order out lb b x y Hnb Hlb H Hb Hx Hy.
  unfold loader_batches in H. destruct (loader_init lens p) as [[[i2b b2s]|]|e] eqn:Hinit; try discriminate.
  - destruct (loader_init_bucketed _ _ _ _ Hinit) as [_ Hpar].
    destruct (bucket_params_ok _ _ _ _ _ _ Hpar) as [(-> & _ & _)|(lb' & Hlb' & -> & _)].
    { rewrite length_bounds_empty in Hlb. discriminate. }
    assert (lb' = lb) by congruence. subst lb'.
    destruct (bucket_iter _ _ _ _) as [o|] eqn:E; [|discriminate]. inversion H; subst.
    destruct (bucket_iter_spec _ _ _ _ _ E) as (Hsb & _).
    destruct (Hsb b Hb) as [_ Hall].
    apply class_of_eq_iff. rewrite <- !tbl_map_class. rewrite (Hall x Hx), (Hall y Hy). reflexivity.
  - unfold loader_init in Hinit. apply Nat.ltb_lt in Hnb. rewrite Hnb in Hinit.
    destruct (bucket_params _ _ _ _); discriminate.
Qed.

(* "report as their length the number of batches they actually yield" *)
Theorem loader_len_eq : forall lens p order out, 1 <= p_bs p ->
  loader_batches lens p order = Ok out -> loader_len lens p order = Ok (length out).
Proof.
  intros lens p order out Hbs H. unfold loader_batches, loader_len in *.
  destruct (loader_init lens p) as [[[i2b b2s]|]|e] eqn:Hinit; try discriminate.
  - destruct (bucket_iter _ _ _ _) as [o|] eqn:E; [|discriminate]. inversion H; subst. f_equal.
    apply spec_len_eq_number_of_batches. now apply bucket_iter_spec.
  - inversion H; subst. f_equal. symmetry. apply batch_sampler_len_eq. lia.
Qed.

(* __len__ caches the value it computes at its first call.  That is sound because the value does
   not depend on the order: any two epochs that present the same indices have the same number of
   batches (single process: every epoch is a permutation of all indices) *)
Theorem loader_len_perm : forall lens p order order', Permutation order order' ->
  loader_len lens p order = loader_len lens p order'.
Proof.
  intros lens p order order' Hp. unfold loader_len.
  destruct (loader_init lens p) as [[[i2b b2s]|]|e]; [| |reflexivity].
  - f_equal. now apply sampler_len_perm.
  - now rewrite (Permutation_length Hp).
Qed.

Theorem loader_cached_len_eq : forall lens p order order' out, 1 <= p_bs p ->
  Permutation order order' -> loader_batches lens p order' = Ok out ->
  loader_len lens p order = Ok (length out).
Proof.
  intros lens p order order' out Hbs Hp H.
  rewrite (loader_len_perm lens p order order' Hp). now apply loader_len_eq.
Qed.

(* the constructor never raises ... *)
Theorem loader_init_total : forall lens p, 1 <= p_nb p -> exists t, loader_init lens p = Ok t.
Proof.
  intros lens p Hnb. unfold loader_init. destruct (Nat.ltb 1 (p_nb p)); [|eexists; reflexivity].
  destruct (bucket_params_total lens (p_nb p) (p_bs p) (p_dyn p) Hnb) as (t & ->). eexists; reflexivity.
Qed.

(* ... and every epoch yields batches (no RuntimeError): for every data set - empty ones and
   zero-length utterances included -, every bucket count, batch size, sizing flag, drop_last *)
Theorem loader_total : forall lens p order, 1 <= p_bs p -> 1 <= p_nb p ->
  (forall i, In i order -> i < length lens) ->
  exists out, loader_batches lens p order = Ok out.
Proof.
  intros lens p order Hbs Hnb Hord. unfold loader_batches.
  destruct (loader_init_total lens p Hnb) as (t & Hinit). rewrite Hinit.
  destruct t as [[i2b b2s]|]; [|eexists; reflexivity].
  destruct (loader_init_bucketed _ _ _ _ Hinit) as [_ Hpar].
  destruct (bucket_iter_some (tbl i2b) (tbl b2s) (p_drop p) order) as (out & Hout).
  - intros i Hi. specialize (Hord i Hi).
    destruct (bucket_params_ok _ _ _ _ _ _ Hpar) as [(-> & _ & _)|(lb & Hlb & Hi2b & _)]; [cbn in Hord; lia|].
    destruct (length_bounds_ok _ _ _ Hlb) as (_ & _ & Hne & _ & _ & Hmax & _).
    subst i2b. rewrite tbl_map_class.
    assert (Hj : class_of lb (nth i lens 0) < length lb).
    { apply class_of_lt_length; [|exact Hne]. apply Hmax. now apply nth_In. }
    destruct (bucket_sizes _ _ _ _ _ _ lb _ Hpar Hlb Hj) as (_ & Hge & _). lia.
  - rewrite Hout. eexists; reflexivity.
Qed.

(* "deliver identical batches for identical (seed, epoch)": the batches of an epoch are a function
   of that epoch's order alone - reached by iterating or by starting there *)
Theorem loader_epochs_nth : forall lens p order e0 k j, j < k ->
  nth j (loader_epochs lens p order e0 k) (Err RuntimeError) = loader_batches lens p (order (e0 + j)).
Proof.
  intros lens p order e0 k j Hj. unfold loader_epochs.
  rewrite (nth_indep _ _ (loader_batches lens p (order 0))) by (now rewrite map_length, seq_length).
  rewrite (map_nth (fun e => loader_batches lens p (order e))). now rewrite seq_nth.
Qed.

Theorem loader_same_seed_epoch : forall lens p order k,
  nth k (loader_epochs lens p order 0 (S k)) (Err RuntimeError)
  = nth 0 (loader_epochs lens p order k 1) (Err RuntimeError).
Proof.
  intros. rewrite !loader_epochs_nth by lia. now rewrite Nat.add_0_r.
Qed.
