(* C07 - tie between the Python text of `_sequence_log_probs_tensor` (_decoding.py) / `_lens_from_eos`
   (_string.py) and PV.C07.Model, checked by the kernel.  PV.Gen.C07Src.slp_tensor_body and
   PV.Gen.C07LensSrc.lens_from_eos_body are the MiniPy terms harness/py2coq/translate.py regenerates from
   /repo on every run; PV.MiniPy.Interp is their semantics; the torch calls mean what PV.MiniTorch.OpsC07
   says (through SrcRun.ext07), log_softmax is an oracle.  The lemmas below say: for EVERY input on the
   (outer, time, inner) normal form - hyp (A x T x B), logits (A x T x B x V), dim = 1 or -2, any eos, any
   oracle - interpreting the source computes exactly Model.slp_tensor (the same tensor, entry for entry,
   or an exception where the model has its error).  Proof = a symbolic run of the interpreter ([istep]),
   each torch call rewritten by its [ext_*] lemma and the operation's lemma on tabulated data
   (LemmasC07), down to a per-fibre equality with Model.slp_col / Model.lens_from_eos.  If the source is
   edited so that this stops being true, this file stops compiling and the C07 check reports the broken
   obligation. *)
From Coq Require Import ZArith QArith List String Bool Arith Lia ZifyBool ZifyNat.
From PV Require Import MiniPy.Syntax MiniPy.Interp MiniTorch.Ops MiniTorch.OpsC07 MiniTorch.LemmasC07.
From PV Require Import Gen.C07Src Gen.C07LensSrc C07.SrcRun.
From PV Require C07.Model C07.Spec C07.Lib C07.ProofsSlp MiniTorch.Lemmas.
Import ListNotations.
Local Open Scope string_scope.

#[local] Arguments dec_any : simpl never.
#[local] Arguments enc_b : simpl never.
#[local] Arguments enc_i : simpl never.
#[local] Arguments enc_f : simpl never.
#[local] Arguments tab2 : simpl never.
#[local] Arguments tab3 : simpl never.
#[local] Arguments tab4 : simpl never.

(* ---- what reaches [ext07_ops], call by call ------------------------------------------------------ *)
Section ExtLemmas.
  Variable lsm : tn xq -> tn xq.
  Notation ext := (ext07_ops lsm).

  Lemma ext_dim_i x st : ext "$method.dim" [enc_i x] [] st = Ok (VInt (Z.of_nat (List.length (shp x)))) st.
  Proof. unfold ext07_ops. cbn. now rewrite dec_any_enc_i. Qed.

  Lemma ext_shape_i x st :
    ext "$attr.shape" [enc_i x] [] st = Ok (VTuple (map (fun n => VInt (Z.of_nat n)) (shp x))) st.
  Proof. unfold ext07_ops. cbn. now rewrite dec_any_enc_i. Qed.

  Lemma ext_shape_f x st :
    ext "$attr.shape" [enc_f x] [] st = Ok (VTuple (map (fun n => VInt (Z.of_nat n)) (shp x))) st.
  Proof. unfold ext07_ops. cbn. now rewrite dec_any_enc_f. Qed.

  Lemma ext_device_f x st : ext "$attr.device" [enc_f x] [] st = Ok device_token st.
  Proof. unfold ext07_ops. cbn. now rewrite dec_any_enc_f. Qed.

  Lemma ext_lsm x st : (rank x =? 0)%nat = false -> nats_eqb (shp (lsm x)) (shp x) = true ->
    ext "torch.nn.functional.log_softmax" [enc_f x; VInt (-1)] [] st = Ok (enc_f (lsm x)) st.
  Proof. intros H1 H2. unfold ext07_ops. cbn. rewrite dec_any_enc_f. cbn. now rewrite H1, H2. Qed.

  Lemma ext_lt x c st : ext "$method.lt" [enc_i x; VInt c] [] st = Ok (enc_b (lt_s x c)) st.
  Proof. unfold ext07_ops. cbn. now rewrite dec_any_enc_i. Qed.

  Lemma ext_ge x c st : ext "$method.ge" [enc_i x; VInt c] [] st = Ok (enc_b (ge_s x c)) st.
  Proof. unfold ext07_ops. cbn. now rewrite dec_any_enc_i. Qed.

  Lemma ext_eq_i x c st : ext "$method.eq" [enc_i x; VInt c] [] st = Ok (enc_b (eq_s x c)) st.
  Proof. unfold ext07_ops. cbn. now rewrite dec_any_enc_i. Qed.

  Lemma ext_eq_b x c st : ext "$method.eq" [enc_b x; VInt c] [] st = Ok (enc_b (eq_sb x c)) st.
  Proof. unfold ext07_ops. cbn. now rewrite dec_any_enc_b. Qed.

  Lemma ext_or x y st : ext "operator" [VStr "or"; enc_b x; enc_b y] [] st = ret_any "or" (option_map TB (bor x y)) st.
  Proof. unfold ext07_ops. cbn. now rewrite !dec_any_enc_b. Qed.

  Lemma ext_and x y st : ext "operator" [VStr "and"; enc_b x; enc_b y] [] st = ret_any "and" (option_map TB (band x y)) st.
  Proof. unfold ext07_ops. cbn. now rewrite !dec_any_enc_b. Qed.

  Lemma ext_add x c st : ext "operator" [VStr "add"; enc_i x; VInt c] [] st = Ok (enc_i (add_s x c)) st.
  Proof. unfold ext07_ops. cbn. now rewrite dec_any_enc_i. Qed.

  Lemma ext_cmp_ge x y st : ext "compare" [VStr "ge"; enc_i x; enc_i y] [] st = ret_any "ge" (option_map TB (ge_t x y)) st.
  Proof. unfold ext07_ops. cbn. now rewrite !dec_any_enc_i. Qed.

  Lemma ext_cumsum x d st :
    ext "torch.cumsum" [enc_b x; VInt d] [("dtype", long_token)] st = ret_any "cumsum" (option_map TI (cumsum_bool x d)) st.
  Proof. unfold ext07_ops. cbn. now rewrite dec_any_enc_b. Qed.

  Lemma ext_arange n st :
    ext "torch.arange" [VInt n] [("device", device_token)] st = ret_any "arange" (option_map TI (arange n)) st.
  Proof. reflexivity. Qed.

  Lemma ext_max x d st :
    ext "$method.max" [enc_b x; VInt d] [] st =
    match max_bool x d with
    | Some (Some (v, i)) => Ok (VTuple [enc_b v; enc_i i]) st
    | Some None => Exc index_error st
    | None => oob "max"
    end.
  Proof. unfold ext07_ops. cbn. now rewrite dec_any_enc_b. Qed.

  Lemma ext_mfill_i x m c st :
    ext "$method.masked_fill" [enc_i x; enc_b m; VInt c] [] st = ret_any "masked_fill" (option_map TI (masked_fill x m c)) st.
  Proof. unfold ext07_ops. cbn. now rewrite dec_any_enc_i, dec_any_enc_b. Qed.

  Lemma ext_mfill_f x m q st :
    ext "$method.masked_fill" [enc_f x; enc_b m; VQ q] [] st = ret_any "masked_fill" (option_map TF (masked_fill x m (Fin q))) st.
  Proof. unfold ext07_ops. cbn. now rewrite dec_any_enc_f, dec_any_enc_b. Qed.

  Lemma ext_unsqueeze_i x d st :
    ext "$method.unsqueeze" [enc_i x; VInt d] [] st = ret_any "unsqueeze" (option_map TI (unsqueeze x d)) st.
  Proof. unfold ext07_ops. cbn. now rewrite dec_any_enc_i. Qed.

  Lemma ext_squeeze_f x d st :
    ext "$method.squeeze" [enc_f x; VInt d] [] st = ret_any "squeeze" (option_map TF (squeeze_dim x d)) st.
  Proof. unfold ext07_ops. cbn. now rewrite dec_any_enc_f. Qed.

  Lemma ext_flatten_i x d st :
    ext "$method.flatten" [enc_i x; VInt d] [] st = ret_any "flatten" (option_map TI (flatten_from x d)) st.
  Proof. unfold ext07_ops. cbn. now rewrite dec_any_enc_i. Qed.

  Lemma ext_view_as_b x y st :
    ext "$method.view_as" [enc_b x; enc_b y] [] st = ret_any "view_as" (option_map TB (view_as x (shp y))) st.
  Proof. unfold ext07_ops. cbn. now rewrite !dec_any_enc_b. Qed.

  Lemma ext_gather x y st :
    ext "$method.gather" [enc_f x; VInt (-1); enc_i y] [] st = ret_any "gather" (option_map TF (gather_last x y)) st.
  Proof. unfold ext07_ops. cbn. now rewrite dec_any_enc_f, dec_any_enc_i. Qed.

  Lemma ext_sum x d st : ext "$method.sum" [enc_f x; VInt d] [] st = ret_any "sum" (option_map TF (sum_dim x d)) st.
  Proof. unfold ext07_ops. cbn. now rewrite dec_any_enc_f. Qed.
End ExtLemmas.

(* ---- tensors inside the interpreter ------------------------------------------------------------------- *)
Lemma method_enc_i t m args : method (enc_i t) m args = None.  Proof. reflexivity. Qed.
Lemma method_enc_b t m args : method (enc_b t) m args = None.  Proof. reflexivity. Qed.
Lemma method_enc_f t m args : method (enc_f t) m args = None.  Proof. reflexivity. Qed.
Lemma attribute_enc_i ext t a st : attribute ext (enc_i t) a st = ext ("$attr." ++ a) [enc_i t] [] st.  Proof. reflexivity. Qed.
Lemma attribute_enc_f ext t a st : attribute ext (enc_f t) a st = ext ("$attr." ++ a) [enc_f t] [] st.  Proof. reflexivity. Qed.
Lemma binop_or_enc t u st : binop_eval BitOr (enc_b t) (enc_b u) st = Stuck "or".  Proof. reflexivity. Qed.
Lemma binop_and_enc t u st : binop_eval BitAnd (enc_b t) (enc_b u) st = Stuck "and".  Proof. reflexivity. Qed.
Lemma binop_add_enc t c st : binop_eval Add (enc_i t) (VInt c) st = Stuck "add".  Proof. reflexivity. Qed.
Lemma foreign_enc_i t : foreign (enc_i t) = true.  Proof. reflexivity. Qed.

#[local] Arguments ext07_ops : simpl never.

Ltac istep :=
  cbn;
  change (Pos.to_nat 1) with 1%nat; change (Pos.to_nat 2) with 2%nat; change (Pos.to_nat 3) with 3%nat; cbn;
  rewrite ?method_enc_i, ?method_enc_b, ?method_enc_f, ?attribute_enc_i, ?attribute_enc_f,
    ?binop_or_enc, ?binop_and_enc, ?binop_add_enc, ?foreign_enc_i;
  cbn.

(* ---- _lens_from_eos on one fibre: the MiniTorch computation is Model.lens_from_eos --------------------- *)
Lemma first_true_same l : OpsC07.first_true l = Model.first_true l.
Proof. induction l as [|b l IH]; [reflexivity|]. cbn. now rewrite IH. Qed.

Lemma run_sum_length l : forall acc, List.length (run_sum acc l) = List.length l.
Proof. induction l as [|x l IH]; intros acc; cbn; [reflexivity|now rewrite IH]. Qed.

Lemma hit_model e col : forall acc,
  zipw (fun r (m : bool) => (r =? 1)%Z && m) (run_sum (Z.of_nat acc) (map b2z (map (fun k => (k =? e)%Z) col)))
       (map (fun k => (k =? e)%Z) col)
  = Model.map2 andb (map (Nat.eqb 1) (Model.cumsum_from acc (map Model.b2n (map (Z.eqb e) col)))) (map (Z.eqb e) col).
Proof.
  induction col as [|k col IH]; intros acc; [reflexivity|].
  cbn [map run_sum zipw Model.cumsum_from Model.map2]. rewrite (Z.eqb_sym e k). f_equal.
  - destruct (k =? e)%Z; cbn [b2z Model.b2n]; [|now rewrite !andb_false_r]. rewrite !andb_true_r.
    destruct (Nat.eqb_spec 1 (acc + 1)); lia.
  - replace (Z.of_nat acc + b2z (k =? e)%Z)%Z with (Z.of_nat (acc + Model.b2n (k =? e)%Z))
      by (destruct (k =? e)%Z; cbn [b2z Model.b2n]; lia).
    apply IH.
Qed.

Lemma lens_col e T (c : nat -> Z) :
  let hit := map (fun t => (nth t (run_sum 0 (map b2z (map (fun s => (c s =? e)%Z) (seq 0 T)))) 0 =? 1)%Z && (c t =? e)%Z) (seq 0 T) in
  (if (b2z match OpsC07.first_true hit with Some _ => true | None => false end =? 0)%Z then Z.of_nat T
   else match OpsC07.first_true hit with Some j => Z.of_nat j | None => 0%Z end)
  = Z.of_nat (Model.lens_from_eos e (map c (seq 0 T))).
Proof.
  intros hit.
  assert (E : hit = Model.map2 andb (map (Nat.eqb 1) (Model.cumsum (map Model.b2n (map (Z.eqb e) (map c (seq 0 T))))))
                               (map (Z.eqb e) (map c (seq 0 T)))).
  { unfold Model.cumsum. rewrite <- (hit_model e (map c (seq 0 T)) 0). unfold hit. rewrite !map_map.
    rewrite <- (map_nth_zipw _ _ _ T 0%Z false) by (rewrite ?run_sum_length, !map_length, seq_length; reflexivity).
    apply map_ext_seq. intros t Ht. rewrite (MiniTorch.Lemmas.nth_map_seq (fun x => (c x =? e)%Z)) by assumption. reflexivity. }
  rewrite first_true_same, E. unfold Model.lens_from_eos, Model.max_first_bool.
  destruct (Model.first_true _) as [j|]; cbn; [reflexivity|]. now rewrite !map_length, seq_length.
Qed.

Ltac norm_ops :=
  unfold eq_s, lt_s, ge_s, cmp_scalar, eq_sb, add_s, bor, band, masked_fill, zip_same; cbn [shp dat];
  rewrite ?nats_eqb_refl, ?map_tab3, ?map_tab2, ?zipw_tab3, ?zipw_tab2;
  cbn [option_map ret_any enc_any].

Lemma lens_run_3 lsm A T B h e : T <> 0%nat ->
  exists st, run_lens lsm (mkTn [A; T; B] (tab3 A T B h)) e 1 =
    Ok (enc_i (mkTn [A; B] (tab2 A B (fun a b => Z.of_nat (Model.lens_from_eos e (map (fun t => h a t b) (seq 0 T))))))) st.
Proof.
  intros HT. unfold run_lens, Interp.run, lens_from_eos_body, lens_vars, globals07.
  istep. rewrite ext_eq_i. norm_ops. istep.
  rewrite ext_cumsum, cumsum_bool_3. norm_ops. istep.
  rewrite ext_eq_i. norm_ops. istep. rewrite ext_and. norm_ops. istep.
  rewrite ext_max, max_bool_3 by assumption. istep.
  rewrite ext_eq_b. norm_ops. istep. rewrite ext_shape_i. istep.
  rewrite ext_mfill_i. norm_ops. istep.
  eexists. do 3 f_equal. apply tab2_ext. intros a b Ha Hb. apply lens_col.
Qed.

Lemma lens_run_3_empty lsm A B h e :
  exists st, run_lens lsm (mkTn [A; 0%nat; B] (tab3 A 0 B h)) e 1 = Exc index_error st.
Proof.
  unfold run_lens, Interp.run, lens_from_eos_body, lens_vars, globals07.
  istep. rewrite ext_eq_i. norm_ops. istep.
  rewrite ext_cumsum, cumsum_bool_3. norm_ops. istep.
  rewrite ext_eq_i. norm_ops. istep. rewrite ext_and. norm_ops. istep.
  rewrite ext_max, max_bool_3_empty. istep. eexists. reflexivity.
Qed.


(* ---- _sequence_log_probs_tensor --------------------------------------------------------------------- *)
Lemma call_body_lens lsm tok e d st :
  call_body lsm lens_from_eos_body (("tok", enc_i tok) :: ("eos", VInt e) :: ("dim", VInt d) :: globals07) st =
  match run_lens lsm tok e d with Ok v _ => Ok v st | Exc n _ => Exc n st | Stuck w => Stuck w end.
Proof. reflexivity. Qed.

#[local] Arguments call_body : simpl never.

Lemma unsqueeze_2_1 {X} A B (d : list X) : unsqueeze (mkTn [A; B] d) 1 = Some (mkTn [A; 1%nat; B] d).
Proof. reflexivity. Qed.
Lemma unsqueeze_1_m1 {X} T (d : list X) : unsqueeze (mkTn [T] d) (-1) = Some (mkTn [T; 1%nat] d).
Proof. reflexivity. Qed.
Lemma unsqueeze_3_m1 {X} A T B (d : list X) : unsqueeze (mkTn [A; T; B] d) (-1) = Some (mkTn [A; T; B; 1%nat] d).
Proof. reflexivity. Qed.
Lemma flatten_3_2 {X} A B (d : list X) : flatten_from (mkTn [A; 1%nat; B] d) 2 = Some (mkTn [A; 1%nat; B] d).
Proof. reflexivity. Qed.
Lemma squeeze_4_m1 {X} A T B (d : list X) : squeeze_dim (mkTn [A; T; B; 1%nat] d) (-1) = Some (mkTn [A; T; B] d).
Proof. reflexivity. Qed.
Lemma view_as_same {X} sh (d : list X) : view_as (mkTn sh d) sh = Some (mkTn sh d).
Proof. unfold view_as. cbn [shp dat]. now rewrite Nat.eqb_refl. Qed.
Lemma arange_nat T : arange (Z.of_nat T) = Some (mkTn [T] (map Z.of_nat (seq 0 T))).
Proof. unfold arange. replace (Z.of_nat T <? 0)%Z with false by lia. now rewrite Nat2Z.id. Qed.

#[local] Arguments unsqueeze : simpl never.
#[local] Arguments flatten_from : simpl never.
#[local] Arguments squeeze_dim : simpl never.
#[local] Arguments view_as : simpl never.
#[local] Arguments arange : simpl never.
#[local] Arguments ge_t : simpl never.
#[local] Arguments gather_last : simpl never.
#[local] Arguments sum_dim : simpl never.
#[local] Arguments cumsum_bool : simpl never.
#[local] Arguments max_bool : simpl never.

(* the value the source computes for one (outer, inner) position, and the model's *)
Lemma map2_maps {A X Y W} (f : X -> Y -> W) (g : A -> X) (k : A -> Y) l :
  Model.map2 f (map g l) (map k l) = map (fun a => f (g a) (k a)) l.
Proof. induction l as [|a l IH]; cbn; [reflexivity|now rewrite IH]. Qed.

Definition src_oov (V : nat) (k : Z) : bool := ((k <? 0) || (k >=? Z.of_nat V))%Z.

Lemma src_oov_model V k : src_oov V k = Model.oov (Z.of_nat V) k.
Proof. unfold src_oov, Model.oov. lia. Qed.

Lemma slp_col_some V e T (r : nat -> list xq) (c : nat -> Z) :
  let mask := fun t => (src_oov V (c t) || (Z.of_nat t >=? Z.of_nat (Model.lens_from_eos e (map c (seq 0 T))) + 1)%Z)%bool in
  fold_right xadd xzero
    (map (fun t => if mask t then Fin 0 else nth (Z.to_nat (if mask t then 0%Z else c t)) (r t) xzero) (seq 0 T))
  = Model.slp_col xadd xzero (Z.of_nat V) (Some e) (map r (seq 0 T)) (map c (seq 0 T)).
Proof.
  intros mask. unfold Model.slp_col, Model.slp_mask, Model.gather_masked, Model.sum_list. f_equal.
  rewrite !map_length, seq_length, !map_map.
  set (L := Model.lens_from_eos e (map c (seq 0 T))) in *.
  rewrite (map2_maps orb). rewrite (map2_maps (fun (m : bool) k => if m then 0%Z else k)).
  rewrite (map2_maps (fun row k => nth (Z.to_nat k) row xzero)).
  rewrite (map2_maps (fun (m : bool) v => if m then xzero else v)).
  apply map_ext_seq. intros t Ht. unfold mask. rewrite src_oov_model.
  replace (Z.of_nat t >=? Z.of_nat L + 1)%Z with (L + 1 <=? t)%nat by lia. reflexivity.
Qed.

Lemma slp_col_none V T (r : nat -> list xq) (c : nat -> Z) :
  fold_right xadd xzero
    (map (fun t => if src_oov V (c t) then Fin 0 else nth (Z.to_nat (if src_oov V (c t) then 0%Z else c t)) (r t) xzero) (seq 0 T))
  = Model.slp_col xadd xzero (Z.of_nat V) None (map r (seq 0 T)) (map c (seq 0 T)).
Proof.
  unfold Model.slp_col, Model.slp_mask, Model.gather_masked, Model.sum_list. f_equal. rewrite !map_map.
  rewrite (map2_maps (fun (m : bool) k => if m then 0%Z else k)).
  rewrite (map2_maps (fun row k => nth (Z.to_nat k) row xzero)).
  rewrite (map2_maps (fun (m : bool) v => if m then xzero else v)).
  apply map_ext_seq. intros t Ht. now rewrite src_oov_model.
Qed.

Lemma slp_run_some lsm logits A T B V h (r : nat -> nat -> nat -> list xq) e :
  (0 < V)%nat -> shp logits = [A; T; B; V] ->
  lsm logits = mkTn [A; T; B; V] (tab4 A T B V (fun a t b v => nth v (r a t b) xzero)) -> T <> 0%nat ->
  exists st, run_slp lsm logits (mkTn [A; T; B] (tab3 A T B h)) 1 (Some e) =
    Ok (enc_f (mkTn [A; B] (tab2 A B (fun a b =>
          Model.slp_col xadd xzero (Z.of_nat V) (Some e) (map (fun t => r a t b) (seq 0 T)) (map (fun t => h a t b) (seq 0 T)))))) st.
Proof.
  intros HV Hsh Hl HT. unfold run_slp, Interp.run, slp_tensor_body, slp_vars, opt_int.
  istep. rewrite ext_dim_i. istep. rewrite ext_shape_i. istep. rewrite ext_shape_f, Hsh. istep.
  rewrite ext_lsm by (rewrite ?Hl; unfold rank; rewrite ?Hsh; cbn [shp]; rewrite ?nats_eqb_refl; reflexivity). rewrite Hl. istep.
  rewrite ext_lt. norm_ops. istep. rewrite ext_ge. norm_ops. istep. rewrite ext_or. norm_ops. istep.
  rewrite call_body_lens. destruct (lens_run_3 lsm A T B h e HT) as [st' Hlens]. rewrite Hlens. istep.
  rewrite ext_add. norm_ops. istep.
  rewrite ext_unsqueeze_i, unsqueeze_2_1. norm_ops. istep.
  rewrite ext_flatten_i, flatten_3_2. norm_ops. istep.
  rewrite ext_device_f. istep. rewrite ext_arange, arange_nat. norm_ops. istep.
  rewrite ext_unsqueeze_i, unsqueeze_1_m1. norm_ops. istep.
  rewrite ext_cmp_ge, ge_t_col_3. norm_ops. istep.
  rewrite ext_view_as_b. cbn [shp]. rewrite view_as_same. norm_ops. istep.
  rewrite ext_or. norm_ops. istep.
  rewrite ext_mfill_i. norm_ops. istep.
  rewrite ext_unsqueeze_i, unsqueeze_3_m1. norm_ops. istep.
  rewrite ext_gather, gather_last_4
    by (intros a t b Ha Ht Hb; match goal with |- context [if ?c then _ else _] => destruct c eqn:E end; lia).
  norm_ops. istep.
  rewrite ext_squeeze_f, squeeze_4_m1. norm_ops. istep.
  rewrite ext_mfill_f. norm_ops. istep.
  rewrite ext_sum, sum_dim_3. norm_ops. istep.
  eexists. do 3 f_equal. apply tab2_ext. intros a b Ha Hb.
  apply (slp_col_some V e T (fun t => r a t b) (fun t => h a t b)).
Qed.

(* eos set, zero-length time dimension: `.max(dim)` over an empty dimension raises *)
Lemma slp_run_some_empty lsm logits A B V h (r : nat -> nat -> nat -> list xq) e :
  shp logits = [A; 0%nat; B; V] ->
  lsm logits = mkTn [A; 0%nat; B; V] (tab4 A 0 B V (fun a t b v => nth v (r a t b) xzero)) ->
  exists st, run_slp lsm logits (mkTn [A; 0%nat; B] (tab3 A 0 B h)) 1 (Some e) = Exc index_error st.
Proof.
  intros Hsh Hl. unfold run_slp, Interp.run, slp_tensor_body, slp_vars, opt_int.
  istep. rewrite ext_dim_i. istep. rewrite ext_shape_i. istep. rewrite ext_shape_f, Hsh. istep.
  rewrite ext_lsm by (rewrite ?Hl; unfold rank; rewrite ?Hsh; cbn [shp]; rewrite ?nats_eqb_refl; reflexivity). rewrite Hl. istep.
  rewrite ext_lt. norm_ops. istep. rewrite ext_ge. norm_ops. istep. rewrite ext_or. norm_ops. istep.
  rewrite call_body_lens. destruct (lens_run_3_empty lsm A B h e) as [st' Hlens]. rewrite Hlens. istep.
  eexists. reflexivity.
Qed.

Lemma slp_run_none lsm logits A T B V h (r : nat -> nat -> nat -> list xq) :
  (0 < V)%nat -> shp logits = [A; T; B; V] ->
  lsm logits = mkTn [A; T; B; V] (tab4 A T B V (fun a t b v => nth v (r a t b) xzero)) ->
  exists st, run_slp lsm logits (mkTn [A; T; B] (tab3 A T B h)) 1 None =
    Ok (enc_f (mkTn [A; B] (tab2 A B (fun a b =>
          Model.slp_col xadd xzero (Z.of_nat V) None (map (fun t => r a t b) (seq 0 T)) (map (fun t => h a t b) (seq 0 T)))))) st.
Proof.
  intros HV Hsh Hl. unfold run_slp, Interp.run, slp_tensor_body, slp_vars, opt_int.
  istep. rewrite ext_dim_i. istep. rewrite ext_shape_i. istep. rewrite ext_shape_f, Hsh. istep.
  rewrite ext_lsm by (rewrite ?Hl; unfold rank; rewrite ?Hsh; cbn [shp]; rewrite ?nats_eqb_refl; reflexivity). rewrite Hl. istep.
  rewrite ext_lt. norm_ops. istep. rewrite ext_ge. norm_ops. istep. rewrite ext_or. norm_ops. istep.
  rewrite ext_mfill_i. norm_ops. istep.
  rewrite ext_unsqueeze_i, unsqueeze_3_m1. norm_ops. istep.
  rewrite ext_gather, gather_last_4
    by (intros a t b Ha Ht Hb; match goal with |- context [if ?c then _ else _] => destruct c eqn:E end; lia).
  norm_ops. istep.
  rewrite ext_squeeze_f, squeeze_4_m1. norm_ops. istep.
  rewrite ext_mfill_f. norm_ops. istep.
  rewrite ext_sum, sum_dim_3. norm_ops. istep.
  eexists. do 3 f_equal. apply tab2_ext. intros a b Ha Hb.
  apply (slp_col_none V T (fun t => r a t b) (fun t => h a t b)).
Qed.


(* ---- the tie ---------------------------------------------------------------------------------------------
   The model's inputs: lp[a][t][b][v] (log-softmax values, as data) and hyp[a][t][b]; the same
   well-formedness as c07_slp_tensor_correct (A outer entries, each with T time steps). *)
Definition wf_slp {X} (A T : nat) (lp : list (list (list (list X)))) (hyp : list (list (list Z))) : Prop :=
  List.length lp = A /\ List.length hyp = A /\
  forall a, (a < A)%nat -> List.length (nth a lp []) = T /\ List.length (nth a hyp []) = T.

Lemma column_as_map {X} (d : X) b (m : list (list X)) T : List.length m = T ->
  Model.column d b m = map (fun t => nth b (nth t m []) d) (seq 0 T).
Proof.
  intros H. unfold Model.column. rewrite (list_as_map_nth m T [] H) at 1. now rewrite map_map.
Qed.

Lemma model_out_tab2 A T B V eos (lp : list (list (list (list xq)))) hyp : wf_slp A T lp hyp ->
  List.concat (Model.map2 (fun lp_a hyp_a =>
                  map (fun b => Model.slp_col xadd xzero V eos (Model.column [] b lp_a) (Model.column 0%Z b hyp_a)) (seq 0 B))
               lp hyp)
  = tab2 A B (fun a b => Model.slp_col xadd xzero V eos (map (fun t => lp_row lp a t b) (seq 0 T))
                                                        (map (fun t => hyp_at hyp a t b) (seq 0 T))).
Proof.
  intros [Hl [Hh Hrows]].
  rewrite (list_as_map_nth lp A [] Hl) at 1. rewrite (list_as_map_nth hyp A [] Hh) at 1.
  rewrite map2_maps, <- flat_map_concat_map. unfold tab2. apply flat_map_ext_seq. intros a Ha.
  destruct (Hrows a Ha) as [H1 H2]. apply map_ext_seq. intros b Hb.
  rewrite (column_as_map [] b _ T H1), (column_as_map 0%Z b _ T H2). reflexivity.
Qed.

Theorem slp_tensor_tie : forall lsm logits A T B V eos lp hyp,
  (0 < V)%nat -> shp logits = [A; T; B; V] -> lsm logits = lp_tensor A T B V lp -> wf_slp A T lp hyp ->
  match Model.slp_tensor xadd xzero (Z.of_nat V) eos T B lp hyp with
  | Some out => exists st, run_slp lsm logits (hyp_tensor A T B hyp) 1 eos = Ok (enc_f (out_tensor A B out)) st
  | None => exists st, run_slp lsm logits (hyp_tensor A T B hyp) 1 eos = Exc index_error st
  end.
Proof.
  intros lsm logits A T B V eos lp hyp HV Hsh Hl Hwf. unfold Model.slp_tensor, hyp_tensor, out_tensor.
  unfold lp_tensor in Hl.
  destruct eos as [e|].
  - destruct T as [|T'].
    + now apply (slp_run_some_empty lsm logits A B V (hyp_at hyp) (lp_row lp) e).
    + rewrite (model_out_tab2 A (S T') B _ _ lp hyp Hwf).
      apply (slp_run_some lsm logits A (S T') B V (hyp_at hyp) (lp_row lp) e); auto.
  - rewrite (model_out_tab2 A T B _ _ lp hyp Hwf).
    now apply (slp_run_none lsm logits A T B V (hyp_at hyp) (lp_row lp)).
Qed.

(* dim = -2 on the normal form is dim = 1: after `dim = (hyp_dim + dim) % hyp_dim` the two runs coincide *)
Lemma run_slp_dim_m2 lsm logits A T B d eos :
  run_slp lsm logits (mkTn [A; T; B] d) (-2) eos = run_slp lsm logits (mkTn [A; T; B] d) 1 eos.
Proof.
  unfold run_slp, Interp.run, slp_tensor_body, slp_vars.
  istep. rewrite !ext_dim_i. istep. reflexivity.
Qed.

Theorem slp_tensor_tie_dims : forall lsm logits A T B V eos lp hyp dim,
  dim = 1%Z \/ dim = (-2)%Z ->
  (0 < V)%nat -> shp logits = [A; T; B; V] -> lsm logits = lp_tensor A T B V lp -> wf_slp A T lp hyp ->
  match Model.slp_tensor xadd xzero (Z.of_nat V) eos T B lp hyp with
  | Some out => exists st, Interp.run (ext07 lsm) slp_tensor_body (slp_vars logits (hyp_tensor A T B hyp) dim eos)
                           = Ok (enc_f (out_tensor A B out)) st
  | None => exists st, Interp.run (ext07 lsm) slp_tensor_body (slp_vars logits (hyp_tensor A T B hyp) dim eos)
                       = Exc index_error st
  end.
Proof.
  intros lsm logits A T B V eos lp hyp dim Hd HV Hsh Hl Hwf.
  pose proof (slp_tensor_tie lsm logits A T B V eos lp hyp HV Hsh Hl Hwf) as H.
  destruct Hd as [-> | ->]; [exact H|].
  fold (run_slp lsm logits (hyp_tensor A T B hyp) (-2) eos). unfold hyp_tensor at 1 2.
  rewrite run_slp_dim_m2. exact H.
Qed.

(* `_lens_from_eos` alone, on the normal form: the position of the first eos of every fibre *)
Theorem lens_tie : forall lsm A T B hyp e, T <> 0%nat ->
  exists st, Interp.run (ext07_ops lsm) lens_from_eos_body (lens_vars (hyp_tensor A T B hyp) e 1) =
    Ok (enc_i (mkTn [A; B] (tab2 A B (fun a b =>
          Z.of_nat (Model.lens_from_eos e (map (fun t => hyp_at hyp a t b) (seq 0 T))))))) st.
Proof. intros. now apply lens_run_3. Qed.

Theorem slp_tie_raises : forall lsm logits A B V e lp hyp,
  shp logits = [A; 0%nat; B; V] -> lsm logits = lp_tensor A 0 B V lp ->
  exists st, Interp.run (ext07 lsm) slp_tensor_body (slp_vars logits (hyp_tensor A 0 B hyp) 1 (Some e)) = Exc index_error st.
Proof. intros lsm logits A B V e lp hyp Hsh Hl. now apply (slp_run_some_empty lsm logits A B V (hyp_at hyp) (lp_row lp) e). Qed.

(* ---- composed with the model theorems: statements purely about the interpreted source ----------------- *)
Lemma xadd_unit_l : forall x, xadd xzero x = x.
Proof. intros [q|]; reflexivity. Qed.

(* the value returned by the source holds, at every (outer, inner) position, the declarative sum: the log-softmax
   values of the chosen tokens up to and including the first eos, out-of-vocabulary positions skipped *)
Theorem source_slp_eq_spec : forall lsm logits A T B V eos lp hyp dim,
  dim = 1%Z \/ dim = (-2)%Z ->
  (0 < V)%nat -> shp logits = [A; T; B; V] -> lsm logits = lp_tensor A T B V lp -> wf_slp A T lp hyp ->
  eos = None \/ (0 < T)%nat ->
  exists st, Interp.run (ext07 lsm) slp_tensor_body (slp_vars logits (hyp_tensor A T B hyp) dim eos)
    = Ok (enc_f (out_tensor A B
            (Model.map2 (fun lp_a hyp_a =>
               map (fun b => Spec.spec_slp xadd xzero (Z.of_nat V) eos (Model.column [] b lp_a) (Model.column 0%Z b hyp_a))
                   (seq 0 B)) lp hyp))) st.
Proof.
  intros lsm logits A T B V eos lp hyp dim Hd HV Hsh Hl Hwf HT.
  pose proof (slp_tensor_tie_dims lsm logits A T B V eos lp hyp dim Hd HV Hsh Hl Hwf) as H.
  destruct Hwf as [H1 [H2 H3]].
  rewrite (ProofsSlp.slp_tensor_correct xadd xzero xadd_unit_l (Z.of_nat V) eos T B lp hyp HT) in H.
  - exact H.
  - congruence.
  - intros a Ha. apply H3. congruence.
Qed.
