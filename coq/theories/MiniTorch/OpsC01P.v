(* MiniTorch, unit C01Src, second part — the torch operations that occur ONLY on the `return_prf_dsts=True` path of the
   translated `_string_matching` (_string.py; the call made by prefix_edit_distances): the uninitialised table
   `torch.empty((H', N))`, its rows written by `prefix_ers[k] = v`, `long tensor * float`, `Tensor.size(dim)`,
   `Tensor.expand_as`, the integer `torch.arange(n)`, `Tensor.ge(tensor)` and `Tensor.masked_fill(mask, padding)` (the last
   three: definitions of PV.MiniTorch.OpsC07, reused).  DEFINITIONS ONLY, additive to OpsC01.v (tensors [tn], float
   elements [fx] as there); the algebra is in LemmasC01P.v.

   Each definition quotes the sentence of the torch documentation (2.x) it models and returns [None] outside the stated
   domain (the unit's [ext] then answers Stuck: fail-closed).  TRUSTED by the C01 prefix tie; exercised on every run by
   the harness-side [SrcRunP.src_prefix_check] (torch vs the interpreted source on the same inputs). *)
From Coq Require Import List ZArith QArith Bool Arith String.
From PV Require Import MiniPy.Syntax MiniTorch.Ops MiniTorch.OpsC07 MiniTorch.OpsC01.
Import ListNotations.
Local Open Scope nat_scope.

(* torch.empty(size, dtype=torch.float): "Returns a tensor filled with uninitialized data.  The shape of the tensor is
   defined by the variable argument size."  Two sizes.  The uninitialised contents are whatever the allocator left there:
   they are a PARAMETER [g] (row-major position -> element) of the unit's [ext]; the tie theorems hold for every g.
   None: a negative size (torch raises) *)
Definition empty2 (g : nat -> fx) (a b : Z) : option (tn fx) :=
  if ((a <? 0) || (b <? 0))%Z then None
  else Some (mkTn [Z.to_nat a; Z.to_nat b] (tab2 (Z.to_nat a) (Z.to_nat b) (fun i j => g (i * Z.to_nat b + j)))).

(* `x * c` with an INTEGER tensor and a Python FLOAT = torch.mul: "Multiplies input by other. ... Supports broadcasting
   to a common shape, type promotion, and integer, float, and complex inputs": the result has the default floating
   dtype, each integer converted (exactly, as assumed for Tensor.to) and multiplied *)
Definition long_mul_float (x : tn Z) (q : Q) : tn fx := map_t (fun z => fmul (z2f z) (Fq q)) x.

(* x[i] = v with an integer: row i of the first dimension is replaced by v (negative i counts from the end).  Modelled
   for v of EXACTLY the shape of a row (torch would broadcast v: None).  Some None: index out of range (IndexError
   "index i is out of bounds for dimension 0 with size n").  None: 0-d x, or the shapes differ *)
Definition set_select0 {X} (x : tn X) (i : Z) (v : tn X) : option (option (tn X)) :=
  match shp x with
  | n :: rest =>
      let j := if (i <? 0)%Z then (i + Z.of_nat n)%Z else i in
      if ((0 <=? j) && (j <? Z.of_nat n))%Z
      then let w := numel rest in
           if nats_eqb (shp v) rest && (List.length (dat v) =? w)
           then Some (Some (mkTn (shp x) (firstn (Z.to_nat j * w) (dat x) ++ dat v ++ skipn (S (Z.to_nat j) * w) (dat x))))
           else None
      else Some None
  | [] => None
  end.

(* Tensor.size(dim): "Returns the size of the self tensor. ... If dim is specified, returns an int holding the size of
   that dimension."  None: dim outside [-rank, rank) (torch: IndexError) *)
Definition size_dim {X} (x : tn X) (d : Z) : option nat :=
  option_map (extent (shp x)) (wrap_dim (rank x) d).

(* Tensor.expand_as(other): "Expand this tensor to the same size as other.  self.expand_as(other) is equivalent to
   self.expand(other.size())."  Modelled where OpsC01.expand2 is: a 2-D tensor expanded to a 2-D shape *)
Definition expand_as2 {X} (d : X) (x : tn X) (other_shape : list nat) : option (tn X) :=
  match other_shape with
  | [a; b] => expand2 d x (Z.of_nat a) (Z.of_nat b)
  | _ => None
  end.
