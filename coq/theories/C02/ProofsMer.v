(* C02 — minimum_error_rate_loss: the flattening (n, m) -> n*M + m of both layouts, the
   expansion of a 2-D reference, .view(N, M) of the error rates and the reductions give
   loss[n][m] = w[n][m] * (er(ref_n(,m), hyp_{n,m}) - mean_m' er(..)) and its sum / mean. *)
From Coq Require Import List ZArith QArith Bool Arith Lia.
From PV Require Import C01.Obs C01.Spec C01.Model C01.LevFacts C01.Proofs.
From PV Require Import C02.Spec C02.Model C02.ProofsSpec C02.ProofsModel.
Import ListNotations.
Local Open Scope Z_scope.

(* ---- list helpers ------------------------------------------------------------------- *)
Lemma length_concat_const {A} (M : nat) (l : list (list A)) :
  (forall row, In row l -> length row = M) -> length (concat l) = (length l * M)%nat.
Proof.
  induction l as [|x l IH]; intros H; [reflexivity|].
  cbn [concat length]. rewrite app_length.
  rewrite IH by (intros row Hr; apply H; right; exact Hr).
  rewrite (H x) by (left; reflexivity). lia.
Qed.

Lemma nth_concat {A} (M : nat) (d : A) : forall (l : list (list A)) n m,
  (forall row, In row l -> length row = M) -> (m < M)%nat ->
  nth (n * M + m) (concat l) d = nth m (nth n l []) d.
Proof.
  induction l as [|x l IH]; intros n m H Hm.
  - cbn [concat]. generalize (n * M + m)%nat as k. intros k. destruct k, n, m; reflexivity.
  - cbn [concat]. destruct n as [|n]; cbn [nth].
    + rewrite app_nth1 by (rewrite (H x) by (left; reflexivity); lia). reflexivity.
    + rewrite app_nth2 by (rewrite (H x) by (left; reflexivity); lia).
      rewrite (H x) by (left; reflexivity).
      replace (S n * M + m - M)%nat with (n * M + m)%nat by lia.
      apply IH; [intros row Hr; apply H; right; exact Hr|exact Hm].
Qed.

Lemma nth_repeat {A} (x d : A) M m : (m < M)%nat -> nth m (repeat x M) d = x.
Proof. revert m; induction M as [|M IH]; intros m Hm; [lia|]. destruct m; cbn [repeat nth]; [reflexivity|apply IH; lia]. Qed.

Lemma chunks_length {A} M N (l : list A) : length (chunks M N l) = N.
Proof. revert l; induction N as [|N IH]; intros l; cbn [chunks length]; [reflexivity|]. rewrite IH. reflexivity. Qed.

Lemma chunks_nth {A} (d : A) M : forall N (l : list A) n m,
  (n < N)%nat -> (m < M)%nat -> nth m (nth n (chunks M N l) []) d = nth (n * M + m) l d.
Proof.
  induction N as [|N IH]; intros l n m Hn Hm; [lia|].
  cbn [chunks]. destruct n as [|n]; cbn [nth].
  - cbn [Nat.mul Nat.add]. revert l; induction m as [|m IHm] in M, Hm |- *; intros l.
    + destruct M; [lia|]. destruct l; reflexivity.
    + destruct M; [lia|]. destruct l as [|x l]; [reflexivity|]. cbn [firstn nth]. apply IHm. lia.
  - rewrite IH by lia. replace (S n * M + m)%nat with (M + (n * M + m))%nat by lia.
    generalize (n * M + m)%nat as k. intros k. clear. revert l; induction M as [|M IHM]; intros l.
    + reflexivity.
    + destruct l as [|x l]; [destruct k; reflexivity|]. cbn [skipn Nat.add nth]. apply IHM.
Qed.

Lemma chunk_row_length {A} M : forall N (l : list A) n,
  length l = (N * M)%nat -> (n < N)%nat -> length (nth n (chunks M N l) []) = M.
Proof.
  induction N as [|N IH]; intros l n HL Hn; [lia|].
  cbn [chunks]. destruct n as [|n]; cbn [nth].
  - rewrite firstn_length. lia.
  - apply IH; [rewrite skipn_length; lia|lia].
Qed.

(* ---- the tensors ---------------------------------------------------------------------- *)
(* sequence (n, m) of a 3-D tensor: (N, M, T) when batch_first, (T, N, M) otherwise *)
Definition seq3_of (bf : bool) (n m : nat) (t : list (list (list Z))) : list Z :=
  if bf then nth m (nth n t []) [] else map (fun plane => nth m (nth n plane []) 0) t.

(* the reference that sample (n, m) is scored against *)
Definition ref_seq (bf : bool) (n m : nat) (ref : list (list Z) + list (list (list Z))) : list Z :=
  match ref with inl r2 => seq_of bf n r2 | inr r3 => seq3_of bf n m r3 end.

Definition wf3 (bf : bool) (N M : nat) (t : list (list (list Z))) : Prop :=
  if bf then length t = N /\ (forall row, In row t -> length row = M)
             /\ exists W, forall row, In row t -> forall s, In s row -> length s = W
  else forall plane, In plane t -> forall row, In row plane -> length row = M.

Definition wf_ref (bf : bool) (N M : nat) (ref : list (list Z) + list (list (list Z))) : Prop :=
  match ref with inl r2 => wf_tensor bf N r2 | inr r3 => wf3 bf N M r3 end.

Definition wf_w (N M : nat) (w : list (list Q)) : Prop :=
  length w = N /\ forall row, In row w -> length row = M.

Lemma flatten3_wf bf N M t : wf3 bf N M t -> wf_tensor bf (N * M) (flatten3 bf t).
Proof.
  unfold wf3, wf_tensor, flatten3. destruct bf; [|trivial].
  intros [HN [HM [W HW]]]. split.
  - rewrite (length_concat_const M) by exact HM. rewrite HN. reflexivity.
  - exists W. intros s Hs. apply in_concat in Hs as [row [Hr Hs]]. exact (HW row Hr s Hs).
Qed.

Lemma seq_of_flatten3 bf N M t n m : wf3 bf N M t -> (n < N)%nat -> (m < M)%nat ->
  seq_of bf (n * M + m) (flatten3 bf t) = seq3_of bf n m t.
Proof.
  unfold wf3, seq_of, flatten3, seq3_of. destruct bf.
  - intros [HN [HM _]] Hn Hm. apply nth_concat; assumption.
  - intros HM Hn Hm. unfold col. rewrite map_map. apply map_ext_in. intros plane Hp.
    apply nth_concat; [exact (HM plane Hp)|exact Hm].
Qed.

Lemma expand_ref_wf bf N M ref : wf_tensor bf N ref -> wf3 bf N M (expand_ref bf M ref).
Proof.
  unfold wf_tensor, wf3, expand_ref. destruct bf.
  - intros [HN [W HW]]. split; [rewrite map_length; exact HN|]. split.
    + intros row Hr. apply in_map_iff in Hr as [s [<- _]]. apply repeat_length.
    + exists W. intros row Hr s Hs. apply in_map_iff in Hr as [s0 [<- Hs0]].
      apply repeat_spec in Hs. subst s. apply HW. exact Hs0.
  - intros _ plane Hp row Hr. apply in_map_iff in Hp as [row0 [<- _]].
    apply in_map_iff in Hr as [x [<- _]]. apply repeat_length.
Qed.

Lemma seq3_of_expand_ref bf N M ref n m : wf_tensor bf N ref -> (n < N)%nat -> (m < M)%nat ->
  seq3_of bf n m (expand_ref bf M ref) = seq_of bf n ref.
Proof.
  unfold wf_tensor, seq3_of, expand_ref, seq_of. destruct bf.
  - intros [HN _] Hn Hm. rewrite (nth_map_lt _ ref n []) by lia. apply nth_repeat. exact Hm.
  - intros _ Hn Hm. unfold col. rewrite map_map. apply map_ext. intros row.
    destruct (lt_dec n (length row)) as [Hlt|Hge].
    + rewrite (nth_map_lt _ row n 0) by exact Hlt. apply nth_repeat. exact Hm.
    + rewrite (nth_overflow (map _ row)) by (rewrite map_length; lia).
      rewrite (nth_overflow row) by lia. destruct m; reflexivity.
Qed.

Lemma ref3_of_wf bf N M ref : wf_ref bf N M ref -> wf3 bf N M (ref3_of bf M ref).
Proof. destruct ref as [r2|r3]; cbn [wf_ref ref3_of]; [apply expand_ref_wf|auto]. Qed.

Lemma seq3_of_ref3 bf N M ref n m : wf_ref bf N M ref -> (n < N)%nat -> (m < M)%nat ->
  seq3_of bf n m (ref3_of bf M ref) = ref_seq bf n m ref.
Proof.
  destruct ref as [r2|r3]; cbn [wf_ref ref3_of ref_seq]; [|reflexivity].
  intros. apply (seq3_of_expand_ref bf N); assumption.
Qed.

(* ---- the loss ------------------------------------------------------------------------- *)
Section Mer.
  Variable c : cfg.
  Variable sub_avg : bool.
  Variables N M : nat.
  Variable w : list (list Q).
  Variable ref : list (list Z) + list (list (list Z)).
  Variable hyp : list (list (list Z)).
  Notation bf := (c_bf c).

  (* the error rate of sample m of batch element n, as the model computes it for that pair *)
  Definition er_nm (n m : nat) : Q :=
    val_q (pair_er c (ref_seq bf n m ref) (seq3_of bf n m hyp)).

  Definition mu_n (n : nat) : Q := (qsum (map (er_nm n) (seq 0 M)) / (Z.of_nat M # 1))%Q.

  Definition loss_nm (n m : nat) : Q :=
    ((if sub_avg then er_nm n m - mu_n n else er_nm n m) * nth m (nth n w []) 0)%Q.

  Definition loss_mat : list (list Q) :=
    map (fun n => map (loss_nm n) (seq 0 M)) (seq 0 N).

  Hypothesis HM : (2 <= M)%nat.
  Hypothesis Hhyp : wf3 bf N M hyp.
  Hypothesis Href : wf_ref bf N M ref.
  Hypothesis Hw : wf_w N M w.

  Lemma er_view :
    chunks M N (map val_q (error_rate c (N * M)
                             (flatten3 bf (ref3_of bf M ref)) (flatten3 bf hyp)))
    = map (fun n => map (er_nm n) (seq 0 M)) (seq 0 N).
  Proof.
    set (flat := map val_q _).
    assert (HL : length flat = (N * M)%nat)
      by (unfold flat; rewrite map_length, error_rate_length; reflexivity).
    assert (Hnm : forall n m, (n < N)%nat -> (m < M)%nat -> nth (n * M + m) flat 0%Q = er_nm n m).
    { intros n m Hn Hm. unfold flat.
      assert (Hlt : (n * M + m < N * M)%nat) by nia.
      rewrite (nth_map_lt val_q _ _ (Lit 0)) by (rewrite error_rate_length; exact Hlt).
      rewrite error_rate_nth;
        [|exact Hlt|apply flatten3_wf, ref3_of_wf; exact Href|apply flatten3_wf; exact Hhyp].
      rewrite (seq_of_flatten3 _ N) by (try apply ref3_of_wf; assumption).
      rewrite (seq_of_flatten3 _ N) by assumption.
      rewrite (seq3_of_ref3 _ N) by assumption. reflexivity. }
    apply (nth_ext _ _ [] []).
    - rewrite chunks_length, map_length, seq_length. reflexivity.
    - intros n Hn. rewrite chunks_length in Hn.
      rewrite nth_map_seq by exact Hn. cbn [Nat.add].
      apply (nth_ext _ _ 0%Q 0%Q).
      + rewrite chunk_row_length, map_length, seq_length by assumption. reflexivity.
      + intros m Hm. rewrite chunk_row_length in Hm by assumption.
        rewrite chunks_nth by assumption. rewrite nth_map_seq by exact Hm. cbn [Nat.add].
        apply Hnm; assumption.
  Qed.

  Lemma map2_seq_rows {A B} (f : nat -> list A -> B) (g : nat -> B) K (l : list (list A)) :
    length l = K -> (forall n, (n < K)%nat -> f n (nth n l []) = g n) ->
    map2 (fun n row => f n row) (seq 0 K) l = map g (seq 0 K).
  Proof.
    intros HL Hf. apply (nth_ext _ _ (g 0%nat) (g 0%nat)).
    - rewrite map2_length, map_length, seq_length, HL. lia.
    - intros n Hn. rewrite map2_length, seq_length, HL in Hn.
      rewrite (nth_map2 _ _ _ n 0%nat [] _) by (rewrite ?seq_length, ?HL; lia).
      rewrite seq_nth by lia. rewrite nth_map_seq by lia. cbn [Nat.add]. apply Hf. lia.
  Qed.

  Theorem mer_loss_formula red :
    mer_loss c sub_avg red N M w ref hyp =
    match red with
    | RNone => MMat loss_mat
    | RSum => MScalar (qsum (map qsum loss_mat))
    | RMean => MScalar (qsum (map qsum loss_mat) / (Z.of_nat (N * M) # 1))
    end.
  Proof.
    unfold mer_loss. replace (M <? 2)%nat with false by (symmetry; apply Nat.ltb_ge; exact HM).
    rewrite er_view.
    assert (HLoss :
      map2 (fun erow wrow => map2 Qmult erow wrow)
        (if sub_avg
         then map (fun row => let mu := (qsum row / (Z.of_nat M # 1))%Q in
                              map (fun x => (x - mu)%Q) row)
                  (map (fun n => map (er_nm n) (seq 0 M)) (seq 0 N))
         else map (fun n => map (er_nm n) (seq 0 M)) (seq 0 N)) w
      = loss_mat).
    { destruct Hw as [HwN HwM]. unfold loss_mat.
      apply (nth_ext _ _ [] []).
      - rewrite map2_length, map_length, seq_length.
        destruct sub_avg; rewrite ?map_length, seq_length, HwN; lia.
      - intros n Hn. rewrite map2_length, HwN in Hn.
        assert (Hn' : (n < N)%nat).
        { destruct sub_avg; rewrite ?map_length, seq_length in Hn; lia. }
        rewrite (nth_map2 _ _ _ n [] [] []).
        2:{ destruct sub_avg; rewrite ?map_length, seq_length; exact Hn'. }
        2:{ lia. }
        rewrite nth_map_seq by exact Hn'. cbn [Nat.add].
        assert (HwRow : length (nth n w []) = M) by (apply HwM, nth_In; lia).
        apply (nth_ext _ _ 0%Q 0%Q).
        + rewrite map2_length, map_length, seq_length, HwRow.
          destruct sub_avg.
          * rewrite map_map. rewrite nth_map_seq by exact Hn'. cbv zeta.
            rewrite !map_length, seq_length. lia.
          * rewrite nth_map_seq by exact Hn'. rewrite map_length, seq_length. lia.
        + intros m Hm. rewrite map2_length, HwRow in Hm.
          assert (Hm' : (m < M)%nat).
          { destruct sub_avg.
            - rewrite map_map, nth_map_seq in Hm by exact Hn'. cbv zeta in Hm.
              rewrite !map_length, seq_length in Hm. lia.
            - rewrite nth_map_seq in Hm by exact Hn'. rewrite map_length, seq_length in Hm. lia. }
          rewrite nth_map_seq by exact Hm'. cbn [Nat.add]. unfold loss_nm.
          destruct sub_avg.
          * rewrite map_map, nth_map_seq by exact Hn'. cbv zeta. cbn [Nat.add].
            rewrite (nth_map2 _ _ _ m 0%Q 0%Q 0%Q) by (rewrite ?map_length, ?seq_length; lia).
            rewrite (nth_map_lt _ _ m 0%Q) by (rewrite map_length, seq_length; exact Hm').
            rewrite nth_map_seq by exact Hm'. reflexivity.
          * rewrite nth_map_seq by exact Hn'. cbn [Nat.add].
            rewrite (nth_map2 _ _ _ m 0%Q 0%Q 0%Q) by (rewrite ?map_length, ?seq_length; lia).
            rewrite nth_map_seq by exact Hm'. reflexivity. }
    cbv zeta. cbv zeta in HLoss. rewrite HLoss. destruct red; reflexivity.
  Qed.

  (* and every error rate entering the loss is one the property admits for that sample *)
  Theorem mer_er_allowed n m :
    spec_er_val (c_norm c) (c_ins c) (c_del c) (c_sub c)
      (denote (c_eos c) (c_incl c) (ref_seq bf n m ref))
      (denote (c_eos c) (c_incl c) (seq3_of bf n m hyp))
      (pair_er c (ref_seq bf n m ref) (seq3_of bf n m hyp)).
  Proof. apply pair_er_correct. Qed.
End Mer.

Theorem mer_loss_too_few_samples c sub_avg red N M w ref hyp :
  (M < 2)%nat -> mer_loss c sub_avg red N M w ref hyp = MErr.
Proof. intros H. unfold mer_loss. apply Nat.ltb_lt in H. rewrite H. reflexivity. Qed.
