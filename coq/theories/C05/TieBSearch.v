(* C05, second tie, part 4: the whole of `CTCPrefixSearch.forward` for a module that does not fuse a language model,
   as far as it is translated: the hand-written glue of SrcRunB (initial carried variables = Model.init_beam, the `for`
   statement = [src_frames]) around the INTERPRETED loop body and the INTERPRETED epilogue returns the three tensors
   that encode Model.search's answer; composed with the model theorem c05_sorted_by_mass. *)
From Coq Require Import ZArith QArith Qcanon List String Bool Arith Lia.
From PV Require Import MiniPy.Syntax MiniPy.Interp MiniTorch.Ops MiniTorch.OpsC05 Gen.C05Src Gen.C05BSrc.
From PV Require Import C05.Model C05.ModelB C05.ProofsModel C05.ProofsSearch C05.Proofs C05.SrcRun C05.SrcRunB
  C05.TieBRun C05.TieB C05.TieBFrame.
Import ListNotations.
Local Open Scope nat_scope.

Theorem search_tie_nolm : forall V width has_lm beta vm lmS lm len_min len fs choices,
  fused beta has_lm = false -> 1 <= V -> 1 <= width -> len_min <= len ->
  choices_wf V width NoLM lm len 0 fs choices init_beam ->
  exists c st,
    src_frames V width has_lm beta vm lmS len_min len fs (List.length fs) 0 choices (init_car has_lm) = Some c /\
    run_final V width has_lm beta vm lmS c
    = Ok (enc_result (b_t (sloop V width NoLM lm len 0 fs choices init_beam)) (search V width NoLM lm len fs choices)) st.
Proof.
  intros V width has_lm beta vm lmS lm len_min len fs choices Hf Vpos Wpos Hmin Hc.
  destruct (src_frames_nolm V width has_lm beta vm lmS lm len_min len fs (init_prev has_lm) Hf Vpos Wpos Hmin
              (List.length fs) 0 choices init_beam eq_refl (inv_wf V init_beam (init_inv V)) (or_introl eq_refl) Hc) as [Hs Wf].
  cbn [skipn] in Hs, Wf.
  destruct (final_tie_search V width has_lm beta vm lmS NoLM lm len fs choices (init_prev has_lm) Wpos Wf) as [st Hst].
  eexists. exists st. split; [exact Hs|exact Hst].
Qed.

(* composed with c05_sorted_by_mass: what the interpreted source returns is sorted by non-increasing mass and has
   exactly `width` slots *)
Theorem search_sorted_nolm : forall V width has_lm beta vm lmS lm len_min len fs choices,
  fused beta has_lm = false -> 1 <= V -> 1 <= width -> len_min <= len ->
  choices_wf V width NoLM lm len 0 fs choices init_beam ->
  choices_ok V width NoLM lm 0%Qc len 0 fs choices init_beam = true ->
  exists c st H r,
    src_frames V width has_lm beta vm lmS len_min len fs (List.length fs) 0 choices (init_car has_lm) = Some c /\
    run_final V width has_lm beta vm lmS c = Ok (enc_result H r) st /\
    let '(P, Ls, Ps) := observe r in
    List.length P = width /\ List.length Ls = width /\ List.length Ps = width /\ sorted_desc Ps.
Proof.
  intros V width has_lm beta vm lmS lm len_min len fs choices Hf Vpos Wpos Hmin Hc Hok.
  destruct (search_tie_nolm V width has_lm beta vm lmS lm len_min len fs choices Hf Vpos Wpos Hmin Hc) as [c [st [H1 H2]]].
  exists c, st, (b_t (sloop V width NoLM lm len 0 fs choices init_beam)), (search V width NoLM lm len fs choices).
  split; [exact H1|]. split; [exact H2|]. exact (out_sorted V width NoLM lm len fs choices Vpos Wpos Hok).
Qed.

(* non-vacuity: the frames of tests/test_decoding.py::test_ctc_prefix_search, width 2, an element of length 3 in a batch
   whose shortest element has 1 frame (plain path, then masked path) *)
Example ex_nonvacuous_B :
  choices_wf 2 2 NoLM no_lm 3 0 ex_frames (ex_choices 2 3) init_beam /\
  choices_ok 2 2 NoLM no_lm 0%Qc 3 0 ex_frames (ex_choices 2 3) init_beam = true /\
  src_search_is_model 2 2 false (1 # 5) false no_lm 1 3 ex_frames (ex_choices 2 3) = true.
Proof.
  split; [|split].
  - cbn [choices_wf ex_frames]. repeat split; try (vm_compute; reflexivity);
      try (intros i Hi; vm_compute in Hi; vm_compute; repeat (destruct Hi as [<-|Hi]; [lia|]); contradiction).
  - vm_compute. reflexivity.
  - vm_compute. reflexivity.
Qed.
