(* C05 - CTC prefix search reports true prefix mass, never more, never NaN.
   Property theorems only: each is closed by [exact <lemma of Proofs*.v>] and followed by
   [Print Assumptions].  The harness re-checks this file on every run.

   Reading guide.  Model.advance / Model.search mirror ctc_prefix_search_advance /
   CTCPrefixSearch.forward for one batch element; torch.topk's answer is an input
   ([choice]/[choices]) constrained by Model.topk_ok / Model.choices_ok (eps = 0: a legitimate
   topk answer at every frame the element really processes).  Spec.ctc_mass sums the weights of
   all alignments collapsing to a prefix; Spec.pbs_reach / pbs_full are the textbook prefix beam
   search on a finite map.  [observe] keeps the valid part of every returned column. *)
From Coq Require Import List Arith Bool QArith Qcanon Lia.
From PV Require Import C05.Model C05.Spec C05.ProofsNum C05.ProofsSpec C05.ProofsModel
  C05.ProofsSearch C05.ProofsMass C05.ProofsExact C05.ProofsRefine C05.ProofsSanity C05.ProofsTopk C05.Proofs.
Import ListNotations.
Local Open Scope nat_scope.

(* "the exact total probability of all alignments collapsing to it whenever nothing had to be
   pruned": the unpruned recursion holds exactly the blank-free prefixes no longer than the
   input, each with exactly its alignment mass (any non-negative or negative scores) *)
Theorem c05_pbs_exact_when_unpruned : forall V frames E B,
  pbs_full V frames E (length frames) B ->
  (forall p nb b, In (p, (nb, b)) B ->
     Forall (fun x => x < V) p /\ length p <= length frames /\
     (nb + b)%Qc = ctc_mass V frames E p) /\
  (forall p, Forall (fun x => x < V) p -> length p <= length frames ->
     exists nb b, In (p, (nb, b)) B /\ (nb + b)%Qc = ctc_mass V frames E p).
Proof. exact pbs_exact_when_unpruned. Qed.
Print Assumptions c05_pbs_exact_when_unpruned.

(* "and never more than that otherwise": any width, any admissible pruning history *)
Theorem c05_pbs_le_exact : forall V K frames E B p nb b, nonneg_frames frames E ->
  pbs_reach V K frames E (length frames) B -> In (p, (nb, b)) B ->
  (0 <= nb + b)%Qc /\ (nb + b <= ctc_mass V frames E p)%Qc.
Proof. exact pbs_le_exact. Qed.
Print Assumptions c05_pbs_le_exact.

(* the same two clauses for the VECTORISED MODEL of the code (beam slots, prefix matrix, merge of
   an extension into an identical existing prefix, -inf slots, per-element freezing, fusion):
   every returned mass is at most the total mass of the alignments of the element's own valid
   frames that collapse to the returned prefix, whatever was pruned ... *)
Theorem c05_model_mass_le_exact : forall V width fus lm len frames choices, 1 <= V -> 1 <= width ->
  choices_ok V width fus lm 0%Qc len 0 frames choices init_beam = true ->
  let L := firstn len frames in
  nonneg_frames L (fused_score fus lm L) ->
  let '(P, Ls, Ps) := observe (search V width fus lm len frames choices) in
  forall i q, nth i Ps NegInf = Fin q ->
    (0 <= q)%Qc /\ (q <= ctc_mass V L (fused_score fus lm L) (nth i P []))%Qc.
Proof. exact search_mass_le. Qed.
Print Assumptions c05_model_mass_le_exact.

(* ... and when no live candidate was ever left out ([nothing_pruned]) every returned mass IS
   that alignment mass and every blank-free prefix no longer than the input is returned *)
Theorem c05_model_exact_when_unpruned : forall V width fus lm len frames choices, 1 <= V -> 1 <= width ->
  choices_ok V width fus lm 0%Qc len 0 frames choices init_beam = true ->
  nothing_pruned V width fus lm len 0 frames choices init_beam = true ->
  let L := firstn len frames in
  let E := fused_score fus lm L in
  let '(P, Ls, Ps) := observe (search V width fus lm len frames choices) in
  (forall i q, nth i Ps NegInf = Fin q -> q = ctc_mass V L E (nth i P [])) /\
  (forall p, Forall (fun x => x < V) p -> length p <= length L ->
     exists i, i < width /\ nth i P [] = p /\ nth i Ps NegInf = Fin (ctc_mass V L E p)).
Proof. exact search_mass_exact. Qed.
Print Assumptions c05_model_exact_when_unpruned.

(* "the probability reported for a prefix equals the mass the standard prefix-beam recursion of
   that width assigns to it": the returned slots whose mass is not -inf are exactly the entries
   (prefix |-> nb + b) of a beam the width-[width] prefix beam search on a finite map reaches on the
   element's own valid frames - including merges of an extension into an identical existing
   prefix and whatever invalid slots the beam carried along the way *)
Theorem c05_model_refines_pbs_ref : forall V width fus lm len frames choices, 1 <= V -> 1 <= width ->
  choices_ok V width fus lm 0%Qc len 0 frames choices init_beam = true ->
  let L := firstn len frames in
  let E := fused_score fus lm L in
  exists B, pbs_reach V width L E (length L) B /\
    let '(P, Ls, Ps) := observe (search V width fus lm len frames choices) in
    (forall i q, nth i Ps NegInf = Fin q ->
       exists nb b, In (nth i P [], (nb, b)) B /\ q = (nb + b)%Qc) /\
    (forall p nb b, In (p, (nb, b)) B ->
       exists i, i < width /\ nth i P [] = p /\ nth i Ps NegInf = Fin (nb + b)%Qc).
Proof. exact model_refines_pbs_ref. Qed.
Print Assumptions c05_model_refines_pbs_ref.

(* one step: the valid slots of the new beam are an admissible pruning of the map recursion's
   candidates computed from the valid slots of the old beam *)
Theorem c05_model_refines_pbs_ref_step : forall V width fr bm choice L E,
  1 <= V -> 1 <= width -> inv V bm -> twins bm -> topk_facts V fr bm width choice ->
  frame_agrees V fr bm L E (b_t bm) ->
  pbs_keeps width (pbs_cands V L E (b_t bm) (view bm)) (view (fst (advance V fr bm width choice))).
Proof. exact refine_step. Qed.
Print Assumptions c05_model_refines_pbs_ref_step.

(* the specification is the textbook one: [aligns] lists every label sequence exactly once, an
   alignment is read to its collapse, and without a language model its weight is the product of
   the frame probabilities *)
Theorem c05_ctc_mass_is_textbook : forall V frames p,
  ctc_mass V frames (plain_score frames) p
  = qsum (map (fun a => if list_nat_eqb (collapse V a) p then path_prob V frames a else 0%Qc)
              (aligns V (length frames))).
Proof. exact ctc_mass_textbook. Qed.
Print Assumptions c05_ctc_mass_is_textbook.

Theorem c05_aligns_all_once : forall V n,
  NoDup (aligns V n) /\
  forall a, In a (aligns V n) <-> length a = n /\ Forall (fun c => c <= V) a.
Proof. exact (fun V n => conj (aligns_nodup V n) (aligns_complete V n)). Qed.
Print Assumptions c05_aligns_all_once.

(* the CTC recursion itself, on the alignment sums (what both theorems above rest on) *)
Theorem c05_alignment_mass_recursion : forall V frames E n p, Forall (fun x => x < V) p ->
  A_b V frames E (S n) p
  = ((A_nb V frames E n p + A_b V frames E n p) * snd (fr_at frames n))%Qc /\
  A_nb V frames E (S n) p
  = match last_opt p with
    | None => 0%Qc
    | Some v =>
        (A_nb V frames E n p * nth v (fst (fr_at frames n)) 0
         + (A_b V frames E n (removelast p)
            + (if opt_is (last_opt (removelast p)) v then 0 else A_nb V frames E n (removelast p)))
           * E n (removelast p) v)%Qc
    end.
Proof. exact alignment_mass_recursion. Qed.
Print Assumptions c05_alignment_mass_recursion.

(* prefix-relation matrix carried across steps: one step of the vectorised code, for ANY K
   distinct in-range indices (pruned or not, sorted or not), keeps: valid prefixes blank-free
   and pairwise distinct, the matrix sound on all slots and complete on valid ones, the last
   token and the zero non-blank mass of the empty prefix *)
Theorem c05_prefix_matrix_invariant_step : forall V width fr bm choice,
  1 <= V -> 1 <= width -> inv V bm ->
  length choice = Kout V bm width -> (forall i, In i choice -> i < ncand V bm) -> NoDup choice ->
  inv V (fst (advance V fr bm width choice)).
Proof. exact advance_inv. Qed.
Print Assumptions c05_prefix_matrix_invariant_step.

Theorem c05_prefix_matrix_invariant : forall V width fus lm len frames choices,
  1 <= V -> 1 <= width ->
  choices_ok V width fus lm 0%Qc len 0 frames choices init_beam = true ->
  let bm := live_beam V width fus lm len frames choices in
  inv V bm /\
  forall k k', valid bm k -> valid bm k' ->
    (isp bm k k' = true <-> is_pre (pref bm k) (pref bm k')).
Proof. exact search_prefix_matrix. Qed.
Print Assumptions c05_prefix_matrix_invariant.

(* "every returned prefix with positive probability is a distinct blank-free label sequence no
   longer than its input" (proved for every slot whose mass is not -inf, zero mass included) *)
Theorem c05_valid_prefixes_distinct_blank_free_bounded : forall V width fus lm len frames choices,
  1 <= V -> 1 <= width ->
  choices_ok V width fus lm 0%Qc len 0 frames choices init_beam = true ->
  let '(P, Ls, Ps) := observe (search V width fus lm len frames choices) in
  (forall i q, nth i Ps NegInf = Fin q ->
     Forall (fun x => x < V) (nth i P []) /\
     length (nth i P []) = nth i Ls 0 /\
     nth i Ls 0 <= Nat.min len (length frames)) /\
  (forall i j q q', nth i Ps NegInf = Fin q -> nth j Ps NegInf = Fin q' ->
     nth i P [] = nth j P [] -> i = j).
Proof. exact out_valid. Qed.
Print Assumptions c05_valid_prefixes_distinct_blank_free_bounded.

(* "prefixes are ordered by non-increasing probability" (and there are exactly width slots) *)
Theorem c05_sorted_by_mass : forall V width fus lm len frames choices,
  1 <= V -> 1 <= width ->
  choices_ok V width fus lm 0%Qc len 0 frames choices init_beam = true ->
  let '(P, Ls, Ps) := observe (search V width fus lm len frames choices) in
  length P = width /\ length Ls = width /\ length Ps = width /\ sorted_desc Ps.
Proof. exact out_sorted. Qed.
Print Assumptions c05_sorted_by_mass.

(* "slots holding no real prefix ... sit behind the real ones" *)
Theorem c05_invalid_slots_last : forall V width fus lm len frames choices,
  1 <= V -> 1 <= width ->
  choices_ok V width fus lm 0%Qc len 0 frames choices init_beam = true ->
  let '(P, Ls, Ps) := observe (search V width fus lm len frames choices) in
  forall i j, nth i Ps NegInf = NegInf -> i <= j -> j < width -> nth j Ps NegInf = NegInf.
Proof. exact out_invalid_last. Qed.
Print Assumptions c05_invalid_slots_last.

(* "an element's result equals that of searching its own valid frames alone": frames at and
   after lens[n] (and whatever topk answered on them) do not influence what is returned *)
Theorem c05_element_independent_of_padding_frames : forall V width fus lm len frames choices,
  1 <= V -> 1 <= width ->
  choices_ok V width fus lm 0%Qc len 0 frames choices init_beam = true ->
  observe (search V width fus lm len frames choices)
  = observe (search V width fus lm len (firstn len frames) choices).
Proof. exact element_independent. Qed.
Print Assumptions c05_element_independent_of_padding_frames.

(* the hypothesis [choices_ok] of the theorems above can be met for EVERY input: the model's own
   stable selection (Model.auto_choices) is a legitimate topk answer at every frame *)
Theorem c05_admissible_choices_exist : forall V width fus lm len frames, 1 <= width ->
  choices_ok V width fus lm 0%Qc len 0 frames
    (auto_choices V width fus lm len 0 frames init_beam) init_beam = true.
Proof. exact auto_choices_ok_init. Qed.
Print Assumptions c05_admissible_choices_exist.

(* ---- non-vacuity: concrete inputs meeting the hypotheses --------------------------------------- *)

(* the frames of tests/test_decoding.py::test_ctc_prefix_search, width 2: legitimate topk answers
   exist, something IS pruned, an extension IS merged, and the model returns the pinned result *)
Example c05_pruned_nonvacuous :
  choices_ok 2 2 NoLM no_lm 0%Qc 3 0 ex_frames (ex_choices 2 3) init_beam = true /\
  nothing_pruned 2 2 NoLM no_lm 3 0 ex_frames (ex_choices 2 3) init_beam = false /\
  (let '(P, Ls, Ps) := observe (search 2 2 NoLM no_lm 3 ex_frames (ex_choices 2 3)) in
   (P, Ls, map show_mass Ps)) = ([[0; 1]; [0]], [2; 1], [Some (5 # 24)%Q; Some (1 # 6)%Q]).
Proof. exact nonvacuous_pruned. Qed.

(* width 9, an element of length 2 in a batch of 3 frames: nothing pruned, zero-mass prefixes
   and two invalid slots behind the real ones *)
Example c05_unpruned_nonvacuous :
  choices_ok 2 9 NoLM no_lm 0%Qc 2 0 ex_frames (ex_choices 9 2) init_beam = true /\
  nothing_pruned 2 9 NoLM no_lm 2 0 ex_frames (ex_choices 9 2) init_beam = true /\
  (let '(P, Ls, Ps) := observe (search 2 9 NoLM no_lm 2 ex_frames (ex_choices 9 2)) in
   (P, map show_mass Ps))
  = ([[0]; [1]; [1; 0]; [0; 1]; []; [0; 0]; [1; 1]; [0]; [1]],
     [Some (17 # 36)%Q; Some (1 # 4)%Q; Some (1 # 9)%Q; Some (1 # 12)%Q; Some (1 # 12)%Q;
      Some 0%Q; Some 0%Q; None; None]).
Proof. exact nonvacuous_unpruned. Qed.

Example c05_nonneg_nonvacuous : forall len,
  nonneg_frames (firstn len ex_frames) (fused_score NoLM no_lm (firstn len ex_frames)).
Proof. exact nonvacuous_nonneg. Qed.

(* the map-based recursion: a beam reached with a real pruning step, and an unpruned one *)
Example c05_pbs_reach_nonvacuous :
  pbs_reach 1 1 ex1 (plain_score ex1) 1 [new_entry 1 ex1 (plain_score ex1) 0 pbs_init [0]].
Proof. exact nonvacuous_pbs_pruned. Qed.

Example c05_pbs_full_nonvacuous :
  pbs_full 1 ex1 (plain_score ex1) 1 (pbs_cands 1 ex1 (plain_score ex1) 0 pbs_init).
Proof. exact nonvacuous_pbs_full. Qed.

(* ================================================================================================
   SOURCE TIE (tensor code).  PV.Gen.C05Src.cpsa_body is the MiniPy term that harness/py2coq/translate.py
   regenerates from the Python text of `ctc_prefix_search_advance` (src/pydrobert/torch/_decoding.py, the WHOLE
   body) on every run; it is interpreted by MiniPy.Interp with the torch calls given meaning by
   SrcRun.ext05 = the tensor definitions of MiniTorch.OpsC05 (floats = exact rationals or -inf, IEEE rounding,
   dtypes beyond the element kind, devices, strides and TorchScript not modelled; torch.topk's indices come
   from an oracle because torch leaves ties unspecified).  ONE batch element (N = 1), as the model.
   Hypotheses: the model's own well-formedness ProofsModel.wf (every list of the beam has its length, 1 <= K',
   lengths <= t), 1 <= V, 1 <= width.  The proof is block by block in execution order (Tie.cands_model,
   to_match_model, merge_model, choose_model, prefix_model, pad_model); every block is proved, so the
   statements below are about the whole function.
   ================================================================================================ *)
From PV Require MiniPy.Syntax MiniPy.Interp MiniTorch.OpsC05 Gen.C05Src C05.SrcRun C05.TieRun C05.Tie C05.TieCheck.

(* for EVERY topk oracle: if it answers [choice] on the candidate row and [choice] has Kout entries, all of them
   candidate indices, the interpreted source returns exactly the seven tensors that encode Model.advance under
   that choice (y_next incl. the cells outside the prefixes, y_next_last, y_next_lens, (nb, b), next_is_prefix,
   next_src, next_is_nonext; the invalid fill slots included) *)
Theorem c05_source_advance_is_model_any_oracle : forall sel V width fr bm choice,
  sel 0 (map (cand V fr bm) (seq 0 (ncand V bm))) (Kout V bm width) = choice ->
  1 <= V -> 1 <= width -> wf bm -> length choice = Kout V bm width ->
  (forall i, In i choice -> i < ncand V bm) ->
  exists st, Interp.run (SrcRun.ext05 sel) C05Src.cpsa_body (SrcRun.advance_vars V width fr bm)
             = Interp.Ok (SrcRun.enc_out (advance V fr bm width choice)) st.
Proof. exact Tie.advance_tie_sel. Qed.
Print Assumptions c05_source_advance_is_model_any_oracle.

(* the oracle answers a given list - the form the harness runs (the answer it observed from torch) *)
Theorem c05_source_advance_is_model : forall V width fr bm choice,
  1 <= V -> 1 <= width -> wf bm -> length choice = Kout V bm width ->
  (forall i, In i choice -> i < ncand V bm) ->
  exists st, SrcRun.run_advance V width fr bm choice
             = Interp.Ok (SrcRun.enc_out (advance V fr bm width choice)) st.
Proof. exact Tie.advance_tie. Qed.
Print Assumptions c05_source_advance_is_model.

(* topk = the model's stable selection (as in the C04 tie): no hypothesis about the choice is left *)
Theorem c05_source_advance_is_model_stable : forall V width fr bm,
  1 <= V -> 1 <= width -> wf bm ->
  exists st, SrcRun.run_advance_stable V width fr bm
             = Interp.Ok (SrcRun.enc_out (advance V fr bm width (Tie.stable_choice V width fr bm))) st.
Proof. exact Tie.advance_tie_stable. Qed.
Print Assumptions c05_source_advance_is_model_stable.

(* the same in the executable form the harness evaluates on the step cases of every run: the seven tensors read
   back as the model's (beam, (src, nonext)) ARE Model.advance's result ... *)
Theorem c05_source_advance_refines_model : forall V width fr bm choice,
  1 <= V -> 1 <= width -> wf bm -> length choice = Kout V bm width ->
  (forall i, In i choice -> i < ncand V bm) ->
  SrcRun.src_advance V width fr bm choice = Some (advance V fr bm width choice).
Proof. exact TieCheck.src_advance_tie. Qed.
Print Assumptions c05_source_advance_refines_model.

(* ... and the harness-side check of the interpreted source is the model's own check (for every observed
   answer: one that Model.topk_ok rejects makes both false) *)
Theorem c05_source_advance_check_is_check : forall V width fr bm choice o_y o_last o_lens o_nb o_b o_isp o_src o_nonext,
  1 <= V -> 1 <= width -> wf bm ->
  SrcRun.src_advance_check V width fr bm choice o_y o_last o_lens o_nb o_b o_isp o_src o_nonext
  = check_advance V width fr bm choice o_y o_last o_lens o_nb o_b o_isp o_src o_nonext.
Proof. exact TieCheck.src_advance_check_is_check. Qed.
Print Assumptions c05_source_advance_check_is_check.

(* below the model: for EVERY oracle and ALL argument tensors of the shapes the function asks for (any N, K', V, S,
   any data, width >= 1) the interpreted source and the straight-line tensor program TieRun.adv_tensor agree -
   the same seven tensors, outside the modelled domain together *)
Theorem c05_source_advance_is_tensor_program : forall sel ext nonext blank w nb b y last lens isp N Kp V tm1,
  OpsC05.shp ext = [N; Kp; V] -> OpsC05.shp nonext = [N; V] -> OpsC05.shp blank = [N] ->
  OpsC05.shp nb = [N; Kp] -> OpsC05.shp b = [N; Kp] -> OpsC05.shp y = [tm1; N; Kp] ->
  OpsC05.shp last = [N; Kp] -> OpsC05.shp lens = [N; Kp] -> OpsC05.shp isp = [N; Kp; Kp] -> (1 <= w)%Z ->
  TieRun.sim (Interp.run (SrcRun.ext05 sel) C05Src.cpsa_body (TieRun.vars0 ext nonext blank w nb b y last lens isp))
             (TieRun.adv_tensor sel N Kp V tm1 ext nonext blank w nb b y last lens isp).
Proof. exact TieRun.run_is_adv. Qed.
Print Assumptions c05_source_advance_is_tensor_program.

(* `if width < 1: raise RuntimeError("width must be positive")`, before anything else: whatever the other
   arguments are *)
Theorem c05_source_advance_raises_width : forall sel vs w,
  Interp.lookup TieRun.width_var vs = Some (Syntax.VInt w) -> (w < 1)%Z ->
  Interp.run (SrcRun.ext05 sel) C05Src.cpsa_body vs = Interp.Exc SrcRun.runtime_error (Interp.mkState vs []).
Proof. exact TieRun.run_raises_width. Qed.
Print Assumptions c05_source_advance_raises_width.

(* composed with c05_prefix_matrix_invariant_step, purely about the interpreted source: the beam it returns
   (topk = the stable selection), read back from its tensors, satisfies the invariant whenever the beam it was
   given does *)
Theorem c05_source_advance_keeps_invariant : forall V width fr bm res,
  1 <= V -> 1 <= width -> inv V bm ->
  SrcRun.src_advance V width fr bm (Tie.stable_choice V width fr bm) = Some res -> inv V (fst res).
Proof. exact TieCheck.source_advance_keeps_invariant. Qed.
Print Assumptions c05_source_advance_keeps_invariant.

(* non-vacuity: a well-formed beam of three slots at t = 2 (the empty prefix, a one-token prefix and its
   extension, one slot with an invalid mass), vocabulary 2, width 5 of 9 candidates; the interpreted source run on
   it and what it returns *)
Example c05_source_advance_nonvacuous :
  wf TieCheck.ex_bm /\
  SrcRun.src_advance 2 5 TieCheck.ex_fr TieCheck.ex_bm (Tie.stable_choice 2 5 TieCheck.ex_fr TieCheck.ex_bm)
    = Some (advance 2 TieCheck.ex_fr TieCheck.ex_bm 5 (Tie.stable_choice 2 5 TieCheck.ex_fr TieCheck.ex_bm)) /\
  b_lens (fst (advance 2 TieCheck.ex_fr TieCheck.ex_bm 5 (Tie.stable_choice 2 5 TieCheck.ex_fr TieCheck.ex_bm))) = [1; 1; 0; 2; 1] /\
  b_y (fst (advance 2 TieCheck.ex_fr TieCheck.ex_bm 5 (Tie.stable_choice 2 5 TieCheck.ex_fr TieCheck.ex_bm)))
    = [[1; 1; 0]; [0; 0; 0]; [0; 0; 0]; [1; 1; 0]; [1; 0; 0]] /\
  snd (advance 2 TieCheck.ex_fr TieCheck.ex_bm 5 (Tie.stable_choice 2 5 TieCheck.ex_fr TieCheck.ex_bm))
    = ([1; 0; 0; 1; 0], [true; false; true; false; false]).
Proof. exact TieCheck.ex_nonvacuous_src. Qed.

(* ================================================================================================
   SECOND SOURCE TIE (tensor code): the loop body and the epilogue of `CTCPrefixSearch.forward`.
   PV.Gen.C05BSrc.fwd_frame / fwd_final are the MiniPy terms harness/py2coq/translate.py regenerates on every run from
   the marked statement blocks of forward (src/pydrobert/torch/_decoding.py): the body of `for t in range(len_max):`
   (lens masking, LM fusion, the call of ctc_prefix_search_advance, the re-ordering of the LM state by next_src /
   next_is_nonext, the masked update of the carried variables) and the epilogue (final mass = non-blank + blank,
   the fill to `width` when no frame was processed, the return).  They are interpreted with SrcRunB.extB: the torch
   calls of SrcRun.ext05 plus MiniTorch.OpsC05B; the call of the step function RUNS THE TRANSLATED SOURCE of
   ctc_prefix_search_advance (first tie); the language model is the state machine of C05.ModelB (state = inputs fed,
   rows = an oracle that contains the transcendental, as Model's [lm]).  ONE batch element (N = 1), as the model.
   ================================================================================================ *)
From PV Require MiniTorch.OpsC05B Gen.C05BSrc C05.ModelB C05.SrcRunB.
From PV Require C05.TieBRun C05.TieB C05.TieBFrame C05.TieBSearch.

(* below the model, for EVERY topk oracle, EVERY language-model oracle, every module configuration (lm or none, beta,
   valid_mixture, width), any batch size and ALL tensors (any shapes, any data): the interpreted loop body and the
   straight-line program TieBRun.frame_prog (operations of MiniTorch.OpsC05 / OpsC05B, the LM state machine, ONE call of
   the interpreted step function) leave the same carried variables, outside the modelled domain together *)
Theorem c05_source_frame_is_tensor_program :
  forall (sel : nat -> list mass -> nat -> list nat) (lmS : list nat -> list Qc) (beta : Q)
         (sos Vv : nat) (has_lm vm : bool) (width N V Kp : nat) (t len_min : Z) (lens : OpsC05.tn Z)
         (nonext_probs blank_probs : OpsC05.tn mass) (pad_y : OpsC05.tn Z) (nb b : OpsC05.tn mass)
         (y last ylens : OpsC05.tn Z) (isp : OpsC05.tn bool) (St : list (list nat)) (pv : Syntax.val),
  let c := TieBRun.mkCarT (Z.of_nat Kp) nb b y last ylens isp
             (if TieBRun.fused beta has_lm then SrcRunB.enc_lms St else pv) in
  TieBRun.simF
    (Interp.run (SrcRunB.extB sel lmS beta sos Vv) C05BSrc.fwd_frame
       (SrcRunB.frame_vars (SrcRunB.self_val has_lm beta vm width) (Syntax.VInt (Z.of_nat N))
          (Syntax.VInt (Z.of_nat V)) t len_min (SrcRun.enc_i lens) (SrcRun.enc_f nonext_probs)
          (SrcRun.enc_f blank_probs) (SrcRun.enc_i pad_y) (TieBRun.enc_carT c)))
    (TieBRun.frame_prog sel lmS beta sos Vv has_lm vm width N V t len_min lens nonext_probs blank_probs pad_y c St).
Proof. exact TieBRun.frame_is_prog. Qed.
Print Assumptions c05_source_frame_is_tensor_program.

(* the same for the epilogue *)
Theorem c05_source_final_is_tensor_program :
  forall (sel : nat -> list mass -> nat -> list nat) (lmS : list nat -> list Qc) (beta : Q)
         (sos Vv : nat) (has_lm vm : bool) (width N Kp : nat) (nb b : OpsC05.tn mass) (y ylens last : OpsC05.tn Z)
         (isp : OpsC05.tn bool) (pv : Syntax.val),
  let c := TieBRun.mkCarT (Z.of_nat Kp) nb b y last ylens isp pv in
  TieBRun.simR
    (Interp.run (SrcRunB.extB sel lmS beta sos Vv) C05BSrc.fwd_final
       (SrcRunB.final_vars (SrcRunB.self_val has_lm beta vm width) (Syntax.VInt (Z.of_nat N)) (TieBRun.enc_carT c)))
    (TieBRun.final_prog width N c).
Proof. exact TieBRun.final_is_prog. Qed.
Print Assumptions c05_source_final_is_tensor_program.

(* the interpreted epilogue, on the carried variables that encode ANY well-formed beam, returns the three tensors that
   encode the tail of Model.search (TieB.epilogue: mass = non-blank + blank, the fill to `width` when only the initial
   slot exists; Model.search = epilogue of the loop's last beam by definition) - every width, every configuration *)
Theorem c05_source_final_is_model :
  forall (V width : nat) (has_lm : bool) (beta : Q) (vm : bool) (lmS : list nat -> list Qc) (bm : beam) (pv : Syntax.val),
  1 <= width -> wf bm ->
  exists st, SrcRunB.run_final V width has_lm beta vm lmS (SrcRunB.enc_car bm pv)
             = Interp.Ok (TieB.enc_result (b_t bm) (TieB.epilogue width bm)) st.
Proof. exact TieB.final_tie. Qed.
Print Assumptions c05_source_final_is_model.

(* ONE interpreted iteration of `for t in range(len_max):` for a module that fuses no language model (`self.lm is None
   or not self.beta`), on the carried variables that encode a well-formed beam of 1 or `width` slots: the carried
   variables afterwards encode Model.sstep's beam - plain path (t < len_min), masked path of a running element, frozen
   element (len <= t), the first widening included; the step function inside is its own interpreted source.
   Hypotheses: ProofsModel.wf; the topk answer has K in-range entries (what a topk answer is); len_min <= len (what
   `lens.min()` is).  The FUSED configurations are tied to the tensor program only (theorem above). *)
Theorem c05_source_frame_is_model_nolm :
  forall (V width : nat) (has_lm : bool) (beta : Q) (vm : bool) (lmS lm : list nat -> list Qc)
         (len_min len : nat) (fs : list (list Qc * Qc)) (t : nat) (bm : beam) (choice : list nat) (pv : Syntax.val),
  TieBRun.fused beta has_lm = false -> 1 <= V -> 1 <= width -> wf bm -> Kp bm = 1 \/ Kp bm = width ->
  length choice = Kout V bm width -> (forall i : nat, In i choice -> i < ncand V bm) ->
  t < length fs -> len_min <= len ->
  SrcRunB.src_frame V width has_lm beta vm lmS len_min len fs choice t (SrcRunB.enc_car bm pv)
  = Some (SrcRunB.enc_car
            (sstep V width NoLM lm (len <=? t) (fst (nth t fs ([], Q2Qc 0))) (snd (nth t fs ([], Q2Qc 0))) choice bm) pv).
Proof. exact TieBFrame.frame_tie_nolm. Qed.
Print Assumptions c05_source_frame_is_model_nolm.

(* the whole search without a fused LM, as far as forward is translated (_partial: the initial carried variables =
   Model.init_beam and the iteration of the body, SrcRunB.src_frames, are HAND-WRITTEN glue; the head of forward - argument
   checks, lens / len_min / len_max, softmax and its two slices - is not translated): interpreted frames + interpreted
   epilogue return the tensors that encode Model.search's answer *)
Theorem c05_source_search_is_model_nolm_partial :
  forall (V width : nat) (has_lm : bool) (beta : Q) (vm : bool) (lmS lm : list nat -> list Qc)
         (len_min len : nat) (fs : list (list Qc * Qc)) (choices : list (list nat)),
  TieBRun.fused beta has_lm = false -> 1 <= V -> 1 <= width -> len_min <= len ->
  ModelB.choices_wf V width NoLM lm len 0 fs choices init_beam ->
  exists (c : SrcRunB.carried) (st : Interp.state),
    SrcRunB.src_frames V width has_lm beta vm lmS len_min len fs (length fs) 0 choices (SrcRunB.init_car has_lm) = Some c /\
    SrcRunB.run_final V width has_lm beta vm lmS c
    = Interp.Ok (TieB.enc_result (b_t (sloop V width NoLM lm len 0 fs choices init_beam))
                                 (search V width NoLM lm len fs choices)) st.
Proof. exact TieBSearch.search_tie_nolm. Qed.
Print Assumptions c05_source_search_is_model_nolm_partial.

(* composed with c05_sorted_by_mass, a statement about the interpreted source alone: what it returns (legitimate topk
   answers at the frames the element processes) has exactly `width` slots ordered by non-increasing mass *)
Theorem c05_source_search_sorted_nolm_partial :
  forall (V width : nat) (has_lm : bool) (beta : Q) (vm : bool) (lmS lm : list nat -> list Qc)
         (len_min len : nat) (fs : list (list Qc * Qc)) (choices : list (list nat)),
  TieBRun.fused beta has_lm = false -> 1 <= V -> 1 <= width -> len_min <= len ->
  ModelB.choices_wf V width NoLM lm len 0 fs choices init_beam ->
  choices_ok V width NoLM lm (Q2Qc 0) len 0 fs choices init_beam = true ->
  exists (c : SrcRunB.carried) (st : Interp.state) (H : nat) (r : list (list nat) * list nat * list mass),
    SrcRunB.src_frames V width has_lm beta vm lmS len_min len fs (length fs) 0 choices (SrcRunB.init_car has_lm) = Some c /\
    SrcRunB.run_final V width has_lm beta vm lmS c = Interp.Ok (TieB.enc_result H r) st /\
    (let '(P, Ls, Ps) := observe r in length P = width /\ length Ls = width /\ length Ps = width /\ sorted_desc Ps).
Proof. exact TieBSearch.search_sorted_nolm. Qed.
Print Assumptions c05_source_search_sorted_nolm_partial.

(* non-vacuity: the frames of tests/test_decoding.py::test_ctc_prefix_search, width 2, an element of length 3 in a batch
   whose shortest element has one frame (plain path, then masked path): the hypotheses hold and the interpreted source
   (SrcRunB.src_search, as the harness runs it) returns Model.search's answer *)
Example c05_source_forward_nonvacuous :
  ModelB.choices_wf 2 2 NoLM no_lm 3 0 ex_frames (ex_choices 2 3) init_beam /\
  choices_ok 2 2 NoLM no_lm (Q2Qc 0) 3 0 ex_frames (ex_choices 2 3) init_beam = true /\
  SrcRunB.src_search_is_model 2 2 false (1 # 5) false no_lm 1 3 ex_frames (ex_choices 2 3) = true.
Proof. exact TieBSearch.ex_nonvacuous_B. Qed.
