(* C05 — tie, part 3: the executable forms used by the harness.  The seven tensors the interpreted source returns,
   read back as the model's (beam, (src, nonext)) ([SrcRun.dec_out]), ARE Model.advance's result, and
   [SrcRun.src_advance_check] is Model.check_advance - for every well-formed input. *)
From Coq Require Import ZArith QArith Qcanon List String Bool Arith Lia ZifyBool ZifyNat.
From PV Require Import MiniPy.Syntax MiniPy.Interp MiniTorch.Ops MiniTorch.OpsC05 MiniTorch.LemmasC05 Gen.C05Src.
From PV Require Import C05.Model C05.ProofsModel C05.ProofsSearch C05.ProofsTopk C05.SrcRun C05.TieRun C05.Tie.
Import ListNotations.
Local Open Scope nat_scope.

(* ---- lists ------------------------------------------------------------------------------------------------ *)
Lemma sequence_some {A} (f : nat -> A) l : sequence (map (fun i => Some (f i)) l) = Some (map f l).
Proof. induction l as [|x l IH]; [reflexivity|]. cbn [map sequence]. now rewrite IH. Qed.

Lemma sequence_ext_some {A} (g : nat -> option A) (f : nat -> A) l :
  (forall i, List.In i l -> g i = Some (f i)) -> sequence (map g l) = Some (map f l).
Proof.
  intros H. rewrite (map_ext_in g (fun i => Some (f i))) by exact H. apply sequence_some.
Qed.

Lemma map_nth_all {A} (l : list A) d n : List.length l = n -> map (fun i => nth i l d) (seq 0 n) = l.
Proof.
  intros <-. apply nth_ext with (d := d) (d' := d).
  - now rewrite map_length, seq_length.
  - intros i Hi. rewrite map_length, seq_length in Hi.
    rewrite (nth_indep _ d (nth 0 l d)) by (now rewrite map_length, seq_length).
    rewrite (map_nth (fun i => nth i l d)), seq_nth by exact Hi. reflexivity.
Qed.

Lemma znat_of_nat n : znat (Z.of_nat n) = Some n.
Proof. unfold znat. replace (0 <=? Z.of_nat n)%Z with true by lia. now rewrite Nat2Z.id. Qed.

(* ---- a result whose lists all have their lengths ---------------------------------------------------------- *)
Record wfx (res : beam * (list nat * list bool)) : Prop := mkWfx
  { x_b : List.length (b_b (fst res)) = List.length (b_nb (fst res));
    x_y : List.length (b_y (fst res)) = List.length (b_nb (fst res));
    x_last : List.length (b_last (fst res)) = List.length (b_nb (fst res));
    x_lens : List.length (b_lens (fst res)) = List.length (b_nb (fst res));
    x_isp : List.length (b_isp (fst res)) = List.length (b_nb (fst res));
    x_col : forall c, List.In c (b_y (fst res)) -> List.length c = b_t (fst res);
    x_row : forall r, List.In r (b_isp (fst res)) -> List.length r = List.length (b_nb (fst res));
    x_src : List.length (fst (snd res)) = List.length (b_nb (fst res));
    x_non : List.length (snd (snd res)) = List.length (b_nb (fst res)) }.

Lemma dec_enc_out res : wfx res -> dec_out (enc_out res) = Some res.
Proof.
  intros [Hb Hy Hl Hn Hi Hc Hr Hs Ho]. destruct res as [nx [src non]]. cbn [fst snd] in *.
  unfold enc_out, dec_out. rewrite !dec_enc_i, !dec_enc_f, !dec_enc_b.
  set (W := List.length (b_nb nx)) in *. set (H := b_t nx) in *.
  unfold enc_y at 1. cbn [shp tab]. fold W. fold H.
  unfold enc_last at 1, enc_lens at 1, enc_nb at 1, enc_bb at 1, enc_isp at 1. cbn [shp tab]. fold W.
  rewrite !nats_eqb_refl. cbn [andb].
  (* y *)
  rewrite (sequence_ext_some _ (fun k => nth k (b_y nx) [])).
  2:{ intros k Hk. apply in_seq in Hk.
      rewrite (sequence_ext_some _ (fun s => nth s (nth k (b_y nx) []) 0)).
      - f_equal. apply map_nth_all. apply Hc. apply nth_In. lia.
      - intros s Hs'. apply in_seq in Hs'. unfold enc_y. fold W. fold H.
        change (tab [H; 1; W] (fun ix => Z.of_nat (nth (at_ ix 0) (nth (at_ ix 2) (b_y nx) []) 0)))
          with (T3 H 1 W (fun s _ k => Z.of_nat (nth s (nth k (b_y nx) []) 0))).
        rewrite get_T3 by lia. apply znat_of_nat. }
  rewrite (map_nth_all (b_y nx) [] W Hy).
  (* last, lens, src *)
  rewrite (sequence_ext_some _ (fun k => nth k (b_last nx) 0)).
  2:{ intros k Hk. apply in_seq in Hk. unfold enc_last. fold W.
      change (tab [1; W] (fun ix => Z.of_nat (nth (at_ ix 1) (b_last nx) 0))) with (T2 1 W (fun _ k => Z.of_nat (nth k (b_last nx) 0))).
      rewrite get_T2 by lia. apply znat_of_nat. }
  rewrite (map_nth_all (b_last nx) 0 W Hl).
  rewrite (sequence_ext_some _ (fun k => nth k (b_lens nx) 0)).
  2:{ intros k Hk. apply in_seq in Hk. unfold enc_lens. fold W.
      change (tab [1; W] (fun ix => Z.of_nat (nth (at_ ix 1) (b_lens nx) 0))) with (T2 1 W (fun _ k => Z.of_nat (nth k (b_lens nx) 0))).
      rewrite get_T2 by lia. apply znat_of_nat. }
  rewrite (map_nth_all (b_lens nx) 0 W Hn).
  rewrite (sequence_ext_some _ (fun k => nth k src 0)).
  2:{ intros k Hk. apply in_seq in Hk.
      change (tab [1; W] (fun ix => Z.of_nat (nth (at_ ix 1) src 0))) with (T2 1 W (fun _ k => Z.of_nat (nth k src 0))).
      rewrite get_T2 by lia. apply znat_of_nat. }
  rewrite (map_nth_all src 0 W Hs).
  (* masses, matrix, flags *)
  assert (E1 : map (fun k => get NegInf (enc_nb nx) [0; k]) (seq 0 W) = b_nb nx).
  { transitivity (map (fun k => nth k (b_nb nx) NegInf) (seq 0 W)); [|apply map_nth_all; reflexivity]. apply map_ext_in. intros k Hk. apply in_seq in Hk.
    unfold enc_nb. fold W. change (tab [1; W] (fun ix => nth (at_ ix 1) (b_nb nx) NegInf)) with (T2 1 W (fun _ k => nth k (b_nb nx) NegInf)).
    now rewrite get_T2 by lia. }
  assert (E2 : map (fun k => get NegInf (enc_bb nx) [0; k]) (seq 0 W) = b_b nx).
  { transitivity (map (fun k => nth k (b_b nx) NegInf) (seq 0 W)); [|apply map_nth_all; exact Hb]. apply map_ext_in. intros k Hk. apply in_seq in Hk.
    unfold enc_bb. fold W. change (tab [1; W] (fun ix => nth (at_ ix 1) (b_b nx) NegInf)) with (T2 1 W (fun _ k => nth k (b_b nx) NegInf)).
    now rewrite get_T2 by lia. }
  assert (E3 : map (fun k => map (fun k' => get false (enc_isp nx) [0; k; k']) (seq 0 W)) (seq 0 W) = b_isp nx).
  { transitivity (map (fun k => nth k (b_isp nx) []) (seq 0 W)); [|apply map_nth_all; exact Hi]. apply map_ext_in. intros k Hk. apply in_seq in Hk.
    transitivity (map (fun k' => nth k' (nth k (b_isp nx) []) false) (seq 0 W)); [|apply map_nth_all; apply Hr; apply nth_In; lia].
    apply map_ext_in. intros k' Hk'. apply in_seq in Hk'. unfold enc_isp. fold W.
    change (tab [1; W; W] (fun ix => nth (at_ ix 2) (nth (at_ ix 1) (b_isp nx) []) false))
      with (T3 1 W W (fun _ k k' => nth k' (nth k (b_isp nx) []) false)).
    now rewrite get_T3 by lia. }
  assert (E4 : map (fun k => get false (tab [1; W] (fun ix => nth (at_ ix 1) non false)) [0; k]) (seq 0 W) = non).
  { transitivity (map (fun k => nth k non false) (seq 0 W)); [|apply map_nth_all; exact Ho]. apply map_ext_in. intros k Hk. apply in_seq in Hk.
    change (tab [1; W] (fun ix => nth (at_ ix 1) non false)) with (T2 1 W (fun _ k => nth k non false)).
    now rewrite get_T2 by lia. }
  rewrite E1, E2, E3, E4. destruct nx; reflexivity.
Qed.

Lemma advance_wfx V width fr bm choice :
  1 <= V -> 1 <= width -> wf bm -> List.length choice = Kout V bm width ->
  (forall i, List.In i choice -> i < ncand V bm) -> wfx (advance V fr bm width choice).
Proof.
  intros Vpos Wpos W Clen Crange. pose proof (nx_wf V width fr bm choice Vpos Wpos W Clen Crange) as Wn.
  pose proof (nx_Kp V width fr bm choice Vpos Wpos Clen) as EK. unfold Kp in EK.
  assert (HK : Kout V bm width <= width) by (unfold Kout; lia).
  destruct Wn as [_ Hb Hy Hl Hn Hi Hc _]. unfold Kp in *. constructor; try assumption.
  - intros c Hin. destruct (In_nth _ _ [] Hin) as [k [Hk <-]]. apply Hc. now rewrite <- Hy.
  - intros r Hin. rewrite EK. unfold advance in Hin. cbn [fst b_isp] in Hin. apply in_app_iff in Hin. destruct Hin as [Hin|Hin].
    + apply in_map_iff in Hin. destruct Hin as [i [<- _]]. rewrite app_length, map_length, repeat_length, Clen. lia.
    + apply repeat_spec in Hin. subst r. apply repeat_length.
  - rewrite EK. unfold advance. cbn [fst snd]. rewrite app_length, map_length, repeat_length, Clen. lia.
  - rewrite EK. unfold advance. cbn [fst snd]. rewrite app_length, map_length, repeat_length, Clen. lia.
Qed.

(* for ALL well-formed inputs and admissible answers the interpreted source, read back, is the model *)
Theorem src_advance_tie : forall V width fr bm choice,
  1 <= V -> 1 <= width -> wf bm -> List.length choice = Kout V bm width ->
  (forall i, List.In i choice -> i < ncand V bm) ->
  src_advance V width fr bm choice = Some (advance V fr bm width choice).
Proof.
  intros V width fr bm choice Vpos Wpos W Clen Crange. unfold src_advance.
  destruct (advance_tie V width fr bm choice Vpos Wpos W Clen Crange) as [st E]. rewrite E.
  apply dec_enc_out. now apply advance_wfx.
Qed.

Lemma topk_ok_range V fr bm width choice : topk_ok V fr bm 0%Qc width choice = true ->
  List.length choice = Kout V bm width /\ forall i, List.In i choice -> i < ncand V bm.
Proof.
  intros H. unfold topk_ok in H. repeat (apply andb_true_iff in H; destruct H as [H ?]).
  split; [now apply Nat.eqb_eq|]. intros i Hi. rewrite forallb_forall in H3. apply Nat.ltb_lt. now apply H3.
Qed.

(* the harness entry point is the model's own check (no hypothesis on the observed answer: an answer
   Model.topk_ok rejects makes both false) *)
Theorem src_advance_check_is_check : forall V width fr bm choice o_y o_last o_lens o_nb o_b o_isp o_src o_nonext,
  1 <= V -> 1 <= width -> wf bm ->
  src_advance_check V width fr bm choice o_y o_last o_lens o_nb o_b o_isp o_src o_nonext
  = check_advance V width fr bm choice o_y o_last o_lens o_nb o_b o_isp o_src o_nonext.
Proof.
  intros V width fr bm choice o_y o_last o_lens o_nb o_b o_isp o_src o_nonext Vpos Wpos W.
  unfold src_advance_check, check_advance.
  destruct (topk_ok V fr bm 0%Qc width choice) eqn:Hok.
  - destruct (topk_ok_range _ _ _ _ _ Hok) as [Clen Crange].
    rewrite (src_advance_tie V width fr bm choice Vpos Wpos W Clen Crange). unfold compare_advance.
    destruct (advance V fr bm width choice) as [nx [src non]]. now rewrite Hok.
  - destruct (advance V fr bm width choice) as [nx [src non]]. cbn [andb].
    destruct (src_advance V width fr bm choice) as [[nx' [src' non']]|]; [|reflexivity].
    unfold compare_advance. now rewrite Hok.
Qed.

(* ---- composed with the model-side theorems: statements purely about the interpreted source -------------- *)
(* c05_prefix_matrix_invariant_step through the tie: if the beam handed to the step function satisfies the
   invariant (valid prefixes blank-free and pairwise distinct, prefix matrix sound on all slots and complete on
   the valid ones, last token, nb([]) = 0), so does the beam the INTERPRETED SOURCE returns (topk = the stable
   selection), read back from its tensors *)
Theorem source_advance_keeps_invariant : forall V width fr bm res,
  1 <= V -> 1 <= width -> inv V bm ->
  src_advance V width fr bm (stable_choice V width fr bm) = Some res -> inv V (fst res).
Proof.
  intros V width fr bm res Vpos Wpos I E. pose proof (inv_wf V bm I) as W.
  pose proof (ProofsTopk.auto_step_ok V fr bm width Wpos (wf_pos bm W)) as Hok. cbv zeta in Hok.
  fold (stable_choice V width fr bm) in Hok.
  destruct (ProofsSearch.topk_ok_facts _ _ _ _ _ Hok) as [Hl Hr Hn _ _].
  rewrite (src_advance_tie V width fr bm _ Vpos Wpos W Hl Hr) in E. inversion E. subst res.
  now apply advance_inv.
Qed.

(* non-vacuity: a beam of three slots at t = 2 (an empty prefix, "1", and its extension "1 0" whose source is
   present: a merge), one invalid slot pair among the masses, vocabulary 2, width 5 of 9 candidates (pruning) *)
Definition ex_fr : frame := mkFrame [[qc 1 2; qc 1 4]; [qc 1 4; qc 1 2]; [qc 1 8; qc 1 8]] [qc 1 2; qc 1 4] (qc 1 4).
Definition ex_bm : beam :=
  mkBeam 2 [[0; 0]; [1; 0]; [1; 0]] [0; 1; 0] [0; 1; 2] [F 0 1; F 1 4; F 1 8] [F 1 2; F 1 8; NegInf]
         [[true; true; true]; [false; true; true]; [false; false; true]].

Lemma ex_wf : wf ex_bm.
Proof. constructor; cbn; try lia. - intros [|[|[|k]]] H; cbn in *; lia || reflexivity. - intros [|[|[|[|k]]]]; cbn; lia. Qed.

Lemma ex_nonvacuous_src :
  wf ex_bm /\
  src_advance 2 5 ex_fr ex_bm (stable_choice 2 5 ex_fr ex_bm) = Some (advance 2 ex_fr ex_bm 5 (stable_choice 2 5 ex_fr ex_bm)) /\
  b_lens (fst (advance 2 ex_fr ex_bm 5 (stable_choice 2 5 ex_fr ex_bm))) = [1; 1; 0; 2; 1] /\
  b_y (fst (advance 2 ex_fr ex_bm 5 (stable_choice 2 5 ex_fr ex_bm))) = [[1; 1; 0]; [0; 0; 0]; [0; 0; 0]; [1; 1; 0]; [1; 0; 0]] /\
  snd (advance 2 ex_fr ex_bm 5 (stable_choice 2 5 ex_fr ex_bm)) = ([1; 0; 0; 1; 0], [true; false; true; false; false]).
Proof.
  split; [exact ex_wf|]. split; [|repeat split; vm_compute; reflexivity].
  apply src_advance_tie; try lia; [exact ex_wf|vm_compute; reflexivity|].
  intros i Hi. vm_compute in Hi. vm_compute. intuition lia.
Qed.
