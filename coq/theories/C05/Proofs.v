(* C05 - the statements quoted by Properties.v, assembled from the Proofs* files. *)
From Coq Require Import List Arith Bool QArith Qcanon Lia.
From PV Require Import C05.Model C05.Spec C05.ProofsNum C05.ProofsSpec C05.ProofsModel C05.ProofsSearch
  C05.ProofsMass C05.ProofsExact C05.ProofsRefine C05.ProofsSanity.
Import ListNotations.
Local Open Scope nat_scope.

(* the beam the element computed at its last valid frame satisfies the invariant *)
Lemma search_invariant : forall V width fus lm len frames choices, 1 <= V -> 1 <= width ->
  choices_ok V width fus lm 0%Qc len 0 frames choices init_beam = true ->
  inv V (live_beam V width fus lm len frames choices).
Proof. intros. apply live_facts; auto. Qed.

Lemma prefix_matrix_iff : forall V bm k k', inv V bm -> valid bm k -> valid bm k' ->
  (isp bm k k' = true <-> is_pre (pref bm k) (pref bm k')).
Proof.
  intros V bm k k' I Vk Vk'. split.
  - apply (inv_snd V bm I); [apply Vk|apply Vk'].
  - apply (inv_cmp V bm I); auto.
Qed.

Lemma out_valid : forall V width fus lm len frames choices, 1 <= V -> 1 <= width ->
  choices_ok V width fus lm 0%Qc len 0 frames choices init_beam = true ->
  let '(P, Ls, Ps) := observe (search V width fus lm len frames choices) in
  (forall i q, nth i Ps NegInf = Fin q ->
     Forall (fun x => x < V) (nth i P []) /\
     length (nth i P []) = nth i Ls 0 /\
     nth i Ls 0 <= Nat.min len (length frames)) /\
  (forall i j q q', nth i Ps NegInf = Fin q -> nth j Ps NegInf = Fin q' ->
     nth i P [] = nth j P [] -> i = j).
Proof.
  intros V width fus lm len frames choices Vpos Wpos C.
  pose proof (out_slot V width fus lm len frames choices Vpos Wpos C) as O.
  destruct (observe (search V width fus lm len frames choices)) as [[P Ls] Ps].
  destruct O as (_ & _ & _ & _ & O).
  destruct (live_facts V width fus lm len frames choices Vpos Wpos C) as (I & T & _).
  set (bm := live_beam V width fus lm len frames choices) in *.
  pose proof (inv_wf V bm I) as W. split.
  - intros i q Hq. destruct (O i q Hq) as (Vi & _ & -> & ->). split; [apply (inv_lt V bm I); auto|].
    split; [apply pref_length; auto; apply Vi|].
    pose proof (wf_len bm W i) as L. rewrite T, (live_len len frames) in L. exact L.
  - intros i j q q' Hi Hj E. destruct (O i q Hi) as (Vi & _ & Ei & _). destruct (O j q' Hj) as (Vj & _ & Ej & _).
    apply (inv_dist V bm I); auto. congruence.
Qed.

Lemma out_sorted : forall V width fus lm len frames choices, 1 <= V -> 1 <= width ->
  choices_ok V width fus lm 0%Qc len 0 frames choices init_beam = true ->
  let '(P, Ls, Ps) := observe (search V width fus lm len frames choices) in
  length P = width /\ length Ls = width /\ length Ps = width /\ sorted_desc Ps.
Proof.
  intros V width fus lm len frames choices Vpos Wpos C.
  pose proof (out_slot V width fus lm len frames choices Vpos Wpos C) as O.
  destruct (observe (search V width fus lm len frames choices)) as [[P Ls] Ps].
  destruct O as (O1 & O2 & O3 & O4 & _). auto.
Qed.

Lemma out_invalid_last : forall V width fus lm len frames choices, 1 <= V -> 1 <= width ->
  choices_ok V width fus lm 0%Qc len 0 frames choices init_beam = true ->
  let '(P, Ls, Ps) := observe (search V width fus lm len frames choices) in
  forall i j, nth i Ps NegInf = NegInf -> i <= j -> j < width -> nth j Ps NegInf = NegInf.
Proof.
  intros V width fus lm len frames choices Vpos Wpos C.
  pose proof (out_slot V width fus lm len frames choices Vpos Wpos C) as O.
  destruct (observe (search V width fus lm len frames choices)) as [[P Ls] Ps].
  destruct O as (_ & _ & LP & SD & _). intros i j Hi Lij Lj.
  apply (sorted_desc_neginf_last Ps i j); auto. lia.
Qed.

Lemma alignment_mass_recursion : forall V frames E n p, Forall (fun x => x < V) p ->
  A_b V frames E (S n) p
  = ((A_nb V frames E n p + A_b V frames E n p) * snd (fr_at frames n))%Qc /\
  A_nb V frames E (S n) p
  = match last_opt p with
    | None => 0%Qc
    | Some v =>
        (A_nb V frames E n p * nth v (fst (fr_at frames n)) 0
         + (A_b V frames E n (removelast p)
            + (if opt_is (last_opt (removelast p)) v then 0 else A_nb V frames E n (removelast p)))
           * E n (removelast p) v)%Qc
    end.
Proof. intros; split; [apply A_b_step | apply A_nb_step; auto]. Qed.

Lemma search_prefix_matrix : forall V width fus lm len frames choices,
  1 <= V -> 1 <= width ->
  choices_ok V width fus lm 0%Qc len 0 frames choices init_beam = true ->
  let bm := live_beam V width fus lm len frames choices in
  inv V bm /\
  forall k k', valid bm k -> valid bm k' ->
    (isp bm k k' = true <-> is_pre (pref bm k) (pref bm k')).
Proof.
  intros V width fus lm len frames choices H1 H2 H3.
  pose proof (search_invariant V width fus lm len frames choices H1 H2 H3) as I.
  split; auto. intros. apply (prefix_matrix_iff V); auto.
Qed.

(* ---- concrete inputs meeting the hypotheses (non-vacuity) -------------------------------------- *)

(* the three frames of tests/test_decoding.py::test_ctc_prefix_search, V = 2 (index 2 = blank) *)
Definition ex_frames : list (list Qc * Qc) :=
  [([qc 1 2; qc 1 3], qc 1 6); ([qc 1 3; qc 1 6], qc 1 2); ([qc 1 6; qc 1 2], qc 1 3)].

Definition ex_choices (width len : nat) : list (list nat) :=
  auto_choices 2 width NoLM no_lm len 0 ex_frames init_beam.

Definition show_mass (m : mass) : option Q :=
  match m with Fin q => Some (this q) | NegInf => None end.

(* width 2 on all three frames: pruning at frames 2 and 3, a merge at frame 3; the result is
   the one the test suite pins: [0,1] with 5/24, [0] with 1/6 *)
Lemma nonvacuous_pruned :
  choices_ok 2 2 NoLM no_lm 0%Qc 3 0 ex_frames (ex_choices 2 3) init_beam = true /\
  nothing_pruned 2 2 NoLM no_lm 3 0 ex_frames (ex_choices 2 3) init_beam = false /\
  (let '(P, Ls, Ps) := observe (search 2 2 NoLM no_lm 3 ex_frames (ex_choices 2 3)) in
   (P, Ls, map show_mass Ps)) = ([[0; 1]; [0]], [2; 1], [Some (5 # 24)%Q; Some (1 # 6)%Q]).
Proof. vm_compute. repeat split. Qed.

(* width 9, element of length 2 inside a batch of 3 frames: nothing is pruned, all 7 prefixes
   are returned (two of them with zero mass), and the two remaining slots are invalid *)
Lemma nonvacuous_unpruned :
  choices_ok 2 9 NoLM no_lm 0%Qc 2 0 ex_frames (ex_choices 9 2) init_beam = true /\
  nothing_pruned 2 9 NoLM no_lm 2 0 ex_frames (ex_choices 9 2) init_beam = true /\
  (let '(P, Ls, Ps) := observe (search 2 9 NoLM no_lm 2 ex_frames (ex_choices 9 2)) in
   (P, map show_mass Ps))
  = ([[0]; [1]; [1; 0]; [0; 1]; []; [0; 0]; [1; 1]; [0]; [1]],
     [Some (17 # 36)%Q; Some (1 # 4)%Q; Some (1 # 9)%Q; Some (1 # 12)%Q; Some (1 # 12)%Q;
      Some 0%Q; Some 0%Q; None; None]).
Proof. vm_compute. repeat split. Qed.

Lemma nth_nonneg : forall l v, Forall (fun x => (0 <= x)%Qc) l -> (0 <= nth v l 0%Qc)%Qc.
Proof.
  induction l; intros v H; destruct v; cbn [nth]; try apply qle_00; inversion H; subst; auto.
Qed.

Definition frame_nonneg (f : list Qc * Qc) : Prop :=
  Forall (fun x => (0 <= x)%Qc) (fst f) /\ (0 <= snd f)%Qc.

Lemma frames_nonneg_nth : forall (L : list sframe) t, Forall frame_nonneg L ->
  frame_nonneg (nth t L ([], 0%Qc)).
Proof.
  induction L; intros t H; destruct t; cbn [nth]; try (split; [constructor|apply qle_00]);
    inversion H; subst; auto.
Qed.

Lemma nolm_nonneg_forall : forall (L : list sframe), Forall frame_nonneg L ->
  nonneg_frames L (fused_score NoLM no_lm L).
Proof.
  intros L H. apply nolm_nonneg; intros t; try intros v; destruct (frames_nonneg_nth L t H); auto.
  apply nth_nonneg. auto.
Qed.

Lemma Forall_firstn_own : forall {A} (P : A -> Prop) n l, Forall P l -> Forall P (firstn n l).
Proof.
  induction n; intros l H; cbn [firstn]; [constructor|]. destruct l; [constructor|].
  inversion H; subst. constructor; auto.
Qed.

Lemma nonvacuous_nonneg : forall len,
  nonneg_frames (firstn len ex_frames) (fused_score NoLM no_lm (firstn len ex_frames)).
Proof.
  intros len. apply nolm_nonneg_forall. apply Forall_firstn_own.
  unfold ex_frames, frame_nonneg. repeat constructor; cbn [fst snd]; apply Qle_bool_iff; reflexivity.
Qed.

(* one frame, one label: the candidates are [] (mass 1/4) and [0] (mass 3/4); width 1 keeps
   [0] and drops [], width 2 keeps both *)
Definition ex1 : list sframe := [([qc 3 4], qc 1 4)].

Lemma ex1_cands : cand_prefixes 1 pbs_init = [[]; [0]].
Proof. reflexivity. Qed.

Lemma nonvacuous_pbs_pruned :
  pbs_reach 1 1 ex1 (plain_score ex1) 1 [new_entry 1 ex1 (plain_score ex1) 0 pbs_init [0]].
Proof.
  apply pbs_S with (B := pbs_init); [constructor|].
  unfold pbs_keeps, pbs_cands. rewrite ex1_cands. cbn [map].
  split; [repeat constructor; intros []|]. split; [intros e [<-|[]]; right; left; reflexivity|].
  split; [cbn; lia|].
  intros c [<-|[<-|[]]] NI.
  - split; [reflexivity|]. intros e [<-|[]]. apply Qle_bool_iff. reflexivity.
  - exfalso. apply NI. left. reflexivity.
Qed.

Lemma nonvacuous_pbs_full :
  pbs_full 1 ex1 (plain_score ex1) 1 (pbs_cands 1 ex1 (plain_score ex1) 0 pbs_init).
Proof.
  apply pbsf_S with (B := pbs_init); [constructor| |apply incl_refl|apply incl_refl].
  unfold pbs_cands. rewrite ex1_cands. cbn [map]. rewrite !new_entry_fst.
  repeat constructor; cbn; intuition discriminate.
Qed.
