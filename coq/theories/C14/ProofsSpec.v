(* C14 - consequences of the sampler specification [bbs_spec] (coverage as counts, each batch a
   contiguous block of its bucket's sub-sequence, number of batches = _get_batch_sampler_len),
   and soundness of the boolean checker [bbs_okb]. *)
From Coq Require Import List Arith Bool Lia Sorting.Sorted.
From PV Require Import C14.Model C14.Spec C14.ProofsSampler.
Import ListNotations.

(* ------------------------------------------------------------------------------------ *)
(* generic list facts                                                                   *)
(* ------------------------------------------------------------------------------------ *)

Lemma count_occ_filter : forall (f : nat -> bool) l x,
  count_occ Nat.eq_dec (filter f l) x = if f x then count_occ Nat.eq_dec l x else 0.
Proof.
  induction l as [|y t IH]; intros x; cbn [filter].
  - cbn. now destruct (f x).
  - destruct (f y) eqn:Ey; cbn [count_occ]; destruct (Nat.eq_dec y x) as [->|Hne]; rewrite IH.
    + now rewrite Ey.
    + reflexivity.
    + now rewrite Ey.
    + reflexivity.
Qed.

Lemma length_concat_const : forall (n : nat) (l : list (list nat)),
  Forall (fun b => length b = n) l -> length (concat l) = n * length l.
Proof.
  induction l as [|b t IH]; intros Hall; cbn; [lia|].
  inversion Hall; subst. rewrite app_length, IH by assumption. lia.
Qed.

Lemma list_sum_cons : forall x l, list_sum (x :: l) = x + list_sum l.
Proof. reflexivity. Qed.

Lemma list_sum_map_add : forall {A} (f g : A -> nat) l,
  list_sum (map (fun x => f x + g x) l) = list_sum (map f l) + list_sum (map g l).
Proof.
  induction l as [|x t IH]; [reflexivity|]. cbn [map]. rewrite !list_sum_cons, IH. lia.
Qed.

Lemma list_sum_indicator : forall (x : nat) K, NoDup K -> In x K ->
  list_sum (map (fun k => if Nat.eqb x k then 1 else 0) K) = 1.
Proof.
  induction K as [|k t IH]; intros Hnd Hin; [destruct Hin|].
  inversion Hnd as [|? ? Hk Ht]; subst. cbn [map]. rewrite list_sum_cons.
  destruct (Nat.eqb x k) eqn:E.
  - apply Nat.eqb_eq in E. subst k.
    assert (Hz : list_sum (map (fun k => if Nat.eqb x k then 1 else 0) t) = 0).
    { clear IH Ht Hnd Hin. induction t as [|y t IH]; [reflexivity|]. cbn [map]. rewrite list_sum_cons.
      destruct (Nat.eqb x y) eqn:E.
      - apply Nat.eqb_eq in E. subst. exfalso. apply Hk. now left.
      - rewrite IH; [reflexivity|]. intros H. apply Hk. now right. }
    lia.
  - apply Nat.eqb_neq in E. destruct Hin as [->|Hin]; [congruence|]. rewrite IH by assumption. lia.
Qed.

Lemma list_sum_zero : forall {A} (l : list A), list_sum (map (fun _ => 0) l) = 0.
Proof. induction l as [|x t IH]; [reflexivity|]. cbn [map]. now rewrite list_sum_cons, IH. Qed.

(* a list splits by the value of a key into its classes *)
Lemma length_by_key : forall {B} (g : B -> nat) (l : list B) K,
  NoDup K -> (forall b, In b l -> In (g b) K) ->
  length l = list_sum (map (fun k => length (filter (fun b => Nat.eqb (g b) k) l)) K).
Proof.
  induction l as [|b t IH]; intros K Hnd Hin.
  - cbn. now rewrite list_sum_zero.
  - cbn [length].
    rewrite (map_ext (fun k => length (filter (fun b0 => Nat.eqb (g b0) k) (b :: t)))
                     (fun k => length (filter (fun b0 => Nat.eqb (g b0) k) t)
                               + (if Nat.eqb (g b) k then 1 else 0))).
    + rewrite list_sum_map_add, <- IH; [|exact Hnd|intros; apply Hin; now right].
      rewrite list_sum_indicator; [lia|exact Hnd|apply Hin; now left].
    + intros k. cbn [filter]. destruct (Nat.eqb (g b) k); cbn; lia.
Qed.

Lemma sorted_filter_le1 : forall {B} (f : B -> nat) (h : nat) (l : list B),
  StronglySorted lt (map f l) -> length (filter (fun b => Nat.eqb (f b) h) l) <= 1.
Proof.
  induction l as [|b t IH]; intros Hs; cbn; [lia|].
  inversion Hs as [|? ? Ht Hall]; subst.
  destruct (Nat.eqb (f b) h) eqn:E.
  - apply Nat.eqb_eq in E. cbn.
    assert (Hz : filter (fun b0 => Nat.eqb (f b0) h) t = []).
    { clear IH Ht Hs. induction t as [|y t IH]; [reflexivity|]. cbn [map] in Hall.
      inversion Hall as [|? ? Hy Hr]; subst. cbn.
      destruct (Nat.eqb (f y) (f b)) eqn:E; [apply Nat.eqb_eq in E; lia|]. now apply IH. }
    rewrite Hz. cbn. lia.
  - now apply IH.
Qed.

(* ------------------------------------------------------------------------------------ *)
(* collections.Counter                                                                  *)
(* ------------------------------------------------------------------------------------ *)

Definition cinv (l : list nat) (c : list (nat * nat)) : Prop :=
  NoDup (map fst c) /\
  (forall k n, In (k, n) c -> n = count_occ Nat.eq_dec l k) /\
  (forall k, In k l -> In k (map fst c)).

Lemma count_occ_snoc : forall l k k',
  count_occ Nat.eq_dec (l ++ [k]) k' = count_occ Nat.eq_dec l k' + (if Nat.eqb k k' then 1 else 0).
Proof.
  intros. rewrite count_occ_app. cbn. destruct (Nat.eq_dec k k') as [->|Hne].
  - now rewrite Nat.eqb_refl.
  - destruct (Nat.eqb k k') eqn:E; [apply Nat.eqb_eq in E; congruence|reflexivity].
Qed.

Lemma keys_counter_add : forall k c x,
  In x (map fst (counter_add k c)) <-> x = k \/ In x (map fst c).
Proof.
  induction c as [|[k' n] t IH]; intros x; cbn [counter_add map fst In].
  - intuition.
  - destruct (Nat.eqb k' k) eqn:E; cbn [map fst In].
    + apply Nat.eqb_eq in E. subst. intuition.
    + rewrite IH. intuition.
Qed.

Lemma nodup_counter_add : forall k c, NoDup (map fst c) -> NoDup (map fst (counter_add k c)).
Proof.
  induction c as [|[k' n] t IH]; intros Hnd; cbn [counter_add map fst].
  - constructor; [intros []|constructor].
  - inversion Hnd as [|? ? Hk Ht]; subst.
    destruct (Nat.eqb k' k) eqn:E; cbn [map fst].
    + constructor; assumption.
    + constructor; [|now apply IH]. rewrite keys_counter_add.
      apply Nat.eqb_neq in E. intros [->|H]; [congruence|contradiction].
Qed.

Lemma in_counter_add : forall k c k' n, NoDup (map fst c) -> In (k', n) (counter_add k c) ->
  (k' <> k /\ In (k', n) c) \/
  (k' = k /\ ((exists m, In (k, m) c /\ n = S m) \/ (~ In k (map fst c) /\ n = 1))).
Proof.
  induction c as [|[k0 n0] t IH]; intros k' n Hnd Hin; cbn [counter_add] in Hin.
  - destruct Hin as [Heq|[]]. inversion Heq; subst. right. split; [reflexivity|]. right. split; [intros []|reflexivity].
  - inversion Hnd as [|? ? Hk Ht]; subst.
    destruct (Nat.eqb k0 k) eqn:E.
    + apply Nat.eqb_eq in E. subst k0. destruct Hin as [Heq|Hin].
      * inversion Heq; subst. right. split; [reflexivity|]. left. exists n0. split; [now left|reflexivity].
      * left. split; [|now right]. intros ->. apply Hk.
        change k with (fst (k, n)). now apply in_map.
    + apply Nat.eqb_neq in E. destruct Hin as [Heq|Hin].
      * inversion Heq; subst. left. split; [exact E|now left].
      * destruct (IH _ _ Ht Hin) as [[Hne Hi]|[-> [[m [Hm ->]]|[Hn ->]]]].
        -- left. split; [exact Hne|now right].
        -- right. split; [reflexivity|]. left. exists m. split; [now right|reflexivity].
        -- right. split; [reflexivity|]. right. split; [|reflexivity].
           cbn [map fst In]. intros [H|H]; [congruence|contradiction].
Qed.

Lemma cinv_step : forall l c k, cinv l c -> cinv (l ++ [k]) (counter_add k c).
Proof.
  intros l c k (Hnd & Hcnt & Hkeys). split; [now apply nodup_counter_add|]. split.
  - intros k' n Hin. rewrite count_occ_snoc.
    destruct (in_counter_add _ _ _ _ Hnd Hin) as [[Hne Hi]|[-> [[m [Hm ->]]|[Hn ->]]]].
    + destruct (Nat.eqb k k') eqn:E; [apply Nat.eqb_eq in E; congruence|].
      rewrite (Hcnt _ _ Hi). lia.
    + rewrite Nat.eqb_refl. rewrite (Hcnt _ _ Hm). lia.
    + rewrite Nat.eqb_refl.
      assert (count_occ Nat.eq_dec l k = 0).
      { apply count_occ_not_In. intros Hi. apply Hn. now apply Hkeys. }
      lia.
  - intros k' Hin. apply keys_counter_add. apply in_app_or in Hin.
    destruct Hin as [Hin|[->|[]]]; [right; now apply Hkeys|now left].
Qed.

Lemma cinv_fold : forall l pre c, cinv pre c ->
  cinv (pre ++ l) (fold_left (fun c k => counter_add k c) l c).
Proof.
  induction l as [|k t IH]; intros pre c Hc; cbn [fold_left].
  - now rewrite app_nil_r.
  - replace (pre ++ k :: t) with ((pre ++ [k]) ++ t) by (now rewrite <- app_assoc).
    apply IH. now apply cinv_step.
Qed.

Lemma cinv_counter : forall l, cinv l (counter l).
Proof.
  intros l. unfold counter. apply (cinv_fold l [] []).
  split; [constructor|]. split; [intros ? ? []|intros ? []].
Qed.

Lemma fold_left_sum : forall (G : nat -> nat -> nat) (l : list (nat * nat)) a,
  fold_left (fun acc (e : nat * nat) => let '(b, c) := e in acc + G b c) l a
  = a + list_sum (map (fun e => G (fst e) (snd e)) l).
Proof.
  induction l as [|[b c] t IH]; intros a; cbn [fold_left map fst snd]; [cbn; lia|].
  rewrite list_sum_cons, IH. lia.
Qed.

(* ------------------------------------------------------------------------------------ *)
(* consequences of bbs_spec                                                             *)
(* ------------------------------------------------------------------------------------ *)

Section Consequences.
  Variables bk sz : nat -> nat.

  Lemma length_in_bucket : forall h s,
    length (in_bucket bk h s) = count_occ Nat.eq_dec (map bk s) h.
  Proof.
    induction s as [|i t IH]; [reflexivity|]. unfold in_bucket in *. cbn [filter map count_occ].
    destruct (Nat.eq_dec (bk i) h) as [E|E].
    - rewrite E, Nat.eqb_refl. cbn. now rewrite IH.
    - destruct (Nat.eqb (bk i) h) eqn:E'; [apply Nat.eqb_eq in E'; congruence|exact IH].
  Qed.

  (* an index only occurs in batches of its own bucket *)
  Lemma count_concat_bucket : forall out x, single_bucket bk out ->
    count_occ Nat.eq_dec (concat out) x = count_occ Nat.eq_dec (concat (batches_of bk (bk x) out)) x.
  Proof.
    induction out as [|b t IH]; intros x Hsb; [reflexivity|].
    assert (Hsbt : single_bucket bk t) by (intros b' Hb'; apply Hsb; now right).
    cbn [concat]. rewrite count_occ_app, IH by exact Hsbt.
    destruct (Nat.eq_dec (bucket_of bk b) (bk x)) as [E|E].
    - rewrite batches_of_cons_same by exact E. cbn [concat]. now rewrite count_occ_app.
    - rewrite batches_of_cons_other by exact E.
      rewrite (proj1 (count_occ_not_In Nat.eq_dec b x)); [reflexivity|].
      intros Hin. destruct (Hsb b (or_introl eq_refl)) as [_ Hall]. apply E. symmetry. now apply Hall.
  Qed.

  (* "every index the underlying sampler produced appears in exactly one batch": as counts, so
     that it also covers samplers that repeat indices *)
  Theorem spec_every_index_once : forall s out,
    bbs_spec bk sz false s out ->
    forall x, count_occ Nat.eq_dec (concat out) x = count_occ Nat.eq_dec s x.
  Proof.
    intros s out (Hsb & Hcov & _) x.
    rewrite count_concat_bucket by exact Hsb.
    destruct (Hcov (bk x)) as (rest & Heq & [->|[Hd _]]); [|discriminate].
    rewrite app_nil_r in Heq. rewrite Heq. unfold in_bucket.
    rewrite count_occ_filter. now rewrite Nat.eqb_refl.
  Qed.

  (* "... or in none only when its incomplete batch was dropped": whatever is missing sits in
     the tail of its bucket's sub-sequence, a tail shorter than the bucket's batch size *)
  Theorem spec_every_index_once_or_dropped : forall drop s out,
    bbs_spec bk sz drop s out ->
    forall x, exists rest,
      count_occ Nat.eq_dec (concat out) x + count_occ Nat.eq_dec rest x = count_occ Nat.eq_dec s x
      /\ (exists pre, in_bucket bk (bk x) s = pre ++ rest)
      /\ (rest = [] \/ (drop = true /\ length rest < sz (bk x))).
  Proof.
    intros drop s out (Hsb & Hcov & _) x.
    destruct (Hcov (bk x)) as (rest & Heq & Hrest). exists rest.
    split; [|split; [eexists; symmetry; exact Heq|exact Hrest]].
    rewrite count_concat_bucket by exact Hsb.
    rewrite <- count_occ_app, Heq. unfold in_bucket.
    rewrite count_occ_filter. now rewrite Nat.eqb_refl.
  Qed.

  (* "in sampler order": every batch is a contiguous block of its bucket's sub-sequence *)
  Theorem spec_batch_is_block : forall drop s out b,
    bbs_spec bk sz drop s out -> In b out ->
    exists pre post, in_bucket bk (bucket_of bk b) s = pre ++ b ++ post.
  Proof.
    intros drop s out b (Hsb & Hcov & _) Hin.
    destruct (Hcov (bucket_of bk b)) as (rest & Heq & _).
    assert (Hb : In b (batches_of bk (bucket_of bk b) out)).
    { unfold batches_of. apply filter_In. split; [exact Hin|apply Nat.eqb_refl]. }
    apply in_split in Hb. destruct Hb as (l1 & l2 & Hl).
    rewrite Hl, concat_app in Heq. cbn [concat] in Heq.
    exists (concat l1), (concat l2 ++ rest). rewrite <- Heq. now rewrite <- !app_assoc.
  Qed.

  Lemma spec_members : forall drop s out b x,
    bbs_spec bk sz drop s out -> In b out -> In x b -> In x s.
  Proof.
    intros drop s out b x Hspec Hb Hx.
    destruct (spec_batch_is_block _ _ _ _ Hspec Hb) as (pre & post & Heq).
    assert (Hin : In x (in_bucket bk (bucket_of bk b) s)).
    { rewrite Heq. apply in_or_app. right. apply in_or_app. now left. }
    unfold in_bucket in Hin. now apply filter_In in Hin.
  Qed.

  (* batches of one bucket: how many *)
  Definition expected_batches (drop : bool) (c size : nat) : nat :=
    if drop then c / size else (c + size - 1) / size.

  Lemma spec_batches_per_bucket : forall drop s out h,
    bbs_spec bk sz drop s out ->
    length (batches_of bk h out) = expected_batches drop (length (in_bucket bk h s)) (sz h).
  Proof.
    intros drop s out h (Hsb & Hcov & Hsz).
    destruct Hsz as (full & tr & Hout & Hfull & Hshort & Hdrop & Hsorted).
    destruct (Hcov h) as (rest & Heq & Hrest).
    subst out. rewrite batches_of_app, concat_app in Heq. rewrite batches_of_app, app_length.
    set (F := batches_of bk h full) in *. set (T := batches_of bk h tr) in *.
    assert (HF : Forall (fun b => length b = sz h) F).
    { unfold F, batches_of. rewrite Forall_forall in *. intros b Hb. apply filter_In in Hb.
      destruct Hb as [Hb E]. apply Nat.eqb_eq in E. rewrite <- E. now apply Hfull. }
    assert (HT : Forall (fun b => 0 < length b < sz h) T).
    { unfold T, batches_of. rewrite Forall_forall in *. intros b Hb. apply filter_In in Hb.
      destruct Hb as [Hb E]. apply Nat.eqb_eq in E. rewrite <- E. split; [|now apply Hshort].
      destruct (Hsb b) as [Hne _]; [apply in_or_app; now right|]. destruct b; [congruence|cbn; lia]. }
    assert (HT1 : length T <= 1) by (apply sorted_filter_le1; exact Hsorted).
    assert (HFne : sz h = 0 -> F = []).
    { intros Hz. destruct F as [|b F'] eqn:EF; [reflexivity|]. exfalso.
      assert (Hb : In b (batches_of bk h full)) by (fold F; rewrite EF; now left).
      inversion HF; subst. unfold batches_of in Hb. apply filter_In in Hb. destruct Hb as [Hb _].
      destruct (Hsb b) as [Hne _]; [apply in_or_app; now left|]. destruct b; [congruence|cbn in *; lia]. }
    pose proof (length_concat_const (sz h) F HF) as HlenF.
    assert (Hlen : length (in_bucket bk h s) = sz h * length F + length (concat T) + length rest).
    { rewrite <- Heq, !app_length. lia. }
    unfold expected_batches. rewrite Hlen. clear Hlen Heq.
    destruct drop.
    - assert (HTnil : T = []) by (unfold T; rewrite (Hdrop eq_refl); reflexivity).
      rewrite HTnil. cbn [concat length]. rewrite !Nat.add_0_r.
      destruct (Nat.eq_dec (sz h) 0) as [Hz|Hnz].
      + rewrite (HFne Hz), Hz. reflexivity.
      + assert (Hr : length rest < sz h) by (destruct Hrest as [->|[_ H]]; cbn; lia).
        apply Nat.div_unique with (r := length rest); lia.
    - assert (Hr : rest = []) by (destruct Hrest as [H|[H _]]; [exact H|discriminate]). subst rest. cbn [length].
      destruct (Nat.eq_dec (sz h) 0) as [Hz|Hnz].
      + rewrite (HFne Hz), Hz. destruct T as [|b T']; [reflexivity|]. inversion HT; subst. lia.
      + destruct T as [|b [|b' T']]; cbn [concat length] in *.
        * apply Nat.div_unique with (r := sz h - 1); lia.
        * inversion HT as [|? ? Hb _]; subst. rewrite app_nil_r.
          apply Nat.div_unique with (r := length b - 1); lia.
        * lia.
  Qed.

  (* "report as their length the number of batches they actually yield" *)
  Theorem spec_len_eq_number_of_batches : forall drop s out,
    bbs_spec bk sz drop s out -> sampler_len bk sz drop s = length out.
  Proof.
    intros drop s out Hspec. unfold sampler_len.
    destruct (cinv_counter (map bk s)) as (Hnd & Hcnt & Hkeys).
    set (c := counter (map bk s)) in *.
    rewrite (fold_left_sum (fun b n => if drop then n / sz b else (n + sz b - 1) / sz b)).
    cbn [Nat.add].
    rewrite (length_by_key (bucket_of bk) out (map fst c) Hnd).
    - rewrite map_map. f_equal. apply map_ext_in. intros [k n] Hin. cbn [fst snd].
      fold (batches_of bk k out). rewrite (spec_batches_per_bucket _ _ _ _ Hspec).
      rewrite length_in_bucket, <- (Hcnt _ _ Hin). reflexivity.
    - intros b Hb. apply Hkeys. destruct Hspec as (Hsb & Hrest).
      destruct (Hsb b Hb) as [Hne Hall]. destruct b as [|x l]; [congruence|].
      unfold bucket_of. cbn [hd]. apply in_map.
      eapply (spec_members drop s out (x :: l) x); [split; eassumption|exact Hb|now left].
  Qed.
End Consequences.

(* ------------------------------------------------------------------------------------ *)
(* len() does not depend on the order of the epoch: caching it is sound when every epoch *)
(* presents the same indices                                                             *)
(* ------------------------------------------------------------------------------------ *)

From Coq Require Import Sorting.Permutation.

Lemma list_sum_perm : forall l l', Permutation l l' -> list_sum l = list_sum l'.
Proof. induction 1; rewrite ?list_sum_cons; try lia; reflexivity. Qed.

Lemma counter_add_pos : forall k c, (forall k' n, In (k', n) c -> 0 < n) ->
  forall k' n, In (k', n) (counter_add k c) -> 0 < n.
Proof.
  induction c as [|[k0 n0] t IH]; intros Hpos k' n Hin; cbn [counter_add] in Hin.
  - destruct Hin as [Heq|[]]. inversion Heq. lia.
  - destruct (Nat.eqb k0 k).
    + destruct Hin as [Heq|Hin]; [inversion Heq; lia|]. apply (Hpos k' n). now right.
    + destruct Hin as [Heq|Hin]; [inversion Heq; subst; apply (Hpos k' n); now left|].
      apply (IH (fun k1 n1 H => Hpos k1 n1 (or_intror H)) _ _ Hin).
Qed.

Lemma counter_pos : forall l k n, In (k, n) (counter l) -> 0 < n.
Proof.
  intros l. unfold counter.
  assert (H : forall l c, (forall k n, In (k, n) c -> 0 < n) ->
              forall k n, In (k, n) (fold_left (fun c k => counter_add k c) l c) -> 0 < n).
  { induction l0 as [|x t IH]; intros c Hc k n Hin; cbn [fold_left] in Hin; [now apply (Hc k n)|].
    apply (IH (counter_add x c)) in Hin; [exact Hin|]. now apply counter_add_pos. }
  apply H. intros k n [].
Qed.

Lemma counter_keys : forall l k, In k (map fst (counter l)) <-> In k l.
Proof.
  intros l k. destruct (cinv_counter l) as (_ & Hcnt & Hkeys). split; [|apply Hkeys].
  intros Hin. apply in_map_iff in Hin. destruct Hin as ([k' n] & <- & Hin). cbn [fst].
  pose proof (counter_pos _ _ _ Hin) as Hpos. rewrite (Hcnt _ _ Hin) in Hpos.
  now apply (count_occ_In Nat.eq_dec).
Qed.

Section LenInvariant.
  Variables bk sz : nat -> nat.

  Lemma sampler_len_sum : forall drop s,
    sampler_len bk sz drop s
    = list_sum (map (fun k => expected_batches drop (count_occ Nat.eq_dec (map bk s) k) (sz k))
                    (map fst (counter (map bk s)))).
  Proof.
    intros drop s. unfold sampler_len.
    destruct (cinv_counter (map bk s)) as (_ & Hcnt & _).
    rewrite (fold_left_sum (fun b n => if drop then n / sz b else (n + sz b - 1) / sz b)). cbn [Nat.add].
    rewrite map_map. f_equal. apply map_ext_in. intros [k n] Hin. cbn [fst snd].
    rewrite <- (Hcnt _ _ Hin). reflexivity.
  Qed.

  Theorem sampler_len_perm : forall drop s s', Permutation s s' ->
    sampler_len bk sz drop s = sampler_len bk sz drop s'.
  Proof.
    intros drop s s' Hp. rewrite !sampler_len_sum.
    assert (Hm : Permutation (map bk s) (map bk s')) by now apply Permutation_map.
    assert (Hk : Permutation (map fst (counter (map bk s))) (map fst (counter (map bk s')))).
    { apply NoDup_Permutation; [apply cinv_counter|apply cinv_counter|].
      intros k. rewrite !counter_keys. split; apply Permutation_in; [exact Hm|now symmetry]. }
    rewrite (list_sum_perm _ _ (Permutation_map _ Hk)).
    f_equal. apply map_ext. intros k.
    now rewrite (proj1 (Permutation_count_occ Nat.eq_dec _ _) Hm k).
  Qed.
End LenInvariant.
