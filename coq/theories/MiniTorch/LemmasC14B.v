(* Lemmas about PV.MiniTorch.OpsC14B (sequence-encoded tensors) and the integer fragment of MiniPy.Interp they are
   used with.  No new definitions of semantics. *)
From Coq Require Import ZArith QArith List String Bool Arith Lia.
From PV Require Import MiniPy.Syntax MiniPy.Interp MiniTorch.OpsC14B.
Import ListNotations.
Local Open Scope string_scope.
Local Open Scope list_scope.

(* ---- integers of the interpreter ------------------------------------------------------------------------------ *)
Lemma qcmp_int a b : (inject_Z a ?= inject_Z b)%Q = (a ?= b)%Z.
Proof. unfold Qcompare. cbn [Qnum Qden inject_Z]. rewrite !Z.mul_1_r. reflexivity. Qed.

Lemma cmp_lt_int a b : cmp_eval Lt (VInt a) (VInt b) = Some (a <? b)%Z.
Proof. cbn. rewrite qcmp_int. unfold Z.ltb. destruct (a ?= b)%Z; reflexivity. Qed.

Lemma cmp_gt_int a b : cmp_eval Gt (VInt a) (VInt b) = Some (b <? a)%Z.
Proof.
  cbn. rewrite qcmp_int. unfold Z.ltb. rewrite (Z.compare_antisym a b). destruct (a ?= b)%Z; reflexivity.
Qed.

Lemma cmp_eq_int a b : cmp_eval Eq (VInt a) (VInt b) = Some (a =? b)%Z.
Proof. reflexivity. Qed.

Lemma max_int a b st : extreme_of true [VInt a; VInt b] st = Ok (VInt (Z.max a b)) st.
Proof.
  unfold extreme_of, q_extreme. rewrite cmp_gt_int. unfold Z.max, Z.ltb.
  destruct (a ?= b)%Z; reflexivity.
Qed.

Lemma nat_of_int z : (0 <= z)%Z -> VInt z = VInt (Z.of_nat (Z.to_nat z)).
Proof. intros. rewrite Z2Nat.id by assumption. reflexivity. Qed.

(* ---- cells, rows ----------------------------------------------------------------------------------------------------- *)
Lemma cells_ints (r : list Z) : forallb is_cell (map VInt r) = true.
Proof. induction r as [|x r IH]; [reflexivity|exact IH]. Qed.

(* ---- lists ------------------------------------------------------------------------------------------------------------- *)
Lemma cut_map {A B} (f : A -> B) (l : list A) lo hi : cut (map f l) lo hi = map f (cut l lo hi).
Proof. unfold cut. rewrite skipn_map, firstn_map. reflexivity. Qed.

Lemma cut_length {A} (l : list A) lo hi : List.length (cut l lo hi) = Nat.min (hi - lo) (List.length l - lo).
Proof. unfold cut. rewrite firstn_length, skipn_length. reflexivity. Qed.

Lemma firstn_app_exact {A} (a b : list A) n : List.length a = n -> firstn n (a ++ b) = a.
Proof. intros <-. rewrite firstn_app, Nat.sub_diag, firstn_all. cbn. apply app_nil_r. Qed.

Lemma skipn_app_exact {A} (a b : list A) n : List.length a = n -> skipn n (a ++ b) = b.
Proof. intros <-. rewrite skipn_app, Nat.sub_diag, skipn_all. reflexivity. Qed.

Lemma hd_map {A B} (f : A -> B) (l : list A) d : hd (f d) (map f l) = f (hd d l).
Proof. destruct l; reflexivity. Qed.

Lemma last_map {A B} (f : A -> B) (l : list A) d : last (map f l) (f d) = f (last l d).
Proof.
  induction l as [|x t IH]; [reflexivity|]. destruct t as [|y t']; [reflexivity|].
  change (last (map f (x :: y :: t')) (f d)) with (last (map f (y :: t')) (f d)). rewrite IH. reflexivity.
Qed.

Lemma nth_last {A} (l : list A) d : nth (List.length l - 1) l d = last l d.
Proof.
  induction l as [|x t IH]; [reflexivity|]. destruct t as [|y t']; [reflexivity|].
  change (last (x :: y :: t') d) with (last (y :: t') d). rewrite <- IH. cbn [List.length].
  replace (S (S (List.length t')) - 1)%nat with (S (S (List.length t') - 1)) by lia. reflexivity.
Qed.

Lemma map_repeat {A B} (f : A -> B) x n : map f (repeat x n) = repeat (f x) n.
Proof. induction n as [|n IH]; [reflexivity|]. cbn. rewrite IH. reflexivity. Qed.

(* ---- slices ---------------------------------------------------------------------------------------------------------- *)
Definition slice_key (a b : val) : val := VTuple [VStr "$slice"; a; b; VNone].

Lemma slice_bounds_key n a b :
  slice_bounds n (slice_key a b) =
  match norm_bound (Z.of_nat n) 0 a, norm_bound (Z.of_nat n) (Z.of_nat n) b with
  | Some lo, Some hi => Some (Z.to_nat lo, Z.to_nat hi)
  | _, _ => None
  end.
Proof. reflexivity. Qed.

(* a:b with 0 <= a, 0 <= b *)
Lemma slice_bounds_pos n a b : (0 <= a)%Z -> (0 <= b)%Z ->
  slice_bounds n (slice_key (VInt a) (VInt b)) = Some (Nat.min (Z.to_nat a) n, Nat.min (Z.to_nat b) n).
Proof.
  intros Ha Hb. rewrite slice_bounds_key. cbn [norm_bound].
  destruct (a <? 0)%Z eqn:E1; [lia|]. destruct (b <? 0)%Z eqn:E2; [lia|].
  f_equal. f_equal; lia.
Qed.

(* :b with 0 <= b *)
Lemma slice_bounds_to n b : (0 <= b)%Z ->
  slice_bounds n (slice_key VNone (VInt b)) = Some (0%nat, Nat.min (Z.to_nat b) n).
Proof.
  intros Hb. rewrite slice_bounds_key. cbn [norm_bound]. destruct (b <? 0)%Z eqn:E2; [lia|].
  f_equal. f_equal; lia.
Qed.

(* -a: with 0 < a *)
Lemma slice_bounds_from_end n a : (0 < a)%Z ->
  slice_bounds n (slice_key (VInt (- a)) VNone) = Some ((n - Z.to_nat a)%nat, n).
Proof.
  intros Ha. rewrite slice_bounds_key. cbn [norm_bound]. destruct (- a <? 0)%Z eqn:E; [|lia].
  f_equal. f_equal; lia.
Qed.
