(* MiniTorch, unit C08B - the meaning given to the torch operations that occur in the translated
   `spec_augment_apply_parameters`, `warp_1d_grid` and `spec_augment` (src/pydrobert/torch/_img.py) and that
   MiniTorch.OpsC08 (the unit of `spec_augment_draw_parameters`) does not define yet.  NEW DEFINITIONS ONLY;
   OpsC08's tensors [tn X] (shape, row-major data), its element types (Q = the exact rational a float is,
   Z = long, bool) and its float32 convention (every float32 element operation is followed by the model's
   [r32 a]; a Python number meeting a float32 tensor is first converted, [sc a s]) are reused as they are.
   The algebra is in LemmasC08B.v.

   New here:
     * operands of up to THREE dimensions ([as3], [bc3]: the broadcasting rule of OpsC08.bc2 with one more
       leading dimension), needed by the interval masks (1,T,1) >= (N,1,M), (N,T,1) | (N,1,F);
     * a fourth element type: OPAQUE CELLS (any MiniPy value), for the feature tensor whose cells the code only
       moves or overwrites with 0.0 (`masked_fill`); tagged "$tensor.cells", carries torch.finfo(dtype).eps;
     * `any`, `&`, `|`, `>=`, `<`, `+` on long / bool tensors, `stack`, `expand`, `squeeze`, `torch.min`,
       `clamp_min`, `max`, long * Python float.
   Every operation returns [None] outside the domain stated with it; the unit's [ext] turns [None] into
   [Stuck] (fail-closed).  Each definition quotes the sentence of the torch documentation (2.x) it models.
   This file is TRUSTED by the second C08 tie; it is exercised on every run by the harness-side
   [SrcRunB.src_*_check] against torch on the run's cases. *)
From Coq Require Import List ZArith QArith Qround Bool Arith String.
From PV Require Import MiniPy.Syntax MiniTorch.Ops MiniTorch.OpsC08.
From PV Require C08.Model.
Import ListNotations.
Local Open Scope nat_scope.

(* ---- three dimensions ------------------------------------------------------------------------------ *)
(* the n x m x k table (f i j h), row-major, and row-major access with [m] rows of [k] columns per slab *)
Definition tabl3 {X} (n m k : nat) (f : nat -> nat -> nat -> X) : list X :=
  flat_map (fun i => tabl m k (f i)) (seq 0 n).
Definition get3 {X} (d : X) (m k : nat) (l : list X) (i j h : nat) : X := nth ((i * m + j) * k + h) l d.
Definition T3 {X} (n m k : nat) (f : nat -> nat -> nat -> X) : tn X := mkTn [n; m; k] (tabl3 n m k f).

(* Broadcasting semantics ("Two tensors are broadcastable if ... when iterating over the dimension sizes,
   starting at the trailing dimension, the dimension sizes must either be equal, one of them is 1, or one of
   them does not exist"; along a dimension of size 1 the single element is repeated; a missing leading
   dimension counts as size 1) for operands of AT MOST THREE dimensions ([Ops.bdim], [Ops.bidx]: the size /
   index rules of MiniTorch.Ops.broadcast2). *)
Definition as3 (sh : list nat) : option (nat * nat * nat) :=
  match sh with
  | [] => Some (1, 1, 1)
  | [k] => Some (1, 1, k)
  | [m; k] => Some (1, m, k)
  | [n; m; k] => Some (n, m, k)
  | _ => None
  end.

Definition bc3 {X Y W} (dx : X) (dy : Y) (f : X -> Y -> W) (a : tn X) (b : tn Y) : option (tn W) :=
  match as3 (shp a), as3 (shp b) with
  | Some (na, ma, ka), Some (nb, mb, kb) =>
      match bdim na nb, bdim ma mb, bdim ka kb with
      | Some n, Some m, Some k =>
          Some (mkTn (skipn (3 - Nat.max (List.length (shp a)) (List.length (shp b))) [n; m; k])
                  (tabl3 n m k (fun i j h => f (get3 dx ma ka (dat a) (bidx na i) (bidx ma j) (bidx ka h))
                                                (get3 dy mb kb (dat b) (bidx nb i) (bidx mb j) (bidx kb h)))))
      | _, _, _ => None
      end
  | _, _ => None
  end.

(* ---- long / bool tensors ---------------------------------------------------------------------------- *)
(* torch.arange(end) with an int end and no dtype: "values from the interval [start, end) taken with common
   difference step beginning from start" (start 0, step 1); the dtype is inferred: torch.int64 *)
Definition arange_l (n : nat) : tn Z := T1 n (fun i => Z.of_nat i).

(* torch.full(size, fill_value, dtype=torch.long): "Creates a tensor of size size filled with fill_value",
   for a 1-D size (n,) and an integer fill value *)
Definition full_l (n : nat) (v : Z) : tn Z := T1 n (fun _ => v).

(* long + long = torch.add(input, other): "out_i = input_i + other_i", with broadcasting; exact (no int64
   wrap-around) *)
Definition add_l (x y : tn Z) : option (tn Z) := bc3 0%Z 0%Z Z.add x y.

(* a >= b, a < b on long tensors = torch.ge / torch.lt(input, other): "Computes input >= other (input < other)
   element-wise", with broadcasting; the result is a boolean tensor *)
Definition ge_l (x y : tn Z) : option (tn bool) := bc3 0%Z 0%Z Z.geb x y.
Definition lt_l (x y : tn Z) : option (tn bool) := bc3 0%Z 0%Z Z.ltb x y.

(* a & b, a | b on bool tensors = torch.bitwise_and / bitwise_or: "Computes the bitwise AND (OR) of input and
   other.  The input tensor must be of integral or Boolean types.  For bool tensors, it computes the logical
   AND (OR)", with broadcasting *)
Definition and_b (x y : tn bool) : option (tn bool) := bc3 false false andb x y.
Definition or_b (x y : tn bool) : option (tn bool) := bc3 false false orb x y.

(* Tensor.any(dim, keepdim=False): "For each row of input in the given dimension dim, returns True if any
   element in the row evaluate to True and False otherwise.  If keepdim is True, the output tensor is of the
   same size as input except in the dimension dim where it is of size 1.  Otherwise, dim is squeezed".
   Modelled for a 3-D tensor and its LAST dimension (the one use: the mask columns). *)
Definition any_last (x : tn bool) (d : Z) (keepdim : bool) : option (tn bool) :=
  match shp x, wrap_dim 3 d with
  | [n; m; k], Some 2 =>
      Some (mkTn (if keepdim then [n; m; 1] else [n; m])
              (tabl n m (fun i j => existsb (fun h => get3 false m k (dat x) i j h) (seq 0 k))))
  | _, _ => None
  end.

(* Tensor.numel(): "Returns the total number of elements in the input tensor." *)
(* = OpsC08.numel (shp x) *)

(* Tensor.masked_fill(mask, value): "Fills elements of self tensor with value where mask is True.  The shape
   of mask must be broadcastable with the shape of the underlying tensor."  The result has self's shape: a
   mask that would enlarge it is outside the domain (torch raises). *)
Definition masked_fill_c (x : tn val) (m : tn bool) (v : val) : option (tn val) :=
  match bc3 VNone false (fun c (b : bool) => if b then v else c) x m with
  | Some r => if nats_eqb (shp r) (shp x) then Some r else None
  | None => None
  end.

(* ---- shape operations (any element type) -------------------------------------------------------------- *)
(* Tensor.squeeze(dim): "Returns a tensor with all specified dimensions of input of size 1 removed. ... When
   dim is given, a squeeze operation is done only in the given dimension" (a dimension of another size is
   left as it is).  The row-major data are unchanged. *)
Definition squeeze {X} (x : tn X) (d : Z) : option (tn X) :=
  match wrap_dim (List.length (shp x)) d with
  | Some k => Some (if Nat.eqb (nth k (shp x) 0) 1 then mkTn (firstn k (shp x) ++ skipn (S k) (shp x)) (dat x) else x)
  | None => None
  end.

(* Tensor.expand(sizes...): "Returns a new view of the self tensor with singleton dimensions expanded to a
   larger size. ... " - modelled for as many sizes as self has dimensions (at most three), each equal to
   self's size or self's size being 1 (then the single element is repeated); no -1 *)
Definition exp_ok (a b : nat) : bool := Nat.eqb a b || Nat.eqb a 1.
Definition expand {X} (d : X) (x : tn X) (sz : list nat) : option (tn X) :=
  if Nat.eqb (List.length (shp x)) (List.length sz) then
    match as3 (shp x), as3 sz with
    | Some (na, ma, ka), Some (n, m, k) =>
        if exp_ok na n && exp_ok ma m && exp_ok ka k
        then Some (mkTn sz (tabl3 n m k (fun i j h => get3 d ma ka (dat x) (bidx na i) (bidx ma j) (bidx ka h))))
        else None
    | _, _ => None
    end
  else None.

(* torch.stack(tensors, dim): "Concatenates a sequence of tensors along a new dimension.  All tensors need to
   be of the same size."  Modelled for dim = the NEW LAST dimension (dim = the tensors' common number of
   dimensions): out[..., j] = tensors[j][...] *)
Fixpoint all_shape (sh : list nat) {X} (xs : list (tn X)) : bool :=
  match xs with [] => true | x :: r => nats_eqb (shp x) sh && all_shape sh r end.
Definition stack_last {X} (d : X) (xs : list (tn X)) (dim : Z) : option (tn X) :=
  match xs with
  | [] => None
  | x0 :: _ =>
      let sh := shp x0 in
      if all_shape sh xs && (dim =? Z.of_nat (List.length sh))%Z
      then Some (mkTn (sh ++ [List.length xs])
                   (flat_map (fun i => map (fun x => nth i (dat x) d) xs) (seq 0 (numel sh))))
      else None
  end.

(* ---- float32 tensors (rounding [r32 a], see OpsC08) ------------------------------------------------- *)
Section Arith.
  Variable a : Model.arith.
  Notation r32 := (Model.r32 a).
  Local Open Scope Q_scope.

  (* Tensor.float() on a floating-point tensor: "self.float() is equivalent to self.to(torch.float32)": every
     element is rounded to float32 (the identity on a float32 tensor) *)
  Definition float_of_float (x : tn Q) : tn Q := tmap (fun q => r32 q) x.

  (* torch.full(size, fill_value, dtype=torch.float) for a 1-D size (n,) and a Python float fill value *)
  Definition full_q (n : nat) (q : Q) : tn Q := T1 n (fun _ => r32 q).

  (* torch.min(input, other) = torch.minimum: "Computes the element-wise minimum of input and other", with
     broadcasting (<= 2-D); exact *)
  Definition min_t (x y : tn Q) : option (tn Q) := bc2 0 0 Model.qmin x y.

  (* Tensor.clamp_min(min) = torch.clamp(input, min=min): y_i = max(x_i, min), the Python number converted to
     float32 *)
  Definition clamp_min (x : tn Q) (s : Q) : tn Q := tmap (fun q => Model.qmax q (sc a s)) x.

  (* long tensor * Python float: type promotion gives the default dtype float32; both operands are converted,
     the product is rounded *)
  Definition mul_ls (t : tn Z) (s : Q) : tn Q := tmap (fun z => r32 (r32 (Model.z2q z) * sc a s)) t.

  (* Tensor.max() without arguments: "Returns the maximum value of all elements in the input tensor" (a 0-d
     tensor, read by .item() as a Python float).  None: no element (torch raises). *)
  Definition max_all (x : tn Q) : option Q :=
    match dat x with [] => None | q :: r => Some (fold_left Model.qmax r q) end.
End Arith.

(* math.ceil(x) for a Python float: "the smallest integer greater than or equal to x" *)
Definition ceil_q (q : Q) : Z := (- Qfloor (- q))%Z.

(* ---- the feature tensor: opaque cells ------------------------------------------------------------------ *)
Local Open Scope string_scope.
Definition tag_cells : string := "$tensor.cells".
Definition enc_c (eps : Q) (t : tn val) : val :=
  VTuple [VStr tag_cells; enc_shape (shp t); VList (dat t); VQ eps].
Definition dec_c (v : val) : option (tn val * Q) :=
  match v with
  | VTuple [VStr tag; VList sh; VList d; VQ eps] =>
      if String.eqb tag tag_cells then option_map (fun s => (mkTn s d, eps)) (dec_nats sh) else None
  | _ => None
  end.
