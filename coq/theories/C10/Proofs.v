From Coq Require Import List ZArith Bool Lia.
From PV Require Import C10.Model C10.Spec.
Import ListNotations.
Local Open Scope Z_scope.

Lemma relative_boundaries_refuted_stub :
  fst (chunk_tokens as_coded [[(8, 2, 5)]] [(2, 9)] None false false) = [[(8, 4, 7)]].
Proof. vm_compute. reflexivity. Qed.
