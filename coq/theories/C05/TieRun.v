(* C05 — tie, part 1: the MiniPy term of `ctc_prefix_search_advance` (PV.Gen.C05Src.cpsa_body, regenerated from
   /repo on every run), interpreted with [SrcRun.ext05 sel], IS the tensor program [adv_tensor sel] below - a
   straight-line composition of the operations of PV.MiniTorch.OpsC05 - for EVERY topk oracle and EVERY tuple of
   argument tensors of the shapes the function asks for ((N,K',V), (N,V), (N), (N,K') x 2, (S,N,K'), (N,K') x 2,
   (N,K',K')), any data, and every width >= 1: the same seven tensors, outside the modelled domain together
   ([sim]).  Nothing here knows the model; part 2 (Tie.v) evaluates [adv_tensor] on the encoding of the model's
   frame and beam.  If the source is edited, the regenerated term changes and this file is re-checked against it. *)
From Coq Require Import ZArith QArith Qcanon List String Bool Arith Lia ZifyBool ZifyNat.
From PV Require Import MiniPy.Syntax MiniPy.Interp MiniPy.Lemmas MiniTorch.Ops MiniTorch.OpsC05 Gen.C05Src.
From PV Require Import C05.Model C05.SrcRun.
Import ListNotations.
Local Open Scope string_scope.

(* ---- the tensor program ------------------------------------------------------------------------------ *)
Record outs := mkOuts
  { o_y : tn Z; o_last : tn Z; o_lens : tn Z; o_nb : tn mass; o_b : tn mass; o_isp : tn bool; o_src : tn Z;
    o_nonext : tn bool }.

Definition enc_outs (o : outs) : val :=
  VTuple [enc_i (o_y o); enc_i (o_last o); enc_i (o_lens o); VTuple [enc_f (o_nb o); enc_f (o_b o)];
          enc_b (o_isp o); enc_i (o_src o); enc_b (o_nonext o)].

Definition bo {A B} (o : option A) (k : A -> option B) : option B := match o with Some a => k a | None => None end.
Notation "'do' x <- o ; k" := (bo o (fun x => k)) (at level 200, x pattern, right associativity).

Definition F0 : mass := Fin (Q2Qc 0).

Local Open Scope Z_scope.

Section Program.
Variable sel : nat -> list mass -> nat -> list nat.
Variables N Kp V tm1 : nat.
Let zN := Z.of_nat N.
Let zKp := Z.of_nat Kp.
Let zV := Z.of_nat V.
Let ztm1 := Z.of_nat tm1.

(* candidates: invalid_prev ... nb_nonext_probs_cand (first version) *)
Record cands := mkCands { c_invalid : tn bool; c_last : tn Z; c_nbext : tn mass; c_bnon : tn mass; c_nbnon : tn mass }.

Definition adv_cands (ext nonext blank nb b : tn mass) (last : tn Z) : option cands :=
  do s0 <- fadd nb b;
  let invalid := feq_neginf s0 in
  do nb1 <- masked_fill NegInf nb invalid F0;
  do b1 <- masked_fill NegInf b invalid F0;
  do tot <- fadd nb1 b1;
  let last1 := iclamp last (Some 0) (Some (zV - 1)) in
  do u1 <- unsqueeze NegInf nb1 2;
  do e1 <- expand NegInf u1 [zN; zKp; zV];
  do lu <- unsqueeze 0 last1 2;
  do sc <- scatter_value NegInf e1 2 lu F0;
  do bu <- unsqueeze NegInf b1 2;
  do a1 <- fadd sc bu;
  do nbext <- fmul a1 ext;
  do blu <- unsqueeze NegInf blank 1;
  do bnon <- fmul tot blu;
  do g1 <- gather NegInf nonext 1 last1;
  do nbnon <- fmul nb1 g1;
  Some (mkCands invalid last1 nbext bnon nbnon).

(* to_match *)
Definition adv_to_match (y lens : tn Z) : option (tn Z) :=
  if negb (ztm1 =? 0) then
    let c1 := iclamp lens None (Some (ztm1 - 1)) in
    do c2 <- unsqueeze 0 c1 2;
    do c3 <- expand 0 c2 [zN; zKp; zKp];
    do c4 <- transpose 0 c3 0 1;
    do c5 <- gather 0 y 0 c4;
    do c6 <- transpose 0 c5 0 1;
    Some (iclamp c6 (Some 0) (Some (zV - 1)))
  else full [zN; zKp; zKp] 0.

(* ext_is_exact, the merge into the non-extending candidates, has_match, -inf refill, tot_probs_cand *)
Record merged := mkMerged { m_nbext : tn mass; m_nbnon : tn mass; m_cand : tn mass }.

Definition adv_merge (c : cands) (tm lens : tn Z) (isp : tn bool) : option merged :=
  let l1 := iadd_s lens 1 in
  do l2 <- unsqueeze 0 l1 2;
  do l3 <- unsqueeze 0 lens 1;
  do eq <- ieq l2 l3;
  do exact <- band eq isp;
  do g2 <- gather NegInf (c_nbext c) 2 tm;
  let nex := bnot exact in
  do mf <- masked_fill NegInf g2 nex F0;
  do sm <- fsum mf 1;
  do nbnon2 <- fadd (c_nbnon c) sm;
  do oh <- one_hot tm zV;
  let ohb := to_bool oh in
  do eu <- unsqueeze false exact 3;
  do hb <- band ohb eu;
  do hm <- bany hb 2;
  do nbext2 <- masked_fill NegInf (c_nbext c) hm NegInf;
  do iu <- unsqueeze false (c_invalid c) 2;
  do nbext3 <- masked_fill NegInf nbext2 iu NegInf;
  do nbnon3 <- masked_fill NegInf nbnon2 (c_invalid c) NegInf;
  do vw <- view_merge NegInf nbext3 [zN; zKp * zV];
  do s2 <- fadd nbnon3 (c_bnon c);
  do cd <- cat2 NegInf vw s2 1;
  Some (mkMerged nbext3 nbnon3 cd).

(* topk, next_is_nonext, next_src, next_ext, y_next, y_next_lens, probabilities, y_next_last *)
Record chosen := mkChosen
  { h_isnon : tn bool; h_src : tn Z; h_ext : tn Z; h_y : tn Z; h_lens : tn Z; h_nb : tn mass; h_b : tn mass;
    h_last : tn Z }.

Definition adv_choose (K : Z) (c : cands) (m : merged) (y lens : tn Z) : option chosen :=
  do (_, ind) <- topk sel (m_cand m) K 1;
  let isnon := ige_s ind (zKp * zV) in
  let sub1 := isub_s ind (zKp * zV) in
  do td <- itrunc_div_s ind zV;
  do src <- where_ 0 isnon sub1 td;
  do next_ext <- irem_s ind zV;
  do plens <- gather 0 lens 1 src;
  do su <- unsqueeze 0 src 0;
  do se <- expand 0 su [ztm1; zN; K];
  do yg <- gather 0 y 2 se;
  do em <- full [1; zN; K] 0;
  do yc <- cat2 0 yg em 0;
  do pu <- unsqueeze 0 plens 0;
  do xu <- unsqueeze 0 next_ext 0;
  do ynext <- scatter_src 0 yc 0 pu xu;
  let nnon := bnot isnon in
  do ylens <- iadd_b plens nnon;
  do vw2 <- view_merge NegInf (m_nbext m) [zN; zKp * zV];
  let ci := iclamp ind None (Some (zKp * zV - 1)) in
  do nben <- gather NegInf vw2 1 ci;
  do nbnn <- gather NegInf (m_nbnon m) 1 src;
  do nbnext <- where_ NegInf isnon nbnn nben;
  do bg <- gather NegInf (c_bnon c) 1 src;
  let nnon2 := bnot isnon in
  do bnext <- masked_fill NegInf bg nnon2 F0;
  do lg <- gather 0 (c_last c) 1 src;
  do m1 <- imul_b lg isnon;
  let nnon3 := bnot isnon in
  do m2 <- imul_b next_ext nnon3;
  do ylast <- iadd m1 m2;
  Some (mkChosen isnon src next_ext ynext ylens nbnext bnext ylast).

(* next_is_prefix *)
Definition adv_prefix (K : Z) (h : chosen) (isp : tn bool) : option (tn bool) :=
  do s2u <- unsqueeze 0 (h_src h) 2;
  do s2e <- expand 0 s2u [zN; K; zKp];
  do p1 <- gather false isp 1 s2e;
  do s1u <- unsqueeze 0 (h_src h) 1;
  do s1e <- expand 0 s1u [zN; K; K];
  do npp <- gather false p1 2 s1e;
  do yl2 <- unsqueeze 0 (h_lens h) 2;
  do yl1 <- unsqueeze 0 (h_lens h) 1;
  do leq <- ile yl2 yl1;
  let d1 := isub_s (h_lens h) 1 in
  let d2 := iclamp d1 (Some 0) None in
  do d3 <- unsqueeze 0 d2 2;
  do d4 <- expand 0 d3 [zN; K; K];
  do d5 <- transpose 0 d4 0 1;
  do d6 <- gather 0 (h_y h) 0 d5;
  do ntm <- transpose 0 d6 0 1;
  do xe2 <- unsqueeze 0 (h_ext h) 2;
  do nem <- ieq ntm xe2;
  do a <- band npp leq;
  do nu <- unsqueeze false (h_isnon h) 2;
  do nu2 <- unsqueeze false (h_isnon h) 2;
  let nnu := bnot nu2 in
  do bm <- band nnu nem;
  do bor_ <- bor nu bm;
  band a bor_.

(* `if K < width:` ... `return (...)` *)
Definition adv_pad (w K : Z) (h : chosen) (nip : tn bool) : option outs :=
  if K <? w then
    let rem := w - K in
    do ne <- full [ztm1 + 1; zN; rem] 0;
    do ynext' <- cat2 0 (h_y h) ne 2;
    do zeros <- full [zN; rem] 0;
    do ylast' <- cat2 0 (h_last h) zeros 1;
    do ylens' <- cat2 0 (h_lens h) zeros 1;
    do ninf <- full [zN; rem] NegInf;
    do nbnext' <- cat2 NegInf (h_nb h) ninf 1;
    do bnext' <- cat2 NegInf (h_b h) ninf 1;
    do false_ <- full [zN; rem] false;
    do isnon' <- cat2 false (h_isnon h) false_ 1;
    do f1 <- unsqueeze false false_ 1;
    do f1e <- expand false f1 [zN; K; rem];
    do nip1 <- cat2 false nip f1e 2;
    do f2 <- unsqueeze false false_ 2;
    do f2e <- expand false f2 [zN; rem; w];
    do nip2 <- cat2 false nip1 f2e 1;
    do src' <- cat2 0 (h_src h) zeros 1;
    Some (mkOuts ynext' ylast' ylens' nbnext' bnext' nip2 src' isnon')
  else Some (mkOuts (h_y h) (h_last h) (h_lens h) (h_nb h) (h_b h) nip (h_src h) (h_isnon h)).

Definition adv_tensor (ext nonext blank : tn mass) (w : Z) (nb b : tn mass) (y last lens : tn Z) (isp : tn bool)
  : option outs :=
  let K := Z.min w (zKp * (zV + 1)) in
  do c <- adv_cands ext nonext blank nb b last;
  do tm <- adv_to_match y lens;
  do m <- adv_merge c tm lens isp;
  do h <- adv_choose K c m y lens;
  do nip <- adv_prefix K h isp;
  adv_pad w K h nip.
End Program.

Local Close Scope Z_scope.

(* the interpreter's outcome and the tensor program's agree *)
Definition sim (o : outcome val) (r : option outs) : Prop :=
  match o, r with
  | Ok v _, Some x => v = enc_outs x
  | Stuck _, None => True
  | _, _ => False
  end.

(* ---- values -------------------------------------------------------------------------------------------- *)
Lemma dec_nats_enc sh : dec_nats (enc_shape sh) = Some sh.
Proof.
  induction sh as [|n r IH]; [reflexivity|]. cbn [enc_shape map dec_nats vnat]. fold (enc_shape r). rewrite IH.
  replace (0 <=? Z.of_nat n)%Z with true by lia. cbn. now rewrite Nat2Z.id.
Qed.

Lemma Q2Qc_this (q : Qc) : Q2Qc (this q) = q.
Proof. apply Qc_is_canon. cbn. apply Qred_correct. Qed.

Lemma dm_em m : dm (em m) = Some m.
Proof. destruct m as [|q]; [reflexivity|]. cbn. now rewrite Q2Qc_this. Qed.

Lemma dec_list_map {X} (f : val -> option X) (g : X -> val) l :
  (forall x, f (g x) = Some x) -> dec_list f (map g l) = Some l.
Proof. intros H. induction l as [|x l IH]; [reflexivity|]. cbn [map dec_list]. now rewrite H, IH. Qed.

Lemma dec_enc_f t : dec (enc_f t) = Some (TF t).
Proof.
  destruct t as [sh d]. unfold dec, enc_f. cbn [shp dat]. rewrite dec_nats_enc.
  cbn [String.eqb tag_f]. change (String.eqb tag_f tag_f) with true. cbn iota.
  now rewrite (dec_list_map dm em d dm_em).
Qed.
Lemma dec_enc_i t : dec (enc_i t) = Some (TI t).
Proof.
  destruct t as [sh d]. unfold dec, enc_i. cbn [shp dat]. rewrite dec_nats_enc.
  change (String.eqb tag_i tag_f) with false. change (String.eqb tag_i tag_i) with true. cbn iota.
  now rewrite (dec_list_map dz VInt d (fun x => eq_refl)).
Qed.
Lemma dec_enc_b t : dec (enc_b t) = Some (TB t).
Proof.
  destruct t as [sh d]. unfold dec, enc_b. cbn [shp dat]. rewrite dec_nats_enc.
  change (String.eqb tag_b tag_f) with false. change (String.eqb tag_b tag_i) with false.
  change (String.eqb tag_b tag_b) with true. cbn iota.
  now rewrite (dec_list_map db VBool d (fun x => eq_refl)).
Qed.
Lemma dec_int z : dec (VInt z) = None. Proof. reflexivity. Qed.
Lemma dec_q q : dec (VQ q) = None. Proof. reflexivity. Qed.
Lemma dec_inf p : dec (VInf p) = None. Proof. reflexivity. Qed.

Lemma cmp_lt_int : forall a b, cmp_eval Lt (VInt a) (VInt b) = Some (a <? b)%Z.
Proof.
  intros. cbn. unfold Qcompare. cbn. rewrite !Z.mul_1_r. unfold Z.ltb. destruct (a ?= b)%Z; reflexivity.
Qed.
Lemma cmp_ne : forall a b, cmp_eval NotEq a b = Some (negb (val_eqb a b)). Proof. reflexivity. Qed.

Lemma min_int : forall a b st, extreme_of false [VInt a; VInt b] st = Ok (VInt (Z.min a b)) st.
Proof.
  intros. unfold extreme_of, q_extreme. rewrite cmp_lt_int. unfold Z.min, Z.ltb.
  rewrite (Z.compare_antisym b a). destruct (b ?= a)%Z; reflexivity.
Qed.

Lemma val_eqb_int : forall a b, val_eqb (VInt a) (VInt b) = (a =? b)%Z. Proof. reflexivity. Qed.

Lemma val_eqb_shape : forall a b, val_eqb (VTuple (enc_shape a)) (VTuple (enc_shape b)) = nats_eqb a b.
Proof.
  induction a as [|x a IH]; intros [|y b]; try reflexivity.
  change (val_eqb (VTuple (enc_shape (x :: a))) (VTuple (enc_shape (y :: b))))
    with ((Z.of_nat x =? Z.of_nat y)%Z && val_eqb (VTuple (enc_shape a)) (VTuple (enc_shape b)))%bool.
  rewrite IH. cbn [nats_eqb]. f_equal. destruct (Nat.eqb_spec x y); lia.
Qed.

Lemma nats_eqb_refl a : nats_eqb a a = true.
Proof. induction a as [|x a IH]; [reflexivity|]. cbn. now rewrite Nat.eqb_refl. Qed.

Lemma enc_shape1 a : [VInt (Z.of_nat a)] = enc_shape [a]. Proof. reflexivity. Qed.
Lemma enc_shape2 a b : [VInt (Z.of_nat a); VInt (Z.of_nat b)] = enc_shape [a; b]. Proof. reflexivity. Qed.
Lemma enc_shape3 a b c : [VInt (Z.of_nat a); VInt (Z.of_nat b); VInt (Z.of_nat c)] = enc_shape [a; b; c].
Proof. reflexivity. Qed.

(* ---- statements ------------------------------------------------------------------------------------------ *)
Lemma exec_assign1 ext x e st :
  exec ext (SAssign [TName x] e) st = bind (eval ext e st) (fun v st1 => Ok CNormal (set_var x v st1)).
Proof. cbn [exec]. destruct (eval ext e st); reflexivity. Qed.
Lemma exec_raise ext n st : exec ext (SRaise n) st = Exc n st. Proof. reflexivity. Qed.
Lemma exec_return ext e st : exec ext (SReturn e) st = bind (eval ext e st) (fun v st1 => Ok (CReturn v) st1).
Proof. reflexivity. Qed.
Lemma exec_pass ext st : exec ext SPass st = Ok CNormal st. Proof. reflexivity. Qed.

(* ---- what each call of the body reaches in ext05 ---------------------------------------------------------- *)
Section ExtLemmas.
Variable sel : nat -> list mass -> nat -> list nat.
Notation E := (ext05 sel).

Ltac ext_tac := intros; unfold ext05; cbn - [dec enc_f enc_i enc_b];
  rewrite ?dec_enc_f, ?dec_enc_i, ?dec_enc_b, ?dec_int, ?dec_q, ?dec_inf; try reflexivity.

Lemma ext_dim_f t st : E "$method.dim" [enc_f t] [] st = Ok (vnat (List.length (shp t))) st. Proof. ext_tac. Qed.
Lemma ext_dim_i t st : E "$method.dim" [enc_i t] [] st = Ok (vnat (List.length (shp t))) st. Proof. ext_tac. Qed.
Lemma ext_shape_f t st : E "$attr.shape" [enc_f t] [] st = Ok (VTuple (enc_shape (shp t))) st. Proof. ext_tac. Qed.
Lemma ext_shape_i t st : E "$attr.shape" [enc_i t] [] st = Ok (VTuple (enc_shape (shp t))) st. Proof. ext_tac. Qed.
Lemma ext_shape_b t st : E "$attr.shape" [enc_b t] [] st = Ok (VTuple (enc_shape (shp t))) st. Proof. ext_tac. Qed.
Lemma ext_device_f t st : E "$attr.device" [enc_f t] [] st = Ok device_token st. Proof. ext_tac. Qed.
Lemma ext_device_i t st : E "$attr.device" [enc_i t] [] st = Ok device_token st. Proof. ext_tac. Qed.
Lemma ext_dtype_f t st : E "$attr.dtype" [enc_f t] [] st = Ok dtype_f st. Proof. ext_tac. Qed.
Lemma ext_dtype_i t st : E "$attr.dtype" [enc_i t] [] st = Ok dtype_i st. Proof. ext_tac. Qed.
Lemma ext_size_i t d st : E "$method.size" [enc_i t; VInt d] [] st
  = okv "size" (option_map vnat (size (mkTn (shp t) ([] : list unit)) d)) st.
Proof. ext_tac. Qed.
Lemma ext_getitem_tail l st :
  E "$getitem" [VTuple l; VTuple [VStr "$slice"; VInt 1; VNone; VNone]] [] st
  = Ok (VTuple (firstn (List.length l - 1) (skipn 1 l))) st.
Proof. reflexivity. Qed.
Lemma ext_float_inf st : E "float" [VStr "inf"] [] st = Ok (VInf true) st. Proof. reflexivity. Qed.

Lemma ext_unsqueeze_f t d st : E "$method.unsqueeze" [enc_f t; VInt d] [] st = okf "unsqueeze" (unsqueeze NegInf t d) st.
Proof. ext_tac. Qed.
Lemma ext_unsqueeze_i t d st : E "$method.unsqueeze" [enc_i t; VInt d] [] st = oki "unsqueeze" (unsqueeze 0%Z t d) st.
Proof. ext_tac. Qed.
Lemma ext_unsqueeze_b t d st : E "$method.unsqueeze" [enc_b t; VInt d] [] st = okb "unsqueeze" (unsqueeze false t d) st.
Proof. ext_tac. Qed.
Lemma ext_expand_f t a b c st :
  E "$method.expand" [enc_f t; VInt a; VInt b; VInt c] [] st = okf "expand" (expand NegInf t [a; b; c]) st.
Proof. ext_tac. Qed.
Lemma ext_expand_i t a b c st :
  E "$method.expand" [enc_i t; VInt a; VInt b; VInt c] [] st = oki "expand" (expand 0%Z t [a; b; c]) st.
Proof. ext_tac. Qed.
Lemma ext_expand_b t a b c st :
  E "$method.expand" [enc_b t; VInt a; VInt b; VInt c] [] st = okb "expand" (expand false t [a; b; c]) st.
Proof. ext_tac. Qed.
Lemma ext_transpose_i t a b st :
  E "$method.transpose" [enc_i t; VInt a; VInt b] [] st = oki "transpose" (transpose 0%Z t a b) st.
Proof. ext_tac. Qed.
Lemma ext_view_f t a b st :
  E "$method.view" [enc_f t; VInt a; VInt b] [] st = okf "view" (view_merge NegInf t [a; b]) st.
Proof. ext_tac. Qed.
Lemma ext_gather_f t d i st : E "$method.gather" [enc_f t; VInt d; enc_i i] [] st = okf "gather" (gather NegInf t d i) st.
Proof. ext_tac. Qed.
Lemma ext_gather_i t d i st : E "$method.gather" [enc_i t; VInt d; enc_i i] [] st = oki "gather" (gather 0%Z t d i) st.
Proof. ext_tac. Qed.
Lemma ext_gather_b t d i st : E "$method.gather" [enc_b t; VInt d; enc_i i] [] st = okb "gather" (gather false t d i) st.
Proof. ext_tac. Qed.
Lemma ext_scatter_i t d i s st :
  E "$method.scatter" [enc_i t; VInt d; enc_i i; enc_i s] [] st = oki "scatter" (scatter_src 0%Z t d i s) st.
Proof. ext_tac. Qed.
Lemma ext_scatter_f0 t d i st :
  E "$method.scatter" [enc_f t; VInt d; enc_i i; VQ 0] [] st = okf "scatter" (scatter_value NegInf t d i F0) st.
Proof. ext_tac. Qed.
Lemma ext_masked_fill_0 t m st :
  E "$method.masked_fill" [enc_f t; enc_b m; VQ 0] [] st = okf "masked_fill" (masked_fill NegInf t m F0) st.
Proof. ext_tac. Qed.
Lemma ext_masked_fill_inf t m st :
  E "$method.masked_fill" [enc_f t; enc_b m; VInf false] [] st = okf "masked_fill" (masked_fill NegInf t m NegInf) st.
Proof. ext_tac. Qed.
Lemma ext_clamp2 t lo hi st :
  E "$method.clamp" [enc_i t; VInt lo; VInt hi] [] st = Ok (enc_i (iclamp t (Some lo) (Some hi))) st.
Proof. ext_tac. Qed.
Lemma ext_clamp_max t hi st :
  E "$method.clamp" [enc_i t] [("max", VInt hi)] st = Ok (enc_i (iclamp t None (Some hi))) st.
Proof. ext_tac. Qed.
Lemma ext_clamp_min t lo st :
  E "$method.clamp" [enc_i t] [("min", VInt lo)] st = Ok (enc_i (iclamp t (Some lo) None)) st.
Proof. ext_tac. Qed.
Lemma ext_sum t d st : E "$method.sum" [enc_f t; VInt d] [] st = okf "sum" (fsum t d) st. Proof. ext_tac. Qed.
Lemma ext_any t d st : E "$method.any" [enc_b t; VInt d] [] st = okb "any" (bany t d) st. Proof. ext_tac. Qed.
Lemma ext_to_bool t st : E "$method.to" [enc_i t; dtype_b] [] st = Ok (enc_b (to_bool t)) st. Proof. ext_tac. Qed.
Lemma ext_topk t k d st : E "$method.topk" [enc_f t; VInt k; VInt d] [] st =
  match topk sel t k d with
  | Some (vals, idx) => Ok (VTuple [enc_f vals; enc_i idx]) st
  | None => Stuck (undef "topk")
  end.
Proof. ext_tac. Qed.
Lemma ext_new_empty_i t a b c st :
  E "$method.new_empty" [enc_i t; VInt a; VInt b; VInt c] [] st = oki "new_empty" (full [a; b; c] 0%Z) st.
Proof. ext_tac. Qed.

Lemma ext_add_ff t u st : E "operator" [VStr "add"; enc_f t; enc_f u] [] st = okf "add" (fadd t u) st. Proof. ext_tac. Qed.
Lemma ext_mul_ff t u st : E "operator" [VStr "mul"; enc_f t; enc_f u] [] st = okf "mul" (fmul t u) st. Proof. ext_tac. Qed.
Lemma ext_add_ib t u st : E "operator" [VStr "add"; enc_i t; enc_b u] [] st = oki "add" (iadd_b t u) st. Proof. ext_tac. Qed.
Lemma ext_mul_ib t u st : E "operator" [VStr "mul"; enc_i t; enc_b u] [] st = oki "mul" (imul_b t u) st. Proof. ext_tac. Qed.
Lemma ext_add_ii t u st : E "operator" [VStr "add"; enc_i t; enc_i u] [] st = oki "add" (iadd t u) st. Proof. ext_tac. Qed.
Lemma ext_and t u st : E "operator" [VStr "and"; enc_b t; enc_b u] [] st = okb "and" (band t u) st. Proof. ext_tac. Qed.
Lemma ext_or t u st : E "operator" [VStr "or"; enc_b t; enc_b u] [] st = okb "or" (bor t u) st. Proof. ext_tac. Qed.
Lemma ext_add_is t c st : E "operator" [VStr "add"; enc_i t; VInt c] [] st = Ok (enc_i (iadd_s t c)) st. Proof. ext_tac. Qed.
Lemma ext_sub_is t c st : E "operator" [VStr "sub"; enc_i t; VInt c] [] st = Ok (enc_i (isub_s t c)) st. Proof. ext_tac. Qed.
Lemma ext_mod_is t c st : E "operator" [VStr "mod"; enc_i t; VInt c] [] st = oki "remainder" (irem_s t c) st. Proof. ext_tac. Qed.
Lemma ext_eq_ii t u st : E "compare" [VStr "eq"; enc_i t; enc_i u] [] st = okb "eq" (ieq t u) st. Proof. ext_tac. Qed.
Lemma ext_le_ii t u st : E "compare" [VStr "le"; enc_i t; enc_i u] [] st = okb "le" (ile t u) st. Proof. ext_tac. Qed.
Lemma ext_ge_is t c st : E "compare" [VStr "ge"; enc_i t; VInt c] [] st = Ok (enc_b (ige_s t c)) st. Proof. ext_tac. Qed.
Lemma ext_eq_finf t st : E "compare" [VStr "eq"; enc_f t; VInf false] [] st = Ok (enc_b (feq_neginf t)) st. Proof. ext_tac. Qed.
Lemma ext_invert t st : E "$invert" [enc_b t] [] st = Ok (enc_b (bnot t)) st. Proof. ext_tac. Qed.
Lemma ext_cat_f t u d st : E "torch.cat" [VList [enc_f t; enc_f u]; VInt d] [] st = okf "cat" (cat2 NegInf t u d) st.
Proof. ext_tac. Qed.
Lemma ext_cat_i t u d st : E "torch.cat" [VList [enc_i t; enc_i u]; VInt d] [] st = oki "cat" (cat2 0%Z t u d) st.
Proof. ext_tac. Qed.
Lemma ext_cat_b t u d st : E "torch.cat" [VList [enc_b t; enc_b u]; VInt d] [] st = okb "cat" (cat2 false t u d) st.
Proof. ext_tac. Qed.
Lemma ext_where_f c t u st : E "torch.where" [enc_b c; enc_f t; enc_f u] [] st = okf "where" (where_ NegInf c t u) st.
Proof. ext_tac. Qed.
Lemma ext_where_i c t u st : E "torch.where" [enc_b c; enc_i t; enc_i u] [] st = oki "where" (where_ 0%Z c t u) st.
Proof. ext_tac. Qed.
Lemma ext_one_hot t n st : E "torch.nn.functional.one_hot" [enc_i t; VInt n] [] st = oki "one_hot" (one_hot t n) st.
Proof. ext_tac. Qed.
Lemma ext_trunc t c st : E "trunc_divide" [enc_i t; VInt c] [] st = oki "trunc_divide" (itrunc_div_s t c) st.
Proof. ext_tac. Qed.
Lemma ext_zeros3_i a b c st :
  E "torch.zeros" [VTuple [VInt a; VInt b; VInt c]] [("device", device_token); ("dtype", dtype_i)] st
  = oki "zeros" (full [a; b; c] 0%Z) st.
Proof. reflexivity. Qed.
Lemma ext_zeros2_i a b st :
  E "torch.zeros" [VTuple [VInt a; VInt b]] [("device", device_token); ("dtype", dtype_i)] st
  = oki "zeros" (full [a; b] 0%Z) st.
Proof. reflexivity. Qed.
Lemma ext_zeros2_b a b st :
  E "torch.zeros" [VTuple [VInt a; VInt b]] [("device", device_token); ("dtype", dtype_b)] st
  = okb "zeros" (full [a; b] false) st.
Proof. reflexivity. Qed.
Lemma ext_empty3_i a b c st :
  E "torch.empty" [VTuple [VInt a; VInt b; VInt c]] [("device", device_token); ("dtype", dtype_i)] st
  = oki "empty" (full [a; b; c] 0%Z) st.
Proof. reflexivity. Qed.
Lemma ext_full2_inf a b st :
  E "torch.full" [VTuple [VInt a; VInt b]; VInf false] [("device", device_token); ("dtype", dtype_f)] st
  = okf "full" (full [a; b] NegInf) st.
Proof. reflexivity. Qed.
End ExtLemmas.

Definition vars0 := vars_of.
Definition width_var : string := "width".

(* what [Interp.run] does with the outcome of the body *)
Definition fin (o : outcome ctl) : outcome val :=
  match o with
  | Ok CNormal st => Ok VNone st
  | Ok (CReturn v) st => Ok v st
  | Exc n st => Exc n st
  | Stuck w => Stuck w
  end.

(* a statement that only binds one tensor variable: both sides continue with ANY tensor (used for
   `if tm1: to_match = ... else: to_match = ...`, so that the rest of the body is run once, not once per branch) *)
Definition sim1 (P : tn Z -> state) (o : outcome ctl) (r : option (tn Z)) : Prop :=
  match o, r with
  | Ok c st, Some T => c = CNormal /\ st = P T
  | Stuck _, None => True
  | _, _ => False
  end.

Lemma sim_cut (P : tn Z -> state) (o : outcome ctl) (K : ctl -> state -> outcome ctl) (r : option (tn Z))
  (K' : tn Z -> option outs) :
  sim1 P o r -> (forall T, sim (fin (K CNormal (P T))) (K' T)) -> sim (fin (bind o K)) (bo r K').
Proof.
  intros H1 H2. destruct o as [c st|n st|w], r as [T|]; cbn in H1; try contradiction.
  - destruct H1 as [-> ->]. apply H2.
  - exact I.
Qed.

(* ---- the symbolic run ------------------------------------------------------------------------------------ *)
#[local] Arguments exec : simpl never.
#[local] Arguments ext05 : simpl never.
#[local] Arguments enc_f : simpl never.
#[local] Arguments enc_i : simpl never.
#[local] Arguments enc_b : simpl never.
#[local] Arguments cmp_eval : simpl never.
#[local] Arguments foreign : simpl never.
#[local] Arguments extreme_of : simpl never.
#[local] Arguments val_eqb : simpl never.
#[local] Arguments method : simpl never.
#[local] Arguments binop_eval : simpl never.
#[local] Arguments Z.of_nat !_.
#[local] Arguments Z.eqb !_ !_.
#[local] Arguments Z.ltb !_ !_.
#[local] Arguments Z.leb !_ !_.
#[local] Arguments Z.add !_ !_.
#[local] Arguments Z.sub !_ !_.
#[local] Arguments Z.mul !_ !_.
#[local] Arguments Z.min !_ !_.
#[local] Arguments unsqueeze : simpl never.
#[local] Arguments expand : simpl never.
#[local] Arguments transpose : simpl never.
#[local] Arguments view_merge : simpl never.
#[local] Arguments cat2 : simpl never.
#[local] Arguments gather : simpl never.
#[local] Arguments scatter_value : simpl never.
#[local] Arguments scatter_src : simpl never.
#[local] Arguments one_hot : simpl never.
#[local] Arguments fadd : simpl never.
#[local] Arguments fmul : simpl never.
#[local] Arguments iadd_b : simpl never.
#[local] Arguments imul_b : simpl never.
#[local] Arguments iadd : simpl never.
#[local] Arguments band : simpl never.
#[local] Arguments bor : simpl never.
#[local] Arguments ieq : simpl never.
#[local] Arguments ile : simpl never.
#[local] Arguments masked_fill : simpl never.
#[local] Arguments where_ : simpl never.
#[local] Arguments iadd_s : simpl never.
#[local] Arguments isub_s : simpl never.
#[local] Arguments irem_s : simpl never.
#[local] Arguments itrunc_div_s : simpl never.
#[local] Arguments ige_s : simpl never.
#[local] Arguments iclamp : simpl never.
#[local] Arguments feq_neginf : simpl never.
#[local] Arguments bnot : simpl never.
#[local] Arguments to_bool : simpl never.
#[local] Arguments fsum : simpl never.
#[local] Arguments bany : simpl never.
#[local] Arguments full : simpl never.
#[local] Arguments topk : simpl never.
#[local] Arguments size : simpl never.
#[local] Arguments nats_eqb : simpl never.
#[local] Arguments adv_cands : simpl never.
#[local] Arguments adv_to_match : simpl never.
#[local] Arguments adv_merge : simpl never.
#[local] Arguments adv_choose : simpl never.
#[local] Arguments adv_prefix : simpl never.
#[local] Arguments adv_pad : simpl never.
#[local] Arguments fin !_ /.
#[local] Arguments okf _ !_ _ /.
#[local] Arguments oki _ !_ _ /.
#[local] Arguments okb _ !_ _ /.
#[local] Arguments oka _ !_ _ /.
#[local] Arguments okv _ !_ _ /.


Section Run.
Variable sel : nat -> list mass -> nat -> list nat.
Notation E := (ext05 sel).

Lemma attribute_f : forall t a st, attribute E (enc_f t) a st = E ("$attr." ++ a) [enc_f t] [] st. Proof. reflexivity. Qed.
Lemma attribute_i : forall t a st, attribute E (enc_i t) a st = E ("$attr." ++ a) [enc_i t] [] st. Proof. reflexivity. Qed.
Lemma attribute_b : forall t a st, attribute E (enc_b t) a st = E ("$attr." ++ a) [enc_b t] [] st. Proof. reflexivity. Qed.
Lemma method_f : forall t m args, method (enc_f t) m args = None. Proof. reflexivity. Qed.
Lemma method_i : forall t m args, method (enc_i t) m args = None. Proof. reflexivity. Qed.
Lemma method_b : forall t m args, method (enc_b t) m args = None. Proof. reflexivity. Qed.
Lemma foreign_f : forall t, foreign (enc_f t) = true. Proof. reflexivity. Qed.
Lemma foreign_i : forall t, foreign (enc_i t) = true. Proof. reflexivity. Qed.
Lemma foreign_b : forall t, foreign (enc_b t) = true. Proof. reflexivity. Qed.
Lemma foreign_int : forall z, foreign (VInt z) = false. Proof. reflexivity. Qed.
Lemma foreign_shape : forall sh, foreign (VTuple (enc_shape sh)) = false. Proof. intros [|? ?]; reflexivity. Qed.
Lemma foreign_cons_int : forall z l, foreign (VTuple (VInt z :: l)) = false. Proof. reflexivity. Qed.
Lemma foreign_cons_f : forall t l, foreign (VTuple (enc_f t :: l)) = false. Proof. reflexivity. Qed.
Lemma foreign_cons_i : forall t l, foreign (VTuple (enc_i t :: l)) = false. Proof. reflexivity. Qed.
Lemma foreign_nil : foreign (VTuple []) = false. Proof. reflexivity. Qed.
Lemma foreign_inf : forall p, foreign (VInf p) = false. Proof. reflexivity. Qed.
Lemma val_eqb_nats1 a : val_eqb (VTuple [VInt (Z.of_nat a)]) (VTuple [VInt (Z.of_nat a)]) = true.
Proof. change (val_eqb (VTuple (enc_shape [a])) (VTuple (enc_shape [a])) = true). rewrite val_eqb_shape. apply nats_eqb_refl. Qed.
Lemma val_eqb_nats2 a b : val_eqb (VTuple [VInt (Z.of_nat a); VInt (Z.of_nat b)]) (VTuple [VInt (Z.of_nat a); VInt (Z.of_nat b)]) = true.
Proof. change (val_eqb (VTuple (enc_shape [a; b])) (VTuple (enc_shape [a; b])) = true). rewrite val_eqb_shape. apply nats_eqb_refl. Qed.
Lemma val_eqb_nats3 a b c : val_eqb (VTuple [VInt (Z.of_nat a); VInt (Z.of_nat b); VInt (Z.of_nat c)]) (VTuple [VInt (Z.of_nat a); VInt (Z.of_nat b); VInt (Z.of_nat c)]) = true.
Proof. change (val_eqb (VTuple (enc_shape [a; b; c])) (VTuple (enc_shape [a; b; c])) = true). rewrite val_eqb_shape. apply nats_eqb_refl. Qed.
Lemma val_eqb_str : forall a b, val_eqb (VStr a) (VStr b) = String.eqb a b. Proof. reflexivity. Qed.
Lemma p2n1 : Pos.to_nat 1 = 1%nat. Proof. reflexivity. Qed.
Lemma p2n2 : Pos.to_nat 2 = 2%nat. Proof. reflexivity. Qed.
Lemma of_nat_3 : (Z.of_nat 3 =? 3)%Z = true. Proof. reflexivity. Qed.


Lemma size_0 : forall a b c, size (mkTn [a; b; c] ([] : list unit)) 0 = Some a.
Proof. reflexivity. Qed.
Lemma binop_tensor_f : forall op t v st, exists m, binop_eval op (enc_f t) v st = Stuck m.
Proof. intros. destruct op; cbn; destruct v; eexists; reflexivity. Qed.

Ltac unhide := match goal with |- context [exec E ?r ?st] => is_var r; subst r end.
Ltac step0 :=
  match goal with
  | |- context [exec E (SAssign [TName _] _) _] => rewrite exec_assign1
  | |- context [exec E (SIf ?c ?a ?b) ?st] =>
      lazymatch c with EName "tm1" => fail | _ => idtac end; rewrite (exec_if E c a b st)
  | |- context [exec E (SRaise _) _] => rewrite exec_raise
  | |- context [exec E (SReturn _) _] => rewrite exec_return
  | |- context [exec E SPass _] => rewrite exec_pass
  | |- context [exec E (SSeq ?a ?b) ?st] =>
      rewrite (exec_seq E a b st); let r := fresh "rest" in remember b as r
  end.
Ltac step := try unhide; step0.

Definition binmsg (op : binop) : string :=
  match op with Add => "add" | Sub => "sub" | Mul => "mul" | FloorDiv => "floordiv" | Mod => "mod" | Pow => "pow" | BitAnd => "and" | BitOr => "or" | Div => "truediv" end.
Lemma binop_ib : forall op t u st, binop_eval op (enc_i t) (enc_b u) st = Stuck (binmsg op). Proof. intros. destruct op; reflexivity. Qed.
Lemma binop_ii : forall op t u st, binop_eval op (enc_i t) (enc_i u) st = Stuck (binmsg op). Proof. intros. destruct op; reflexivity. Qed.
Lemma binop_bb : forall op t u st, binop_eval op (enc_b t) (enc_b u) st = Stuck (binmsg op). Proof. intros. destruct op; reflexivity. Qed.
Lemma binop_iz : forall op t z st, op = Add \/ op = Sub \/ op = Mod -> binop_eval op (enc_i t) (VInt z) st = Stuck (binmsg op).
Proof. intros op t z st [->|[->| ->]]; reflexivity. Qed.
Lemma binop_add_zz : forall a b st, binop_eval Add (VInt a) (VInt b) st = Ok (VInt (a + b)) st. Proof. reflexivity. Qed.
Lemma binop_sub_zz : forall a b st, binop_eval Sub (VInt a) (VInt b) st = Ok (VInt (a - b)) st. Proof. reflexivity. Qed.
Lemma binop_mul_zz : forall a b st, binop_eval Mul (VInt a) (VInt b) st = Ok (VInt (a * b)) st. Proof. reflexivity. Qed.
Lemma binop_ff : forall op t u st, binop_eval op (enc_f t) (enc_f u) st = Stuck (match op with Add => "add" | Sub => "sub" | Mul => "mul" | FloorDiv => "floordiv" | Mod => "mod" | Pow => "pow" | BitAnd => "and" | BitOr => "or" | Div => "truediv" end).
Proof. intros. destruct op; reflexivity. Qed.

Ltac ext_rw f a k :=
  lazymatch f with
  | "$method.dim" =>
      lazymatch a with
      | [enc_f _] => rewrite ext_dim_f
      | [enc_i _] => rewrite ext_dim_i
      end
  | "$attr.shape" =>
      lazymatch a with
      | [enc_f _] => rewrite ext_shape_f
      | [enc_i _] => rewrite ext_shape_i
      | [enc_b _] => rewrite ext_shape_b
      end
  | "$attr.device" =>
      lazymatch a with
      | [enc_f _] => rewrite ext_device_f
      | [enc_i _] => rewrite ext_device_i
      end
  | "$attr.dtype" =>
      lazymatch a with
      | [enc_f _] => rewrite ext_dtype_f
      | [enc_i _] => rewrite ext_dtype_i
      end
  | "$method.size" =>
      lazymatch a with
      | [enc_i _; VInt _] => rewrite ext_size_i
      end
  | "$getitem" =>
      lazymatch a with
      | [VTuple _; VTuple [VStr "$slice"; VInt 1; VNone; VNone]] => rewrite ext_getitem_tail
      end
  | "float" =>
      lazymatch a with
      | [VStr "inf"] => rewrite ext_float_inf
      end
  | "$method.unsqueeze" =>
      lazymatch a with
      | [enc_f _; VInt _] => rewrite ext_unsqueeze_f
      | [enc_i _; VInt _] => rewrite ext_unsqueeze_i
      | [enc_b _; VInt _] => rewrite ext_unsqueeze_b
      end
  | "$method.expand" =>
      lazymatch a with
      | [enc_f _; VInt _; VInt _; VInt _] => rewrite ext_expand_f
      | [enc_i _; VInt _; VInt _; VInt _] => rewrite ext_expand_i
      | [enc_b _; VInt _; VInt _; VInt _] => rewrite ext_expand_b
      end
  | "$method.transpose" =>
      lazymatch a with
      | [enc_i _; VInt _; VInt _] => rewrite ext_transpose_i
      end
  | "$method.view" =>
      lazymatch a with
      | [enc_f _; VInt _; VInt _] => rewrite ext_view_f
      end
  | "$method.gather" =>
      lazymatch a with
      | [enc_f _; VInt _; enc_i _] => rewrite ext_gather_f
      | [enc_i _; VInt _; enc_i _] => rewrite ext_gather_i
      | [enc_b _; VInt _; enc_i _] => rewrite ext_gather_b
      end
  | "$method.scatter" =>
      lazymatch a with
      | [enc_i _; VInt _; enc_i _; enc_i _] => rewrite ext_scatter_i
      | [enc_f _; VInt _; enc_i _; VQ 0] => rewrite ext_scatter_f0
      end
  | "$method.masked_fill" =>
      lazymatch a with
      | [enc_f _; enc_b _; VQ 0] => rewrite ext_masked_fill_0
      | [enc_f _; enc_b _; VInf false] => rewrite ext_masked_fill_inf
      end
  | "$method.clamp" =>
      lazymatch a with
      | [enc_i _; VInt _; VInt _] => rewrite ext_clamp2
      | [enc_i _] => first [rewrite ext_clamp_min | rewrite ext_clamp_max]
      end
  | "$method.sum" =>
      lazymatch a with
      | [enc_f _; VInt _] => rewrite ext_sum
      end
  | "$method.any" =>
      lazymatch a with
      | [enc_b _; VInt _] => rewrite ext_any
      end
  | "$method.to" =>
      lazymatch a with
      | [enc_i _; dtype_b] => rewrite ext_to_bool
      end
  | "$method.topk" =>
      lazymatch a with
      | [enc_f _; VInt _; VInt _] => rewrite ext_topk
      end
  | "$method.new_empty" =>
      lazymatch a with
      | [enc_i _; VInt _; VInt _; VInt _] => rewrite ext_new_empty_i
      end
  | "operator" =>
      lazymatch a with
      | [VStr "add"; enc_f _; enc_f _] => rewrite ext_add_ff
      | [VStr "mul"; enc_f _; enc_f _] => rewrite ext_mul_ff
      | [VStr "add"; enc_i _; enc_b _] => rewrite ext_add_ib
      | [VStr "mul"; enc_i _; enc_b _] => rewrite ext_mul_ib
      | [VStr "add"; enc_i _; enc_i _] => rewrite ext_add_ii
      | [VStr "and"; enc_b _; enc_b _] => rewrite ext_and
      | [VStr "or"; enc_b _; enc_b _] => rewrite ext_or
      | [VStr "add"; enc_i _; VInt _] => rewrite ext_add_is
      | [VStr "sub"; enc_i _; VInt _] => rewrite ext_sub_is
      | [VStr "mod"; enc_i _; VInt _] => rewrite ext_mod_is
      end
  | "compare" =>
      lazymatch a with
      | [VStr "eq"; enc_i _; enc_i _] => rewrite ext_eq_ii
      | [VStr "le"; enc_i _; enc_i _] => rewrite ext_le_ii
      | [VStr "ge"; enc_i _; VInt _] => rewrite ext_ge_is
      | [VStr "eq"; enc_f _; VInf false] => rewrite ext_eq_finf
      end
  | "$invert" =>
      lazymatch a with
      | [enc_b _] => rewrite ext_invert
      end
  | "torch.cat" =>
      lazymatch a with
      | [VList [enc_f _; enc_f _]; VInt _] => rewrite ext_cat_f
      | [VList [enc_i _; enc_i _]; VInt _] => rewrite ext_cat_i
      | [VList [enc_b _; enc_b _]; VInt _] => rewrite ext_cat_b
      end
  | "torch.where" =>
      lazymatch a with
      | [enc_b _; enc_f _; enc_f _] => rewrite ext_where_f
      | [enc_b _; enc_i _; enc_i _] => rewrite ext_where_i
      end
  | "torch.nn.functional.one_hot" =>
      lazymatch a with
      | [enc_i _; VInt _] => rewrite ext_one_hot
      end
  | "trunc_divide" =>
      lazymatch a with
      | [enc_i _; VInt _] => rewrite ext_trunc
      end
  | "torch.zeros" =>
      lazymatch a with
      | [VTuple [VInt _; VInt _; VInt _]] => first [rewrite ext_zeros3_i]
      | [VTuple [VInt _; VInt _]] => first [rewrite ext_zeros2_b | rewrite ext_zeros2_i]
      end
  | "torch.empty" =>
      lazymatch a with
      | [VTuple [VInt _; VInt _; VInt _]] => first [rewrite ext_empty3_i]
      end
  | "torch.full" =>
      lazymatch a with
      | [VTuple [VInt _; VInt _]; VInf false] => first [rewrite ext_full2_inf]
      end
  end.

Ltac rw :=
  repeat match goal with
  | H : shp ?t = _ |- context [shp ?t] => rewrite H
  | |- context [E ?f ?a ?k _] => ext_rw f a k
  | |- context [method ?v _ _] =>
      lazymatch v with enc_f _ => rewrite method_f | enc_i _ => rewrite method_i | enc_b _ => rewrite method_b end
  | |- context [attribute E ?v _ _] =>
      lazymatch v with enc_f _ => rewrite attribute_f | enc_i _ => rewrite attribute_i | enc_b _ => rewrite attribute_b end
  | |- context [foreign ?v] =>
      lazymatch v with
      | enc_f _ => rewrite foreign_f | enc_i _ => rewrite foreign_i | enc_b _ => rewrite foreign_b
      | VInt _ => rewrite foreign_int | VInf _ => rewrite foreign_inf
      | VTuple (VInt _ :: _) => rewrite foreign_cons_int
      | VTuple (enc_f _ :: _) => rewrite foreign_cons_f
      | VTuple (enc_i _ :: _) => rewrite foreign_cons_i
      | VTuple [] => rewrite foreign_nil
      end
  | |- context [val_eqb ?x ?y] =>
      lazymatch x with
      | VInt _ => rewrite val_eqb_int
      | VStr _ => rewrite val_eqb_str
      | VTuple [_] => rewrite val_eqb_nats1
      | VTuple [_; _] => rewrite val_eqb_nats2
      | VTuple [_; _; _] => rewrite val_eqb_nats3
      end
  | |- context [binop_eval ?op ?x ?y _] =>
      lazymatch x with
      | VInt _ => lazymatch op with Add => rewrite binop_add_zz | Sub => rewrite binop_sub_zz | Mul => rewrite binop_mul_zz end
      | enc_f _ => rewrite binop_ff
      | enc_b _ => rewrite binop_bb
      | enc_i _ => lazymatch y with enc_b _ => rewrite binop_ib | enc_i _ => rewrite binop_ii | VInt _ => rewrite binop_iz by (auto) end
      end
  | |- context [cmp_eval ?op _ _] => lazymatch op with Lt => rewrite cmp_lt_int | NotEq => rewrite cmp_ne end
  | |- context [extreme_of false [VInt _; VInt _] _] => rewrite min_int
  | |- context [(Z.of_nat 3 =? 3)%Z] => rewrite of_nat_3
  | |- context [Pos.to_nat 1] => rewrite p2n1
  | |- context [Pos.to_nat 2] => rewrite p2n2
  | |- context [size (mkTn [_; _; _] _) 0] => rewrite size_0
  end.

Ltac rwh := repeat match goal with H : shp _ = _ |- _ => rewrite H end.
Ltac go := repeat (progress (unfold set_var, vnat; cbn; rw)).

Ltac dcond := match goal with |- sim ?L ?R => match L with context [if ?c then _ else _] => match R with context [c] => destruct c eqn:? end end end.
Ltac dopt := match goal with
   | H : ?o = _ |- context [okf _ ?o _] => rewrite H
   | H : ?o = _ |- context [oki _ ?o _] => rewrite H
   | H : ?o = _ |- context [okb _ ?o _] => rewrite H
   | |- sim ?L ?R => match L with
   | context [okv _ (option_map _ ?o) _] => match R with context [o] => destruct o eqn:? end
   | context [okf _ ?o _] => match R with context [o] => destruct o eqn:? end
   | context [oki _ ?o _] => match R with context [o] => destruct o eqn:? end
   | context [okb _ ?o _] => match R with context [o] => destruct o eqn:? end
   | context [topk ?a ?b ?c ?d] => match R with context [topk a b c d] => destruct (topk a b c d) as [[? ?]|] eqn:? end
   end end.
Ltac dcond1 := match goal with |- sim1 _ ?L ?R => match L with context [if ?c then _ else _] => match R with context [c] => destruct c eqn:? end end end.
Ltac dopt1 := match goal with
   | |- sim1 _ ?L ?R => match L with
   | context [oki _ ?o _] => match R with context [o] => destruct o eqn:? end
   end end.
Ltac step_tm1 := match goal with |- context [exec E (SIf ?c ?a ?b) ?st] => rewrite (exec_if E c a b st) end.
Ltac auto3 := first [ dcond1; go | dopt1; go | (try unhide; match goal with
  | |- context [exec E (SAssign [TName _] _) _] => rewrite exec_assign1 end); go ];
  try lazymatch goal with |- True => exact I | |- _ /\ _ => split; reflexivity end.
Ltac unf := first [ progress unfold adv_cands | progress unfold adv_to_match | progress unfold adv_merge
  | progress unfold adv_choose | progress unfold adv_prefix | progress unfold adv_pad ].
Ltac auto1 := first [ dcond; go | dopt; go | step; go | unf; go ].
Ltac auto2 := auto1; try lazymatch goal with |- True => exact I | |- @eq string _ _ => reflexivity | |- @eq val _ _ => reflexivity end.

Theorem run_is_adv : forall ext nonext blank w nb b y last lens isp N Kp V tm1,
  shp ext = [N; Kp; V] -> shp nonext = [N; V] -> shp blank = [N] -> shp nb = [N; Kp] -> shp b = [N; Kp] ->
  shp y = [tm1; N; Kp] -> shp last = [N; Kp] -> shp lens = [N; Kp] -> shp isp = [N; Kp; Kp] -> (1 <= w)%Z ->
  sim (Interp.run E cpsa_body (vars0 ext nonext blank w nb b y last lens isp))
      (adv_tensor sel N Kp V tm1 ext nonext blank w nb b y last lens isp).
Proof.
  intros ext nonext blank w nb b y last lens isp N Kp V tm1 H1 H2 H3 H4 H5 H6 H7 H8 H9 Hw.
  change (Interp.run E cpsa_body (vars0 ext nonext blank w nb b y last lens isp))
    with (fin (exec E cpsa_body (mkState (vars0 ext nonext blank w nb b y last lens isp) []))).
  unfold cpsa_body, vars0, vars_of, adv_tensor.
  assert (Hw' : (w <? 1)%Z = false) by lia.
  step; go. step; go. rewrite Hw'.
  repeat auto2.
  (* `if tm1: to_match = ... else: to_match = ...`: both branches only bind to_match; the rest is run once *)
  lazymatch goal with |- sim (fin (bind (exec E (SIf _ _ _) ?st) _)) _ =>
    eapply (sim_cut (fun T => set_var "to_match" (enc_i T) st)) end.
  - step_tm1; go. repeat auto3.
  - intros T. unfold set_var. cbn. repeat auto2.
Time Qed.

(* `if width < 1: raise RuntimeError("width must be positive")`, before anything else: any other arguments *)
Theorem run_raises_width : forall vs w, lookup width_var vs = Some (VInt w) -> (w < 1)%Z ->
  Interp.run E cpsa_body vs = Exc runtime_error (mkState vs []).
Proof.
  intros vs w Hl Hw. unfold Interp.run, cpsa_body. step0. rewrite (exec_if E). cbn [eval bind vars].
  change "width" with width_var. rewrite Hl. cbn [bind]. rewrite cmp_lt_int. replace (w <? 1)%Z with true by lia. reflexivity.
Qed.
End Run.
