(* C18 — normalisation statistics, deltas, returns.

   Executable model of what the code does (no proofs in this file):

     src/pydrobert/torch/_feats.py   mean_var_norm, MeanVarianceNormalization.accumulate/store,
                                     _feat_delta_filters, feat_deltas
     src/pydrobert/torch/_rl.py      time_distributed_return   (difference form gamma^(t'-t))
     src/pydrobert/torch/command_line.py  compute_mvn_stats_for_torch_feat_data_dir

   Numbers are exact rationals [Q]; IEEE rounding is not modelled.  [sqrt] is an oracle: the
   model produces variances, and where the code divides by a standard deviation it computed
   itself the harness supplies torch's float64 result as data (regime T of DESIGN.md).

   Tensors are (shape, row-major flat data).  The shape juggling of the code (transpose,
   flatten, view, movedim) is modelled by generic operations on that representation. *)
From Coq Require Import List ZArith QArith Qabs Bool Arith.
Import ListNotations.
Local Open Scope Q_scope.

(* ---------------------------------------------------------------------------------- *)
(* outcomes                                                                            *)
(* ---------------------------------------------------------------------------------- *)
Inductive err := EIndex | ERuntime.
Inductive result (A : Type) := Ok (a : A) | Err (e : err).
Arguments Ok {A} a.
Arguments Err {A} e.

Definition bind {A B} (r : result A) (f : A -> result B) : result B :=
  match r with Ok a => f a | Err e => Err e end.

Fixpoint mapM {A B} (f : A -> result B) (l : list A) : result (list B) :=
  match l with
  | [] => Ok []
  | a :: t => bind (f a) (fun b => bind (mapM f t) (fun bs => Ok (b :: bs)))
  end.

(* ---------------------------------------------------------------------------------- *)
(* rational helpers                                                                    *)
(* ---------------------------------------------------------------------------------- *)
(* sums are kept in lowest terms so that long sums stay small; [Qred q == q] *)
Definition qsum (l : list Q) : Q := fold_right (fun a b => Qred (a + b)) 0 l.
Definition qsq (a : Q) : Q := a * a.
Definition qmax (a b : Q) : Q := if Qle_bool a b then b else a.
Definition qofnat (n : nat) : Q := inject_Z (Z.of_nat n).
Fixpoint qpow (g : Q) (n : nat) : Q := match n with O => 1 | S n' => Qred (g * qpow g n') end.
Fixpoint zipw {A B C} (f : A -> B -> C) (a : list A) (b : list B) : list C :=
  match a, b with x :: a', y :: b' => f x y :: zipw f a' b' | _, _ => [] end.

(* ---------------------------------------------------------------------------------- *)
(* tensors                                                                             *)
(* ---------------------------------------------------------------------------------- *)
Definition prodn (l : list nat) : nat := fold_right Nat.mul 1%nat l.

(* all multi-indices of a shape in row-major order *)
Fixpoint indices (sh : list nat) : list (list nat) :=
  match sh with
  | [] => [[]]
  | s :: t => flat_map (fun i => map (cons i) (indices t)) (seq 0 s)
  end.

(* row-major offset of a multi-index *)
Fixpoint ravel (sh idx : list nat) : nat :=
  match sh, idx with
  | _ :: sh', i :: idx' => (i * prodn sh' + ravel sh' idx')%nat
  | _, _ => 0%nat
  end.

Record tensor := mkT { shape : list nat; data : list Q }.

Definition get (x : tensor) (idx : list nat) : Q := nth (ravel (shape x) idx) (data x) 0.
Definition tabulate (sh : list nat) (f : list nat -> Q) : tensor := mkT sh (map f (indices sh)).

(* exchange positions i and j of a list *)
Definition swapl (l : list nat) (i j : nat) : list nat :=
  map (fun k => nth (if k =? i then j else if k =? j then i else k)%nat l 0%nat) (seq 0 (length l)).

(* Tensor.transpose(i, j) *)
Definition transpose (x : tensor) (i j : nat) : tensor :=
  tabulate (swapl (shape x) i j) (fun idx => get x (swapl idx i j)).

(* a Python dimension argument for a D-dimensional tensor: None = out of range *)
Definition norm_dim (D : nat) (d : Z) : option nat :=
  if ((d <? - Z.of_nat D) || (Z.of_nat D <=? d))%Z then None
  else Some (Z.to_nat ((d + Z.of_nat D) mod Z.of_nat D)).

(* the k-th length-m chunk of a flat buffer *)
Definition chunk (m k : nat) (l : list Q) : list Q := firstn m (skipn (k * m) l).

(* ---------------------------------------------------------------------------------- *)
(* mean-variance normalisation                                                         *)
(* ---------------------------------------------------------------------------------- *)
(* x.transpose(0, dim).unsqueeze(-1).flatten(1): an (X, M) matrix, one row per coefficient *)
Definition rows_of (x : tensor) (d : nat) : list (list Q) :=
  let xt := transpose x 0 d in
  let M := prodn (tl (shape xt)) in
  map (fun i => chunk M i (data xt)) (seq 0 (hd 0%nat (shape xt))).
Definition rows_width (x : tensor) (d : nat) : nat := prodn (tl (swapl (shape x) 0 d)).

Record stats := mkStats { cnt : Q; ssum : list Q; ssq : list Q }.

(* `a += b` for 1-D tensors: sizes must agree unless b has one element (broadcast) *)
Definition iadd (a b : list Q) : result (list Q) :=
  if (length a =? length b)%nat then Ok (zipw Qplus a b)
  else match b with
       | [v] => Ok (map (fun u => u + v) a)
       | _ => Err ERuntime
       end.

(* MeanVarianceNormalization.accumulate *)
Definition accumulate (dim : Z) (st : option stats) (x : tensor) : result stats :=
  match norm_dim (length (shape x)) dim with
  | None => Err EIndex
  | Some d =>
      let X := nth d (shape x) 0%nat in
      let st0 := match st with
                 | None => mkStats 0 (repeat 0 X) (repeat 0 X)
                 | Some s => s
                 end in
      let rows := rows_of x d in
      let c := cnt st0 + qofnat (rows_width x d) in
      bind (iadd (ssum st0) (map qsum rows)) (fun s1 =>
      bind (iadd (ssq st0) (map (fun r => qsum (map qsq r)) rows)) (fun s2 =>
      Ok (mkStats c s1 s2)))
  end.

Fixpoint accumulate_all (dim : Z) (st : option stats) (xs : list tensor) : result (option stats) :=
  match xs with
  | [] => Ok st
  | x :: t => bind (accumulate dim st x) (fun s => accumulate_all dim (Some s) t)
  end.

(* MeanVarianceNormalization.store: (mean, variance); std = sqrt(variance) *)
Definition store (st : option stats) (bessel : bool) : result (list Q * list Q) :=
  match st with
  | None => Err ERuntime
  | Some s =>
      if Qle_bool 2 (cnt s) then
        let mean := map (fun v => v / cnt s) (ssum s) in
        let var := zipw (fun q m => qmax (q / cnt s - qsq m) 0) (ssq s) mean in   (* clamp_min_(0) *)
        let var := if bessel then map (fun v => v * (cnt s / (cnt s - 1))) var else var in
        Ok (mean, var)
      else Err ERuntime
  end.


(* a history of the module: accumulate / store(delete_stats, bessel) calls in sequence.
   A failing store leaves the state alone; a failing accumulate ends the history (the real
   buffers are then partially updated).  Returns the store results in order and the final
   accumulators. *)
Inductive op := OpAcc (x : tensor) | OpStore (delete bessel : bool).

Fixpoint run_ops (dim : Z) (st : option stats) (ops : list op)
  (outs : list (result (list Q * list Q)))
  : list (result (list Q * list Q)) * result (option stats) :=
  match ops with
  | [] => (rev outs, Ok st)
  | OpAcc x :: t =>
      match accumulate dim st x with
      | Ok s => run_ops dim (Some s) t outs
      | Err e => (rev outs, Err e)
      end
  | OpStore del b :: t =>
      let r := store st b in
      run_ops dim (match r with Ok _ => if del then None else st | Err _ => st end) t (r :: outs)
  end.

(* statistics of one row as torch computes them: mean(1) and std(1, unbiased=False)^2 *)
Definition row_mean (r : list Q) : Q := qsum r / qofnat (length r).
Definition row_var (r : list Q) : Q :=
  let m := row_mean r in qsum (map (fun v => qsq (v - m)) r) / qofnat (length r).

(* x - mean.view(shape), x / std.view(shape): a vector broadcast along dimension d *)
Definition bcast (x : tensor) (d : nat) (v : list Q) (f : Q -> Q -> Q) : tensor :=
  tabulate (shape x) (fun idx => f (get x idx) (nth (nth d idx 0%nat) v 0)).

(* mean_var_norm.  [sigma] is the sqrt oracle used only when [std = None]: the value of
   sqrt(own variance); the own variances are returned so that the caller can audit it. *)
Definition mean_var_norm (x : tensor) (dim : Z) (mean std : option (list Q)) (eps : Q)
  (sigma : list Q) : result (tensor * list Q) :=
  match norm_dim (length (shape x)) dim with
  | None => Err EIndex
  | Some d =>
      let X := nth d (shape x) 0%nat in
      let mean' := match mean with Some m => m | None => map row_mean (rows_of x d) end in
      if negb (length mean' =? X)%nat then Err ERuntime else
      let xc := bcast x d mean' Qminus in
      let ownvar := match std with Some _ => [] | None => map row_var (rows_of xc d) end in
      let std' := match std with Some s => s | None => sigma end in
      if negb (length std' =? X)%nat then Err ERuntime else
      Ok (bcast xc d (map (fun s => qmax s eps) std') Qdiv, ownvar)
  end.

(* ---------------------------------------------------------------------------------- *)
(* delta features                                                                      *)
(* ---------------------------------------------------------------------------------- *)
(* torch.nn.functional.conv1d without padding (a cross-correlation) on one channel *)
Definition conv1d (x f : list Q) : list Q :=
  map (fun t => qsum (map (fun j => nth (t + j) x 0 * nth j f 0) (seq 0 (length f))))
      (seq 0 (length x + 1 - length f)).

(* arange(width, -width - 1, -1) / sum of squares *)
Definition delta_kernel (w : nat) : list Q :=
  let ks := map (fun k => inject_Z (Z.of_nat w - Z.of_nat k)) (seq 0 (2 * w + 1)) in
  let z := qsum (map qsq ks) in
  map (fun k => k / z) ks.

Definition onehot (n k : nat) : list Q := map (fun i => if (i =? k)%nat then 1 else 0) (seq 0 n).

Fixpoint filter_stack (n w : nat) (kernel last : list Q) : list (list Q) :=
  match n with
  | O => []
  | S n' => let nx := conv1d (repeat 0 w ++ last ++ repeat 0 w) kernel in
            nx :: filter_stack n' w kernel nx
  end.

(* _feat_delta_filters(order, width): order + 1 filters of length 1 + 2 * width * order *)
Definition delta_filters (o w : nat) : list (list Q) :=
  let f0 := onehot (1 + 2 * w * o) (w * o) in
  f0 :: filter_stack o w (delta_kernel w) f0.

Inductive padmode := Replicate | Constant | Reflect | Circular.

(* when torch.nn.functional.pad accepts (p, p) on a last dimension of size T >= 1 *)
Definition pad_ok (m : padmode) (p T : nat) : bool :=
  match m with
  | Reflect => (p <? T)%nat
  | Circular => (p <=? T)%nat
  | _ => true
  end.

Definition pad (m : padmode) (v : Q) (p : nat) (x : list Q) : list Q :=
  let T := length x in
  match m with
  | Constant => repeat v p ++ x ++ repeat v p
  | Replicate => repeat (hd 0 x) p ++ x ++ repeat (last x 0) p
  | Reflect => rev (firstn p (skipn 1 x)) ++ x ++ rev (firstn p (skipn (T - 1 - p) x))
  | Circular => skipn (T - p) x ++ x ++ firstn p x
  end.

(* deltas of one time line: order + 1 rows of length T *)
Definition delta_line (m : padmode) (v : Q) (o w : nat) (x : list Q) : list (list Q) :=
  let xp := pad m v (w * o) x in
  map (conv1d xp) (delta_filters o w).

(* movedim(x, -1, dim) as the chain of adjacent transpositions of _compat.movedim:
   for s in range(source, dest, -1): a = a.transpose(s - 1, s) *)
Fixpoint move_left (k p : nat) (x : tensor) : tensor :=
  match k with
  | O => x
  | S k' => move_left k' (p - 1) (transpose x (p - 1) p)
  end.

Definition movedim_last (x : tensor) (dm : nat) : tensor :=
  let D := length (shape x) in move_left (D - 1 - dm) (D - 1) x.

(* flatten(dm, dm + 1) *)
Definition merge_dims (sh : list nat) (dm : nat) : list nat :=
  firstn dm sh ++ [(nth dm sh 0 * nth (S dm) sh 0)%nat] ++ skipn (dm + 2) sh.

Definition feat_deltas (x : tensor) (dim time_dim : Z) (concatenate : bool) (order width : Z)
  (m : padmode) (v : Q) : result tensor :=
  if (order <? 0)%Z then Err ERuntime else
  if (width <? 1)%Z then Err ERuntime else
  let o := Z.to_nat order in
  let w := Z.to_nat width in
  let D := length (shape x) in
  match norm_dim D time_dim with
  | None => Err ERuntime
  | Some td =>
      let D' := if concatenate then D else S D in
      match norm_dim D' dim with
      | None => Err ERuntime
      | Some dm =>
          let x1 := transpose x td (D - 1) in
          let T := last (shape x1) 0%nat in
          let pre := removelast (shape x1) in
          (* torch's pad rejects a non-zero fill value for every mode but constant *)
          if negb (match m with Constant => true | _ => Qeq_bool v 0 end) then Err ERuntime else
          if (T =? 0)%nat then Err ERuntime else
          if negb (pad_ok m (w * o) T) then Err ERuntime else
          let lines := map (fun n => chunk T n (data x1)) (seq 0 (prodn pre)) in
          let y := mkT (pre ++ [S o; T])
                       (concat (map (fun l => concat (delta_line m v o w l)) lines)) in
          let y1 := transpose y (D - 1) D in
          let y2 := transpose y1 td (D - 1) in
          let y3 := movedim_last y2 dm in
          Ok (if concatenate then mkT (merge_dims (shape y3) dm) (data y3) else y3)
      end
  end.

(* ---------------------------------------------------------------------------------- *)
(* returns                                                                             *)
(* ---------------------------------------------------------------------------------- *)
(* pow(gamma, clamp_min(a - b, 0)) kept on one triangle: `a - b` in nat is the clamp *)
Definition disc_triu (g : Q) (T : nat) : tensor :=   (* exp[i][j] = j - i, triu *)
  tabulate [T; T] (fun ij => let i := nth 0 ij 0%nat in let j := nth 1 ij 0%nat in
                             if (i <=? j)%nat then qpow g (j - i) else 0).
Definition disc_tril (g : Q) (T : nat) : tensor :=   (* exp[i][j] = i - j, tril *)
  tabulate [T; T] (fun ij => let i := nth 0 ij 0%nat in let j := nth 1 ij 0%nat in
                             if (j <=? i)%nat then qpow g (i - j) else 0).

(* torch.matmul on 2-D tensors; the inner size is taken from the left factor *)
Definition matmul (a b : tensor) : tensor :=
  let K := nth 1 (shape a) 0%nat in
  tabulate [nth 0 (shape a) 0%nat; nth 1 (shape b) 0%nat]
    (fun ij => let i := nth 0 ij 0%nat in let j := nth 1 ij 0%nat in
               qsum (map (fun k => get a [i; k] * get b [k; j]) (seq 0 K))).

Definition time_distributed_return (r : tensor) (gamma : Q) (batch_first : bool) : result tensor :=
  if negb (length (shape r) =? 2)%nat then Err ERuntime else
  if Qeq_bool gamma 0 then Ok r else
  if batch_first then Ok (matmul r (disc_tril gamma (nth 1 (shape r) 0%nat)))
  else Ok (matmul (disc_triu gamma (nth 0 (shape r) 0%nat)) r).

(* ---------------------------------------------------------------------------------- *)
(* compute-mvn-stats-for-torch-feat-data-dir                                           *)
(* ---------------------------------------------------------------------------------- *)
(* Files arrive in the order of the sorted utterance ids.  Ids and group ids are numbers.
   [id2gid = None]: one anonymous group.  Outcome: CmdOk groups (in dictionary insertion
   order, groups without data skipped) | CmdRet1 (the command printed a message and returned
   1) | CmdExc (an exception escaped: store() on fewer than two frames). *)
Inductive cmd_out :=
| CmdOk (groups : list (nat * (list Q * list Q)))
| CmdRet1
| CmdExc (e : err).

Fixpoint assoc {A} (k : nat) (l : list (nat * A)) : option A :=
  match l with
  | [] => None
  | (k', a) :: t => if (k =? k')%nat then Some a else assoc k t
  end.

Fixpoint set_assoc {A} (k : nat) (a : A) (l : list (nat * A)) : list (nat * A) :=
  match l with
  | [] => [(k, a)]
  | (k', a') :: t => if (k =? k')%nat then (k, a) :: t else (k', a') :: set_assoc k a t
  end.

(* id2gid parsing: a duplicate id is an error; the groups are the distinct values in order *)
Fixpoint parse_id2gid (lines : list (nat * nat)) (seen : list (nat * nat)) : option (list (nat * nat)) :=
  match lines with
  | [] => Some seen
  | (i, g) :: t => match assoc i seen with
                   | Some _ => None
                   | None => parse_id2gid t (seen ++ [(i, g)])
                   end
  end.

Fixpoint init_groups (m : list (nat * nat)) (acc : list (nat * option stats)) : list (nat * option stats) :=
  match m with
  | [] => acc
  | (_, g) :: t => init_groups t (match assoc g acc with
                                  | Some _ => acc
                                  | None => acc ++ [(g, None)]
                                  end)
  end.

Fixpoint cmd_loop (dim : Z) (map_ : option (list (nat * nat))) (files : list (nat * tensor))
  (groups : list (nat * option stats)) : result (option (list (nat * option stats))) :=
  match files with
  | [] => Ok (Some groups)
  | (i, x) :: t =>
      match (match map_ with None => Some 0%nat | Some m => assoc i m end) with
      | None => Ok None                                   (* id not listed: return 1 *)
      | Some g =>
          let st := match assoc g groups with Some s => s | None => None end in
          bind (accumulate dim st x) (fun s => cmd_loop dim map_ t (set_assoc g (Some s) groups))
      end
  end.

Fixpoint cmd_store (anonymous bessel : bool) (groups : list (nat * option stats))
  : option (result (list (nat * (list Q * list Q)))) :=
  match groups with
  | [] => Some (Ok [])
  | (g, None) :: t => if anonymous then None else cmd_store anonymous bessel t
  | (g, Some s) :: t =>
      match store (Some s) bessel with
      | Err e => Some (Err e)
      | Ok ms => match cmd_store anonymous bessel t with
                 | None => None
                 | Some (Err e) => Some (Err e)
                 | Some (Ok rest) => Some (Ok ((g, ms) :: rest))
                 end
      end
  end.

Definition compute_mvn_stats (files : list (nat * tensor)) (id2gid : option (list (nat * nat)))
  (dim : Z) (bessel : bool) : cmd_out :=
  let parsed := match id2gid with
                | None => Some None
                | Some lines => match parse_id2gid lines [] with
                                | None => None
                                | Some m => Some (Some m)
                                end
                end in
  match parsed with
  | None => CmdRet1
  | Some map_ =>
      let groups0 := match map_ with None => [(0%nat, None)] | Some m => init_groups m [] end in
      match cmd_loop dim map_ files groups0 with
      | Err e => CmdExc e
      | Ok None => CmdRet1
      | Ok (Some groups) =>
          match cmd_store (match map_ with None => true | Some _ => false end) bessel groups with
          | None => CmdRet1
          | Some (Err e) => CmdExc e
          | Some (Ok gs) => CmdOk gs
          end
      end
  end.

(* ---------------------------------------------------------------------------------- *)
(* correspondence entry points                                                         *)
(* ---------------------------------------------------------------------------------- *)
Definition qclose (tol a b : Q) : bool := Qle_bool (Qabs (a - b)) tol.
Fixpoint all2 {A B} (f : A -> B -> bool) (a : list A) (b : list B) : bool :=
  match a, b with
  | [], [] => true
  | x :: a', y :: b' => f x y && all2 f a' b'
  | _, _ => false
  end.
Definition list_nat_eqb (a b : list nat) : bool := all2 Nat.eqb a b.
Definition err_eqb (a b : err) : bool :=
  match a, b with EIndex, EIndex => true | ERuntime, ERuntime => true | _, _ => false end.
Definition tensor_close (tol : Q) (a b : tensor) : bool :=
  list_nat_eqb (shape a) (shape b) && all2 (qclose tol) (data a) (data b).

Definition res_match {A B} (f : A -> B -> bool) (a : result A) (b : result B) : bool :=
  match a, b with
  | Ok x, Ok y => f x y
  | Err e, Err e' => err_eqb e e'
  | _, _ => false
  end.

(* accumulate over chunks (exact: dyadic data), then store.
   impl_stats = (count, sum, sumsq) read from the module's buffers before store;
   impl_ms = (mean, std) after store, compared as mean ~ mean, std^2 ~ var. *)
(* tola = 0 demands equality (data on the dyadic grid, where the float sums are exact) *)
Definition stats_eqb (tola : Q) (s : option stats) (c : Q) (sm sq : list Q) : bool :=
  match s with
  | None => false
  | Some s => Qeq_bool (cnt s) c && all2 (qclose tola) (ssum s) sm && all2 (qclose tola) (ssq s) sq
  end.

Definition check_acc (dim : Z) (xs : list tensor) (impl : result (Q * list Q * list Q)) : bool :=
  res_match (fun s i => let '(c, sm, sq) := i in stats_eqb 0 s c sm sq) (accumulate_all dim None xs) impl.

Definition check_store (dim : Z) (xs : list tensor) (bessel : bool) (tol : Q)
  (impl : result (list Q * list Q)) : bool :=
  res_match (fun mv i => all2 (qclose tol) (fst mv) (fst i) &&
                         all2 (qclose tol) (snd mv) (map qsq (snd i)))
            (bind (accumulate_all dim None xs) (fun s => store s bessel)) impl.


Definition ostats_eqb (tola : Q) (s : option stats) (i : option (Q * list Q * list Q)) : bool :=
  match s, i with
  | None, None => true
  | Some _, Some (c, sm, sq) => stats_eqb tola s c sm sq
  | _, _ => false
  end.

Definition store_close (tol : Q) (mv i : list Q * list Q) : bool :=
  all2 (qclose tol) (fst mv) (fst i) && all2 (qclose tol) (snd mv) (map qsq (snd i)).

(* a whole history: every store result (mean ~ mean, std^2 ~ var) and the final buffers (within tola) *)
Definition check_ops (dim : Z) (ops : list op) (tol tola : Q)
  (impl_stores : list (result (list Q * list Q)))
  (impl_final : result (option (Q * list Q * list Q))) : bool :=
  let '(stores, final) := run_ops dim None ops [] in
  all2 (res_match (store_close tol)) stores impl_stores && res_match (ostats_eqb tola) final impl_final.

(* forward; [sigma] = torch's own std when std is None; audited against the own variance *)
Definition check_norm (x : tensor) (dim : Z) (mean std : option (list Q)) (eps : Q) (sigma : list Q)
  (tol : Q) (impl : result tensor) : bool :=
  res_match (fun yv i => tensor_close tol (fst yv) i &&
                         match std with
                         | Some _ => true
                         | None => all2 (qclose tol) (snd yv) (map qsq sigma)
                         end)
            (mean_var_norm x dim mean std eps sigma) impl.

Definition check_deltas (x : tensor) (dim time_dim : Z) (concatenate : bool) (order width : Z)
  (m : padmode) (v : Q) (tol : Q) (impl : result tensor) : bool :=
  res_match (tensor_close tol) (feat_deltas x dim time_dim concatenate order width m v) impl.

Definition check_return (r : tensor) (gamma : Q) (bf : bool) (tol : Q) (impl : result tensor) : bool :=
  res_match (tensor_close tol) (time_distributed_return r gamma bf) impl.

Definition cmd_close (tol : Q) (a b : cmd_out) : bool :=
  match a, b with
  | CmdRet1, CmdRet1 => true
  | CmdExc e, CmdExc e' => err_eqb e e'
  | CmdOk ga, CmdOk gb =>
      all2 (fun p q => Nat.eqb (fst p) (fst q) &&
                       all2 (qclose tol) (fst (snd p)) (fst (snd q)) &&
                       all2 (qclose tol) (snd (snd p)) (map qsq (snd (snd q)))) ga gb
  | _, _ => false
  end.

Definition check_cmd (files : list (nat * tensor)) (id2gid : option (list (nat * nat))) (dim : Z)
  (bessel : bool) (tol : Q) (impl : cmd_out) : bool :=
  cmd_close tol (compute_mvn_stats files id2gid dim bessel) impl.
