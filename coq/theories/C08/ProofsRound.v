(* C08 - the integer draws (mask widths and starts) stay within their bounds under ANY
   arithmetic that satisfies three laws of IEEE round-to-nearest: monotone, exact on
   integers up to 2^24, and "a product with a variate u <= 1 - 2^-24 rounds strictly below
   an integer bound R <= 2^24" (the epsilon trick does not even need its epsilon there).
   ProofsIeee.v shows that the [ieee] arithmetic of the correspondence satisfies them. *)
From Coq Require Import List ZArith QArith Qround Qabs Bool Lia Lqa.
From PV Require Import C08.Model C08.Spec C08.ProofsDraw.
Import ListNotations.
Local Open Scope Q_scope.

Definition two24 : Z := 16777216.
Definition u_top : Q := 1 - (1 # 16777216).     (* the largest value torch.rand returns *)

Record rounding_laws (a : arith) : Prop := mkLaws
  { rl32_mono : forall x y, x <= y -> r32 a x <= r32 a y;
    rl32_int : forall z, (Z.abs z <= two24)%Z -> r32 a (z2q z) == z2q z;
    rl32_strict : forall (R : Z) x, (0 < R <= two24)%Z -> x <= u_top * z2q R -> r32 a x < z2q R;
    rl64_mono : forall x y, x <= y -> r64 a x <= r64 a y;
    rl64_int : forall z, (Z.abs z <= two24)%Z -> r64 a (z2q z) == z2q z }.

Definition grid_u (u : Q) : Prop := 0 <= u /\ u <= u_top.

Lemma grid_nth : forall us m, Forall grid_u us -> grid_u (nth m us 0).
Proof.
  intros us m H. destruct (Nat.lt_ge_cases m (length us)) as [L|L].
  - rewrite Forall_forall in H. apply H, nth_In, L.
  - rewrite nth_overflow by exact L. split; [apply Qle_refl|]. unfold u_top. lra.
Qed.

Section Laws.
  Variable a : arith.
  Hypothesis laws : rounding_laws a.

  Lemma r32_comp : forall x y, x == y -> r32 a x == r32 a y.
  Proof.
    intros x y H. apply Qle_antisym; apply (rl32_mono a laws); rewrite H; apply Qle_refl.
  Qed.
  Lemma r64_comp : forall x y, x == y -> r64 a x == r64 a y.
  Proof.
    intros x y H. apply Qle_antisym; apply (rl64_mono a laws); rewrite H; apply Qle_refl.
  Qed.

  Lemma r32_between : forall (lo hi : Z) x, (Z.abs lo <= two24)%Z -> (Z.abs hi <= two24)%Z ->
    z2q lo <= x -> x <= z2q hi -> z2q lo <= r32 a x /\ r32 a x <= z2q hi.
  Proof.
    intros lo hi x Hlo Hhi H1 H2. split.
    - rewrite <- (rl32_int a laws lo Hlo). apply (rl32_mono a laws). exact H1.
    - rewrite <- (rl32_int a laws hi Hhi). apply (rl32_mono a laws). exact H2.
  Qed.
  Lemma r64_between : forall (lo hi : Z) x, (Z.abs lo <= two24)%Z -> (Z.abs hi <= two24)%Z ->
    z2q lo <= x -> x <= z2q hi -> z2q lo <= r64 a x /\ r64 a x <= z2q hi.
  Proof.
    intros lo hi x Hlo Hhi H1 H2. split.
    - rewrite <- (rl64_int a laws lo Hlo). apply (rl64_mono a laws). exact H1.
    - rewrite <- (rl64_int a laws hi Hhi). apply (rl64_mono a laws). exact H2.
  Qed.

  Lemma r32_zero : r32 a 0 == 0.
  Proof. change 0 with (z2q 0). apply (rl32_int a laws). unfold two24. cbn. lia. Qed.
  Lemma r64_zero : r64 a 0 == 0.
  Proof. change 0 with (z2q 0). apply (rl64_int a laws). unfold two24. cbn. lia. Qed.
  Lemma r32_one : r32 a 1 == 1.
  Proof. change 1 with (z2q 1). apply (rl32_int a laws). unfold two24. cbn. lia. Qed.
  Lemma r64_one : r64 a 1 == 1.
  Proof. change 1 with (z2q 1). apply (rl64_int a laws). unfold two24. cbn. lia. Qed.
  Lemma r32_nonneg : forall x, 0 <= x -> 0 <= r32 a x.
  Proof. intros x H. rewrite <- r32_zero. apply (rl32_mono a laws). exact H. Qed.
  Lemma r64_nonneg : forall x, 0 <= x -> 0 <= r64 a x.
  Proof. intros x H. rewrite <- r64_zero. apply (rl64_mono a laws). exact H. Qed.
  Lemma r32_le_int : forall x (hi : Z), (Z.abs hi <= two24)%Z -> x <= z2q hi -> r32 a x <= z2q hi.
  Proof. intros x hi H L. rewrite <- (rl32_int a laws hi H). apply (rl32_mono a laws). exact L. Qed.
  Lemma r64_le_int : forall x (hi : Z), (Z.abs hi <= two24)%Z -> x <= z2q hi -> r64 a x <= z2q hi.
  Proof. intros x hi H L. rewrite <- (rl64_int a laws hi H). apply (rl64_mono a laws). exact L. Qed.
  Lemma r32_le_one : forall x, x <= 1 -> r32 a x <= 1.
  Proof. intros x H. rewrite <- r32_one. apply (rl32_mono a laws). exact H. Qed.
  Lemma r64_le_one : forall x, x <= 1 -> r64 a x <= 1.
  Proof. intros x H. rewrite <- r64_one. apply (rl64_mono a laws). exact H. Qed.

  (* floor (round (u * A)) is in 0..M whenever 0 <= A <= M + 1 <= 2^24 and u <= 1 - 2^-24 *)
  Lemma trunc_scaled_r : forall u A (M : Z),
    grid_u u -> (0 <= M)%Z -> (M + 1 <= two24)%Z -> 0 <= A -> A <= z2q M + 1 ->
    (0 <= qtrunc (r32 a (u * A)) <= M)%Z.
  Proof.
    intros u A M [Hu0 Hu1] HM HM2 HA0 HA1.
    assert (HMq : 0 <= z2q M) by (apply z2q_nonneg; exact HM).
    assert (X0 : 0 <= r32 a (u * A)) by (apply r32_nonneg; nra).
    rewrite (qtrunc_nonneg _ X0). split; [apply floor_nonneg; exact X0|].
    apply floor_lt_Z. apply (rl32_strict a laws); [lia|].
    rewrite z2q_plus1. unfold u_top in *. nra.
  Qed.

  Variable eps : Q.
  Hypothesis eps_range : 0 <= eps /\ eps <= 1.

  Lemma om64_range : 0 <= r64 a (1 - eps) /\ r64 a (1 - eps) <= 1.
  Proof. destruct eps_range. split; [apply r64_nonneg|apply r64_le_one]; lra. Qed.

  Lemma omeps_range : 0 <= omeps a eps /\ omeps a eps <= 1.
  Proof.
    unfold omeps. destruct om64_range. split; [apply r32_nonneg|apply r32_le_one]; assumption.
  Qed.

  Section Time.
    Variables (c : cfg) (len : Z) (us us0 : list Q).
    Hypothesis len_range : (0 <= len)%Z /\ (len < two24)%Z.
    Hypothesis Mt_nonneg : (0 <= c_Mt c)%Z.
    Hypothesis pt_range : 0 <= c_pt c /\ c_pt c <= 1.
    Hypothesis us_grid : Forall grid_u us.
    Hypothesis us0_grid : Forall grid_u us0.

    Let max_ := cap a len (c_pt c) (c_Mt c).
    Let nums := cap a len (c_npt c) (Z.of_nat (c_nt c)).

    Lemma lenq_exact : lenq a len == z2q len.
    Proof. unfold lenq. apply (rl32_int a laws). unfold two24 in *. lia. Qed.

    Lemma prop_cap_range : 0 <= r32 a (lenq a len * r32 a (c_pt c))
                           /\ r32 a (lenq a len * r32 a (c_pt c)) <= z2q len.
    Proof.
      destruct pt_range as [P0 P1]. destruct len_range as [L0 L1].
      pose proof (r32_nonneg (c_pt c) P0) as A. pose proof (r32_le_one (c_pt c) P1) as B.
      pose proof lenq_exact as E. pose proof (z2q_nonneg len L0) as Lq.
      split; [apply r32_nonneg|apply r32_le_int; [unfold two24 in *; lia|]]; rewrite E; nra.
    Qed.

    Lemma max_range : (0 <= max_ <= len)%Z /\ (max_ <= c_Mt c)%Z
                      /\ z2q max_ <= r32 a (lenq a len * r32 a (c_pt c)).
    Proof.
      destruct prop_cap_range as [C D]. destruct len_range as [L0 L1].
      unfold max_, cap.
      set (A := r32 a (lenq a len * r32 a (c_pt c))) in *.
      set (B := r32 a (z2q (c_Mt c))).
      assert (B0 : 0 <= B) by (apply r32_nonneg, z2q_nonneg; exact Mt_nonneg).
      assert (F1 : (Qfloor (qmin A B) <= len)%Z).
      { rewrite <- (Qfloor_Z len). apply Qfloor_resp_le. eapply Qle_trans; [apply qmin_l|exact D]. }
      repeat split.
      - apply floor_nonneg, qmin_glb; assumption.
      - exact F1.
      - destruct (Z_le_gt_dec (c_Mt c) two24) as [S|S].
        + assert (EB : B == z2q (c_Mt c)) by (apply (rl32_int a laws); lia).
          rewrite <- (Qfloor_Z (c_Mt c)). apply Qfloor_resp_le. eapply Qle_trans; [apply qmin_r|].
          rewrite EB. apply Qle_refl.
        + lia.
      - eapply Qle_trans; [apply floor_le_self|apply qmin_l].
    Qed.

    Lemma tm_t_bounds_r : forall m, (0 <= tm_t a eps max_ nums m (nth m us 0%Q) <= max_)%Z.
    Proof.
      intro m. destruct max_range as [[M0 M1] _]. destruct len_range as [L0 L1].
      unfold tm_t. destruct (nums <=? Z.of_nat m)%Z; [lia|].
      destruct omeps_range as [O0 O1]. pose proof (z2q_nonneg max_ M0) as Mq.
      apply trunc_scaled_r; [apply grid_nth; exact us_grid|exact M0|lia| |].
      - apply r32_nonneg. lra.
      - rewrite <- z2q_plus1. apply r32_le_int; [lia|]. rewrite z2q_plus1. lra.
    Qed.

    Lemma tm_t0_bounds_r : forall t u, (0 <= t <= len)%Z -> grid_u u ->
      (0 <= tm_t0 a eps len t u <= len - t)%Z.
    Proof.
      intros t u Ht Hu. destruct len_range as [L0 L1]. unfold tm_t0.
      destruct omeps_range as [O0 O1].
      assert (E : r32 a (lenq a len - z2q t) == z2q (len - t)).
      { rewrite <- (rl32_int a laws (len - t)) by (unfold two24 in *; lia).
        apply r32_comp. rewrite lenq_exact. unfold z2q, Zminus. rewrite inject_Z_plus, inject_Z_opp. reflexivity. }
      pose proof (z2q_nonneg (len - t) ltac:(lia)) as Dq.
      apply trunc_scaled_r; [exact Hu|lia|lia| |].
      - apply r32_nonneg. rewrite E. lra.
      - rewrite <- z2q_plus1. apply r32_le_int; [unfold two24 in *; lia|]. rewrite z2q_plus1, E. lra.
    Qed.

    (* every time mask drawn with rounding: width in 0..min(Mt, floor of the float32
       proportional cap), start >= 0, start + width <= len *)
    Lemma time_masks_each_r : Forall (fun b : Z * Z =>
        (0 <= snd b <= c_Mt c)%Z /\ z2q (snd b) <= r32 a (lenq a len * r32 a (c_pt c))
        /\ (0 <= fst b)%Z /\ (fst b + snd b <= len)%Z)
      (time_masks a eps c len us us0).
    Proof.
      apply Forall_forall. intros b Hb. unfold time_masks in Hb. apply in_map_iff in Hb.
      destruct Hb as [m [E _]]. subst b. cbn [fst snd]. fold max_ nums.
      pose proof (tm_t_bounds_r m) as [T0 T1]. destruct max_range as [[M0 M1] [M2 M3]].
      set (t := tm_t a eps max_ nums m (nth m us 0)) in *.
      destruct (tm_t0_bounds_r t (nth m us0 0) ltac:(lia) (grid_nth us0 m us0_grid)) as [S0 S1].
      repeat split; try lia.
      eapply Qle_trans; [apply z2q_le; exact T1|exact M3].
    Qed.

    (* at most [nums] masks have a non-zero width, whatever the arithmetic *)
    Lemma count_nonzero_le_nums_r :
      (count_nonzero (time_masks a eps c len us us0) <= Z.max 0 nums)%Z.
    Proof.
      unfold count_nonzero, time_masks. fold max_ nums.
      set (f := fun m : nat => (tm_t0 a eps len (tm_t a eps max_ nums m (nth m us 0)) (nth m us0 0),
                               tm_t a eps max_ nums m (nth m us 0))).
      assert (G : forall n s, (Z.of_nat (length (filter (fun b : Z * Z => negb (snd b =? 0)%Z) (map f (seq s n))))
                               <= Z.max 0 (nums - Z.of_nat s))%Z).
      { induction n as [|n IH]; intro s; [cbn; lia|].
        cbn [seq map filter]. specialize (IH (S s)).
        destruct (negb (snd (f s) =? 0)%Z) eqn:E.
        - cbn [length]. unfold f in E. cbn [snd] in E. unfold tm_t in E.
          destruct (nums <=? Z.of_nat s)%Z eqn:L; [cbn in E; discriminate|].
          apply Z.leb_gt in L. lia.
        - lia. }
      specialize (G (c_nt c) 0%nat). cbn [Z.of_nat] in G. rewrite Z.sub_0_r in G. exact G.
    Qed.
  End Time.

  Section Freq.
    Variables (c : cfg) (F : Z) (us us0 : list Q).
    Hypothesis F_range : (0 <= F)%Z /\ (F < two24)%Z.
    Hypothesis Mf_nonneg : (0 <= c_Mf c)%Z.
    Hypothesis us_grid : Forall grid_u us.
    Hypothesis us0_grid : Forall grid_u us0.

    Lemma freq_masks_ok_r : fmasks_ok c F (freq_masks a eps c F us us0).
    Proof.
      destruct F_range as [F0 F1].
      unfold fmasks_ok, freq_masks. split; [now rewrite map_length, seq_length|].
      apply Forall_forall. intros b Hb. apply in_map_iff in Hb. destruct Hb as [m [E _]]. subst b.
      unfold fmask_ok. cbn [fst snd].
      set (fmax := Z.min (c_Mf c) F).
      destruct om64_range as [O0 O1]. destruct omeps_range as [P0 P1].
      pose proof (z2q_nonneg fmax ltac:(unfold fmax; lia)) as Fq.
      assert (Hf : (0 <= fm_f a eps fmax (nth m us 0%Q) <= fmax)%Z).
      { unfold fm_f. apply trunc_scaled_r; [apply grid_nth; exact us_grid|unfold fmax; lia|unfold fmax, two24 in *; lia| |].
        - apply r32_nonneg, r64_nonneg. lra.
        - rewrite <- z2q_plus1. apply r32_le_int; [unfold fmax, two24 in *; lia|].
          apply r64_le_int; [unfold fmax, two24 in *; lia|]. rewrite z2q_plus1. lra. }
      set (f := fm_f a eps fmax (nth m us 0)) in *.
      assert (Hf0 : (0 <= fm_f0 a eps F f (nth m us0 0%Q) <= F - f)%Z).
      { unfold fm_f0.
        assert (E : r32 a (z2q (F - f)) == z2q (F - f)) by (apply (rl32_int a laws); unfold fmax, two24 in *; lia).
        pose proof (z2q_nonneg (F - f) ltac:(unfold fmax in *; lia)) as Dq.
        apply trunc_scaled_r; [apply grid_nth; exact us0_grid|unfold fmax in *; lia|unfold fmax, two24 in *; lia| |].
        - apply r32_nonneg. rewrite E. lra.
        - rewrite <- z2q_plus1. apply r32_le_int; [unfold fmax, two24 in *; lia|]. rewrite z2q_plus1, E. lra. }
      unfold fmax in *. lia.
    Qed.
  End Freq.
End Laws.

(* the exact arithmetic trivially satisfies the laws *)
Lemma exact_laws : rounding_laws exact.
Proof.
  constructor; cbn [r32 r64 exact]; intros; try assumption; try reflexivity.
  assert (0 < z2q R) by (unfold z2q; change 0 with (inject_Z 0); rewrite <- Zlt_Qlt; lia).
  unfold u_top in *. nra.
Qed.
