(* C01 — facts about the specification alone: [lev] is the minimum cost over edit scripts,
   it is symmetric under reversal, and therefore obeys the recursion on the LAST tokens
   that a row-by-row table over prefixes needs.  Reused by C02 / C03. *)
From Coq Require Import List ZArith Bool Arith Lia.
From PV Require Import C01.Obs C01.Spec.
Import ListNotations.
Local Open Scope Z_scope.

Section LevFacts.
  Variables ci cd cs : Z.
  Notation lev := (lev ci cd cs).
  Notation cost := (cost ci cd cs).
  Notation min_edit_cost := (min_edit_cost ci cd cs).

  Definition sub_cost (a b : Z) : Z := if a =? b then 0 else cs.

  (* ---- unfolding equations -------------------------------------------------------- *)
  Lemma lev_nil_l h : lev [] h = Z.of_nat (length h) * ci.
  Proof. reflexivity. Qed.

  Lemma lev_nil_r r : lev r [] = Z.of_nat (length r) * cd.
  Proof. destruct r as [|a r]; [reflexivity|]. reflexivity. Qed.

  Lemma lev_cons a r b h :
    lev (a :: r) (b :: h) =
    Z.min (Z.min (lev r (b :: h) + cd) (lev (a :: r) h + ci)) (lev r h + sub_cost a b).
  Proof. reflexivity. Qed.

  (* ---- scripts --------------------------------------------------------------------- *)
  Lemma cost_app s1 s2 : cost (s1 ++ s2) = cost s1 + cost s2.
  Proof. induction s1 as [|o s1 IH]; cbn [app Spec.cost]; lia. Qed.

  Lemma cost_rev s : cost (rev s) = cost s.
  Proof.
    induction s as [|o s IH]; [reflexivity|].
    cbn [rev]. rewrite cost_app, IH. cbn [Spec.cost]. lia.
  Qed.

  Lemma transforms_app s1 r1 h1 s2 r2 h2 :
    transforms s1 r1 h1 -> transforms s2 r2 h2 ->
    transforms (s1 ++ s2) (r1 ++ r2) (h1 ++ h2).
  Proof.
    intros H1 H2. induction H1; cbn [app]; [assumption| | | |]; constructor; assumption.
  Qed.

  Lemma transforms_rev s r h : transforms s r h -> transforms (rev s) (rev r) (rev h).
  Proof.
    intros H. induction H as [|s r h b _ IH|s r h a _ IH|s r h a b Hab _ IH|s r h a _ IH];
      cbn [rev].
    - constructor.
    - rewrite <- (app_nil_r (rev r)).
      apply transforms_app; [exact IH|]. repeat constructor.
    - rewrite <- (app_nil_r (rev h)).
      apply transforms_app; [exact IH|]. repeat constructor.
    - apply transforms_app; [exact IH|]. constructor; [exact Hab|constructor].
    - apply transforms_app; [exact IH|]. repeat constructor.
  Qed.

  (* deleting everything / inserting everything *)
  Lemma transforms_all_del r : transforms (map Del r) r [].
  Proof. induction r; cbn [map]; constructor; assumption. Qed.

  Lemma transforms_all_ins h : transforms (map Ins h) [] h.
  Proof. induction h; cbn [map]; constructor; assumption. Qed.

  Lemma cost_all_del r : cost (map Del r) = Z.of_nat (length r) * cd.
  Proof. induction r as [|a r IH]; [reflexivity|]. cbn [map Spec.cost op_cost length]. lia. Qed.

  Lemma cost_all_ins h : cost (map Ins h) = Z.of_nat (length h) * ci.
  Proof. induction h as [|a h IH]; [reflexivity|]. cbn [map Spec.cost op_cost length]. lia. Qed.

  (* ---- lev bounds every script ------------------------------------------------------ *)
  Lemma lev_lower_bound s r h : transforms s r h -> lev r h <= cost s.
  Proof.
    intros H. induction H as [|s r h b H IH|s r h a H IH|s r h a b Hab H IH|s r h a H IH].
    - cbn. lia.
    - (* Ins b *)
      cbn [Spec.cost op_cost]. destruct r as [|a r].
      + rewrite lev_nil_l in *. cbn [length]. lia.
      + rewrite lev_cons. lia.
    - (* Del a *)
      cbn [Spec.cost op_cost]. destruct h as [|b h].
      + rewrite lev_nil_r in *. cbn [length]. lia.
      + rewrite lev_cons. lia.
    - (* Sub a b *)
      cbn [Spec.cost op_cost]. rewrite lev_cons. unfold sub_cost.
      destruct (a =? b) eqn:E; [apply Z.eqb_eq in E; contradiction|]. lia.
    - (* Keep a *)
      cbn [Spec.cost op_cost]. rewrite lev_cons. unfold sub_cost. rewrite Z.eqb_refl. lia.
  Qed.

  (* ---- and is attained by one ------------------------------------------------------- *)
  Lemma lev_attained r : forall h, exists s, transforms s r h /\ cost s = lev r h.
  Proof.
    induction r as [|a r IHr]; intros h.
    - exists (map Ins h). split; [apply transforms_all_ins|]. rewrite lev_nil_l. apply cost_all_ins.
    - induction h as [|b h IHh].
      + exists (map Del (a :: r)). split; [apply transforms_all_del|].
        rewrite lev_nil_r. apply cost_all_del.
      + rewrite lev_cons.
        destruct (IHr (b :: h)) as [s1 [T1 C1]].
        destruct IHh as [s2 [T2 C2]].
        destruct (IHr h) as [s3 [T3 C3]].
        destruct (Z.min_spec (Z.min (lev r (b :: h) + cd) (lev (a :: r) h + ci))
                             (lev r h + sub_cost a b)) as [[_ E]|[_ E]]; rewrite E.
        * destruct (Z.min_spec (lev r (b :: h) + cd) (lev (a :: r) h + ci)) as [[_ E']|[_ E']];
            rewrite E'.
          -- exists (Del a :: s1). split; [constructor; exact T1|]. cbn [Spec.cost op_cost]. lia.
          -- exists (Ins b :: s2). split; [constructor; exact T2|]. cbn [Spec.cost op_cost]. lia.
        * unfold sub_cost. destruct (a =? b) eqn:Eab.
          -- apply Z.eqb_eq in Eab. subst b.
             exists (Keep a :: s3). split; [constructor; exact T3|]. cbn [Spec.cost op_cost]. lia.
          -- apply Z.eqb_neq in Eab.
             exists (Sub a b :: s3). split; [constructor; assumption|]. cbn [Spec.cost op_cost]. lia.
  Qed.

  Theorem lev_is_min_edit_cost r h : min_edit_cost r h (lev r h).
  Proof. split; [apply lev_attained|]. intros s H. apply lev_lower_bound; exact H. Qed.

  Lemma min_edit_cost_unique r h v w : min_edit_cost r h v -> min_edit_cost r h w -> v = w.
  Proof.
    intros [[s [Ts Cs]] Lv] [[t [Tt Ct]] Lw].
    specialize (Lv t Tt). specialize (Lw s Ts). lia.
  Qed.

  (* ---- reversal and the recursion on the last tokens -------------------------------- *)
  Lemma lev_rev_le r h : lev (rev r) (rev h) <= lev r h.
  Proof.
    destruct (lev_attained r h) as [s [T C]]. rewrite <- C, <- cost_rev.
    apply lev_lower_bound, transforms_rev, T.
  Qed.

  Lemma lev_rev r h : lev (rev r) (rev h) = lev r h.
  Proof.
    apply Z.le_antisymm; [apply lev_rev_le|].
    rewrite <- (rev_involutive r) at 1. rewrite <- (rev_involutive h) at 1. apply lev_rev_le.
  Qed.

  Lemma lev_snoc r a h b :
    lev (r ++ [a]) (h ++ [b]) =
    Z.min (Z.min (lev r (h ++ [b]) + cd) (lev (r ++ [a]) h + ci)) (lev r h + sub_cost a b).
  Proof.
    rewrite <- (lev_rev (r ++ [a]) (h ++ [b])), !rev_unit, lev_cons.
    rewrite <- (rev_unit h b), <- (rev_unit r a), !lev_rev. reflexivity.
  Qed.
End LevFacts.

(* ---- the uniform-cost shortcut ------------------------------------------------------- *)
Lemma lev_scale (c : Z) : 0 <= c -> forall r h, lev c c c r h = c * lev 1 1 1 r h.
Proof.
  intros Hc. induction r as [|a r IHr]; intros h.
  - rewrite !lev_nil_l. lia.
  - induction h as [|b h IHh].
    + rewrite !lev_nil_r. lia.
    + rewrite !lev_cons, IHr, IHh, IHr. unfold sub_cost.
      rewrite <- !Z.mul_min_distr_nonneg_l by exact Hc.
      destruct (a =? b); f_equal; lia.
Qed.
