(* MiniTorch, unit C05B — the torch operations that occur in the translated blocks of `CTCPrefixSearch.forward`
   (src/pydrobert/torch/_decoding.py: the body of the loop over frames and the epilogue) and are NOT already defined
   in OpsC05.v (which is imported read-only: same tensors = (shape, row-major data) over mass / Z / bool, same
   conventions: an operation returns [None] outside the domain stated with it, the unit's [ext] turns that into
   [Stuck]).  DEFINITIONS ONLY; the algebra is in LemmasC05B.v, the dispatch from call names in C05/SrcRunB.v.
   TRUSTED by the second C05 tie; exercised on every run by the harness-side [SrcRunB.src_search_check] (torch vs the
   interpreted blocks on the run's search cases). *)
From Coq Require Import List ZArith QArith Qcanon Bool Arith.
From PV Require Import MiniTorch.Ops MiniTorch.OpsC05.
From PV Require C05.Model.
Import ListNotations.
Local Open Scope nat_scope.

(* ---- indexing with a Python int ------------------------------------------------------------------------- *)
(* `x[i]` = Tensor.select(0, i): "Slices the input tensor along the selected dimension at the given index.  This
   function returns a view of the original tensor with the given dimension removed."  Modelled: rank >= 1 and
   0 <= i < x.size(0) (a negative index counts from the end in torch: None here; out of range raises IndexError:
   None).   out[ix] = x[i :: ix] *)
Definition select0 {X} (d : X) (x : tn X) (i : Z) : option (tn X) :=
  match shp x with
  | n :: r => if zin n i then Some (tab r (fun ix => get d x (Z.to_nat i :: ix))) else None
  | [] => None
  end.

(* ---- shapes ---------------------------------------------------------------------------------------------- *)
(* Tensor.expand( *sizes) with -1: "Passing -1 as the size for a dimension means not changing the size of that
   dimension."  Every -1 is replaced by the tensor's own size, then OpsC05.expand (as many sizes as dimensions). *)
Definition expand_keep {X} (d : X) (x : tn X) (sizes : list Z) : option (tn X) :=
  if List.length sizes =? rank x
  then expand d x (zipw (fun s z => if (z =? -1)%Z then Z.of_nat s else z) (shp x) sizes)
  else None.

(* Tensor.view( *shape): "Returns a new tensor with the same data as the self tensor but of a different shape."
   Modelled ONLY for the two uses the loop body makes of it (every tensor is row-major, the contiguity condition
   of view is not modelled; -1: None):
     a 2-D tensor (a * b, c) viewed as (a, b, c):   out[i, j, k] = x[i * b + j, k]
     a 1-D tensor (a) viewed as (a, 1, 1):          out[i, 0, 0] = x[i] *)
Definition view_split {X} (d : X) (x : tn X) (sizes : list Z) : option (tn X) :=
  match shp x, nat_sizes sizes with
  | [m; c], Some [a; b; c'] =>
      if (m =? a * b) && (c =? c')
      then Some (tab [a; b; c] (fun ix => get d x [at_ ix 0 * b + at_ ix 1; at_ ix 2]))
      else None
  | [a], Some [a'; 1; 1] =>
      if a =? a' then Some (tab [a; 1; 1] (fun ix => get d x [at_ ix 0])) else None
  | _, _ => None
  end.

(* the two modelled uses of view together with the first tie's (a, b, c) -> (a, b * c): chosen by the rank of self *)
Definition viewB {X} (d : X) (x : tn X) (sizes : list Z) : option (tn X) :=
  match shp x with
  | [_; _; _] => view_merge d x sizes
  | _ => view_split d x sizes
  end.

(* Tensor.flatten(start_dim=0, end_dim=-1): "Flattens input by reshaping it into a one-dimensional tensor.  If
   start_dim or end_dim are passed, only dimensions starting with start_dim and ending with end_dim are
   flattened.  The order of elements in input is unchanged."  Modelled for the two uses:
     x.flatten()  on a 2-D tensor (a, b) -> (a * b):         out[r] = x[r / b, r mod b]
     x.flatten(1) on a 3-D tensor (a, b, c) -> (a, b * c):   OpsC05.view_merge *)
Definition flatten2 {X} (d : X) (x : tn X) : option (tn X) :=
  match shp x with
  | [a; b] => Some (tab [a * b] (fun ix => get d x [at_ ix 0 / b; at_ ix 0 mod b]))
  | _ => None
  end.

Definition flatten1_3 {X} (d : X) (x : tn X) : option (tn X) :=
  match shp x with
  | [a; b; c] => view_merge d x [Z.of_nat a; (Z.of_nat b * Z.of_nat c)%Z]
  | _ => None
  end.

(* Tensor.repeat( *sizes): "Repeats this tensor along the specified dimensions.  Unlike expand(), this function
   copies the tensor's data.  sizes: the number of times to repeat this tensor along each dimension."  Modelled: as
   many non-negative sizes as dimensions (more sizes than dimensions prepend dimensions in torch: None).
   out has size s_k * r_k along k;  out[ix] = x[ix_k mod s_k] *)
Definition repeat_ {X} (d : X) (x : tn X) (reps : list Z) : option (tn X) :=
  match nat_sizes reps with
  | Some rs =>
      if List.length rs =? rank x
      then Some (tab (zipw Nat.mul (shp x) rs) (fun ix => get d x (zipw (fun i s => i mod s) ix (shp x))))
      else None
  | None => None
  end.

(* ---- constructors ---------------------------------------------------------------------------------------- *)
(* torch.arange(start, end, step): "Returns a 1-D tensor of size ceil((end - start) / step) with values from the
   interval [start, end) taken with common difference step beginning from start."  Modelled: Python ints, step > 0
   (the result is a long tensor). *)
Definition arange3 (s e st : Z) : option (tn Z) :=
  if (0 <? st)%Z
  then Some (tab [Z.to_nat ((e - s + st - 1) / st)] (fun ix => (s + Z.of_nat (at_ ix 0) * st)%Z))
  else None.

(* Tensor.new_full(size, fill_value): "Returns a Tensor of size size filled with fill_value.  By default, the
   returned Tensor has the same torch.dtype and torch.device as this tensor." = OpsC05.full with the receiver's
   element kind (the dispatch in SrcRunB looks at the receiver). *)

(* ---- element-wise ---------------------------------------------------------------------------------------- *)
Module M := PV.C05.Model.

(* `c * x` with c a Python float and x a float tensor = torch.mul(x, c): "Multiplies input by other"; FINITE
   entries only, as OpsC05.fmul (None if x holds a -inf) *)
Definition smul (c : Qc) (x : tn M.mass) : option (tn M.mass) :=
  if forallb is_fin (dat x) then Some (tmap (mmul (M.Fin c)) x) else None.

(* `c - x` with c a Python number and x a float tensor = Tensor.__rsub__ = torch.rsub(x, c): "Subtracts input
   from other"; FINITE entries only *)
Definition rsub_s (c : Qc) (x : tn M.mass) : option (tn M.mass) :=
  if forallb is_fin (dat x)
  then Some (tmap (fun m => match m with M.Fin v => M.Fin (c - v)%Qc | M.NegInf => M.NegInf end) x)
  else None.

(* `t < x` with t a Python int and x a long tensor: Python reflects the comparison to x.__gt__(t) = torch.gt(x, t):
   "Computes input > other element-wise" - a bool tensor of x's shape *)
Definition ilt_rs (t : Z) (x : tn Z) : tn bool := tmap (fun v => (t <? v)%Z) x.

(* torch.where(condition, input, other): "Return a tensor of elements selected from either input or other,
   depending on condition.  The tensors condition, input, other must be broadcastable."  Modelled for three tensors
   of EQUAL RANK (OpsC05.zipb's broadcasting: sizes equal or 1 along every dimension). *)
Definition where_b {X} (d : X) (c : tn bool) (a b : tn X) : option (tn X) :=
  match zipb d d pair a b with
  | Some ab => zipb false (d, d) (fun (cnd : bool) (p : X * X) => if cnd then fst p else snd p) c ab
  | None => None
  end.

(* torch.ones(size, ...): "Returns a tensor filled with the scalar value 1" = OpsC05.full *)
