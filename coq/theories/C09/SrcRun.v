(* C09 — the translated source of `_get_padding_buffers` and `pad_variable` as an executable: the environments
   [ext09g] / [ext09], the encoding of the model's inputs as MiniPy values, and the correspondence entry point
   [src_pad_variable_check].  Definitions only; the lemmas are in TieModel.v / Tie.v.

   PV.Gen.C09Src.gpb_body and pad_variable_body are regenerated from /repo/src/pydrobert/torch/_pad.py on every
   run by harness/py2coq/translate.py (the bodies of the functions; the decorators `@script` and
   `@functional_wrapper(...)` are outside them: TorchScript compilation is NOT modelled, the tie is about the
   Python text as eager CPython runs it).

   [ext09g] gives the torch calls of both bodies the meaning defined in PV.MiniTorch.OpsC09 (boolean / integer /
   payload tensors).  What arrives here (see MiniPy.Interp):
     x.ndim, x.shape, x.device                        "$attr.<name>"  (shape: a tuple of ints; device: an opaque token)
     t.unsqueeze(k) t.flatten(k) t.size(k) t.view(..) t.expand(..) t.expand_as(u) t.any() t.max() t.item() t.sum(0)
     t.gather(1, i) t.masked_select(m) t.masked_scatter(m, s) t.new_full(size, v) t.clamp_(min=c)
                                                      "$method.<name>" with the receiver as first argument
     a > b, a >= b, a < b, a <= b                     "compare" [name; a; b]      (integer tensors; b may be a Python int)
     a - b, a + b, a & b, tuple + tuple               "operator" [name; a; b]
     ~m                                               "$invert" [m]
     t[:k], t[:, :k], t[i], tuple[:k], tuple[k:]      "$getitem" [t; key]
     torch.arange(n, device=), int(v)
   A 0-dimensional integer tensor (the result of `.max()`) is accepted wherever Python asks it for an integer
   through `__index__` / `__int__`: slice bounds, sizes given to expand, `int(..)`.  `.any()` yields a Python bool
   (the code uses it only as a condition).  Keyword arguments: only `device=` (the token `x.device` returned,
   ignored) of torch.arange and `min=` of clamp_.  Two documented RuntimeErrors are modelled as exceptions:
   `max()` of an empty tensor and `masked_scatter` with too short a source.  Everything else is Stuck.
   No tensor reachable from an argument is written: `clamp_` is applied to a fresh temporary and its result used.

   [ext09] = [ext09g] + the call `_get_padding_buffers(x, lens, left_pad, right_pad, mode)`, which INTERPRETS the
   other translated body on fresh variables (the caller's state is untouched). *)
From Coq Require Import ZArith List String Bool.
From PV Require Import MiniPy.Syntax MiniPy.Interp MiniTorch.Ops MiniTorch.OpsC09 Gen.C09Src.
From PV Require C09.Model.
Import ListNotations.
Local Open Scope string_scope.

Definition device_token : val := VStr "$device".

Definition stuck {A} (w : string) : outcome A := Stuck ("MiniTorch(C09): outside the modelled domain: " ++ w).

Definition ret (w : string) (o : option anyt) (st : state) : outcome val :=
  match o with Some t => Ok (enc_any t) st | None => stuck w end.

(* an operand of an element-wise operation: a tensor or a Python int *)
Inductive opnd := OT (t : anyt) | OZ (z : Z).
Definition operand (v : val) : option opnd :=
  match v with VInt z => Some (OZ z) | _ => option_map OT (dec_any v) end.

(* where Python wants an integer: an int, or a 0-dimensional integer tensor (through __index__ / __int__) *)
Definition as_index (v : val) : option Z :=
  match operand v with
  | Some (OZ z) => Some z
  | Some (OT (TI t)) => scalar_of t
  | _ => None
  end.

Definition as_size (v : val) : option nat :=
  match as_index v with Some z => if Z.leb 0 z then Some (Z.to_nat z) else None | None => None end.

Fixpoint as_sizes (l : list val) : option (list nat) :=
  match l with
  | [] => Some []
  | v :: r => match as_size v, as_sizes r with Some n, Some ns => Some (n :: ns) | _, _ => None end
  end.

(* sizes given either as separate arguments or as one tuple *)
Definition size_args (l : list val) : option (list nat) :=
  match l with [VTuple s] => as_sizes s | _ => as_sizes l end.

(* slice(None, b, None) -> b;  slice(a, None, None) -> a;  slice(None, None, None) *)
Definition slice_to (k : val) : option val :=
  match k with
  | VTuple [VStr s; VNone; b; VNone] => if String.eqb s "$slice" then Some b else None
  | _ => None
  end.
Definition slice_from (k : val) : option val :=
  match k with
  | VTuple [VStr s; a; VNone; VNone] => if String.eqb s "$slice" then Some a else None
  | _ => None
  end.
Definition full_slice (k : val) : bool :=
  match k with
  | VTuple [VStr s; VNone; VNone; VNone] => String.eqb s "$slice"
  | _ => false
  end.

Definition zcmp (o : string) : option (Z -> Z -> bool) :=
  if is o "lt" then Some Z.ltb else if is o "le" then Some Z.leb
  else if is o "gt" then Some Z.gtb else if is o "ge" then Some Z.geb else None.

Definition zarith (o : string) : option (Z -> Z -> Z) :=
  if is o "add" then Some Z.add else if is o "sub" then Some Z.sub else None.

Definition kw_device_ok (kv : string * val) : bool := is (fst kv) "device" && val_eqb (snd kv) device_token.
Definition no_kw (kw : list (string * val)) : bool := match kw with [] => true | _ => false end.

Definition runtime_error : string := "RuntimeError".
Definition value_error : string := "ValueError".
Definition not_implemented_error : string := "NotImplementedError".

Definition getitem (t k : val) (st : state) : outcome val :=
  match dec_any t with
  | Some a =>
      match k with
      | VInt i => if Z.leb 0 i then ret "t[i]" (any_map (fun X _ x => select0 x (Z.to_nat i)) a) st else stuck "t[negative]"
      | VTuple [k0; k1] =>
          if full_slice k0 then
            match slice_to k1 with
            | Some b => match as_size b with
                        | Some n => ret "t[:, :k]" (any_map (fun X d x => slice3_1 d x n) a) st
                        | None => stuck "t[:, :k]: bound"
                        end
            | None => stuck "t[k0, k1]"
            end
          else stuck "t[k0, k1]"
      | _ =>
          match slice_to k with
          | Some b => match as_size b with
                      | Some n => ret "t[:k]" (any_map (fun X _ x => slice1 x n) a) st
                      | None => stuck "t[:k]: bound"
                      end
          | None => stuck "t[key]"
          end
      end
  | None =>
      (* a plain tuple (x.shape): Python's tuple slicing, non-negative bounds *)
      match t with
      | VTuple l =>
          match slice_to k, slice_from k with
          | Some (VInt b), _ => if Z.leb 0 b then Ok (VTuple (firstn (Z.to_nat b) l)) st else stuck "tuple[:negative]"
          | _, Some (VInt a) => if Z.leb 0 a then Ok (VTuple (skipn (Z.to_nat a) l)) st else stuck "tuple[negative:]"
          | _, _ => stuck "tuple[key]"
          end
      | _ => stuck "getitem"
      end
  end.

Definition ext09g (f : string) (args : list val) (kw : list (string * val)) (st : state) : outcome val :=
  if is f "torch.arange" then
    match args with
    | [n] => if forallb kw_device_ok kw then
               match as_index n with
               | Some z => ret "arange" (option_map TI (arange z)) st
               | None => stuck "arange: argument"
               end
             else stuck "arange: keyword"
    | _ => stuck "arange"
    end
  else if is f "$method.clamp_" then
    match args, kw with
    | [t], [(k, VInt c)] =>
        if is k "min" then
          match dec_any t with Some (TI x) => Ok (enc_i (clamp_min x c)) st | _ => stuck "clamp_: receiver" end
        else stuck "clamp_: keyword"
    | _, _ => stuck "clamp_"
    end
  else if negb (no_kw kw) then stuck ("keyword arguments of " ++ f)
  else if is f "$attr.ndim" then
    match args with
    | [t] => match dec_any t with Some a => Ok (VInt (Z.of_nat (List.length (any_shape a)))) st | None => stuck "ndim" end
    | _ => stuck "ndim"
    end
  else if is f "$attr.shape" then
    match args with
    | [t] => match dec_any t with Some a => Ok (VTuple (enc_shape (any_shape a))) st | None => stuck "shape" end
    | _ => stuck "shape"
    end
  else if is f "$attr.device" then
    match args with
    | [t] => match dec_any t with Some _ => Ok device_token st | None => stuck "device" end
    | _ => stuck "device"
    end
  else if is f "$method.size" then
    match args with
    | [t; VInt d] => match dec_any t with
                     | Some a => match wrap_dim (List.length (any_shape a)) d with
                                 | Some k => Ok (VInt (Z.of_nat (nth k (any_shape a) 0%nat))) st
                                 | None => stuck "size: dim"
                                 end
                     | None => stuck "size"
                     end
    | _ => stuck "size"
    end
  else if is f "$method.unsqueeze" then
    match args with
    | [t; VInt d] => match dec_any t with Some a => ret "unsqueeze" (any_map (fun X _ x => unsqueeze x d) a) st | None => stuck "unsqueeze" end
    | _ => stuck "unsqueeze"
    end
  else if is f "$method.flatten" then
    match args with
    | [t; VInt d] => match dec_any t with Some a => ret "flatten" (any_map (fun X _ x => flatten_from x d) a) st | None => stuck "flatten" end
    | _ => stuck "flatten"
    end
  else if is f "$method.view" then
    match args with
    | t :: s => match dec_any t, size_args s with
                | Some a, Some sz => ret "view" (any_map (fun X _ x => view x sz) a) st
                | _, _ => stuck "view"
                end
    | _ => stuck "view"
    end
  else if is f "$method.expand" then
    match args with
    | t :: s => match dec_any t, as_sizes s with
                | Some a, Some sz => ret "expand" (any_map (fun X d x => expand3 d x sz) a) st
                | _, _ => stuck "expand"
                end
    | _ => stuck "expand"
    end
  else if is f "$method.expand_as" then
    match args with
    | [t; u] => match dec_any t, dec_any u with
                | Some a, Some b => ret "expand_as" (any_map (fun X d x => expand3 d x (any_shape b)) a) st
                | _, _ => stuck "expand_as"
                end
    | _ => stuck "expand_as"
    end
  else if is f "$getitem" then
    match args with
    | [t; k] => getitem t k st
    | _ => stuck "getitem"
    end
  else if is f "compare" then
    match args with
    | [VStr o; a; b] =>
        match zcmp o, operand a, operand b with
        | Some c, Some (OT (TI x)), Some (OT (TI y)) => ret "compare" (option_map TB (ew2 c 0%Z 0%Z x y)) st
        | Some c, Some (OT (TI x)), Some (OZ z) => Ok (enc_b (ew_s c x z)) st
        | _, _, _ => stuck ("compare " ++ o)
        end
    | _ => stuck "compare"
    end
  else if is f "operator" then
    match args with
    | [VStr o; a; b] =>
        if is o "and" then
          match dec_any a, dec_any b with
          | Some (TB x), Some (TB y) => ret "and" (option_map TB (band x y)) st
          | _, _ => stuck "and"
          end
        else
          match zarith o, operand a, operand b with
          | Some g, Some (OT (TI x)), Some (OT (TI y)) => ret "arithmetic" (option_map TI (ew2 g 0%Z 0%Z x y)) st
          | Some g, Some (OT (TI x)), Some (OZ z) => Ok (enc_i (ew_s g x z)) st
          | _, _, _ =>
              (* tuple + tuple (sizes): concatenation *)
              match a, b with
              | VTuple l1, VTuple l2 =>
                  if is o "add" then
                    match dec_any a, dec_any b with
                    | None, None => Ok (VTuple (l1 ++ l2)) st
                    | _, _ => stuck "operator add"
                    end
                  else stuck ("operator " ++ o)
              | _, _ => stuck ("operator " ++ o)
              end
          end
    | _ => stuck "operator"
    end
  else if is f "$invert" then
    match args with
    | [t] => match dec_any t with Some (TB x) => Ok (enc_b (bnot x)) st | _ => stuck "invert" end
    | _ => stuck "invert"
    end
  else if is f "$method.any" then
    match args with
    | [t] => match dec_any t with Some (TB x) => Ok (VBool (any_true x)) st | _ => stuck "any" end
    | _ => stuck "any"
    end
  else if is f "$method.max" then
    match args with
    | [t] => match dec_any t with
             | Some (TI x) => match max_all x with Some m => Ok (enc_i m) st | None => Exc runtime_error st end
             | _ => stuck "max"
             end
    | _ => stuck "max"
    end
  else if is f "$method.sum" then
    match args with
    | [t; VInt d] => if Z.eqb d 0 then
                       match dec_any t with Some (TI x) => ret "sum" (option_map TI (sum0 x)) st | _ => stuck "sum" end
                     else stuck "sum: dim"
    | _ => stuck "sum"
    end
  else if is f "$method.item" then
    match args with
    | [t] => match dec_any t with
             | Some (TI x) => match scalar_of x with Some z => Ok (VInt z) st | None => stuck "item" end
             | _ => stuck "item"
             end
    | _ => stuck "item"
    end
  else if is f "int" then
    match args with
    | [v] => match as_index v with Some z => Ok (VInt z) st | None => stuck "int" end
    | _ => stuck "int"
    end
  else if is f "$method.gather" then
    match args with
    | [t; VInt d; i] =>
        if Z.eqb d 1 then
          match dec_any t, dec_any i with
          | Some a, Some (TI ix) => ret "gather" (any_map (fun X dflt x => gather1 dflt x ix) a) st
          | _, _ => stuck "gather"
          end
        else stuck "gather: dim"
    | _ => stuck "gather"
    end
  else if is f "$method.masked_select" then
    match args with
    | [t; m] => match dec_any t, dec_any m with
                | Some a, Some (TB mk) => ret "masked_select" (any_map (fun X _ x => masked_select x mk) a) st
                | _, _ => stuck "masked_select"
                end
    | _ => stuck "masked_select"
    end
  else if is f "$method.masked_scatter" then
    match args with
    | [t; m; s] => match dec_any t, dec_any m, dec_any s with
                   | Some (TP x), Some (TB mk), Some (TP src) =>
                       match masked_scatter x mk src with
                       | Some (Some r) => Ok (enc_p r) st
                       | Some None => Exc runtime_error st
                       | None => stuck "masked_scatter: shapes"
                       end
                   | _, _, _ => stuck "masked_scatter"
                   end
    | _ => stuck "masked_scatter"
    end
  else if is f "$method.new_full" then
    match args with
    | [t; VTuple s; v] => match dec_any t, as_sizes s with
                          | Some (TP _), Some sz => Ok (enc_p (full sz v)) st
                          | _, _ => stuck "new_full"
                          end
    | _ => stuck "new_full"
    end
  else stuck ("ext09: " ++ f).

(* the arguments of _get_padding_buffers(x, lens, left_pad, right_pad, mode) *)
Definition gpb_vars (x lens lp rp mode : val) : list (string * val) :=
  [("x", x); ("lens", lens); ("left_pad", lp); ("right_pad", rp); ("mode", mode)].

Definition ext09 (f : string) (args : list val) (kw : list (string * val)) (st : state) : outcome val :=
  if is f "_get_padding_buffers" then
    match args, kw with
    | [x; lens; lp; rp; mode], [] =>
        match Interp.run ext09g gpb_body (gpb_vars x lens lp rp mode) with
        | Ok v _ => Ok v st
        | Exc n _ => Exc n st
        | Stuck w => Stuck w
        end
    | _, _ => stuck "_get_padding_buffers"
    end
  else ext09g f args kw st.

(* ---- encodings ------------------------------------------------------------------------------------- *)
(* x: N rows of T cells of F payload values -> the (N, T, F) tensor *)
Definition x_tensor (T F : nat) (x : list (list (list val))) : tn val :=
  mkTn [List.length x; T; F] (List.concat (map (@List.concat val) x)).
Definition vec_tensor (l : list nat) : tn Z := mkTn [List.length l] (map Z.of_nat l).
(* pad = (pad[0], pad[1]) stacked: shape (2, len pl); meaningful when pl and pr are equally long *)
Definition pad_tensor (pl pr : list nat) : tn Z :=
  mkTn [2%nat; List.length pl] (map Z.of_nat pl ++ map Z.of_nat pr).

Definition mode_val (md : Model.mode) : val :=
  VStr (match md with
        | Model.Constant => "constant" | Model.Reflect => "reflect" | Model.Replicate => "replicate"
        | Model.OtherMode => "other"
        end).

(* the arguments of pad_variable(x, lens, pad, mode, value) *)
Definition pv_vars (x lens pad mode value : val) : list (string * val) :=
  [("x", x); ("lens", lens); ("pad", pad); ("mode", mode); ("value", value)].

Definition run_gpb (x : tn val) (lens lp rp : tn Z) (md : Model.mode) : outcome val :=
  Interp.run ext09g gpb_body (gpb_vars (enc_p x) (enc_i lens) (enc_i lp) (enc_i rp) (mode_val md)).

Definition run_pad (x : tn val) (lens pad : tn Z) (md : Model.mode) (value : val) : outcome val :=
  Interp.run ext09 pad_variable_body (pv_vars (enc_p x) (enc_i lens) (enc_i pad) (mode_val md) value).

(* the (N, W, F) tensor of a list of rows of cells *)
Definition rows_tensor (W F : nat) (rows : list (list (list val))) : tn val :=
  mkTn [List.length rows; W; F] (List.concat (map (@List.concat val) rows)).

(* ---- reading a returned tensor back as rows of cells --------------------------------------------------- *)
Fixpoint chunks {A} (cnt k : nat) (d : list A) : list (list A) :=
  match cnt with O => [] | S c => firstn k d :: chunks c k (skipn k d) end.

Definition cells_of (t : tn val) : option (list (list (list val))) :=
  match shp t with
  | [n; w; f] => Some (map (chunks w f) (chunks n (w * f) (dat t)))
  | _ => None
  end.

(* outer None: the interpreter got stuck, raised something else, or returned something that is not a
   3-dimensional payload tensor *)
Definition src_pad_variable (T F : nat) (value : val) (md : Model.mode)
  (x : list (list (list val))) (lens pl pr : list nat) : option (Model.res (list (list (list val)))) :=
  match run_pad (x_tensor T F x) (vec_tensor lens) (pad_tensor pl pr) md value with
  | Ok v _ => match dec_any v with
              | Some (TP t) => option_map (@Model.Ok _) (cells_of t)
              | _ => None
              end
  | Exc name _ =>
      if String.eqb name value_error then Some Model.ErrValue
      else if String.eqb name runtime_error then Some Model.ErrRuntime
      else if String.eqb name not_implemented_error then Some Model.ErrNotImpl
      else None
  | Stuck _ => None
  end.

Definition vcell_eqb : list val -> list val -> bool := Model.list_eqb val_eqb.
Definition vtensor_eqb := Model.list_eqb (Model.list_eqb vcell_eqb).

Definition zcells (x : list (list Model.zcell)) : list (list (list val)) := map (map (map VInt)) x.

(* same interface as Model.check_pad: integer payload (each integer as the MiniPy int that stands for the
   element), integer fill value *)
Definition src_pad_variable_check (T F : nat) (v : Z) (md : Model.mode) (x : list (list Model.zcell))
  (lens pl pr : list nat) (code : nat) (impl : option (list (list Model.zcell))) : bool :=
  match src_pad_variable T F (VInt v) md (zcells x) lens pl pr with
  | Some r => Model.res_eqb vtensor_eqb r code (option_map zcells impl)
  | None => false
  end.
