"""C10 - slicing policies and slice-relative token chunks: correspondence between /repo and PV.C10.Model.

Three kinds of case:
  slice   pydrobert.torch.functional.slice_spect_data        <-> Model.slice_spect_data
  tokens  pydrobert.torch.functional.chunk_token_sequences_by_slices <-> Model.chunk_tokens
  dir     console command chunk-torch-spect-data-dir (in-process, one utterance) followed by the library's
          validator                                          <-> Model.chunk_utt

The model carries a `variant`: for each place where the code is known/suspected to deviate from the documented
behaviour, a flag chooses the definition AS CODED or the REPAIRED one (Model.v header).  A run first probes the
implementation with one witness input per flag (the inputs of the `_refuted` theorems) and fixes the variant V
it behaves as.  Then EVERY case must agree with Model(V); a case on which Model(V) differs from Model(repaired)
is an instance of a deviation from the property (the repaired model is proved to meet the spec): it is reported
as a violation unless a `known` entry of known_findings recognises it by its signature.

Robustness variants (field "alts" of slice / tokens cases; tables SLICE_ALTS, TOKEN_ALTS): the same logical call through the
modules.* wrapper, torch.jit.script of the function / module, keywords, trailing defaults omitted, non-contiguous inputs,
stepped / column-view index tensors, int32 labels, a second call on the same tensors, one tensor for two parameters,
omitted lengths given explicitly, element by element - each must give the canonical outcome and leave the arguments
untouched.  dir cases may carry a file prefix, sub-directory names, omitted default options and utterance ids that are
prefixes of one another / contain '.', '-', '_'.  audit_cases(): streams for rarely met situations.
"""
import itertools
import json
import os
import shutil
import warnings

import torch

from vlib import cb, cl, cn, coq_eval_bools, coq_eval_print, exc_kind, load_corpus, shrink

IMPORTS = "From PV Require Import C10.Model.\n"
WTS = ["symmetric", "causal", "future"]
CWT = {"symmetric": "Symmetric", "causal": "Causal", "future": "Future"}
CPOL = {"fixed": "Fixed", "ali": "Ali", "ref": "Ref"}
FLAGS = ["k1", "d1", "d2", "d3", "d4", "d5"]
FLAG_ID = {"k1": "K1", "d1": "D1", "d2": "D2", "d3": "D3", "d4": "D4", "d5": "D5"}
WHAT = {
    "K1": "chunk_token_sequences_by_slices adds the slice start to kept token boundaries instead of subtracting it "
          "(impl = spec + 2*slice_start); chunked directories with non-zero slice starts are therefore not well-formed",
    "D1": "slice_spect_data(policy='ali') loses the end of a sequence's last segment when in_lens is omitted or "
          "in_lens[n] == T (in_lens == arange(T) never matches T): the call raises",
    "D2": "slice_spect_data(policy='ref') with other_lens omitted raises (ends[..., 1].gather(1, ...) on a 1-D tensor)",
    "D3": "slice_spect_data(policy='fixed', symmetric, valid_only=False, odd lobe) with in_lens omitted returns a last "
          "window whose middle index equals T (not before the end of the sequence); in_lens=[T] does not",
    "D4": "slice_spect_data(policy='ali', lobe_size > 0) raises when lobe offsets exceed the number of segments "
          "(negative stop NN - offs wraps around in x[:NN - offs])",
    "D5": "chunk-torch-spect-data-dir raises IndexError on a directory whose references are token-only (1-D)",
}
THEOREMS = {
    "slice": ["c10_fixed_windows_spec", "c10_ali_windows_spec", "c10_ref_windows_spec", "c10_valid_only_inside"],
    "tokens": ["c10_tokens_kept_iff_contained_or_overlap", "c10_tokens_order_preserved", "c10_retain_keeps_boundaries",
               "c10_relative_boundaries", "c10_relative_boundaries_characterised"],
    "dir": ["c10_chunk_is_restriction", "c10_chunked_dir_wellformed"],
}
FMT = "{utt_id}.{idx}.{start}.{end}"


# ----------------------------------------------------------------------------------------------------------
# Coq literals
# ----------------------------------------------------------------------------------------------------------
def z(n):
    n = int(n)
    return str(n) if n >= 0 else f"({n})"


def zl(xs):
    return cl([z(x) for x in xs])


def ozl(xs):
    return "None" if xs is None else f"(Some {zl(xs)})"


def ctok(t):
    return f"({z(t[0])}, {z(t[1])}, {z(t[2])})"


def ctoks(row):
    return cl([ctok(t) for t in row])


def cvar(v):
    return "(mkV " + " ".join(cb(v[f]) for f in FLAGS) + ")"


REPAIRED = {f: False for f in FLAGS}
AS_CODED = {f: True for f in FLAGS}


# ----------------------------------------------------------------------------------------------------------
# running the implementation
# ----------------------------------------------------------------------------------------------------------
def _api():
    import pydrobert.torch.functional as F
    return F


def _slice_input(case):
    pol, T = case["policy"], case["T"]
    if pol == "fixed":
        return torch.zeros((case["N"], T, 2))
    if pol == "ali":
        return torch.tensor(case["rows"], dtype=torch.long).view(len(case["rows"]), T)
    return torch.tensor(case["rows"], dtype=torch.long).view(len(case["rows"]), T, 3)


def _lt(x):
    return None if x is None else torch.tensor(x, dtype=torch.long)


# ----------------------------------------------------------------------------------------------------------
# robustness variants: impl_slice / impl_tokens (case, alt) make the same logical call through another entry point
# (module wrapper, scripted function / module, keywords, defaults omitted), with another memory layout / integer
# dtype, a second time on the same tensors, with one tensor object for two parameters, or element by element.
# The property makes the outcome a function of the logical input: every variant must reproduce the canonical
# outcome and leave the argument tensors untouched.
# ----------------------------------------------------------------------------------------------------------
SLICE_ALTS = ["module", "script_fn", "script_mod", "kw", "defaults", "in_view", "idx_views", "twice", "alias", "lens_explicit",
              "alone", "dtype"]
TOKEN_ALTS = ["module", "script_fn", "script_mod", "kw", "defaults", "refs_view", "idx_views", "twice", "lens_explicit", "alone", "alias"]
_SCRIPTED = {}
MODIFIED = "an argument tensor was modified in place by the call"


def _scripted(key, make, limit=None):
    if key not in _SCRIPTED:
        if limit is not None and sum(1 for k in _SCRIPTED if isinstance(k, tuple) and k[0] == key[0]) >= limit:
            return None
        _SCRIPTED[key] = torch.jit.script(make())
    return _SCRIPTED[key]


def _relayout(x, how):
    if x is None or x.dim() == 0:
        return x
    if how == "tr" and x.dim() >= 2:
        return x.transpose(0, -1).contiguous().transpose(0, -1)
    if how == "tr01" and x.dim() >= 2:
        return x.transpose(0, 1).contiguous().transpose(0, 1)
    buf = torch.full(tuple(x.shape[:-1]) + (2 * x.shape[-1] + 1,), 7777, dtype=x.dtype)
    buf[..., 1::2] = x
    return buf[..., 1::2]


def _unchanged(args, snap):
    return all(t is None or (t.shape == s_.shape and t.dtype == s_.dtype and bool((t == s_).all())) for t, s_ in zip(args, snap))


def same_outcome(base, other):
    if base[0] == "exc" and other[0] == "exc":
        return True      # the model (and the property) only say that the call raises
    return base == other


def _strip_defaults(args, defaults):
    args = list(args)
    while args and defaults and (args[-1] is defaults[-1] or (not torch.is_tensor(args[-1]) and args[-1] == defaults[-1]
                                                               and type(args[-1]) is type(defaults[-1]))):
        args.pop()
        defaults = defaults[:-1]
    return args


def impl_slice(case, alt=None):
    F = _api()
    import pydrobert.torch.modules as PM
    pol, wt, vo, lobe = case["policy"], case["wt"], case["vo"], case["lobe"]
    N = case["N"] if pol == "fixed" else len(case["rows"])
    try:
        if alt == "alone":
            out = []
            for n in range(N):
                sub = dict(case, in_lens=None if case["in_lens"] is None else [case["in_lens"][n]])
                if pol == "fixed":
                    sub["N"] = 1
                else:
                    sub["rows"] = [case["rows"][n]]
                if case.get("other_lens") is not None:
                    sub["other_lens"] = [case["other_lens"][n]]
                r = impl_slice(sub)
                if r[0] != "ok":
                    return r
                out += [[a, b_, n] for a, b_, _ in r[1]]
            return ["ok", out]
        inp, il, ol = _slice_input(case), _lt(case["in_lens"]), _lt(case.get("other_lens"))
        if alt == "in_view":
            inp = _relayout(inp, "tr01" if pol == "ref" else "tr")
        elif alt == "idx_views":
            il, ol = _relayout(il, "step"), _relayout(ol, "step")
        elif alt == "dtype":
            if pol == "ali" and all(abs(v) < 2 ** 31 for r in case["rows"] for v in r):
                inp = inp.int()
            elif pol == "fixed":
                inp = torch.zeros((N, case["T"]), dtype=torch.long)     # only the first two sizes matter
        elif alt == "alias" and il is not None and ol is not None and case["in_lens"] == case["other_lens"]:
            ol = il
        elif alt == "lens_explicit" and il is None and N > 0 and case["T"] > 0:
            il = torch.full((N,), case["T"], dtype=torch.long)
        how = alt if alt in ("module", "script_fn", "script_mod", "kw", "defaults") else "functional"
        smod = None
        if how == "script_mod":
            smod = _scripted(("SliceSpectData", pol, wt, vo, lobe), lambda: PM.SliceSpectData(pol, wt, vo, lobe), limit=6)
            if smod is None:
                how = "script_fn"

        def call():
            if how == "module":
                return PM.SliceSpectData(pol, wt, vo, lobe)(inp, il, ol)
            if how == "script_mod":
                return smod(inp, il, ol)
            if how == "script_fn":
                return _scripted("slice_spect_data", lambda: F.slice_spect_data)(inp, il, ol, pol, wt, vo, lobe)
            if how == "kw":
                return F.slice_spect_data(input=inp, in_lens=il, other_lens=ol, policy=pol, window_type=wt, valid_only=vo, lobe_size=lobe)
            if how == "defaults":
                return F.slice_spect_data(*_strip_defaults([inp, il, ol, pol, wt, vo, lobe], [None, None, None, "fixed", "symmetric", True, 0]))
            return F.slice_spect_data(inp, il, ol, pol, wt, vo, lobe)
        args = [inp, il, ol]
        snap = [None if t is None else t.clone() for t in args]
        with warnings.catch_warnings():
            warnings.simplefilter("ignore")
            if alt == "twice":
                call()
            sl, src = call()
        assert _unchanged(args, snap), MODIFIED
        assert sl.dtype == torch.long and src.dtype == torch.long
        assert sl.ndim == 2 and sl.size(1) == 2 and src.shape == (sl.size(0),), (sl.shape, src.shape)
        return ["ok", [[int(a), int(b), int(s)] for (a, b), s in zip(sl.tolist(), src.tolist())]]
    except AssertionError as e:
        return ["bad-shape", str(e)]
    except Exception as e:
        return ["exc", exc_kind(e)]


def impl_tokens(case, alt=None):
    F = _api()
    import pydrobert.torch.modules as PM
    N = len(case["refs"])
    R = case["R"]
    partial, retain = case["partial"], case["retain"]
    try:
        if alt == "alone":
            rows, lens = [], []
            for n in range(N):
                sub = dict(case, refs=[case["refs"][n]], slices=[case["slices"][n]],
                           ref_lens=None if case["ref_lens"] is None else [case["ref_lens"][n]])
                r = impl_tokens(sub)
                if r[0] != "ok":
                    return r
                rows += r[1]
                lens += r[2]
            return ["ok", rows, lens]
        refs = torch.tensor(case["refs"], dtype=torch.long).view(N, R, 3)
        slices = torch.tensor(case["slices"], dtype=torch.long).view(N, 2)
        rl = _lt(case["ref_lens"])
        if alt == "refs_view":
            refs = _relayout(refs, "tr")
        elif alt == "idx_views":
            slices, rl = slices.t().contiguous().t(), _relayout(rl, "step")
        elif alt == "lens_explicit" and rl is None:
            rl = torch.full((N,), R, dtype=torch.long)
        elif alt == "alias" and rl is not None and [s_[1] for s_ in case["slices"]] == case["ref_lens"]:
            rl = slices[:, 1]
        how = alt if alt in ("module", "script_fn", "script_mod", "kw", "defaults") else "functional"

        def call():
            if how == "module":
                return PM.ChunkTokenSequencesBySlices(partial, retain)(refs, slices, rl)
            if how == "script_mod":
                return _scripted(("ChunkTokenSequencesBySlices", partial, retain),
                                 lambda: PM.ChunkTokenSequencesBySlices(partial, retain))(refs, slices, rl)
            if how == "script_fn":
                return _scripted("chunk_token_sequences_by_slices", lambda: F.chunk_token_sequences_by_slices)(refs, slices, rl, partial, retain)
            if how == "kw":
                return F.chunk_token_sequences_by_slices(refs=refs, slices=slices, ref_lens=rl, partial=partial, retain=retain)
            if how == "defaults":
                return F.chunk_token_sequences_by_slices(*_strip_defaults([refs, slices, rl, partial, retain], [None, None, None, False, False]))
            return F.chunk_token_sequences_by_slices(refs, slices, rl, partial, retain)
        args = [refs, slices, rl]
        snap = [None if t is None else t.clone() for t in args]
        with warnings.catch_warnings():
            warnings.simplefilter("ignore")
            if alt == "twice":
                call()
            ch, ln = call()
        assert _unchanged(args, snap), MODIFIED
        assert ln.shape == (N,) and ch.ndim == 3 and ch.size(0) == N and ch.size(2) == 3, (ch.shape, ln.shape)
        lens = [int(x) for x in ln.tolist()]
        assert all(0 <= x <= ch.size(1) for x in lens), lens
        return ["ok", [[[int(v) for v in t] for t in ch[n, :lens[n]].tolist()] for n in range(N)], lens]
    except AssertionError as e:
        return ["bad-shape", str(e)]
    except Exception as e:
        return ["exc", exc_kind(e)]


def run_alts(case, impl):
    """-> [(alt, outcome)] for the variants of case['alts'] whose outcome differs from the canonical one"""
    bad = []
    if case["kind"] not in ("slice", "tokens"):
        return bad
    fn = impl_slice if case["kind"] == "slice" else impl_tokens
    for a in case.get("alts") or []:
        if a == "alone" and impl[0] != "ok":
            continue
        o = fn(case, a)
        if not same_outcome(impl, o):
            bad.append((a, o))
    return bad


def _feat_tensor(vals, F):
    return torch.tensor([[float(v + 1000 * f) for f in range(F)] for v in vals], dtype=torch.float).view(len(vals), F)


def _subdirs(case):
    return case.get("subdirs") or {"feat": "feat", "ali": "ali", "ref": "ref"}


def _write_dir(root, utts, case=None):
    case = case or {}
    sd, pre = _subdirs(case), case.get("prefix", "")
    for sub in ("feat", "ali", "ref"):
        if sub == "feat" or any(u.get(sub) is not None for u in utts):
            os.makedirs(os.path.join(root, sd[sub]), exist_ok=True)
    for u in utts:
        name = pre + u["id"] + ".pt"
        torch.save(_feat_tensor(u["feat"], u["F"]), os.path.join(root, sd["feat"], name))
        if u.get("ali") is not None:
            torch.save(torch.tensor(u["ali"], dtype=torch.long), os.path.join(root, sd["ali"], name))
        if u.get("ref") is not None:
            r = u["ref"]
            if "seg" in r:
                t = torch.tensor(r["seg"], dtype=torch.long).view(len(r["seg"]), 3)
            else:
                t = torch.tensor(r["tok"], dtype=torch.long)
            torch.save(t, os.path.join(root, sd["ref"], name))


def _dir_args(case, src, dst):
    args = [src, dst, "--num-workers", "0", "--format-utt", case.get("fmt", FMT), "--quiet"]
    omit = case.get("omit_defaults", False)      # options at their documented default are left out
    if not (omit and case["policy"] == "fixed"):
        args += ["--policy", case["policy"]]
    if not (omit and case["wt"] == "symmetric"):
        args += ["--window-type", case["wt"]]
    if not (omit and case["lobe"] == 0):
        args += ["--lobe-size", str(case["lobe"])]
    if case["pad"] is not None:
        args += ["--pad-mode", case["pad"]]
        if not (omit and case["padc"] == 0):
            args += ["--pad-constant", str(case["padc"])]
    if case.get("prefix"):
        args += ["--file-prefix", case["prefix"]]
    if case.get("subdirs"):
        args += ["--feat-subdir", case["subdirs"]["feat"], "--ali-subdir", case["subdirs"]["ali"], "--ref-subdir", case["subdirs"]["ref"]]
    if case["partial"]:
        args.append("--partial-tokens")
    if case["retain"]:
        args.append("--retain-token-boundaries")
    return args


def _read_out(dst, case, utts):
    """-> {utt_id: [chunk...]} with chunk = dict(win, feat, ali, ref) ordered by idx; raises AssertionError."""
    T = {u["id"]: len(u["feat"]) for u in utts}
    F = {u["id"]: u["F"] for u in utts}
    res = {u["id"]: {} for u in utts}
    sd, pre = _subdirs(case), case.get("prefix", "")
    fdir = os.path.join(dst, sd["feat"])
    names = sorted(os.listdir(fdir))
    for sub in ("ali", "ref"):
        d = os.path.join(dst, sd[sub])
        if os.path.isdir(d):
            assert sorted(os.listdir(d)) == names, f"{sub} files differ from feat files"
    for name in names:
        assert name.endswith(".pt") and name.startswith(pre), name
        uid, idx, start, end = name[len(pre):-3].rsplit(".", 3)
        assert uid in res, f"chunk of an unknown utterance: {name}"
        idx, start, end = int(idx), int(start), int(end)
        feat = torch.load(os.path.join(fdir, name))
        assert feat.ndim == 2 and feat.size(1) == F[uid] and feat.dtype == torch.float, feat.shape
        col0 = [int(x) for x in feat[:, 0].tolist()]
        for f in range(1, F[uid]):
            for i, (a, b) in enumerate(zip(col0, feat[:, f].tolist())):
                inside = 0 <= start + i < T[uid]
                assert (inside and int(b) == a + 1000 * f) or (not inside), ("feature columns disagree", name)
        ch = {"win": [start, end], "feat": col0, "ali": None, "ref": None}
        p = os.path.join(dst, sd["ali"], name)
        if os.path.exists(p):
            a = torch.load(p)
            assert a.ndim == 1 and a.dtype == torch.long
            ch["ali"] = [int(x) for x in a.tolist()]
        p = os.path.join(dst, sd["ref"], name)
        if os.path.exists(p):
            r = torch.load(p)
            assert r.dtype == torch.long
            if r.numel() == 0:
                ch["ref"] = []
            else:
                assert r.ndim == 2 and r.size(1) == 3, r.shape
                ch["ref"] = [[int(v) for v in t] for t in r.tolist()]
        if case["pad"] in ("reflect", "replicate"):
            # padded values are property C09's business: blank them
            for key in ("feat", "ali"):
                if ch[key] is not None:
                    ch[key] = [x if 0 <= start + i < T[uid] else 0 for i, x in enumerate(ch[key])]
        assert idx not in res[uid], "duplicate chunk index"
        res[uid][idx] = ch
    out = {}
    for uid, d in res.items():
        assert sorted(d) == list(range(len(d))), "chunk indices not contiguous"
        out[uid] = [d[i] for i in range(len(d))]
    return out


def impl_dir(case, workdir):
    """-> ['ok', {uid: chunks}, validator_verdict] | ['exc', kind] | ['bad-shape', msg]"""
    from pydrobert.torch import command_line, data
    root = os.path.join(str(workdir), "d%d" % os.getpid())
    shutil.rmtree(root, ignore_errors=True)
    src, dst = os.path.join(root, "in"), os.path.join(root, "out")
    try:
        _write_dir(src, case["utts"], case)
        with warnings.catch_warnings():
            warnings.simplefilter("ignore")
            try:
                rc = command_line.chunk_torch_spect_data_dir(_dir_args(case, src, dst))
            except Exception as e:
                return ["exc", exc_kind(e)]
            if rc:
                return ["exc", "rc=%r" % rc]
            try:
                chunks = _read_out(dst, case, case["utts"])
            except AssertionError as e:
                return ["bad-shape", str(e)]
            try:
                sd_ = _subdirs(case)
                ds = data.SpectDataSet(dst, case.get("prefix", ""), suppress_alis=False, tokens_only=False,
                                       feat_subdir=sd_["feat"], ali_subdir=sd_["ali"], ref_subdir=sd_["ref"])
                data.validate_spect_data_set(ds)
                verdict = "valid"
            except Exception as e:
                verdict = "invalid:" + exc_kind(e) + ":" + str(e)[-120:]
        return ["ok", chunks, verdict]
    finally:
        shutil.rmtree(root, ignore_errors=True)


def run_impl(case, workdir):
    k = case["kind"]
    if k == "slice":
        return impl_slice(case)
    if k == "tokens":
        return impl_tokens(case)
    return impl_dir(case, workdir)


# ----------------------------------------------------------------------------------------------------------
# Coq terms
# ----------------------------------------------------------------------------------------------------------
def _slice_args(case):
    pol = case["policy"]
    if pol == "fixed":
        inp = f"(InFixed {cn(case['N'])})"
    elif pol == "ali":
        inp = "(InAli " + cl([zl(r) for r in case["rows"]]) + ")"
    else:
        inp = "(InRef " + cl([ctoks(r) for r in case["rows"]]) + ")"
    return (f"{cn(case['T'])} {inp} {ozl(case['in_lens'])} {ozl(case.get('other_lens'))} "
            f"{CWT[case['wt']]} {cb(case['vo'])} {z(case['lobe'])}")


def _tokens_args(case):
    refs = cl([ctoks(r) for r in case["refs"]])
    sl = cl([f"({z(a)}, {z(b)})" for a, b in case["slices"]])
    return f"{refs} {sl} {ozl(case['ref_lens'])} {cb(case['partial'])} {cb(case['retain'])}"


def _utt_term(u):
    ali = "None" if u.get("ali") is None else f"(Some {zl(u['ali'])})"
    r = u.get("ref")
    if r is None:
        ref = "None"
    elif "seg" in r:
        ref = f"(Some (RefSeg {ctoks(r['seg'])}))"
    else:
        ref = f"(Some (RefTok {zl(r['tok'])}))"
    return f"(mkUtt {zl(u['feat'])} {ali} {ref})"


def _dir_args_coq(case, u):
    if case["pad"] is None:
        pad = "None"
    elif case["pad"] == "constant":
        pad = f"(Some {z(case['padc'])})"
    else:
        pad = "(Some 0)"
    return (f"{CPOL[case['policy']]} {CWT[case['wt']]} {pad} {z(case['lobe'])} {cb(case['partial'])} "
            f"{cb(case['retain'])} {_utt_term(u)}")


def _chunk_term(ch):
    ali = "None" if ch["ali"] is None else f"(Some {zl(ch['ali'])})"
    ref = "None" if ch["ref"] is None else f"(Some {ctoks(ch['ref'])})"
    return f"(mkChunk ({z(ch['win'][0])}, {z(ch['win'][1])}) {zl(ch['feat'])} {ali} {ref})"


def check_term(case, impl, v):
    """Coq bool: the implementation's outcome equals Model(v)'s."""
    k = case["kind"]
    if impl[0] == "bad-shape":
        return "false"
    if k == "slice":
        out = "None" if impl[0] == "exc" else "(Some " + cl([f"(({z(a)}, {z(b)}), {z(s)})" for a, b, s in impl[1]]) + ")"
        return f"check_slice {cvar(v)} {_slice_args(case)} {out}"
    if k == "tokens":
        if impl[0] == "exc":
            return "false"
        out = "(" + cl([ctoks(r) for r in impl[1]]) + ", " + zl(impl[2]) + ")"
        return f"check_tokens {cvar(v)} {_tokens_args(case)} {out}"
    # dir: the command raises iff some utterance's model outcome is None; else per-utterance equality
    parts = []
    for u in case["utts"]:
        if impl[0] == "exc":
            out = "None"
        else:
            out = "(Some " + cl([_chunk_term(c) for c in impl[1][u["id"]]]) + ")"
        parts.append(f"check_utt {cvar(v)} {_dir_args_coq(case, u)} {out}")
    if impl[0] == "exc":
        return "(" + " || ".join(parts) + ")"
    return "(" + " && ".join(parts) + ")"


def _sens(case, va, vb):
    k = case["kind"]
    if k == "slice":
        return f"sens_slice {cvar(va)} {cvar(vb)} {_slice_args(case)}"
    if k == "tokens":
        return f"sens_tokens {cvar(va)} {cvar(vb)} {_tokens_args(case)}"
    return "(" + " || ".join(f"sens_utt {cvar(va)} {cvar(vb)} {_dir_args_coq(case, u)}" for u in case["utts"]) + ")"


def sens_term(case, v, flag):
    """Coq bool: the as-coded definition selected by `flag` matters on this case: Model(v) differs from Model(v with the
    flag repaired), or Model(repaired) differs from Model(repaired with only this flag as coded) (the second catches an
    input on which two deviations each make the call raise)."""
    v2 = dict(v)
    v2[flag] = False
    r2 = dict(REPAIRED)
    r2[flag] = True
    return f"({_sens(case, v, v2)} || {_sens(case, REPAIRED, r2)})"


def show_term(case, v):
    k = case["kind"]
    if k == "slice":
        return f"slice_spect_data {cvar(v)} {_slice_args(case)}"
    if k == "tokens":
        return f"chunk_tokens {cvar(v)} {_tokens_args(case)}"
    return cl([f"chunk_utt {cvar(v)} {_dir_args_coq(case, u)}" for u in case["utts"]])


# ----------------------------------------------------------------------------------------------------------
# independent Python reading of the token clause (used by the K1 signature and the direct checks)
# ----------------------------------------------------------------------------------------------------------
def spec_tokens_row(row, sl, ref_len, partial, retain):
    a, b = sl
    out = []
    for r, (tok, s, e) in enumerate(row):
        if ref_len is not None and r >= ref_len:
            continue
        if s < 0 or e < 0 or e < s:
            continue
        ok = (a < e and s < b) if partial else (a <= s and e <= b)
        if ok:
            out.append([tok, s, e] if retain else [tok, s - a, e - a])
    return out


def k1_relation(spec_rows, impl_rows, starts):
    """impl == spec except that every boundary is spec + 2*start; some row with start != 0 is non-empty."""
    if len(spec_rows) != len(impl_rows):
        return False
    hit = False
    for sp, im, a in zip(spec_rows, impl_rows, starts):
        if im is None and sp is None:
            continue
        if im is None or sp is None or len(sp) != len(im):
            return False
        for x, y in zip(sp, im):
            if y != [x[0], x[1] + 2 * a, x[2] + 2 * a]:
                return False
        if a != 0 and sp:
            hit = True
    return hit


def _sig_k1(case, impl):
    if case["kind"] == "tokens":
        if case["retain"] or impl[0] != "ok":
            return False
        lens = case["ref_lens"]
        spec = [spec_tokens_row(r, s, None if lens is None else lens[n], case["partial"], False)
                for n, (r, s) in enumerate(zip(case["refs"], case["slices"]))]
        return k1_relation(spec, impl[1], [s[0] for s in case["slices"]]) and impl[2] == [len(r) for r in spec]
    if case["kind"] == "dir":
        if case["retain"] or impl[0] != "ok":
            return False
        ok = False
        for u in case["utts"]:
            r = u.get("ref")
            if r is None or "seg" not in r:
                continue
            chunks = impl[1][u["id"]]
            spec = [spec_tokens_row(r["seg"], c["win"], None, case["partial"], False) for c in chunks]
            if spec == [c["ref"] for c in chunks]:
                continue
            if not k1_relation(spec, [c["ref"] for c in chunks], [c["win"][0] for c in chunks]):
                return False
            ok = True
        return ok
    return False


def signature_fn(entry, record):
    """Does the known-findings `entry` recognise this record (a case on which the as-coded model deviates from the
    repaired one through exactly the flag record['defect'], and on which the implementation equals the as-coded model)?"""
    if entry.get("id") != record.get("defect"):
        return False
    case, impl, d = record["case"], record["impl"], record["defect"]
    sig = entry.get("signature", {})
    if d == "K1":
        if sig.get("retain", False) is not False:
            return False
        return _sig_k1(case, impl)
    pol = case.get("policy")
    if "policy" in sig and sig["policy"] != pol:
        return False
    if d == "D1":
        return pol == "ali" and impl[0] == "exc" and (case["kind"] == "dir" or case["in_lens"] is None
                                                      or max(case["in_lens"] + [0]) >= case["T"])
    if d == "D2":
        return pol == "ref" and impl[0] == "exc" and (case["kind"] == "dir" or case.get("other_lens") is None)
    if d == "D3":
        return (pol == "fixed" and case["wt"] == "symmetric" and case["lobe"] % 2 == 1 and impl[0] == "ok"
                and ((case["kind"] == "slice" and not case["vo"] and case["in_lens"] is None)
                     or (case["kind"] == "dir" and case["pad"] is not None)))
    if d == "D4":
        return pol == "ali" and case["lobe"] > 0 and impl[0] == "exc"
    if d == "D5":
        return case["kind"] == "dir" and impl[0] == "exc" and any(
            u.get("ref") is not None and "tok" in u["ref"] for u in case["utts"])
    return False


# ----------------------------------------------------------------------------------------------------------
# direct checks of what the property says about outputs (no model involved)
# ----------------------------------------------------------------------------------------------------------
def _subseq(small, big):
    it = iter(big)
    return all(any(x == y for y in it) for x in small)


def direct_checks(case, impl):
    """-> list of failure descriptions (empty = fine)."""
    bad = []
    k = case["kind"]
    if impl[0] != "ok":
        return bad
    if k == "slice":
        out = impl[1]
        N = case["N"] if case["policy"] == "fixed" else len(case["rows"])
        srcs = [s for _, _, s in out]
        if srcs != sorted(srcs) or any(not 0 <= s < N for s in srcs):
            bad.append("sources are not the ordered batch indices")
        if case["vo"]:
            for a, b, s in out:
                if case["policy"] == "ref":
                    ln = None if case.get("other_lens") is None else case["other_lens"][s]
                else:
                    ln = case["T"] if case["in_lens"] is None else min(case["in_lens"][s], case["T"])
                if a < 0 or (ln is not None and b > ln):
                    bad.append(f"valid_only window [{a},{b}) of element {s} leaves its sequence (length {ln})")
                    break
    elif k == "tokens":
        lens = case["ref_lens"]
        for n, (row, sl) in enumerate(zip(case["refs"], case["slices"])):
            got = impl[1][n]
            rl = None if lens is None else lens[n]
            if [t[0] for t in got] != [t[0] for t in spec_tokens_row(row, sl, rl, case["partial"], True)]:
                bad.append(f"row {n}: kept tokens are not exactly those contained in / overlapping the slice, in order")
                break
            if case["retain"] and not _subseq(got, row):
                bad.append(f"row {n}: retain=True but kept tokens are not a subsequence of the source")
                break
    else:
        for u in case["utts"]:
            T = len(u["feat"])
            for c in impl[1][u["id"]]:
                a, b = c["win"]
                if len(c["feat"]) != max(b - a, 0) or (c["ali"] is not None and len(c["ali"]) != len(c["feat"])):
                    bad.append("chunk length differs from its window")
                lo, hi = max(a, 0), min(b, T)
                if c["feat"][lo - a:max(hi - a, lo - a)] != u["feat"][lo:max(hi, lo)]:
                    bad.append(f"feature chunk of window [{a},{b}) is not the source restricted to it")
                if c["ali"] is not None and c["ali"][lo - a:max(hi - a, lo - a)] != u["ali"][lo:max(hi, lo)]:
                    bad.append(f"alignment chunk of window [{a},{b}) is not the source restricted to it")
                if case["pad"] is None and not (0 <= a <= b <= T):
                    bad.append(f"window [{a},{b}) outside the utterance without --pad-mode")
        if case.get("wellformed") and not case["partial"] and not case["retain"] and impl[2] != "valid":
            bad.append("chunked directory rejected by validate_spect_data_set: " + impl[2])
    return bad


# ----------------------------------------------------------------------------------------------------------
# generators
# ----------------------------------------------------------------------------------------------------------
def _sl(policy, wt, vo, lobe, T, in_lens, N=None, rows=None, other_lens=None, stream="random"):
    c = dict(kind="slice", policy=policy, wt=wt, vo=vo, lobe=lobe, T=T, in_lens=in_lens, stream=stream)
    if policy == "fixed":
        c["N"] = N
    else:
        c["rows"] = rows
    if policy == "ref":
        c["other_lens"] = other_lens
    return c


def _alis(T):
    """one alignment per run structure of length T (two labels, first label 0), plus a 3-label one"""
    if T == 0:
        return [[]]
    out = []
    for bits in itertools.product([0, 1], repeat=T - 1):
        row = [0]
        for b in bits:
            row.append(row[-1] ^ b)
        out.append(row)
    return out


def probes():
    """one witness per variant flag (the inputs of the *_refuted theorems)"""
    return {
        "k1": dict(kind="tokens", refs=[[[8, 2, 5]]], R=1, slices=[[2, 9]], ref_lens=None, partial=False, retain=False),
        "d1": _sl("ali", "symmetric", True, 0, 4, None, rows=[[1, 1, 2, 2]]),
        "d2": _sl("ref", "symmetric", True, 0, 2, None, rows=[[[7, 0, 2], [8, 2, 5]]], other_lens=None),
        "d3": _sl("fixed", "symmetric", False, 1, 1, None, N=1),
        "d4": _sl("ali", "symmetric", True, 2, 4, [3], rows=[[1, 2, 3, 0]]),
        "d5": dict(kind="dir", policy="fixed", wt="symmetric", pad=None, padc=0, lobe=0, partial=False, retain=False,
                   wellformed=True, utts=[dict(id="u", feat=[5, 6], F=1, ali=None, ref={"tok": [3, 4]})]),
    }


def exhaustive_cases(chk):
    thorough = chk.tier == "thorough"
    cases = []
    # ---- fixed ----
    Tmax, Lmax = (12, 7) if thorough else (9, 4)
    for T in range(0, Tmax + 1):
        lens_opts = [None] + [[x] for x in (range(0, T + 1) if thorough else sorted({0, 1, T // 2, max(T - 1, 0), T}))]
        for lobe, wt, vo, il in itertools.product(range(0, Lmax + 1), WTS, [True, False], lens_opts):
            cases.append(_sl("fixed", wt, vo, lobe, T, il, N=1, stream="exhaustive"))
    # ---- ali ----
    Tmax, Lmax = (7, 5) if thorough else (5, 3)
    for T in range(0, Tmax + 1):
        for row in _alis(T):
            lens_opts = [None] + [[x] for x in (range(0, T + 1) if thorough else sorted({0, 1, max(T - 1, 0), T}))]
            for lobe, wt, vo, il in itertools.product(range(0, Lmax + 1), WTS, [True, False], lens_opts):
                cases.append(_sl("ali", wt, vo, lobe, T, il, rows=[row], stream="exhaustive"))
    # ---- ref: one or two tokens ----
    grid = [-1, 0, 1, 2, 3] if thorough else [-1, 0, 1, 3]
    for s, e in itertools.product(grid, repeat=2):
        for lobe, wt, vo in itertools.product([0, 1, 2], WTS, [True, False]):
            for il, ol in itertools.product([None, [0], [1]], [None, [2], [3]] if thorough else [None, [2]]):
                cases.append(_sl("ref", wt, vo, lobe, 1, il, rows=[[[7, s, e]]], other_lens=ol, stream="exhaustive"))
    # ---- tokens: one token, one slice ----
    g = range(-1, 5) if thorough else [-1, 0, 2, 3]
    for s, e, a, b in itertools.product(g, repeat=4):
        for partial, retain, rl in itertools.product([False, True], [False, True], [None, [0], [1]]):
            cases.append(dict(kind="tokens", refs=[[[9, s, e]]], R=1, slices=[[a, b]], ref_lens=rl,
                              partial=partial, retain=retain, stream="exhaustive"))
    if thorough:
        chk.extra["exhaustive"] = True
        chk.extra["exhaustive_scope"] = (
            "fixed: N=1, T<=12, lobe<=7, 3 windows x 2 validity, in_lens omitted or any value 0..T; "
            "ali: every run structure of length <=7, lobe<=5, in_lens omitted or 0..T; "
            "ref: one token with boundaries in -1..3, lobe<=2, in_lens/other_lens omitted or given; "
            "tokens: one token x one slice with all four bounds in -1..4, partial x retain x ref_lens")
        return cases
    # quick tier: a seed-dependent slice of the scope (every stride-th case)
    stride = 4
    off = chk.seed % stride
    picked = [c for i, c in enumerate(cases) if i % stride == off]
    for c in picked:
        c["stream"] = "exhaustive-slice"
    chk.extra["exhaustive_scope"] = f"every {stride}th case (offset seed mod {stride}) of the thorough tier's scope, reduced bounds"
    return picked


def _rand_lens(rng, N, T, p_none=0.3):
    if rng.random() < p_none:
        return None
    ls = [rng.choice([0, 1, T, T, max(T - 1, 0), rng.randint(0, T)]) for _ in range(N)]
    return ls


ODD_IDS = [-1, -5, 2 ** 31, 2 ** 40, -2 ** 35]
BIG = [2 ** 31, 2 ** 32, 2 ** 33 + 5, 10 ** 12]


def _tok_id(rng):
    """token ids / labels are opaque: negative ones, -1 (the marker used for missing BOUNDARIES) and huge ones included"""
    return rng.randint(0, 9) if rng.random() < 0.8 else rng.choice(ODD_IDS)


def _finish_slice(rng, c):
    """unusual labels, far-away frame indices, variants"""
    if c["policy"] == "ali" and rng.random() < 0.15:
        lab = rng.sample([-1, 0, 2 ** 40, -2 ** 35, 7, 2 ** 31], 5)
        c["rows"] = [[lab[v] for v in r] for r in c["rows"]]
    if c["policy"] == "ref" and rng.random() < 0.1:
        K = rng.choice(BIG)
        allfar = rng.random() < 0.5
        c["rows"] = [[[t, s_ + K, e + K] if (s_ >= 0 and e >= 0 and (allfar or rng.random() < 0.5)) else [t, s_, e] for t, s_, e in r]
                     for r in c["rows"]]
        if c.get("other_lens") is not None:
            c["other_lens"] = [x + K for x in c["other_lens"]]
    c["alts"] = rng.sample(SLICE_ALTS, 2)
    return c


def rand_slice(rng):
    return _finish_slice(rng, _rand_slice(rng))


def _rand_slice(rng):
    pol = rng.choice(["fixed", "ali", "ali", "ref"])
    wt, vo = rng.choice(WTS), rng.random() < 0.5
    if pol == "fixed":
        T = rng.choice([0, 1, 2, 3, 4, 5, 6, 7, 8, 9, 10, 11, 13, 16])
        N = rng.choice([0, 1, 1, 2, 3, 4])
        lobe = rng.choice([0, 1, 1, 2, 3, rng.randint(0, T + 1)])
        return _sl(pol, wt, vo, lobe, T, _rand_lens(rng, N, T), N=N)
    if pol == "ali":
        T = rng.choice([0, 1, 2, 3, 4, 5, 6, 7, 8, 9])
        N = rng.choice([0, 1, 1, 2, 2, 3])
        k = rng.choice([1, 2, 2, 3, 4])
        p = rng.choice([0.2, 0.5, 0.8])
        rows = []
        for _ in range(N):
            row, cur = [], rng.randrange(k)
            for _t in range(T):
                if rng.random() < p:
                    cur = rng.randrange(k)
                row.append(cur)
            rows.append(row)
        lobe = rng.choice([0, 1, 1, 2, 2, 3, rng.randint(0, T + 1)])
        # a padded batch: usually some element has the full length, sometimes none does
        il = _rand_lens(rng, N, T, 0.25)
        if il is not None and rng.random() < 0.5:
            il = [min(x, max(T - 1, 0)) for x in il]
        return _sl(pol, wt, vo, lobe, T, il, rows=rows)
    T = rng.choice([0, 1, 2, 3, 4, 5])
    N = rng.choice([0, 1, 1, 2, 3])
    Tf = rng.randint(0, 8)
    rows = []
    for _ in range(N):
        row = []
        for _t in range(T):
            kind = rng.random()
            if kind < 0.15:
                s, e = -1, rng.choice([-1, -1, rng.randint(0, Tf)])
            elif kind < 0.25:
                s, e = rng.randint(0, Tf), -1
            elif kind < 0.4:
                s = e = rng.randint(0, Tf)
            elif kind < 0.5:
                e = rng.randint(0, Tf)
                s = e + rng.randint(1, 2)
            else:
                s = rng.randint(0, Tf)
                e = rng.randint(s, Tf + 1)
            row.append([_tok_id(rng), s, e])
        rows.append(row)
    lobe = rng.choice([0, 0, 1, 2, 3, rng.randint(0, Tf + 1)])
    ol = None if rng.random() < 0.3 else [rng.choice([Tf, rng.randint(0, Tf + 1)]) for _ in range(N)]
    return _sl(pol, wt, vo, lobe, T, _rand_lens(rng, N, T, 0.4), rows=rows, other_lens=ol)


def rand_tokens(rng):
    N, R = rng.choice([0, 1, 1, 2, 3]), rng.choice([0, 1, 2, 3, 4, 5])
    Tf = rng.randint(1, 10)
    refs, slices = [], []
    for _ in range(N):
        row = []
        for _r in range(R):
            kind = rng.random()
            if kind < 0.12:
                s, e = rng.choice([(-1, -1), (-1, rng.randint(0, Tf)), (rng.randint(0, Tf), -1), (-2, -3)])
            elif kind < 0.2:
                e = rng.randint(0, Tf)
                s = e + rng.randint(1, 3)
            elif kind < 0.35:
                s = e = rng.randint(0, Tf)
            else:
                s = rng.randint(0, Tf)
                e = rng.randint(s, Tf)
            row.append([_tok_id(rng), s, e])
        refs.append(row)
        a = rng.choice([0, 0, rng.randint(-3, Tf), rng.randint(0, Tf)])
        b = rng.choice([a, a + rng.randint(1, Tf), rng.randint(-2, Tf + 2), Tf])
        slices.append([a, b])
    rl = None if rng.random() < 0.4 else [rng.choice([0, R, rng.randint(0, R)]) for _ in range(N)]
    c = dict(kind="tokens", refs=refs, R=R, slices=slices, ref_lens=rl, partial=rng.random() < 0.5,
             retain=rng.random() < 0.4, stream="random")
    return _finish_tokens(rng, c)


def _finish_tokens(rng, c):
    if rng.random() < 0.08:     # frame indices far from 0: the arithmetic is on int64
        K = rng.choice(BIG)
        if rng.random() < 0.5:
            c["refs"] = [[[t, s_ + K if s_ >= 0 else s_, e + K if e >= 0 else e] for t, s_, e in r] for r in c["refs"]]
            c["slices"] = [[a + K, b + K] for a, b in c["slices"]]
        else:   # only some of the tokens (and slice bounds) lie far away: a comparison in a narrower type would wrap
            far = lambda t: [t[0], t[1] + K, t[2] + K] if (t[1] >= 0 and t[2] >= 0 and rng.random() < 0.5) else t
            c["refs"] = [[far(t) for t in r] for r in c["refs"]]
            c["slices"] = [[a + (K if rng.random() < 0.3 else 0), b + (K if rng.random() < 0.7 else 0)] for a, b in c["slices"]]
    c["alts"] = rng.sample(TOKEN_ALTS, 2)
    return c


def audit_cases(rng, k=1):
    """streams aimed at situations a generic draw meets too rarely (notes/C10_report.md, Robustness audit)"""
    out = []
    # (1) 'ali' policy, few runs: the lobe offset (lobe, or 2*lobe for symmetric windows) around the number of runs of a
    #     single sequence (what the directory command passes), also inside a batch
    for _ in range(120 * k):
        N = rng.choice([1, 1, 1, 2])
        rows, T = [], None
        runs = [rng.randint(1, 4) for _ in range(N)]
        lens_runs = [[rng.randint(1, 3) for _ in range(r)] for r in runs]
        T = max(sum(x) for x in lens_runs)
        for lr in lens_runs:
            row, lab = [], rng.randrange(3)
            for ln in lr:
                row += [lab] * ln
                lab = (lab + rng.randint(1, 2)) % 3
            row += [row[-1] if rng.random() < 0.5 else (row[-1] + 1) % 3] * (T - len(row))
            rows.append(row)
        wt = rng.choice(WTS)
        sides = 2 if wt == "symmetric" else 1
        target = max(0, runs[0] + rng.choice([-1, 0, 0, 1, 1, 2, 3]))
        lobe = max(1, (target + sides - 1) // sides) if rng.random() < 0.9 else 0
        il = rng.choice([None, None, [T] * N, [sum(x) for x in lens_runs], [max(sum(x) - 1, 0) for x in lens_runs]])
        c = _sl("ali", wt, rng.random() < 0.65, lobe, T, il, rows=rows, stream="audit-ali-few-runs")
        c["alts"] = rng.sample(SLICE_ALTS, 2)
        out.append(c)
    # (2) tokens whose start (or end) is the missing marker -1 against slices with a negative start, partial or not
    for _ in range(150 * k):
        N, R = rng.choice([1, 1, 2, 3]), rng.choice([1, 2, 3, 5])
        Tf = rng.randint(1, 8)
        refs, slices = [], []
        for _n in range(N):
            row = []
            for _r in range(R):
                kind = rng.random()
                if kind < 0.4:
                    s_, e = -1, rng.choice([-1, 0, rng.randint(0, Tf), rng.randint(0, Tf)])
                elif kind < 0.5:
                    s_, e = rng.randint(0, Tf), -1
                elif kind < 0.6:
                    s_ = e = rng.randint(0, Tf)
                else:
                    s_ = rng.randint(0, Tf)
                    e = rng.randint(s_, Tf)
                row.append([_tok_id(rng), s_, e])
            refs.append(row)
            a = rng.choice([-1, -1, -2, -5, -Tf, 0, rng.randint(-3, Tf)])
            slices.append([a, rng.choice([Tf, Tf + 2, rng.randint(a, Tf + 1), 0])])
        rl = None if rng.random() < 0.5 else [rng.choice([R, R, rng.randint(0, R)]) for _ in range(N)]
        if rl is not None and rng.random() < 0.3:
            rl = [min(max(b, 0), R) for _, b in slices]
            slices = [[a, x] for (a, _), x in zip(slices, rl)]      # slice ends == ref_lens: a column of slices may be passed as ref_lens
        c = dict(kind="tokens", refs=refs, R=R, slices=slices, ref_lens=rl, partial=rng.random() < 0.35,
                 retain=rng.random() < 0.4, stream="audit-tokens-missing-negstart")
        c["alts"] = rng.sample(TOKEN_ALTS, 2) + (["alias"] if rl is not None and rl == [b for _, b in slices] else [])
        out.append(c)
    # (3) 'ref' policy with in_lens and other_lens equal (one tensor object may serve both) and far-away boundaries
    for _ in range(50 * k):
        N, T = rng.choice([1, 2, 3]), rng.choice([1, 2, 3, 4])
        il = [rng.randint(0, T) for _ in range(N)]
        rows = []
        for _n in range(N):
            row, pos = [], 0
            for _t in range(T):
                s_ = rng.randint(0, T)
                e = rng.randint(s_, T + 1)
                if rng.random() < 0.15:
                    s_ = -1
                row.append([_tok_id(rng), s_, e])
            rows.append(row)
        c = _sl("ref", rng.choice(WTS), rng.random() < 0.5, rng.choice([0, 1, 2]), T, il, rows=rows, other_lens=list(il),
                stream="audit-ref-alias")
        c["alts"] = ["alias"] + rng.sample([a for a in SLICE_ALTS if a != "alias"], 1)
        out.append(c)
    # (4) the directory command with non-default file prefix / sub-directory names, options at their default left out,
    #     utterance ids that are prefixes of one another and contain the characters the naming scheme allows
    for _ in range(30 * k):
        c = rand_dir(rng)
        c["stream"] = "audit-dir-options"
        if rng.random() < 0.6:
            c["prefix"] = rng.choice(["p_", "u", "x."])
        if rng.random() < 0.5:
            c["subdirs"] = {"feat": "f", "ali": rng.choice(["a", "alis"]), "ref": rng.choice(["r", "ref.d"])}
        c["omit_defaults"] = rng.random() < 0.6
        if rng.random() < 0.5:
            c["wt"], c["lobe"] = "symmetric", 0
        ids = rng.choice([["u", "u.0"], ["a-b", "a-b_c"], ["u.0.1.2", "u"], ["utt", "ut"]])
        for u, name in zip(c["utts"], ids):
            u["id"] = name
        out.append(c)
    # (5) the directory command on an utterance whose alignment has fewer runs than the lobe offset
    for _ in range(16 * k):
        c = rand_dir(rng)
        c["stream"] = "audit-dir-ali-few-runs"
        c["policy"], c["utts"] = "ali", c["utts"][:1]
        u = c["utts"][0]
        T = len(u["feat"])
        r = rng.randint(1, 3)
        cuts = sorted(rng.sample(range(1, T), min(r - 1, max(T - 1, 0)))) if T > 1 else []
        u["ali"] = [sum(1 for x in cuts if x <= t) % 3 for t in range(T)]
        c["lobe"] = rng.choice([1, 2, 2, 3, 4])
        out.append(c)
    return out


def rand_utt(rng, uid, policy, seg_only=False):
    T = rng.choice([0, 1, 2, 3, 4, 5, 6, 7, 8])
    feat = [rng.randint(1, 99) for _ in range(T)]
    ali = None
    if policy == "ali" or rng.random() < 0.6:
        ali, cur = [], rng.randrange(3)
        for _ in range(T):
            if rng.random() < 0.45:
                cur = rng.randrange(3)
            ali.append(cur)
    ref = None
    if policy == "ref" or rng.random() < 0.75:
        if policy != "ref" and not seg_only and rng.random() < 0.12:
            ref = {"tok": [rng.randint(0, 9) for _ in range(rng.randint(0, 3))]}
        else:
            seg = []
            for _ in range(rng.choice([0, 1, 2, 3, 4])):
                if rng.random() < 0.15:
                    s, e = -1, -1
                else:
                    s = rng.randint(0, T)
                    e = rng.choice([s, rng.randint(s, T), rng.randint(s, T)])
                seg.append([rng.randint(0, 9), s, e])
            if rng.random() < 0.6:
                seg.sort(key=lambda t: (t[1] < 0, t[1], t[2]))
            ref = {"seg": seg}
    return dict(id=uid, feat=feat, F=rng.choice([1, 2]), ali=ali, ref=ref)


def rand_dir(rng):
    policy = rng.choice(["fixed", "fixed", "ali", "ref"])
    pad = rng.choice([None, None, "constant", "constant", "reflect", "replicate"])
    utts = [rand_utt(rng, "u", policy)]
    if rng.random() < 0.25:   # a second utterance: chunks must not leak between utterances
        w = rand_utt(rng, "w", policy, seg_only=True)
        u = utts[0]
        w["F"] = u["F"]
        if (u.get("ali") is None) != (w.get("ali") is None):
            w["ali"] = None if u.get("ali") is None else [rng.randrange(3) for _ in w["feat"]]
        if u.get("ref") is None or "tok" in u["ref"]:
            w["ref"] = None if u.get("ref") is None else {"tok": [rng.randint(0, 9) for _ in range(rng.randint(0, 3))]}
        elif w.get("ref") is None:
            w["ref"] = {"seg": []}
        utts.append(w)
    if pad == "reflect" or (pad == "replicate" and any(len(u["feat"]) == 0 for u in utts)):
        # reflect / replicate padding have their own length preconditions (property C09): reflect needs pad < T,
        # replicate needs at least one frame (a 0-frame utterance whose token window reaches outside raises)
        pad = "constant"
    return dict(kind="dir", policy=policy, wt=rng.choice(WTS), pad=pad, padc=rng.choice([0, 0, -7, 3]),
                lobe=rng.choice([0, 0, 1, 1, 2, 3]), partial=rng.random() < 0.3, retain=rng.random() < 0.25,
                wellformed=True, utts=utts, stream="random-dir")


def malformed_cases():
    """inputs the API must reject (Python-only expectations; the model covers lobe < 0 and in_lens shapes)"""
    out = []
    for pol, rows in (("fixed", None), ("ali", [[0, 1]]), ("ref", [[[1, 0, 1], [2, 1, 2]]])):
        c = _sl(pol, "symmetric", True, -1, 2, None, N=1, rows=rows, other_lens=[2] if pol == "ref" else None,
                stream="malformed")
        out.append(c)
    out.append(_sl("fixed", "symmetric", True, 0, 3, [3, 3], N=1, stream="malformed"))
    out.append(_sl("ali", "symmetric", True, 0, 3, [2, 2], rows=[[0, 1, 1]], stream="malformed"))
    out.append(_sl("ref", "symmetric", True, 0, 1, None, rows=[[[1, 0, 1]]], other_lens=[1, 1], stream="malformed"))
    return out


def api_rejections():
    """(description, thunk) pairs that must raise RuntimeError; not representable in the model's input type"""
    F = _api()
    x3, x2 = torch.zeros(1, 3, 3, dtype=torch.long), torch.zeros(1, 3, dtype=torch.long)
    return [
        ("unknown window_type", lambda: F.slice_spect_data(x3, None, None, "fixed", "centered", True, 0)),
        ("unknown policy", lambda: F.slice_spect_data(x3, None, None, "segments", "symmetric", True, 0)),
        ("1-D input", lambda: F.slice_spect_data(torch.zeros(3), None, None, "fixed", "symmetric", True, 0)),
        ("ali policy on 3-D input", lambda: F.slice_spect_data(x3, None, None, "ali", "symmetric", True, 0)),
        ("ref policy on 2-D input", lambda: F.slice_spect_data(x2, None, None, "ref", "symmetric", True, 0)),
        ("ref policy with last dim 2", lambda: F.slice_spect_data(torch.zeros(1, 3, 2, dtype=torch.long), None,
                                                                  torch.tensor([3]), "ref", "symmetric", True, 0)),
        ("tokens: refs last dim 2", lambda: F.chunk_token_sequences_by_slices(torch.zeros(1, 3, 2, dtype=torch.long),
                                                                               torch.zeros(1, 2, dtype=torch.long))),
        ("tokens: slices shape", lambda: F.chunk_token_sequences_by_slices(x3, torch.zeros(2, 2, dtype=torch.long))),
        ("tokens: ref_lens shape", lambda: F.chunk_token_sequences_by_slices(x3, torch.zeros(1, 2, dtype=torch.long),
                                                                              torch.zeros(2, dtype=torch.long))),
    ]


def gen_cases(chk):
    rng = chk.rng
    thorough = chk.tier == "thorough"
    cases = []
    for f, c in probes().items():
        c = dict(c)
        c["stream"] = "probe"
        cases.append(c)
    ex = exhaustive_cases(chk)
    for i, c in enumerate(ex):
        if i % 5 == 0:
            pool = SLICE_ALTS if c["kind"] == "slice" else TOKEN_ALTS
            c["alts"] = [pool[(i // 5) % len(pool)]]
    cases += ex
    for c in load_corpus("C10"):
        c = dict(c)
        c["stream"] = "corpus"
        cases.append(c)
    cases += malformed_cases()
    n_sl, n_tk, n_dir = (30000, 15000, 2500) if thorough else (1500, 700, 260)
    cases += [rand_slice(rng) for _ in range(n_sl)]
    cases += [rand_tokens(rng) for _ in range(n_tk)]
    cases += [rand_dir(rng) for _ in range(n_dir)]
    cases += audit_cases(rng, 8 if thorough else 1)
    return cases


def nontrivial(case, impl):
    k = case["kind"]
    if k == "slice":
        return impl[0] == "ok" and len(impl[1]) >= 2 and (case["lobe"] > 0 or case["in_lens"] is not None)
    if k == "tokens":
        return impl[0] == "ok" and any(0 < len(r) < case["R"] for r in impl[1])
    return impl[0] == "ok" and any(len(v) >= 2 for v in impl[1].values())


# ----------------------------------------------------------------------------------------------------------
# shrinking
# ----------------------------------------------------------------------------------------------------------
def _cands(case):
    k = case["kind"]
    if k == "slice":
        if case["lobe"] > 0:
            yield dict(case, lobe=case["lobe"] - 1)
        N = case["N"] if case["policy"] == "fixed" else len(case["rows"])
        for n in range(N):   # drop a batch element
            c = dict(case)
            if case["policy"] == "fixed":
                c["N"] = N - 1
            else:
                c["rows"] = case["rows"][:n] + case["rows"][n + 1:]
            for key in ("in_lens", "other_lens"):
                if case.get(key) is not None:
                    c[key] = case[key][:n] + case[key][n + 1:]
            yield c
        T = case["T"]
        if T > 0:   # drop the last column
            c = dict(case, T=T - 1)
            if case["policy"] != "fixed":
                c["rows"] = [r[:-1] for r in case["rows"]]
            if case["in_lens"] is not None:
                c["in_lens"] = [min(x, T - 1) for x in case["in_lens"]]
            yield c
    elif k == "tokens":
        N = len(case["refs"])
        for n in range(N):
            c = dict(case, refs=case["refs"][:n] + case["refs"][n + 1:], slices=case["slices"][:n] + case["slices"][n + 1:])
            if case["ref_lens"] is not None:
                c["ref_lens"] = case["ref_lens"][:n] + case["ref_lens"][n + 1:]
            yield c
        if case["R"] > 0:
            c = dict(case, R=case["R"] - 1, refs=[r[:-1] for r in case["refs"]])
            if case["ref_lens"] is not None:
                c["ref_lens"] = [min(x, case["R"] - 1) for x in case["ref_lens"]]
            yield c
    else:
        if case["lobe"] > 0:
            yield dict(case, lobe=case["lobe"] - 1)
        u = case["utts"][0]
        if len(u["feat"]) > 0 and u.get("ref") is None:
            u2 = dict(u, feat=u["feat"][:-1], ali=None if u.get("ali") is None else u["ali"][:-1])
            yield dict(case, utts=[u2] + case["utts"][1:])
        if u.get("ref") is not None and "seg" in u["ref"] and u["ref"]["seg"]:
            yield dict(case, utts=[dict(u, ref={"seg": u["ref"]["seg"][:-1]})] + case["utts"][1:])
        if u.get("ali") is not None and case["policy"] != "ali":
            yield dict(case, utts=[dict(u, ali=None)] + case["utts"][1:])


def _clean(case):
    return {k: v for k, v in case.items() if k != "stream"}


# ----------------------------------------------------------------------------------------------------------
# the run
# ----------------------------------------------------------------------------------------------------------
def determine_variant(chk):
    """Which definition does the implementation follow at each flagged place?  (as coded = True)"""
    V, detail = {}, {}
    pr = probes()
    terms, impls = [], {}
    for f in FLAGS:
        impls[f] = run_impl(pr[f], chk.workdir)
        terms.append(check_term(pr[f], impls[f], AS_CODED))
        terms.append(check_term(pr[f], impls[f], REPAIRED))
    res = coq_eval_bools(chk.workdir, IMPORTS, terms, tag="probe")
    for i, f in enumerate(FLAGS):
        coded, rep = res[2 * i], res[2 * i + 1]
        V[f] = not rep   # anything that is not the repaired behaviour is checked against the as-coded model
        detail[f] = "as-coded" if coded and not rep else "repaired" if rep and not coded else "neither" if not coded else "both"
    return V, detail


def run(chk, cases=None, rejections=None):
    chk.rule = (
        "case = a call of slice_spect_data (policy/window/valid_only/lobe, input rows, in_lens/other_lens given or omitted), "
        "a call of chunk_token_sequences_by_slices (refs, slices, ref_lens, partial, retain) or a run of "
        "chunk-torch-spect-data-dir on a generated one-utterance directory; outputs (or 'raises') are compared exactly "
        "with PV.C10.Model (vm_compute) under the variant V found by the probes, and with the repaired model "
        "(= the spec by the theorems). non-trivial = slice: >=2 windows with lobe>0 or in_lens given; tokens: some row "
        "keeps some but not all tokens; dir: >=2 chunks. Variants (alts) of a slice/tokens case must reproduce the canonical outcome")
    chk.assumptions += [
        "ChunkBySlices (property C09) is modelled by its documented meaning (restriction + constant padding); reflect/"
        "replicate padding values are blanked before comparison",
        "features are one integer per frame; extra feature columns are only checked to move with the first",
        "each torch primitive (nonzero, slicing with negative stop, broadcasting, mask/integer indexing, stack, "
        "masked_scatter_) is a Gallina definition with the documented semantics, including when it raises",
    ]
    replaying = cases is not None
    V, detail = determine_variant(chk)
    chk.extra["variant"] = {FLAG_ID[f]: detail[f] for f in FLAGS}
    cases = cases if replaying else gen_cases(chk)
    for c in cases:
        c.setdefault("stream", "replay")
    impls = [run_impl(c, chk.workdir) for c in cases]
    terms = []
    for c, im in zip(cases, impls):
        terms.append(check_term(c, im, V))
        terms.append(check_term(c, im, REPAIRED))
        chk.note_case(_clean(c), nontrivial(c, im), c["stream"])
        chk.count("kind=" + c["kind"])
        chk.count("outcome=" + im[0] + ("" if im[0] == "ok" else ":" + str(im[1])[:24]))
        if c["kind"] != "tokens":
            chk.count(f"{c['kind']}:policy={c['policy']},{c['wt']},{'valid' if c.get('vo', c.get('pad') is None) else 'all'}")
            chk.count(f"{c['kind']}:lobe={min(c['lobe'], 6)}")
        if c["kind"] == "slice":
            chk.count("slice:in_lens=" + ("omitted" if c["in_lens"] is None else "given"))
            chk.count("slice:T=%d" % min(c["T"], 12))
            if c["policy"] == "ref":
                chk.count("slice:other_lens=" + ("omitted" if c["other_lens"] is None else "given"))
            if im[0] == "ok":
                chk.count("slice:windows=%d" % min(len(im[1]), 8))
        elif c["kind"] == "tokens":
            chk.count(f"tokens:partial={c['partial']},retain={c['retain']},ref_lens={'omitted' if c['ref_lens'] is None else 'given'}")
        else:
            chk.count("dir:pad=" + str(c["pad"]))
            chk.count("dir:utts=%d" % len(c["utts"]))
            u = c["utts"][0]
            chk.count("dir:ref=" + ("none" if u.get("ref") is None else "seg" if "seg" in u["ref"] else "tok"))
            if im[0] == "ok":
                chk.count("dir:validator=" + im[2].split(":")[0])
    alt_bad = []
    for i, (c, im) in enumerate(zip(cases, impls)):
        for a in c.get("alts") or []:
            chk.count("alt=" + a)
        for a, o in run_alts(c, im):
            alt_bad.append((i, a, o))
    chk.extra["variant_disagreements"] = len(alt_bad)
    for i, a, o in alt_bad[:4]:
        chk.report({"case": _clean(cases[i]), "impl": impls[i], "variant": a, "variant_impl": o,
                    "what": "relation: the same logical call through variant '%s' (entry point / memory layout / dtype / call history / "
                            "aliasing / element by element; see SLICE_ALTS, TOKEN_ALTS in harness/props/c10.py) gives a different outcome "
                            "than the canonical call" % a,
                    "correspondence": "corr:C10:variants", "theorems_at_stake": THEOREMS[cases[i]["kind"]]})
    res = coq_eval_bools(chk.workdir, IMPORTS, terms)
    okV, okR = res[0::2], res[1::2]

    # (A) the model (under V) no longer describes the code on these cases
    badV = [i for i in range(len(cases)) if not okV[i]]
    chk.extra["model_disagreements"] = len(badV)
    concrete, first_rec = False, None
    # prefer disagreements on which the implementation also differs from the spec (= repaired model)
    ranked = sorted(badV, key=lambda i: (okR[i], len(json.dumps(cases[i]))))
    for i in ranked[:3]:
        def fails(c, want_spec_fail=not okR[i]):
            im = run_impl(c, chk.workdir)
            r = coq_eval_bools(chk.workdir, IMPORTS, [check_term(c, im, V), check_term(c, im, REPAIRED)], tag="shr")
            return (not r[0]) and (not want_spec_fail or not r[1])
        case = _clean(cases[i]) if replaying else shrink(_clean(cases[i]), fails, _cands, budget=14)
        im = run_impl(case, chk.workdir)
        spec_ok = coq_eval_bools(chk.workdir, IMPORTS, [check_term(case, im, REPAIRED)], tag="judge")[0]
        rec = {"case": case, "impl": im, "variant": V,
               "model": coq_eval_print(chk.workdir, IMPORTS, show_term(case, V)),
               "spec": coq_eval_print(chk.workdir, IMPORTS, show_term(case, REPAIRED)),
               "impl_equals_spec": spec_ok, "correspondence": "corr:C10:" + case["kind"],
               "theorems_at_stake": THEOREMS[case["kind"]]}
        if spec_ok:
            rec["what"] = ("implementation differs from the model of the code (variant above) on this input although its "
                           "output equals the spec's; the model, hence the theorems' premise, no longer describes the code")
            first_rec = first_rec or rec
        else:
            concrete = True
            rec["what"] = "output differs from the windows / token chunks the documented policy prescribes (see 'spec')"
            chk.report(rec)
    if badV and not concrete:
        chk.report(first_rec, no_failing_input=True)

    # (B) agrees with the as-coded model where that model deviates from the repaired one: instance of a defect
    dev = [i for i in range(len(cases)) if okV[i] and not okR[i]]
    chk.extra["deviations_from_spec"] = len(dev)
    active = [f for f in FLAGS if V[f]]
    if dev and active:
        sterms = [sens_term(cases[i], V, f) for i in dev for f in active]
        sres = coq_eval_bools(chk.workdir, IMPORTS, sterms, tag="sens")
        n_viol = {}
        order = sorted(range(len(dev)), key=lambda j: len(json.dumps(cases[dev[j]])))
        for j in order:
            i = dev[j]
            flags = [f for k, f in enumerate(active) if sres[j * len(active) + k]] or ["?"]
            for f in flags:
                d = FLAG_ID.get(f, "unexplained")
                chk.count("deviation=" + d)
                rec = {"case": _clean(cases[i]), "impl": impls[i], "defect": d, "variant": V,
                       "what": WHAT.get(d, "deviation from the spec not attributable to a single flag"),
                       "theorems_at_stake": THEOREMS[cases[i]["kind"]]}
                if chk.known_match(signature_fn, rec) is None:
                    if n_viol.get(d, 0) >= 2:
                        continue
                    n_viol[d] = n_viol.get(d, 0) + 1
                    rec["spec"] = coq_eval_print(chk.workdir, IMPORTS, show_term(cases[i], REPAIRED))
                chk.report(rec, signature_fn)

    # (C) what the property says about outputs, checked directly; API-level rejections
    flagged = set(dev) | set(badV)
    n_direct = 0
    for i, (c, im) in enumerate(zip(cases, impls)):
        if i in flagged:
            continue
        bad = direct_checks(c, im)
        if bad and n_direct < 3:
            n_direct += 1
            chk.report({"case": _clean(c), "impl": im, "what": "; ".join(bad[:3]), "variant": V,
                        "theorems_at_stake": THEOREMS[c["kind"]]})
    if (not replaying) if rejections is None else rejections:
        # token-only (2-D) refs have no known segments: nothing is kept, for every batch element
        F = _api()
        for N, R in ((0, 2), (1, 0), (2, 3)):
            try:
                ch, ln = F.chunk_token_sequences_by_slices(torch.zeros(N, R, dtype=torch.long), torch.zeros(N, 2, dtype=torch.long))
                ok = ch.numel() == 0 and ln.shape == (N,) and int(ln.sum()) == 0 and ch.size(0) == N
                got = None if ok else f"shapes {tuple(ch.shape)} {tuple(ln.shape)}"
            except Exception as e:
                got = exc_kind(e)
            chk.count("tokens-2d=" + ("ok" if got is None else "WRONG"))
            if got is not None:
                chk.report({"case": {"kind": "rejection", "name": f"2-D refs N={N} R={R}"}, "impl": got,
                            "what": "token-only refs must give an empty chunk and length 0 for each batch element: " + got})
        for name, thunk in api_rejections():
            try:
                with warnings.catch_warnings():
                    warnings.simplefilter("ignore")
                    thunk()
                got = "no exception"
            except RuntimeError:
                got = None
            except Exception as e:
                got = exc_kind(e)
            chk.count("rejection=" + ("ok" if got is None else "WRONG"))
            if got is not None:
                chk.report({"case": {"kind": "rejection", "name": name}, "impl": got,
                            "what": f"malformed call ({name}) is not rejected with RuntimeError: {got}"})
    source_tie(chk, cases, impls, with_fixed=(not replaying) if rejections is None else rejections)
    from props.c10_tie import source_tieB  # second source tie: the translated slice_spect_data
    source_tieB(chk, cases, impls, with_fixed=(not replaying) if rejections is None else rejections)


# ----------------------------------------------------------------------------------------------------------
# source tie (tokens): the translated Python text of chunk_token_sequences_by_slices, interpreted inside Coq
# (PV.Gen.C10Src.chunk_tokens_body run by PV.MiniPy.Interp, torch calls = PV.MiniTorch.OpsC10 through SrcRun.ext10),
# on the token cases of this run; see coq/theories/C10/SrcRun.v, Tie.v and the c10_source_* theorems
# ----------------------------------------------------------------------------------------------------------
IMPORTS_SRC = IMPORTS + "From PV Require C10.SrcRun.\n"
SRC_TIE_THEOREMS = ["c10_source_tokens_is_model", "c10_source_tokens_refines_model", "c10_source_tokens_check_is_check",
                    "c10_source_tokens_raises_ndim", "c10_source_tokens_raises_last_dim", "c10_source_tokens_raises_slices",
                    "c10_source_tokens_raises_ref_lens", "c10_source_tokens_2d_empty", "c10_source_tokens_kept_in_order"]
# (refs shape, slices shape, ref_lens shape or None): calls the source must reject with RuntimeError / accept
SRC_TIE_SHAPES = [((1, 3, 2), (1, 2), None), ((1, 3, 3), (2, 2), None), ((1, 3, 3), (1, 2), (2,)), ((3,), (1, 2), None),
                  ((1, 3, 3, 1), (1, 2), None), ((2, 2, 3), (2, 3), None), ((1, 3, 3), (1, 2), (1,)), ((2, 0, 3), (2, 2), None)]
SRC_TIE_2D = [(0, 2), (1, 0), (2, 3)]


def src_tokens_term(case, impl):
    """bool: the interpreted source on this case returns what the implementation returned (defined cells chunked[n, :lens[n]]
    and chunked_lens) - same literals and comparison as Model.check_tokens"""
    out = "(" + cl([ctoks(r) for r in impl[1]]) + ", " + zl(impl[2]) + ")"
    return f"SrcRun.src_chunk_tokens_check {cn(case['R'])} {_tokens_args(case)} {out}"


def _cnl(shape):
    return cl([cn(x) for x in shape])


def source_tie(chk, cases, impls, with_fixed=True):
    """validates translator + MiniPy.Interp + ext10 + MiniTorch.OpsC10 against CPython + torch on the run's token cases
    (and on a few fixed malformed / 2-D calls); independent of whether the tie lemmas still compile"""
    import time
    from vlib import CoqError
    idx, terms = [], []
    for i, (c, im) in enumerate(zip(cases, impls)):
        if c.get("kind") == "tokens" and im[0] == "ok":
            idx.append(i)
            terms.append(src_tokens_term(c, im))
    fixed = []          # (description, Coq term, what the implementation did)
    if with_fixed:
        F = _api()
        for rs, ss, ls in SRC_TIE_SHAPES:
            try:
                with warnings.catch_warnings():
                    warnings.simplefilter("ignore")
                    F.chunk_token_sequences_by_slices(torch.zeros(rs, dtype=torch.long), torch.zeros(ss, dtype=torch.long),
                                                      None if ls is None else torch.zeros(ls, dtype=torch.long))
                got = False
            except RuntimeError:
                got = True
            except Exception:
                continue    # another exception kind: the correspondence's rejection checks report it
            ls_t = "None" if ls is None else f"(Some {_cnl(ls)})"
            fixed.append((f"shapes refs={rs} slices={ss} ref_lens={ls}: RuntimeError", f"SrcRun.src_tokens_rejects {_cnl(rs)} {_cnl(ss)} {ls_t}", got))
        for N, R in SRC_TIE_2D:
            try:
                ch, ln = F.chunk_token_sequences_by_slices(torch.zeros(N, R, dtype=torch.long), torch.zeros(N, 2, dtype=torch.long))
                got = tuple(ch.shape) == (N, 0) and tuple(ln.shape) == (N,) and int(ln.abs().sum()) == 0
            except Exception:
                got = False
            fixed.append((f"2-D refs N={N} R={R}: empty chunk, zero lengths", f"SrcRun.src_tokens_2d_empty {cn(N)} {cn(R)}", got))
    if not terms and not fixed:
        chk.extra["source_tie_run"] = {"cases": 0, "disagreements": 0}
        return
    t0 = time.time()
    try:
        res = coq_eval_bools(chk.workdir, IMPORTS_SRC, terms + [t for _, t, _ in fixed], shard=120, tag="src")
    except CoqError as e:
        chk.extra["source_tie_run"] = "not evaluated: " + str(e)[-400:]
        return
    bad = [idx[j] for j in range(len(idx)) if not res[j]]
    bad_fixed = [fixed[j][0] for j in range(len(fixed)) if res[len(idx) + j] != fixed[j][2]]
    chk.extra["source_tie_run"] = {
        "cases": len(idx), "disagreements": len(bad), "fixed_calls": len(fixed), "fixed_disagreements": bad_fixed,
        "wall_s": round(time.time() - t0, 1),
        "partial": sum(1 for i in idx if cases[i]["partial"]), "retain": sum(1 for i in idx if cases[i]["retain"]),
        "ref_lens_given": sum(1 for i in idx if cases[i]["ref_lens"] is not None),
        "N=0": sum(1 for i in idx if len(cases[i]["refs"]) == 0), "R=0": sum(1 for i in idx if cases[i]["R"] == 0),
        "max_N": max([len(cases[i]["refs"]) for i in idx] + [0]), "max_R": max([cases[i]["R"] for i in idx] + [0])}
    chk.count("source_tie_cases", len(idx))
    if bad or bad_fixed:
        rec = {"what": "the Python source of chunk_token_sequences_by_slices as translated to MiniPy and interpreted in Coq "
                       "(PV.C10.SrcRun.src_chunk_tokens, torch calls = PV.MiniTorch.OpsC10) does not reproduce the implementation's "
                       "output: translator / interpreter / ext10 / MiniTorch no longer describe the code",
               "disagreeing_cases": len(bad), "disagreeing_fixed_calls": bad_fixed,
               "correspondence": "tie:C10:py2coq+MiniPy.Interp+MiniTorch:chunk_token_sequences_by_slices",
               "theorems_at_stake": SRC_TIE_THEOREMS}
        if bad:
            i = min(bad, key=lambda k: len(json.dumps(cases[k])))
            rec["case"], rec["impl"] = _clean(cases[i]), impls[i]
        else:
            rec["case"] = {"kind": "rejection", "name": bad_fixed[0]}
        chk.report(rec, no_failing_input=True)


def replay(chk, path):
    rec = json.loads(open(path).read())
    case = dict(rec["case"])
    if case.get("kind") == "rejection":
        run(chk, [], rejections=True)
        return
    case.pop("stream", None)
    run(chk, [case])
