(* C14, second tie - extract_window (PV.Gen.C14BWinSrc.extract_window, regenerated from
   /repo/src/pydrobert/torch/_datasets.py on every run): interpreting the source term on a matrix of T >= 1 rows and a
   centre frame idx < T returns Model.extract_window of the rows - for every window (left, right), both `reverse`
   settings and EVERY content of the uninitialised buffer `feat.new(win_size, F)` (the oracle junk).
   The lemma is about arbitrary rows (VTuple of cells); enc_mat instantiates it. *)
From Coq Require Import ZArith QArith List String Bool Arith Lia.
From PV Require C14.Spec C14.ProofsWindow.
From PV Require Import C14.Model MiniPy.Syntax MiniPy.Interp MiniPy.Lemmas MiniTorch.OpsC14B MiniTorch.LemmasC14B
  Gen.C14BWinSrc C14.SrcRunB.
Import ListNotations.
Local Open Scope string_scope.
Local Open Scope list_scope.

#[local] Arguments Z.of_nat : simpl never.
#[local] Arguments Z.add : simpl never.
#[local] Arguments Z.sub : simpl never.
#[local] Arguments Z.mul : simpl never.
#[local] Arguments Z.ltb : simpl never.
#[local] Arguments Z.leb : simpl never.
#[local] Arguments Z.eqb : simpl never.
#[local] Arguments Z.max : simpl never.
#[local] Arguments Z.opp : simpl never.
#[local] Arguments cmp_eval : simpl never.
#[local] Arguments extreme_of : simpl never.
#[local] Arguments shape2 : simpl never.
#[local] Arguments getitem_slice : simpl never.
#[local] Arguments setitem_slice : simpl never.
#[local] Arguments new_mat : simpl never.
#[local] Arguments nat_arg : simpl never.
#[local] Arguments flip0 : simpl never.
#[local] Arguments is_tensor : simpl never.
#[local] Arguments subscript : simpl never.

(* ---- evaluation lemmas ---------------------------------------------------------------------------------------- *)
Lemma sub2_0 a b st : subscript (VTuple [a; b]) (VInt 0) st = Ok a st. Proof. reflexivity. Qed.
Lemma sub2_1 a b st : subscript (VTuple [a; b]) (VInt 1) st = Ok b st. Proof. reflexivity. Qed.
Lemma sub_list_key l k st : subscript (VList l) (VTuple k) st = Stuck "subscript". Proof. reflexivity. Qed.
Lemma sub_list_0 x l st : subscript (VList (x :: l)) (VInt 0) st = Ok x st. Proof. reflexivity. Qed.

Lemma sub_list_last x l st : subscript (VList (x :: l)) (VInt (- (1))) st = Ok (last (x :: l) VNone) st.
Proof.
  unfold subscript. change (- (1) <? 0)%Z with true. cbv iota.
  destruct (Z.leb_spec 0 (- (1) + Z.of_nat (List.length (x :: l)))) as [_|Hn]; [|cbn [List.length] in Hn; lia].
  destruct (Z.ltb_spec (- (1) + Z.of_nat (List.length (x :: l))) (Z.of_nat (List.length (x :: l)))) as [_|Hn]; [|lia].
  cbn [andb]. f_equal. rewrite <- nth_last. f_equal. lia.
Qed.

Lemma nat_arg_pos z : (0 <= z)%Z -> nat_arg (VInt z) = Some (Z.to_nat z).
Proof. intros H. unfold nat_arg. destruct (Z.leb_spec 0 z); [reflexivity|lia]. Qed.

Lemma shape2_rows r0 (fl : list val) : forallb is_cell r0 = true ->
  shape2 (VList (VTuple r0 :: fl)) = Some (Z.of_nat (S (List.length fl)), Z.of_nat (List.length r0)).
Proof. intros H. unfold shape2. rewrite H. reflexivity. Qed.

Lemma getitem_pos l a b : (0 <= a)%Z -> (0 <= b)%Z ->
  getitem_slice (VList l) (VTuple [VStr "$slice"; VInt a; VInt b; VNone])
  = Some (VList (cut l (Nat.min (Z.to_nat a) (List.length l)) (Nat.min (Z.to_nat b) (List.length l)))).
Proof.
  intros Ha Hb. unfold getitem_slice. change (VTuple [VStr "$slice"; VInt a; VInt b; VNone]) with (slice_key (VInt a) (VInt b)).
  rewrite slice_bounds_pos by assumption. reflexivity.
Qed.

Lemma setitem_rows l a b rows : (0 <= a)%Z -> (0 <= b)%Z ->
  (Nat.min (Z.to_nat a) (List.length l) <= Nat.min (Z.to_nat b) (List.length l))%nat ->
  List.length rows = (Nat.min (Z.to_nat b) (List.length l) - Nat.min (Z.to_nat a) (List.length l))%nat ->
  setitem_slice (VList l) (VTuple [VStr "$slice"; VInt a; VInt b; VNone]) (VList rows)
  = Some (VList (firstn (Nat.min (Z.to_nat a) (List.length l)) l ++ rows
                 ++ skipn (Nat.min (Z.to_nat b) (List.length l)) l)).
Proof.
  intros Ha Hb Hle Hlen. unfold setitem_slice.
  change (VTuple [VStr "$slice"; VInt a; VInt b; VNone]) with (slice_key (VInt a) (VInt b)).
  rewrite slice_bounds_pos by assumption.
  apply Nat.leb_le in Hle. rewrite Hle. rewrite Hlen, Nat.eqb_refl. reflexivity.
Qed.

Lemma setitem_bcast_to l b cells : (0 <= b)%Z -> forallb is_cell cells = true ->
  setitem_slice (VList l) (VTuple [VStr "$slice"; VNone; VInt b; VNone]) (VTuple cells)
  = Some (VList (repeat (VTuple cells) (Nat.min (Z.to_nat b) (List.length l))
                 ++ skipn (Nat.min (Z.to_nat b) (List.length l)) l)).
Proof.
  intros Hb Hc. unfold setitem_slice.
  change (VTuple [VStr "$slice"; VNone; VInt b; VNone]) with (slice_key VNone (VInt b)).
  rewrite slice_bounds_to by assumption. cbn [Nat.leb]. rewrite Hc, Nat.sub_0_r. reflexivity.
Qed.

Lemma setitem_bcast_from_end l a cells : (0 < a)%Z -> forallb is_cell cells = true ->
  setitem_slice (VList l) (VTuple [VStr "$slice"; VInt (- a); VNone; VNone]) (VTuple cells)
  = Some (VList (firstn (List.length l - Z.to_nat a) l
                 ++ repeat (VTuple cells) (List.length l - (List.length l - Z.to_nat a))
                 ++ skipn (List.length l) l)).
Proof.
  intros Ha Hc. unfold setitem_slice.
  change (VTuple [VStr "$slice"; VInt (- a); VNone; VNone]) with (slice_key (VInt (- a)) VNone).
  rewrite slice_bounds_from_end by assumption.
  assert (Hle : (List.length l - Z.to_nat a <=? List.length l)%nat = true) by (apply Nat.leb_le; lia).
  rewrite Hle, Hc. reflexivity.
Qed.

Lemma new_mat_list junk n f : new_mat junk n f = VList (map (fun i => junk_row junk i f) (seq 0 n)).
Proof. reflexivity. Qed.

Ltac ev1 := first
  [ rewrite sub2_0 | rewrite sub2_1 | rewrite sub_list_key | rewrite sub_list_0 | rewrite sub_list_last
  | rewrite cmp_lt_int | rewrite cmp_gt_int | rewrite max_int
  | rewrite nat_arg_pos by lia | rewrite getitem_pos by lia ].
Ltac ev := repeat (cbn; ev1); cbn.

(* ---- pure list facts ------------------------------------------------------------------------------------------------ *)
Lemma cut_clamp {A} (l : list A) a b : (a <= List.length l)%nat ->
  cut l (Nat.min a (List.length l)) (Nat.min b (List.length l)) = cut l a b.
Proof.
  intros Ha. unfold cut. rewrite (Nat.min_l a) by assumption.
  destruct (Nat.le_gt_cases b (List.length l)) as [Hb|Hb].
  - rewrite (Nat.min_l b) by assumption. reflexivity.
  - rewrite (Nat.min_r b) by lia.
    rewrite !firstn_all2; [reflexivity| |]; rewrite skipn_length; lia.
Qed.

(* the three writes into the uninitialised buffer J leave nothing of it *)
Lemma assemble {A} (J S : list A) (h l : A) lp rp win :
  List.length J = win -> (lp + rp <= win)%nat -> List.length S = (win - rp - lp)%nat ->
  let w1 := firstn lp J ++ S ++ skipn (win - rp) J in
  let w2 := repeat h lp ++ skipn lp w1 in
  let w3 := firstn (win - rp) w2 ++ repeat l rp ++ skipn win w2 in
  List.length w1 = win /\ List.length w2 = win /\
  w2 = repeat h lp ++ S ++ skipn (win - rp) J /\
  w3 = repeat h lp ++ S ++ repeat l rp.
Proof.
  intros HJ Hle HS w1 w2 w3.
  assert (L1 : List.length (firstn lp J) = lp) by (rewrite firstn_length; lia).
  assert (Lk : List.length (skipn (win - rp) J) = rp) by (rewrite skipn_length; lia).
  assert (Hw1 : List.length w1 = win) by (unfold w1; rewrite !app_length, L1, HS, Lk; lia).
  assert (Hs : skipn lp w1 = S ++ skipn (win - rp) J) by (unfold w1; apply skipn_app_exact; exact L1).
  assert (Hw2 : w2 = repeat h lp ++ S ++ skipn (win - rp) J) by (unfold w2; rewrite Hs; reflexivity).
  assert (Lw2 : List.length w2 = win) by (rewrite Hw2, !app_length, repeat_length, HS, Lk; lia).
  repeat split; try assumption.
  unfold w3. rewrite (skipn_all2 w2) by lia. rewrite app_nil_r.
  rewrite Hw2. rewrite app_assoc.
  rewrite firstn_app_exact by (rewrite app_length, repeat_length, HS; lia).
  rewrite <- app_assoc. reflexivity.
Qed.

(* the same with natural bounds *)
Lemma setitem_rows_nat l (a b : nat) rows : (a <= b)%nat -> (b <= List.length l)%nat -> List.length rows = (b - a)%nat ->
  setitem_slice (VList l) (VTuple [VStr "$slice"; VInt (Z.of_nat a); VInt (Z.of_nat b); VNone]) (VList rows)
  = Some (VList (firstn a l ++ rows ++ skipn b l)).
Proof.
  intros H1 H2 H3. rewrite setitem_rows; rewrite ?Nat2Z.id; try lia.
  rewrite !Nat.min_l by lia. reflexivity.
Qed.

Lemma setitem_bcast_to_nat l (b : nat) cells : (b <= List.length l)%nat -> forallb is_cell cells = true ->
  setitem_slice (VList l) (VTuple [VStr "$slice"; VNone; VInt (Z.of_nat b); VNone]) (VTuple cells)
  = Some (VList (repeat (VTuple cells) b ++ skipn b l)).
Proof.
  intros H1 Hc. rewrite setitem_bcast_to by (try lia; assumption). rewrite Nat2Z.id, Nat.min_l by lia. reflexivity.
Qed.

Lemma setitem_bcast_end_nat l (a : nat) cells : (0 < a)%nat -> (a <= List.length l)%nat -> forallb is_cell cells = true ->
  setitem_slice (VList l) (VTuple [VStr "$slice"; VInt (- Z.of_nat a); VNone; VNone]) (VTuple cells)
  = Some (VList (firstn (List.length l - a) l ++ repeat (VTuple cells) a ++ skipn (List.length l) l)).
Proof.
  intros H0 H1 Hc. rewrite setitem_bcast_from_end by (try lia; assumption). rewrite Nat2Z.id.
  replace (List.length l - (List.length l - a))%nat with a by lia. reflexivity.
Qed.

Lemma truthy_nat n : truthy (VInt (Z.of_nat n)) = negb (Nat.eqb n 0).
Proof. cbn [truthy]. destruct (Z.eqb_spec (Z.of_nat n) 0), (Nat.eqb_spec n 0); try reflexivity; lia. Qed.

#[local] Arguments Nat.ltb : simpl never.
#[local] Arguments Nat.leb : simpl never.
#[local] Arguments Nat.eqb : simpl never.
#[local] Arguments List.length : simpl never.
#[local] Arguments Nat.sub : simpl never.
#[local] Arguments Nat.add : simpl never.

(* ---- the blocks of the function ---------------------------------------------------------------------------------- *)
Definition ew_head : stmt := match extract_window with SSeq a _ => a | _ => SPass end.
Definition ew_cond : expr := match extract_window with SSeq _ (SSeq (SIf c _ _) _) => c | _ => EConst VNone end.
Definition ew_pad : stmt := match extract_window with SSeq _ (SSeq (SIf _ t _) _) => t | _ => SPass end.
Definition ew_slice : stmt := match extract_window with SSeq _ (SSeq (SIf _ _ f) _) => f | _ => SPass end.
Definition ew_tail : stmt := match extract_window with SSeq _ (SSeq _ t) => t | _ => SPass end.

Lemma ew_split : extract_window = SSeq ew_head (SSeq (SIf ew_cond ew_pad ew_slice) ew_tail).
Proof. reflexivity. Qed.

Definition rows_ok (l : list val) : Prop :=
  forall x, List.In x l -> exists c, x = VTuple c /\ forallb is_cell c = true.

(* the variables after `T, F = feat.shape` *)
Definition ew_vars (Fl : list val) (w : nat) (idx left right : nat) (reverse : bool) : list (string * val) :=
  [("feat", VList Fl); ("frame_idx", VInt (Z.of_nat idx)); ("left", VInt (Z.of_nat left));
   ("right", VInt (Z.of_nat right)); ("reverse", VBool reverse);
   ("$t1", VTuple [VInt (Z.of_nat (List.length Fl)); VInt (Z.of_nat w)]);
   ("T", VInt (Z.of_nat (List.length Fl))); ("F", VInt (Z.of_nat w))].

Section Blocks.
  Variable junk : nat -> nat -> val.
  Variables (r0 fl : list val) (idx left right : nat) (reverse : bool).
  Let Fl := VTuple r0 :: fl.
  Hypothesis Hok : rows_ok Fl.
  Hypothesis Hidx : (idx < List.length Fl)%nat.
  Let st1 := mkState (ew_vars Fl (List.length r0) idx left right reverse) [].

  Lemma head_exec :
    exec (extB0 junk) ew_head (mkState (window_vars (VList Fl) (zn idx) (zn left) (zn right) (VBool reverse)) [])
    = Ok CNormal st1.
  Proof.
    destruct (Hok _ (or_introl eq_refl)) as [c [E Hc]]. injection E as <-.
    unfold ew_head, extract_window, window_vars, zn, st1, ew_vars. cbn.
    unfold Fl at 1. rewrite (shape2_rows _ _ Hc). ev. reflexivity.
  Qed.

  Lemma cond_eval :
    eval (extB0 junk) ew_cond st1
    = Ok (VBool (Nat.ltb idx left || Nat.ltb (List.length Fl) (idx + right + 1))) st1.
  Proof.
    unfold ew_cond, extract_window, st1, ew_vars. ev.
    destruct (Z.ltb_spec (Z.of_nat idx - Z.of_nat left) 0) as [C1|C1]; ev.
    - destruct (Nat.ltb_spec idx left); [reflexivity|lia].
    - destruct (Nat.ltb_spec idx left); [lia|]. cbn [orb].
      destruct (Z.ltb_spec (Z.of_nat (List.length Fl)) (Z.of_nat idx + Z.of_nat right + 1)),
               (Nat.ltb_spec (List.length Fl) (idx + right + 1)); try reflexivity; lia.
  Qed.

  (* the padded window as the code builds it: three writes into the uninitialised buffer *)
  Lemma pad_exec :
    (Nat.ltb idx left || Nat.ltb (List.length Fl) (idx + right + 1)) = true ->
    exists st2,
      exec (extB0 junk) ew_pad st1 = Ok CNormal st2 /\
      lookup "window" (vars st2)
        = Some (VList (repeat (hd VNone Fl) (left - idx) ++ cut Fl (idx - left) (idx + right + 1)
                       ++ repeat (last Fl VNone) (idx + right + 1 - List.length Fl))) /\
      lookup "reverse" (vars st2) = Some (VBool reverse).
  Proof.
    intros Hcond.
    destruct (Hok _ (or_introl eq_refl)) as [c [E Hc]]. injection E as <-.
    destruct (Hok (last Fl VNone)) as [rl [Hl Hcl]].
    { destruct (@exists_last _ Fl) as [l' [a Ha]]; [discriminate|]. rewrite Ha, last_last.
      apply in_or_app. right. left. reflexivity. }
    apply orb_true_iff in Hcond. rewrite !Nat.ltb_lt in Hcond.
    unfold ew_pad, extract_window, st1, ew_vars. ev.
    change (is_tensor (VList Fl)) with true. ev. rewrite new_mat_list.
    set (T := List.length Fl) in *.
    set (J := map _ (seq 0 _)).
    assert (HJ : List.length J = (1 + left + right)%nat) by (unfold J; rewrite map_length, seq_length; lia).
    replace (Z.max (Z.of_nat left - Z.of_nat idx) 0) with (Z.of_nat (left - idx)) by lia.
    replace (Z.max (Z.of_nat idx + Z.of_nat right + 1 - Z.of_nat T) 0) with (Z.of_nat (idx + right + 1 - T)) by lia.
    replace (1 + Z.of_nat left + Z.of_nat right)%Z with (Z.of_nat (1 + left + right)) by lia.
    replace (Z.max 0 (Z.of_nat idx - Z.of_nat left)) with (Z.of_nat (idx - left)) by lia.
    replace (Z.of_nat idx + Z.of_nat right + 1)%Z with (Z.of_nat (idx + right + 1)) by lia.
    set (lp := (left - idx)%nat). set (rp := (idx + right + 1 - T)%nat). set (win := (1 + left + right)%nat) in *.
    replace (Z.of_nat win - Z.of_nat rp)%Z with (Z.of_nat (win - rp)) by lia.
    rewrite !Nat2Z.id. fold T. rewrite (cut_clamp Fl) by (fold T; lia).
    set (S := cut Fl (idx - left) (idx + right + 1)).
    assert (HS : List.length S = (win - rp - lp)%nat) by (unfold S; rewrite cut_length; fold T; lia).
    destruct (assemble J S (VTuple r0) (VTuple rl) lp rp win HJ ltac:(lia) HS) as [Lw1 [Lw2 [Ew2 Ew3]]].
    rewrite setitem_rows_nat by lia. ev.
    assert (S0 : forall st, subscript (VList Fl) (VInt 0) st = Ok (VTuple r0) st) by reflexivity.
    assert (SL : forall st, subscript (VList Fl) (VInt (- (1))) st = Ok (VTuple rl) st)
      by (intros st; unfold Fl; rewrite sub_list_last; fold Fl; rewrite Hl; reflexivity).
    set (w1 := firstn lp J ++ S ++ skipn (win - rp) J) in *.
    set (w2 := repeat (VTuple r0) lp ++ skipn lp w1) in *.
    assert (W2 : (if Nat.eqb lp 0 then w1 else w2) = w2).
    { destruct (Nat.eqb_spec lp 0) as [E|E]; [|reflexivity]. unfold w2. rewrite E. reflexivity. }
    assert (HH : hd VNone Fl = VTuple r0) by reflexivity.
    assert (Fin0 : rp = 0%nat -> w2 = repeat (hd VNone Fl) lp ++ S ++ repeat (last Fl VNone) rp).
    { intros E. rewrite HH, Hl, <- Ew3, E. cbn [repeat app]. rewrite Nat.sub_0_r.
      rewrite firstn_all2, skipn_all2 by lia. rewrite app_nil_r. reflexivity. }
    assert (Fin1 : firstn (List.length w2 - rp) w2 ++ repeat (VTuple rl) rp ++ skipn (List.length w2) w2
                   = repeat (hd VNone Fl) lp ++ S ++ repeat (last Fl VNone) rp).
    { rewrite HH, Hl, Lw2. exact Ew3. }
    destruct (Z.eqb_spec (Z.of_nat lp) 0) as [E1|E1]; cbn [negb].
    - assert (E : w1 = w2) by (rewrite <- W2; destruct (Nat.eqb_spec lp 0); [reflexivity|lia]).
      rewrite E. ev.
      destruct (Z.eqb_spec (Z.of_nat rp) 0) as [E2|E2]; cbn [negb].
      + eexists. split; [reflexivity|]. cbn. split; [|reflexivity]. rewrite Fin0 by lia. reflexivity.
      + ev. rewrite SL. ev. rewrite setitem_bcast_end_nat by (try assumption; lia). ev.
        eexists. split; [reflexivity|]. cbn. split; [|reflexivity]. rewrite Fin1. reflexivity.
    - ev. rewrite S0. ev. rewrite setitem_bcast_to_nat by (try assumption; lia). ev. fold w2.
      destruct (Z.eqb_spec (Z.of_nat rp) 0) as [E2|E2]; cbn [negb].
      + eexists. split; [reflexivity|]. cbn. split; [|reflexivity]. rewrite Fin0 by lia. reflexivity.
      + ev. rewrite SL. ev. rewrite setitem_bcast_end_nat by (try assumption; lia). ev.
        eexists. split; [reflexivity|]. cbn. split; [|reflexivity]. rewrite Fin1. reflexivity.
  Qed.

  Lemma slice_exec :
    (Nat.ltb idx left || Nat.ltb (List.length Fl) (idx + right + 1)) = false ->
    exists st2,
      exec (extB0 junk) ew_slice st1 = Ok CNormal st2 /\
      lookup "window" (vars st2) = Some (VList (cut Fl (idx - left) (idx + right + 1))) /\
      lookup "reverse" (vars st2) = Some (VBool reverse).
  Proof.
    intros Hcond. apply orb_false_iff in Hcond. rewrite !Nat.ltb_ge in Hcond. destruct Hcond as [H1 H2].
    unfold ew_slice, extract_window, st1, ew_vars. ev.
    eexists. split; [reflexivity|]. cbn. split; [|reflexivity].
    replace (Z.to_nat (Z.of_nat idx - Z.of_nat left)) with (idx - left)%nat by lia.
    replace (Z.to_nat (Z.of_nat idx + Z.of_nat right + 1)) with (idx + right + 1)%nat by lia.
    rewrite (cut_clamp Fl) by lia. reflexivity.
  Qed.
End Blocks.

Lemma lookup_update_eq x v l : lookup x (update x v l) = Some v.
Proof.
  induction l as [|[y w] t IH]; cbn [update lookup]; [rewrite String.eqb_refl; reflexivity|].
  destruct (String.eqb x y) eqn:E; cbn [lookup]; rewrite E; [reflexivity|exact IH].
Qed.

Lemma tail_exec junk st w rv :
  lookup "window" (vars st) = Some (VList w) -> lookup "reverse" (vars st) = Some (VBool rv) ->
  exists st', exec (extB0 junk) ew_tail st = Ok (CReturn (VList (if rv then rev w else w))) st'.
Proof.
  intros Hw Hr. unfold ew_tail, extract_window. cbn. rewrite Hr. cbn. destruct rv; cbn.
  - rewrite Hw. cbn. change (flip0 (VList w)) with (Some (VList (rev w))). cbn.
    unfold set_var. cbn [vars]. rewrite lookup_update_eq. cbn. eexists. reflexivity.
  - rewrite Hw. cbn. eexists. reflexivity.
Qed.

(* ---- the whole function ------------------------------------------------------------------------------------------- *)
Theorem window_run junk F idx left right reverse :
  rows_ok F -> (idx < List.length F)%nat ->
  exists st', Interp.run (extB0 junk) extract_window
                (window_vars (VList F) (zn idx) (zn left) (zn right) (VBool reverse))
              = Ok (VList (Model.extract_window VNone F idx left right reverse)) st'.
Proof.
  intros Hok Hidx. destruct F as [|x fl]; [exfalso; unfold List.length in Hidx; lia|].
  destruct (Hok x (or_introl eq_refl)) as [r0 [-> Hc]].
  unfold Interp.run. rewrite ew_split, exec_seq, (head_exec junk r0 fl idx left right reverse Hok). cbn [bind].
  rewrite exec_seq, exec_if, (cond_eval junk r0 fl idx left right reverse). cbn [bind truthy].
  unfold Model.extract_window.
  destruct (Nat.ltb idx left || Nat.ltb (List.length (VTuple r0 :: fl)) (idx + right + 1)) eqn:Hcond.
  - destruct (pad_exec junk r0 fl idx left right reverse Hok Hidx Hcond) as [st2 [He [Hw Hr]]].
    rewrite He. cbn [bind]. destruct (tail_exec junk st2 _ reverse Hw Hr) as [st' Ht]. rewrite Ht.
    eexists. reflexivity.
  - destruct (slice_exec junk r0 fl idx left right reverse Hidx Hcond) as [st2 [He [Hw Hr]]].
    rewrite He. cbn [bind]. destruct (tail_exec junk st2 _ reverse Hw Hr) as [st' Ht]. rewrite Ht.
    eexists. reflexivity.
  - exact Hidx.
Qed.

(* ---- on encoded model values ------------------------------------------------------------------------------------------ *)
Lemma rows_ok_enc (feat : list row) : rows_ok (map enc_row feat).
Proof.
  intros x Hx. apply in_map_iff in Hx. destruct Hx as [r [<- _]]. exists (map VInt r). split; [reflexivity|apply cells_ints].
Qed.

Lemma extract_window_map {A B} (f : A -> B) d (l : list A) idx left right reverse :
  map f (Model.extract_window d l idx left right reverse) = Model.extract_window (f d) (map f l) idx left right reverse.
Proof.
  unfold Model.extract_window, slice. rewrite map_length.
  destruct (Nat.ltb idx left || Nat.ltb (List.length l) (idx + right + 1)); destruct reverse;
    rewrite ?map_rev, ?map_app, ?map_app, ?map_repeat, ?skipn_map, ?firstn_map, ?hd_map, ?last_map; reflexivity.
Qed.

Lemma extract_window_default {A} (d1 d2 : A) (l : list A) idx left right reverse : l <> [] ->
  Model.extract_window d1 l idx left right reverse = Model.extract_window d2 l idx left right reverse.
Proof.
  intros Hl. unfold Model.extract_window.
  assert (H1 : hd d1 l = hd d2 l) by (destruct l; [contradiction|reflexivity]).
  assert (H2 : last l d1 = last l d2).
  { destruct (@exists_last _ l Hl) as [l' [a ->]]. rewrite !last_last. reflexivity. }
  rewrite H1, H2. reflexivity.
Qed.

(* for every matrix of T >= 1 rows, centre frame idx < T, window and `reverse`, and every content of the
   uninitialised buffer: the interpreted source returns the model's window *)
Theorem window_tie junk (feat : list row) idx left right reverse : (idx < List.length feat)%nat ->
  exists st', src_window junk feat idx left right reverse
              = Ok (enc_mat (Model.extract_window [] feat idx left right reverse)) st'.
Proof.
  intros Hidx. unfold src_window, enc_mat.
  destruct (window_run junk (map enc_row feat) idx left right reverse (rows_ok_enc feat)) as [st' H];
    [rewrite map_length; exact Hidx|].
  exists st'. rewrite H. f_equal. f_equal.
  rewrite (extract_window_map enc_row). apply extract_window_default.
  destruct feat; [exfalso; unfold List.length in Hidx; lia|discriminate].
Qed.

(* composed with the model theorems (ProofsWindow): statements purely about the interpreted source.  Entry k of the
   window the source returns for centre frame idx is frame clamp(idx - left + k, 0, T-1) of the utterance (read
   backwards under `reverse`), and the window has 1 + left + right rows - whatever the uninitialised buffer held. *)
Theorem source_window_edge_replication junk (feat : list row) idx left right reverse k :
  (idx < List.length feat)%nat -> (k < 1 + left + right)%nat ->
  exists st' w,
    src_window junk feat idx left right reverse = Ok (enc_mat w) st' /\
    List.length w = (1 + left + right)%nat /\
    nth k w [] = nth (C14.Spec.clamp_frame (List.length feat) idx left (if reverse then left + right - k else k)) feat [].
Proof.
  intros Hidx Hk. destruct (window_tie junk feat idx left right reverse Hidx) as [st' H].
  exists st', (Model.extract_window [] feat idx left right reverse). split; [exact H|]. split.
  - destruct reverse.
    + rewrite C14.ProofsWindow.window_reverse, rev_length. apply C14.ProofsWindow.window_length. exact Hidx.
    + apply C14.ProofsWindow.window_length. exact Hidx.
  - destruct reverse.
    + apply C14.ProofsWindow.window_nth_reverse; assumption.
    + apply C14.ProofsWindow.window_nth; assumption.
Qed.
