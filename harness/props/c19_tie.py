"""C19 source tie, harness side: the Python text of `simple_random_sampling_without_replacement` and
`binomial_coefficient` (src/pydrobert/torch/_combinatorics.py) and four marked blocks of
`IndependentMetropolisHastingsEstimator.__call__` (_mc.py), translated to MiniPy by py2coq on this run
(PV.Gen.C19Src, PV.Gen.C19McSrc) and interpreted INSIDE Coq with the torch calls given the meaning of
PV.MiniTorch.OpsC19 (PV.C19.SrcRun.ext19, PV.C19.SrcRunMc.ext19mc + the glue mh_run), is run on the combinatorics
and Metropolis-Hastings cases of the run and compared with what the implementation returned.  This validates translator + interpreter + ext19 + op semantics against CPython/torch on every run
and is independent of whether C19/Tie*.v still compile."""
import time
from fractions import Fraction as Fr

from vlib import cl, cn, co, cp, cq, cz, coq_eval_bools

IMPORTS_SRC = "From PV Require C19.SrcRun.\n"          # unit C19Src (sampler, binomial)
IMPORTS_SRC_MC = "From PV Require C19.SrcRunMc.\n"     # unit C19McSrc (Metropolis-Hastings blocks): evaluated separately, so that a
#                                                         break of one unit leaves the other unit's source run standing
SRC_THEOREMS = ["c19_source_srswor_is_model", "c19_source_srswor_raises_iff", "c19_source_srswor_cardinality_and_positions",
                "c19_source_binom_is_model", "c19_source_binom_is_pascal", "c19_source_binom_is_factorial_quotient",
                "c19_source_mh_step_is_model", "c19_source_mh_step_accepts_all_when_equal"]


def _nats(xs):
    return cl([cn(x) for x in xs])


def _zs(xs):
    return cl([cz(x) for x in xs])


def _impl(res, shape, flat):
    if res.get("exc") is not None:
        return "None"
    return co(cp(_nats(shape), _zs(flat)))


def srswor_term(case, res):
    """bool: the interpreted source on the tensors the function received (batch [B]; `given` 0-dim for the 'scalar'
    layout; through the distribution both counts arrive expanded and out_size is always an int), Bernoulli oracle =
    the case's uniforms in call order (1 iff u < p, as the harness' patched torch.bernoulli), against the output"""
    total, given, out = case["total"], case["given"], case["out_size"]
    B = len(total)
    tsh, gsh, gv = [B], [B], given
    via_dist = case.get("via") == "dist"
    if not via_dist and case.get("clayout") == "scalar" and len(set(given)) == 1:
        gsh, gv = [], given[:1]
    out_arg = None if (case.get("none_out") and out == max(total) and not via_dist) else out
    if res.get("exc") is None:
        rows = res["out"]
        if len(rows) != B or any(len(r) != len(rows[0]) for r in rows):
            return None
        impl = _impl(res, [B, len(rows[0])], [x for r in rows for x in r])
    else:
        impl = "None"
    us = cl([cl([cq(Fr(u, 64)) for u in row]) for row in case["us"]])
    return (f"SrcRun.src_srswor_check {_nats(tsh)} {_zs(total)} {_nats(gsh)} {_zs(gv)} "
            f"{co(cz(out_arg)) if out_arg is not None else 'None'} {us} {impl}")


def binom_term(case, res):
    lens, cnts = case["lens"], case["cnts"]
    n = len(lens)
    if res.get("exc") is None and len(res["out"]) != n:
        return None
    return f"SrcRun.src_binom_check {_nats([n])} {_zs(lens)} {_nats([n])} {_zs(cnts)} {_impl(res, [n], res.get('out') or [])}"


def imh_term(case, res):
    """bool: the marked blocks of IndependentMetropolisHastingsEstimator.__call__ (mh_init / mh_accept / mh_update / mh_final),
    interpreted and glued as the `for` loop glues them (SrcRunMc.mh_run), on the case's ratio / function tables, proposals and
    uniforms - same interface, inputs and tolerance as Model.imh_check"""
    import props.c19 as c19
    t = c19.imh_model_term(case, {"exc": res.get("exc"), "out": res.get("out")})
    if not t.startswith("imh_check "):
        return None
    return "SrcRunMc.src_imh_check " + t[len("imh_check "):]


def _eligible(case, res):
    if case.get("fam") == "est" and case.get("kind") == "imh" and isinstance(res, dict):
        if case.get("is_log"):
            return None              # the blocks are interpreted with is_log = False
        exc = res.get("exc")
        if exc is not None and not exc.startswith("RuntimeError: Unable to find initial sample"):
            return None
        return "imh"
    if case.get("fam") != "comb" or not isinstance(res, dict):
        return None
    exc = res.get("exc")
    if exc is not None and not exc.startswith("RuntimeError"):
        return None                  # an unexpected exception is reported by the ordinary correspondence
    if case["op"] == "srswor":
        if len(case["total"]) == 0 or len(case["total"]) != len(case["given"]):
            return None
        return "srswor"
    if case["op"] == "binom":
        if case.get("outer") or len(case["lens"]) != len(case["cnts"]) or len(case["lens"]) == 0:
            return None              # implicit broadcasting of a column against a row: outside OpsC19's same-shape operations
        if max(case["lens"] + [0]) > 66:
            return None              # int64 overflow is not modelled
        return "binom"
    return None


def source_tie(chk, cases, outs):
    """run the translated source inside Coq on the sampler / binomial cases of this run"""
    from vlib import CoqError
    idx, terms, kinds = [], [], []
    for i, (c, o) in enumerate(zip(cases, outs)):
        k = _eligible(c, o)
        if k is None:
            continue
        t = srswor_term(c, o) if k == "srswor" else binom_term(c, o) if k == "binom" else imh_term(c, o)
        if t is not None:
            idx.append(i)
            terms.append(t)
            kinds.append(k)
    chk.extra["source_tie"] = {
        "unit": "C19Src + C19McSrc", "functions": ["simple_random_sampling_without_replacement", "binomial_coefficient",
                                                   "IndependentMetropolisHastingsEstimator.__call__ (4 marked blocks)"],
        "theorems": SRC_THEOREMS}
    if not idx:
        chk.extra["source_tie_run"] = {"cases": 0, "disagreements": 0}
        return
    t0 = time.time()
    res, not_eval = [None] * len(terms), {}
    for tag, imports, sel in (("src", IMPORTS_SRC, [j for j, k in enumerate(kinds) if k != "imh"]),
                              ("srcmc", IMPORTS_SRC_MC, [j for j, k in enumerate(kinds) if k == "imh"])):
        if not sel:
            continue
        try:
            for j, ok in zip(sel, coq_eval_bools(chk.workdir, imports, [terms[j] for j in sel], shard=60, tag=tag)):
                res[j] = ok
        except CoqError as e:
            not_eval[tag] = str(e)[-400:]
    if not_eval and all(r is None for r in res):
        chk.extra["source_tie_run"] = "not evaluated: " + "; ".join(f"{k}: {v}" for k, v in not_eval.items())
        return
    keep = [j for j, r in enumerate(res) if r is not None]
    idx, terms, kinds, res = [idx[j] for j in keep], [terms[j] for j in keep], [kinds[j] for j in keep], [res[j] for j in keep]
    bad = [j for j, ok in enumerate(res) if not ok]
    sr = [i for i, k in zip(idx, kinds) if k == "srswor"]
    bi = [i for i, k in zip(idx, kinds) if k == "binom"]
    mh = [i for i, k in zip(idx, kinds) if k == "imh"]
    chk.extra["source_tie_run"] = {
        "cases": len(idx), "disagreements": len(bad), "wall_s": round(time.time() - t0, 1),
        "srswor": len(sr), "srswor_rows": sum(len(cases[i]["total"]) for i in sr),
        "srswor_raises": sum(1 for i in sr if outs[i].get("exc")),
        "srswor_scalar_given": sum(1 for i in sr if cases[i].get("clayout") == "scalar"),
        "srswor_out_size_none": sum(1 for i in sr if cases[i].get("none_out")),
        "binom": len(bi), "binom_table_branch": sum(1 for i in bi if max(cases[i]["lens"]) > 20),
        "binom_raises": sum(1 for i in bi if outs[i].get("exc")),
        "imh": len(mh), "imh_steps": sum(cases[i]["N"] for i in mh), "imh_given": sum(1 for i in mh if cases[i]["given"] is not None),
        "imh_same": sum(1 for i in mh if cases[i]["same"])}
    if not_eval:
        chk.extra["source_tie_run"]["not_evaluated"] = not_eval
    chk.count("source_tie_cases", len(idx))
    if bad:
        j = bad[0]
        i = idx[j]
        fn = {"srswor": "simple_random_sampling_without_replacement", "binom": "binomial_coefficient",
              "imh": "IndependentMetropolisHastingsEstimator.__call__ (blocks)"}[kinds[j]]
        chk.report({"case": cases[i], "impl": outs[i],
                    "what": f"the Python source of {fn} as translated to MiniPy and interpreted in Coq (PV.C19.SrcRun, torch "
                            "calls = PV.MiniTorch.OpsC19) does not reproduce the implementation's output: translator / "
                            "interpreter / ext19 / MiniTorch no longer describe the code",
                    "failed_term": terms[j][:1500], "disagreeing_cases": len(bad),
                    "correspondence": f"tie:C19:py2coq+MiniPy.Interp+MiniTorch:{fn}",
                    "theorems_at_stake": SRC_THEOREMS}, no_failing_input=True)
