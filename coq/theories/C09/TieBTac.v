(* C09, second tie — infrastructure of the symbolic runs of TieBMasked.v / TieBChunk.v: TieTac.v's statement-at-a-time
   tactics extended by the operations of PV.MiniTorch.OpsC09B (rewriting lemmas of LemmasC09B.v).  The [Arguments]
   settings are GLOBAL in this file, like TieTac.v's: import it only from the C09 tie files. *)
From Coq Require Import ZArith List String Bool Arith Lia ZifyBool ZifyNat.
From PV Require Import MiniPy.Syntax MiniPy.Interp MiniTorch.Ops MiniTorch.OpsC09 MiniTorch.LemmasC09 MiniTorch.OpsC09B
  MiniTorch.LemmasC09B Gen.C09Src Gen.C09BSrc.
From PV Require Import C09.SrcRun C09.SrcRunB C09.TieSrc C09.TieBSrc C09.TieTac.
From PV Require C09.Model.
Import ListNotations.
Local Open Scope string_scope.

#[global] Arguments chunk_body : simpl never.
#[global] Arguments masked_body : simpl never.
#[global] Arguments OpsC09B.neg : simpl never.
#[global] Arguments OpsC09B.masked_fill : simpl never.
#[global] Arguments OpsC09B.expand1 : simpl never.
#[global] Arguments OpsC09B.new_empty : simpl never.
#[global] Arguments OpsC09B.select_last2 : simpl never.
#[global] Arguments OpsC09B.band_bc : simpl never.
#[global] Arguments OpsC09B.sum1_bool : simpl never.
#[global] Arguments OpsC09B.transpose01 : simpl never.
#[global] Arguments OpsC09B.full_like : simpl never.
#[global] Arguments OpsC09B.tuple_repeat : simpl never.
#[global] Arguments countZ : simpl never.
#[global] Arguments clZ : simpl never.
#[global] Arguments lpZ : simpl never.
#[global] Arguments rpZ : simpl never.
#[global] Arguments stZ : simpl never.
#[global] Arguments enZ : simpl never.
#[global] Arguments slZ : simpl never.
#[global] Arguments offZ : simpl never.
#[global] Arguments rp2Z : simpl never.
#[global] Arguments clN : simpl never.
#[global] Arguments lpN : simpl never.
#[global] Arguments rpN : simpl never.
#[global] Arguments ZI : simpl never.
#[global] Arguments Z.min : simpl nomatch.
#[global] Arguments Z.opp : simpl nomatch.
#[global] Arguments Z.eqb : simpl nomatch.
#[global] Arguments Z.leb : simpl nomatch.

Lemma foreign_item_pair a b k : foreign_item (VTuple [a; b]) k = false.
Proof. destruct k; reflexivity. Qed.

Lemma binop_and_bb' t u st : binop_eval BitAnd (enc_b t) (enc_b u) st = Stuck "and". Proof. reflexivity. Qed.
Lemma binop_sub_ii' t u st : binop_eval Sub (enc_i t) (enc_i u) st = Stuck "sub". Proof. reflexivity. Qed.

Lemma subscript_enc_p_b t u st : subscript (enc_p t) (enc_b u) st = Stuck "subscript". Proof. reflexivity. Qed.
Lemma attribute_enc_b ext t a st : attribute ext (enc_b t) a st = ext ("$attr." ++ a) [enc_b t] [] st. Proof. reflexivity. Qed.
Lemma dec_any_slice a b c : dec_any (VTuple [VStr "$slice"; a; b; c]) = None.
Proof. destruct a; try reflexivity. destruct b; reflexivity. Qed.
Lemma dec_any_int z : dec_any (VInt z) = None. Proof. reflexivity. Qed.
Lemma val_eqb_enc_i_none t : val_eqb (enc_i t) VNone = false. Proof. reflexivity. Qed.
Lemma cmp_is_none_i t : cmp_eval Is (enc_i t) VNone = Some false. Proof. reflexivity. Qed.

Lemma tuple_repeat_1 {X} (l : list X) : tuple_repeat l 1 = l.
Proof. unfold tuple_repeat. cbn. apply app_nil_r. Qed.

Lemma as_sizes_nats3 a b c : as_sizes [VInt (Z.of_nat a); VInt (Z.of_nat b); VInt (Z.of_nat c)] = Some [a; b; c].
Proof. cbn [as_sizes]. now rewrite !as_size_nat. Qed.

(* -t on an encoded integer tensor: the interpreter's match on the value falls through to ext "$neg" *)
Ltac neg_step :=
  match goal with
  | |- context [match enc_i ?t with VInt _ => _ | _ => _ end] =>
      change (enc_i t) with (VTuple [VStr tag_long; VList (enc_shape (shp t)); VList (map VInt (dat t))]); cbv iota;
      fold (enc_i t)
  end.

Ltac rstepB :=
  match goal with
  | |- context [binop_eval Sub (enc_i _) (enc_i _) _] => rewrite binop_sub_ii'
  | |- context [subscript (enc_p _) (enc_b _) _] => rewrite subscript_enc_p_b
  | |- context [cmp_eval Is (enc_i _) VNone] => rewrite cmp_is_none_i
  | |- context [attribute _ (enc_b _) _ _] => rewrite attribute_enc_b
  | |- context [select_last2 _ (mkTn [?n; ?m] (tab2 ?n ?m _)) _] => rewrite select_last2_tab2 by lia
  | |- context [val_eqb (enc_i _) VNone] => rewrite val_eqb_enc_i_none
  | |- context [dec_any (VTuple [VStr "$slice"; _; _; _])] => rewrite dec_any_slice
  | |- context [dec_any (VInt _)] => rewrite dec_any_int
  | |- context [neg (mkTn _ (tab1 _ _))] => rewrite neg_tab1
  | |- context [clamp_min (mkTn _ (tab1 _ _)) _] => rewrite clamp_min_tab1
  | |- context [masked_fill (mkTn [?n] (tab1 ?n _)) (mkTn [?n] (tab1 ?n _)) _] => rewrite masked_fill_tab1
  | |- context [expand1 _ (full [1%nat] _) _] => rewrite expand1_full
  | |- context [band_bc (mkTn [?n; ?m; ?k] (tab3 ?n ?m ?k _)) (mkTn [?n; ?m; ?k] (tab3 ?n ?m ?k _))] => rewrite band_bc_same3
  | |- context [band_bc (mkTn [?n; ?m; ?k] (tab3 ?n ?m ?k _)) (mkTn [?n; 1%nat; 1%nat] (tab1 ?n _))] => rewrite band_bc_n11
  | |- context [band_bc (mkTn [?n; ?m] (tab2 ?n ?m _)) (mkTn [?n; ?m] (tab2 ?n ?m _))] => rewrite band_bc_same2
  | |- context [sum1_bool (mkTn [?n; ?m] (tab2 ?n ?m _))] => rewrite sum1_bool_tab2
  | |- context [transpose01 _ (mkTn [?a; ?b] (tab2 ?a ?b _))] => rewrite transpose01_tab2
  | |- context [transpose01 _ (mkTn [?a; ?b; ?c] (tab3 ?a ?b ?c _))] => rewrite transpose01_tab3
  | |- context [full_like (mkTn [_; _; _] _) _] => rewrite full_like_3
  | |- context [ew2 _ _ _ (mkTn [] [_]) (mkTn [] [_])] => rewrite ew2_scalar
  | |- context [view (mkTn [?n; ?m] _) [?n; ?m; 1%nat]] => rewrite view_nm1
  | |- context [tuple_repeat _ 1] => rewrite tuple_repeat_1
  | |- context [as_sizes [VInt (Z.of_nat _); VInt (Z.of_nat _); VInt (Z.of_nat _)]] => rewrite as_sizes_nats3
  | |- context [unsqueeze (mkTn [_; _] _) (-1)] => rewrite unsqueeze_2_m1
  end.

Ltac tstepB := tstepH; repeat (rstepB || neg_step).
Ltac goB := repeat (progress tstepB).
Ltac stmtB := open_seq; goB.
