(* C20 — Attention is a masked convex combination of values, blind to masked positions.
   Property theorems only: each is closed by [exact <lemma>] and followed by
   [Print Assumptions].  Conventions (r-coordinates, oracle functions) are in Model.v.

   Reading guide.  [attend expf sc q k v m p qs ks = Some out] says: the module with score
   function [sc] (any of the three flavours: [score tanhf fl]; in fact ANY function of the
   query row and the key row), sizes qs/ks and sequence axis at r-position p accepts the
   inputs and returns [out].  [expf] is the exponential inside softmax: the theorems need only
   that it is positive.  [ins (p-1) t j] is the index j of an output row extended by sequence
   position t; [kept_at m i] is the mask read under broadcasting (true without a mask);
   [bget]/[brow] read an element / a feature row under broadcasting. *)
From Coq Require Import List Arith Bool ZArith QArith Permutation Lia Lqa.
From PV Require Import C20.Model C20.Spec C20.Sums C20.Index C20.Proofs.
Import ListNotations.
Local Open Scope nat_scope.

(* normal form: "attention is a masked convex combination of values" - every output
   coordinate equals sum_{kept t} exp(score_t) value_t / sum_{kept t} exp(score_t) *)
Theorem c20_attention_is_masked_convex_combination :
  forall expf sc q k v m p qs ks out,
  attend expf sc q k v m p qs ks = Some out -> seq_agree k v p ->
  forall c j, valid (tshape out) (c :: j) ->
  (tat out (c :: j) ==
   masked_convex_combination (nth p (tshape k) 0%nat)
     (fun t => kept_at m (ins (p - 1) t j))
     (fun t => expf (e_at sc q k p (ins (p - 1) t j)))
     (fun t => bget v (c :: ins (p - 1) t j)))%Q.
Proof. exact attend_is_mcc. Qed.
Print Assumptions c20_attention_is_masked_convex_combination.

(* "each output coordinate lies between the smallest and largest kept value at that
   coordinate" (at least one position kept): any bounds lo, hi on the kept values bound the
   output *)
Theorem c20_attention_in_kept_range :
  forall expf sc q k v m p qs ks out,
  (forall x, (0 < expf x)%Q) ->
  attend expf sc q k v m p qs ks = Some out -> seq_agree k v p ->
  forall c j lo hi, valid (tshape out) (c :: j) ->
  (exists t, t < nth p (tshape k) 0 /\ kept_at m (ins (p - 1) t j) = true) ->
  (forall t, t < nth p (tshape k) 0 -> kept_at m (ins (p - 1) t j) = true ->
             (lo <= bget v (c :: ins (p - 1) t j) <= hi)%Q) ->
  (lo <= tat out (c :: j) <= hi)%Q.
Proof. exact attention_in_kept_range. Qed.
Print Assumptions c20_attention_in_kept_range.

(* "the output does not change when keys and values at masked positions are replaced by
   anything": k', v' agree with k, v wherever the (broadcast) mask keeps the position *)
Theorem c20_attention_blind_to_masked :
  forall expf sc q k v k' v' m p qs ks out out',
  attend expf sc q k v m p qs ks = Some out ->
  attend expf sc q k' v' m p qs ks = Some out' ->
  tshape k' = tshape k -> tshape v' = tshape v -> seq_agree k v p ->
  forall c j, valid (tshape out) (c :: j) ->
  (forall t, t < nth p (tshape k) 0 -> kept_at m (ins (p - 1) t j) = true ->
             brow k' (ins (p - 1) t j) = brow k (ins (p - 1) t j)
             /\ bget v' (c :: ins (p - 1) t j) = bget v (c :: ins (p - 1) t j)) ->
  (tat out' (c :: j) == tat out (c :: j))%Q.
Proof. exact attention_blind_to_masked. Qed.
Print Assumptions c20_attention_blind_to_masked.

(* "it does not change when the sequence positions are permuted consistently": key, value and
   mask of the second call are those of the first read through a permutation sigma of 0..T-1 *)
Theorem c20_attention_permutation_invariant :
  forall expf sc q k v m k' v' m' p qs ks out out' (sigma : nat -> nat),
  attend expf sc q k v m p qs ks = Some out ->
  attend expf sc q k' v' m' p qs ks = Some out' ->
  tshape k' = tshape k -> tshape v' = tshape v -> mask_shape m' = mask_shape m -> seq_agree k v p ->
  Permutation (map sigma (seq 0 (nth p (tshape k) 0))) (seq 0 (nth p (tshape k) 0)) ->
  forall c j, valid (tshape out) (c :: j) ->
  (forall t, t < nth p (tshape k) 0 ->
             brow k' (ins (p - 1) t j) = brow k (ins (p - 1) (sigma t) j)
             /\ bget v' (c :: ins (p - 1) t j) = bget v (c :: ins (p - 1) (sigma t) j)
             /\ kept_at m' (ins (p - 1) t j) = kept_at m (ins (p - 1) (sigma t) j)) ->
  (tat out' (c :: j) == tat out (c :: j))%Q.
Proof. exact attention_permutation_invariant. Qed.
Print Assumptions c20_attention_permutation_invariant.
