(* C18 — delta features of one time line: the composite FIR filters applied by one
   convolution equal the recursive regression formula on the edge-extended line. *)
From Coq Require Import List ZArith QArith Qabs Bool Arith Lia Permutation.
From PV Require Import C18.Model C18.Spec C18.QLemmas C18.ProofsPad.
Import ListNotations.
Local Open Scope Q_scope.

(* ------------------------------------------------------------------------------ *)
(* sums over integer ranges                                                       *)
(* ------------------------------------------------------------------------------ *)
Lemma zrange_length : forall lo n, length (zrange lo n) = n.
Proof. intros. unfold zrange. now rewrite map_length, seq_length. Qed.

Lemma in_zrange : forall lo n z, In z (zrange lo n) <-> (lo <= z < lo + Z.of_nat n)%Z.
Proof.
  intros lo n z. unfold zrange. rewrite in_map_iff. split.
  - intros [k [<- Hk]]. apply in_seq in Hk. lia.
  - intros H. exists (Z.to_nat (z - lo)). split; [lia|]. apply in_seq. lia.
Qed.

Lemma seq_shift_add : forall a s b, map (fun k => (a + k)%nat) (seq s b) = seq (a + s) b.
Proof.
  intros a s b. revert s. induction b as [|b IH]; intros s; [reflexivity|].
  cbn [seq map]. f_equal. rewrite IH. f_equal. lia.
Qed.

Lemma zrange_app : forall lo a b, zrange lo (a + b) = zrange lo a ++ zrange (lo + Z.of_nat a) b.
Proof.
  intros lo a b. unfold zrange. rewrite seq_app, map_app. f_equal.
  cbn [Nat.add]. rewrite <- (Nat.add_0_r a) at 1. rewrite <- seq_shift_add, map_map.
  apply map_ext. intros k. lia.
Qed.

Lemma zrange_shift : forall {A} (g : Z -> A) lo n d,
  map (fun j => g (j - d)%Z) (zrange lo n) = map g (zrange (lo - d) n).
Proof.
  intros A g lo n d. unfold zrange. rewrite !map_map. apply map_ext. intros k. f_equal. lia.
Qed.

Lemma NoDup_zrange : forall lo n, NoDup (zrange lo n).
Proof.
  intros lo n. unfold zrange. apply FinFun.Injective_map_NoDup; [|apply seq_NoDup].
  intros a b H. lia.
Qed.

(* restricting a sum to a sub-range that carries the whole support *)
Lemma Qsum_zrange_restrict : forall (a : Z -> Q) lo n al k,
  (lo <= al)%Z -> (al + Z.of_nat k <= lo + Z.of_nat n)%Z ->
  (forall j, (lo <= j < lo + Z.of_nat n)%Z -> ~ (al <= j < al + Z.of_nat k)%Z -> a j == 0) ->
  Qsum (map a (zrange lo n)) == Qsum (map a (zrange al k)).
Proof.
  intros a lo n al k H1 H2 Hz.
  set (n1 := Z.to_nat (al - lo)). set (n3 := Z.to_nat (lo + Z.of_nat n - (al + Z.of_nat k))).
  replace n with (n1 + (k + n3))%nat by lia.
  rewrite !zrange_app, !map_app, !Qsum_app.
  replace (lo + Z.of_nat n1)%Z with al by lia.
  rewrite (Qsum_map_zero a (zrange lo n1)).
  - rewrite (Qsum_map_zero a (zrange (al + Z.of_nat k) n3)); [ring|].
    intros j Hj. apply in_zrange in Hj. apply Hz; lia.
  - intros j Hj. apply in_zrange in Hj. apply Hz; lia.
Qed.

Lemma window_in : forall w m, In m (window w) <-> (- Z.of_nat w <= m <= Z.of_nat w)%Z.
Proof. intros w m. unfold window. rewrite in_zrange. lia. Qed.

(* the window is symmetric *)
Lemma Qsum_window_flip : forall w (h : Z -> Q),
  Qsum (map h (window w)) == Qsum (map (fun m => h (- m)%Z) (window w)).
Proof.
  intros w h. rewrite <- (map_map Z.opp h). apply Qsum_perm, Permutation_map.
  apply NoDup_Permutation.
  - apply NoDup_zrange.
  - apply FinFun.Injective_map_NoDup; [|apply NoDup_zrange]. intros a b H. lia.
  - intros m. rewrite in_map_iff, window_in. split.
    + intros H. exists (- m)%Z. split; [lia|]. apply window_in. lia.
    + intros [m' [<- H]]. apply window_in in H. lia.
Qed.

(* ------------------------------------------------------------------------------ *)
(* conv1d, the regression kernel, one filter-building step                          *)
(* ------------------------------------------------------------------------------ *)
Lemma length_conv1d : forall x f, length (conv1d x f) = (length x + 1 - length f)%nat.
Proof. intros. unfold conv1d. now rewrite map_length, seq_length. Qed.

Lemma nth_conv1d : forall x f t, (t < length x + 1 - length f)%nat ->
  nth t (conv1d x f) 0 = qsum (map (fun j => nth (t + j) x 0 * nth j f 0) (seq 0 (length f))).
Proof. intros x f t H. unfold conv1d. now rewrite nth_map_seq. Qed.

Lemma length_delta_kernel : forall w, length (delta_kernel w) = (2 * w + 1)%nat.
Proof. intros. unfold delta_kernel. now rewrite !map_length, seq_length. Qed.

Lemma kernel_norm : forall w,
  qsum (map qsq (map (fun k => inject_Z (Z.of_nat w - Z.of_nat k)) (seq 0 (2 * w + 1)))) == sumsq_w w.
Proof.
  intros w. rewrite qsum_Qsum. unfold sumsq_w, window, zrange. rewrite !map_map.
  apply Qsum_map_ext. intros k. unfold qsq. rewrite <- inject_Z_mult.
  replace ((Z.of_nat w - Z.of_nat k) * (Z.of_nat w - Z.of_nat k))%Z
    with ((- Z.of_nat w + Z.of_nat k) * (- Z.of_nat w + Z.of_nat k))%Z by ring.
  reflexivity.
Qed.

Lemma nth_delta_kernel : forall w k, (k < 2 * w + 1)%nat ->
  nth k (delta_kernel w) 0 == inject_Z (Z.of_nat w - Z.of_nat k) / sumsq_w w.
Proof.
  intros w k H. unfold delta_kernel.
  rewrite (nth_map_gen _ _ k 0 0) by now rewrite map_length, seq_length.
  rewrite nth_map_seq by assumption. rewrite kernel_norm. reflexivity.
Qed.

Lemma nthZ_outside : forall l j, (j < 0 \/ Z.of_nat (length l) <= j)%Z -> nthZ l j = 0.
Proof.
  intros l j H. unfold nthZ. destruct (Z.ltb_spec j 0); [reflexivity|].
  apply nth_overflow. lia.
Qed.

Lemma nth_zero_padded : forall w l i,
  nth i (repeat 0 w ++ l ++ repeat 0 w) 0 = nthZ l (Z.of_nat i - Z.of_nat w).
Proof.
  intros w l i. rewrite nth_app3, repeat_length.
  destruct (Nat.ltb_spec i w); [|destruct (Nat.ltb_spec i (w + length l))].
  - rewrite nth_repeat0. symmetry. apply nthZ_outside. lia.
  - symmetry. apply nthZ_eq. lia.
  - rewrite nth_repeat0. symmetry. apply nthZ_outside. lia.
Qed.

Definition step (w : nat) (l : list Q) : list Q :=
  conv1d (repeat 0 w ++ l ++ repeat 0 w) (delta_kernel w).

Lemma length_step : forall w l, length (step w l) = length l.
Proof.
  intros. unfold step. rewrite length_conv1d, !app_length, !repeat_length, length_delta_kernel. lia.
Qed.

Lemma nth_step : forall w l j, (j < length l)%nat ->
  nth j (step w l) 0 ==
  Qsum (map (fun m => nthZ l (Z.of_nat j + m) * (inject_Z (- m) / sumsq_w w)) (window w)).
Proof.
  intros w l j Hj. unfold step.
  rewrite nth_conv1d by (rewrite !app_length, !repeat_length, length_delta_kernel; lia).
  rewrite qsum_Qsum, length_delta_kernel. unfold window, zrange. rewrite map_map.
  apply Qsum_map_ext_in. intros k Hk. apply in_seq in Hk.
  rewrite nth_zero_padded, nth_delta_kernel by lia.
  replace (Z.of_nat (j + k) - Z.of_nat w)%Z with (Z.of_nat j + (- Z.of_nat w + Z.of_nat k))%Z by lia.
  replace (- (- Z.of_nat w + Z.of_nat k))%Z with (Z.of_nat w - Z.of_nat k)%Z by lia.
  reflexivity.
Qed.

Fixpoint iter (w u : nat) (f0 : list Q) : list Q :=
  match u with O => f0 | S u' => step w (iter w u' f0) end.

Lemma iter_step_comm : forall w u f0, iter w u (step w f0) = step w (iter w u f0).
Proof. induction u as [|u IH]; intros f0; cbn [iter]; [reflexivity|]. now rewrite IH. Qed.

Lemma filter_stack_nth : forall w n last u, (u <= n)%nat ->
  nth u (last :: filter_stack n w (delta_kernel w) last) [] = iter w u last.
Proof.
  intros w n. induction n as [|n IH]; intros last u Hu.
  - assert (u = 0)%nat by lia. subst. reflexivity.
  - destruct u as [|u]; [reflexivity|].
    change (nth (S u) (last :: filter_stack (S n) w (delta_kernel w) last) [])
      with (nth u (step w last :: filter_stack n w (delta_kernel w) (step w last)) []).
    rewrite (IH (step w last) u) by lia. cbn [iter]. apply iter_step_comm.
Qed.

Lemma length_delta_filters : forall o w, length (delta_filters o w) = S o.
Proof.
  intros o w. unfold delta_filters. cbn [length]. f_equal.
  generalize (onehot (1 + 2 * w * o) (w * o)). generalize (delta_kernel w).
  induction o as [|n IH]; intros K l; cbn [filter_stack length]; [reflexivity|]. now rewrite IH.
Qed.

(* ------------------------------------------------------------------------------ *)
(* the filters                                                                    *)
(* ------------------------------------------------------------------------------ *)
Section Filters.
  Variables w o : nat.
  Let c := (w * o)%nat.
  Let L := (1 + 2 * w * o)%nat.

  Definition filt (u : nat) : list Q := iter w u (onehot L c).
  Definition phi (u : nat) (j : Z) : Q := nthZ (filt u) j.

  Lemma length_filt : forall u, length (filt u) = L.
  Proof.
    unfold filt. induction u as [|u IH]; cbn [iter].
    - unfold onehot. now rewrite map_length, seq_length.
    - now rewrite length_step.
  Qed.

  Lemma delta_filters_nth : forall u, (u <= o)%nat -> nth u (delta_filters o w) [] = filt u.
  Proof. intros u Hu. unfold delta_filters. now apply filter_stack_nth. Qed.

  Lemma phi_outside : forall u j, (j < 0 \/ Z.of_nat L <= j)%Z -> phi u j = 0.
  Proof. intros u j H. unfold phi. apply nthZ_outside. now rewrite length_filt. Qed.

  Lemma phi0 : forall j, phi 0 j = if (j =? Z.of_nat c)%Z then 1 else 0.
  Proof.
    intros j. destruct (Z.ltb_spec j 0) as [H|H]; [|destruct (Z.leb_spec (Z.of_nat L) j) as [H'|H']].
    - rewrite phi_outside by lia. destruct (Z.eqb_spec j (Z.of_nat c)); [lia|reflexivity].
    - rewrite phi_outside by lia. destruct (Z.eqb_spec j (Z.of_nat c)); [unfold c, L in *; lia|reflexivity].
    - unfold phi, filt. cbn [iter]. rewrite (nthZ_eq _ j (Z.to_nat j)) by lia.
      unfold onehot. rewrite nth_map_seq by lia.
      destruct (Nat.eqb_spec (Z.to_nat j) c); destruct (Z.eqb_spec j (Z.of_nat c)); try lia; reflexivity.
  Qed.

  Lemma phi_step : forall u j, (0 <= j < Z.of_nat L)%Z ->
    phi (S u) j == Qsum (map (fun m => phi u (j + m) * (inject_Z (- m) / sumsq_w w)) (window w)).
  Proof.
    intros u j Hj. unfold phi, filt. cbn [iter]. fold (filt u).
    rewrite (nthZ_eq _ j (Z.to_nat j)) by lia.
    rewrite nth_step by (rewrite length_filt; lia).
    rewrite Z2Nat.id by lia. reflexivity.
  Qed.

  (* the u-th filter lives within w*u taps of the centre *)
  Lemma phi_support : forall u j, (u <= o)%nat ->
    (j < Z.of_nat c - Z.of_nat (w * u) \/ Z.of_nat c + Z.of_nat (w * u) < j)%Z -> phi u j == 0.
  Proof.
    induction u as [|u IH]; intros j Hu Hj.
    - rewrite phi0. destruct (Z.eqb_spec j (Z.of_nat c)); [lia|reflexivity].
    - destruct (Z.ltb_spec j 0) as [H|H]; [rewrite phi_outside by lia; reflexivity|].
      destruct (Z.leb_spec (Z.of_nat L) j) as [H'|H']; [rewrite phi_outside by lia; reflexivity|].
      rewrite phi_step by lia. apply Qsum_map_zero. intros m Hm. apply window_in in Hm.
      rewrite IH; [ring|lia|nia].
  Qed.

  (* the single convolution with the u-th filter, at position s of the extended line f *)
  Definition G (u : nat) (f : Z -> Q) (s : Z) : Q :=
    Qsum (map (fun j => f (s - Z.of_nat c + j)%Z * phi u j) (zrange 0 L)).

  Lemma G0 : forall f s, G 0 f s == f s.
  Proof.
    intros f s. unfold G.
    rewrite (Qsum_zrange_restrict _ 0 L (Z.of_nat c) 1); try (unfold c, L; lia).
    - cbn [zrange seq map]. rewrite Qsum_cons, Qsum_nil, phi0.
      replace (Z.of_nat c + Z.of_nat 0)%Z with (Z.of_nat c) by lia. rewrite Z.eqb_refl.
      replace (s - Z.of_nat c + Z.of_nat c)%Z with s by lia. ring.
    - intros j _ Hn. rewrite phi0. destruct (Z.eqb_spec j (Z.of_nat c)); [lia|ring].
  Qed.

  Lemma G_step : forall u f s, (S u <= o)%nat ->
    G (S u) f s == Qsum (map (fun m => G u f (s + m) * (inject_Z m / sumsq_w w)) (window w)).
  Proof.
    intros u f s Hu. unfold G at 1.
    (* expand the (u+1)-th filter *)
    rewrite (Qsum_map_ext_in _
      (fun j => Qsum (map (fun m => f (s - Z.of_nat c + j)%Z * phi u (j - m) * (inject_Z m / sumsq_w w)) (window w)))).
    2:{ intros j Hj. apply in_zrange in Hj. rewrite phi_step by lia.
        rewrite (Qsum_window_flip w (fun m => phi u (j + m) * (inject_Z (- m) / sumsq_w w))).
        cbv beta. rewrite Qmult_comm, <- Qsum_map_scal. apply Qsum_map_ext. intros m.
        replace (- - m)%Z with m by lia. replace (j + - m)%Z with (j - m)%Z by lia. ring. }
    rewrite (Qsum_swap (fun j m => f (s - Z.of_nat c + j)%Z * phi u (j - m) * (inject_Z m / sumsq_w w))).
    apply Qsum_map_ext_in. intros m Hm. apply window_in in Hm. cbv beta.
    rewrite (Qsum_map_scal (fun j => f (s - Z.of_nat c + j)%Z * phi u (j - m))). apply Qmult_comp; [|reflexivity].
    (* both sums are the sum of a(j') = f(s - c + j' + m) * phi u j' over the support of phi u *)
    set (a := fun j' => f (s - Z.of_nat c + j' + m)%Z * phi u j').
    assert (Hsupp : forall j', ~ (Z.of_nat w <= j' < Z.of_nat w + Z.of_nat (L - 2 * w))%Z -> a j' == 0).
    { intros j' Hn. unfold a. rewrite phi_support; [ring|lia|]. unfold c, L in *. nia. }
    transitivity (Qsum (map a (zrange (Z.of_nat w) (L - 2 * w)))).
    - rewrite (map_ext _ (fun j => a (j - m)%Z)).
      2:{ intros j. unfold a. f_equal. f_equal. lia. }
      rewrite (zrange_shift a 0 L m).
      apply Qsum_zrange_restrict; try (unfold c, L in *; nia). intros j' _ Hn. now apply Hsupp.
    - symmetry. unfold G.
      rewrite (map_ext _ a).
      2:{ intros j. unfold a. f_equal. f_equal. lia. }
      apply Qsum_zrange_restrict; try (unfold c, L in *; nia). intros j' _ Hn. now apply Hsupp.
  Qed.

  (* convolution with the composite filter = the recursive regression formula *)
  Lemma G_regress : forall u f s, (u <= o)%nat -> G u f s == regress w u f s.
  Proof.
    induction u as [|u IH]; intros f s Hu.
    - apply G0.
    - rewrite G_step by assumption. cbn [regress].
      apply Qsum_map_ext. intros m. rewrite IH by lia. reflexivity.
  Qed.
End Filters.

(* ------------------------------------------------------------------------------ *)
(* deltas of one time line                                                        *)
(* ------------------------------------------------------------------------------ *)
Lemma length_delta_line : forall m v o w x, length (delta_line m v o w x) = S o.
Proof. intros. unfold delta_line. now rewrite map_length, length_delta_filters. Qed.

Lemma delta_line_nth : forall m v o w x u, (u <= o)%nat ->
  nth u (delta_line m v o w x) [] = conv1d (pad m v (w * o) x) (filt w o u).
Proof.
  intros m v o w x u Hu. unfold delta_line.
  rewrite (nth_map_gen _ _ u [] []) by (rewrite length_delta_filters; lia).
  now rewrite delta_filters_nth.
Qed.

Lemma length_delta_line_nth : forall m v o w x u, (u <= o)%nat ->
  pad_ok m (w * o) (length x) = true ->
  length (nth u (delta_line m v o w x) []) = length x.
Proof.
  intros m v o w x u Hu Hok. rewrite delta_line_nth by assumption.
  rewrite length_conv1d, length_pad, length_filt by assumption. lia.
Qed.

Lemma delta_line_eq_regression : forall m v o w x u t,
  (1 <= length x)%nat -> pad_ok m (w * o) (length x) = true -> (u <= o)%nat -> (t < length x)%nat ->
  nth t (nth u (delta_line m v o w x) []) 0 == regress w u (ext m v x) (Z.of_nat t).
Proof.
  intros m v o w x u t HT Hok Hu Ht.
  rewrite delta_line_nth by assumption.
  rewrite nth_conv1d by (rewrite length_pad, length_filt by assumption; lia).
  rewrite qsum_Qsum, length_filt.
  rewrite <- (G_regress w o u (ext m v x) (Z.of_nat t) Hu).
  unfold G, zrange. rewrite map_map.
  apply Qsum_map_ext_in. intros k Hk. apply in_seq in Hk.
  rewrite pad_spec by (try assumption; lia).
  replace (Z.of_nat (t + k) - Z.of_nat (w * o))%Z with (Z.of_nat t - Z.of_nat (w * o) + (0 + Z.of_nat k))%Z by lia.
  unfold phi. rewrite (nthZ_eq _ (0 + Z.of_nat k)%Z k) by lia. reflexivity.
Qed.
