(* C05 - the specification reads as the textbook definitions: [aligns] enumerates every label
   sequence exactly once, the prefix an alignment is read to is its collapse (merge repeats, drop
   blanks), and without a language model its weight is the product of the frame probabilities. *)
From Coq Require Import List Arith Bool QArith Qcanon Lia FinFun.
From PV Require Import C05.Model C05.Spec C05.ProofsNum C05.ProofsSpec.
Import ListNotations.
Local Open Scope nat_scope.

Lemma aligns_complete : forall V n a,
  In a (aligns V n) <-> length a = n /\ Forall (fun c => c <= V) a.
Proof.
  intros V n a. split; [intros H; split; [eapply aligns_length|eapply aligns_labels]; eauto|].
  revert a. induction n; intros a [HL HF].
  - destruct a; [left; reflexivity|discriminate].
  - destruct (exists_last (l := a)) as (a' & c & ->); [destruct a; discriminate|].
    rewrite app_length in HL. cbn in HL. apply Forall_app in HF. destruct HF as [F1 F2]. inversion F2; subst.
    cbn [aligns]. apply in_flat_map. exists a'. split; [apply IHn; split; auto; lia|].
    apply in_map_iff. exists c. split; auto. apply in_seq. lia.
Qed.

Lemma NoDup_app_intro : forall {A} (l m : list A), NoDup l -> NoDup m ->
  (forall x, In x l -> ~ In x m) -> NoDup (l ++ m).
Proof.
  induction l; intros m Hl Hm D; cbn [app]; auto. inversion Hl; subst. constructor.
  - rewrite in_app_iff. intros [H|H]; auto. apply (D a); auto with datatypes.
  - apply IHl; auto. intros; apply D; auto with datatypes.
Qed.

Lemma aligns_nodup : forall V n, NoDup (aligns V n).
Proof.
  induction n; cbn [aligns]; [repeat constructor; auto|].
  induction IHn as [|a l NI ND IH]; cbn [flat_map]; [constructor|].
  apply NoDup_app_intro; auto.
  - apply Injective_map_NoDup; [|apply seq_NoDup].
    intros x y H. apply snoc_inj in H. tauto.
  - intros x Hx Hx'. apply in_map_iff in Hx. destruct Hx as (c & <- & _).
    apply in_flat_map in Hx'. destruct Hx' as (a' & Ha' & Hx'). apply in_map_iff in Hx'.
    destruct Hx' as (c' & E & _). apply snoc_inj in E. destruct E as [-> _]. auto.
Qed.

(* the label before position |a| *)
Definition last_lab (prev : option nat) (a : list nat) : option nat :=
  match a with [] => prev | _ => Some (last a 0) end.

Lemma dedupe_snoc : forall a prev c,
  dedupe prev (a ++ [c]) = dedupe prev a ++ (if opt_is (last_lab prev a) c then [] else [c]).
Proof.
  induction a as [|x a]; intros prev c.
  - cbn. destruct (opt_is prev c); reflexivity.
  - cbn [app dedupe]. rewrite IHa.
    assert (E : last_lab (Some x) a = last_lab prev (x :: a)).
    { destruct a; reflexivity. }
    rewrite E. destruct (opt_is prev x); reflexivity.
Qed.

Lemma last_lab_snoc : forall prev a c, last_lab prev (a ++ [c]) = Some c.
Proof. intros. unfold last_lab. destruct (a ++ [c]) eqn:E; [destruct a; discriminate|]. rewrite <- E, last_snoc. auto. Qed.

Lemma arun_last : forall V frames E a, a_last (arun V frames E a) = last_lab None a.
Proof.
  intros V frames E a. induction a using rev_ind; [reflexivity|].
  rewrite arun_snoc, last_lab_snoc. unfold astep.
  destruct (Nat.eqb x V); [|destruct (opt_is _ _)]; reflexivity.
Qed.

(* the prefix an alignment is read to is the textbook collapse *)
Lemma arun_collapse : forall V frames E a, a_pre (arun V frames E a) = collapse V a.
Proof.
  intros V frames E a. unfold collapse. induction a using rev_ind; [reflexivity|].
  rewrite arun_snoc, dedupe_snoc, filter_app, <- IHa, <- (arun_last V frames E a).
  unfold astep. destruct (Nat.eqb x V) eqn:EV; cbn [a_pre].
  - destruct (opt_is _ _); cbn [filter]; rewrite ?EV; cbn; rewrite app_nil_r; reflexivity.
  - destruct (opt_is (a_last (arun V frames E a)) x); cbn [a_pre filter].
    + rewrite app_nil_r. reflexivity.
    + rewrite EV. reflexivity.
Qed.

(* without a language model the weight is the product of the frame probabilities *)
Lemma plain_weight : forall V frames a, length a = length frames ->
  a_w (arun V frames (plain_score frames) a) = path_prob V frames a.
Proof.
  intros V frames a HL.
  assert (G : forall a st, a_t st + length a <= length frames ->
            a_w (fold_left (astep V frames (plain_score frames)) a st)
            = (a_w st * path_prob V (skipn (a_t st) frames) a)%Qc).
  { clear a HL. induction a as [|c a]; intros st Hl.
    - cbn [fold_left]. destruct (skipn (a_t st) frames); cbn [path_prob]; ring.
    - cbn [fold_left length] in *. rewrite IHa by (rewrite astep_t; lia). rewrite astep_t.
      assert (SK : skipn (a_t st) frames = nth (a_t st) frames ([], 0%Qc) :: skipn (S (a_t st)) frames).
      { assert (LT : a_t st < length frames) by lia. clear -LT. revert LT. generalize (a_t st) as t.
        induction frames; intros t LT; cbn in LT; [lia|]. destruct t; [reflexivity|]. cbn. apply IHframes. lia. }
      rewrite SK. cbn [path_prob]. unfold astep, plain_score.
      destruct (Nat.eqb c V); [|destruct (opt_is _ _)]; cbn [a_w]; ring. }
  unfold arun. rewrite G by (cbn; lia). cbn. ring.
Qed.

Lemma nolm_plain : forall lm (L : list sframe), fused_score NoLM lm L = plain_score L.
Proof. reflexivity. Qed.

(* [ctc_mass] without a language model is the textbook quantity: the sum, over every label
   sequence with one label per frame, of the product of the frame probabilities of those whose
   collapse is the prefix *)
Lemma ctc_mass_textbook : forall V frames p,
  ctc_mass V frames (plain_score frames) p
  = qsum (map (fun a => if list_nat_eqb (collapse V a) p then path_prob V frames a else 0%Qc)
              (aligns V (length frames))).
Proof.
  intros. unfold ctc_mass, mass_in, runs. rewrite map_map. apply qsum_map_ext. intros a Ha.
  rewrite arun_collapse, plain_weight; auto. apply (aligns_length _ _ _ Ha).
Qed.
