(* C18, second tie — the executable forms used by the harness (SrcRunB.src_accumulate / src_store / src_run_ops /
   src_ops_check) against the model, and statements purely about the interpreted source obtained by composing the
   tie with the model theorems.  No symbolic execution here: everything follows from TieB.v / TieBStore.v. *)
From Coq Require Import ZArith QArith List String Bool Arith Lia.
From PV Require Import MiniPy.Syntax MiniPy.Interp MiniTorch.Value Gen.C18BSrc.
From PV Require Import C18.SrcRun MiniTorch.OpsC18B MiniTorch.LemmasC18B C18.SrcRunB.
From PV Require Import C18.Model C18.Spec C18.QLemmas C18.Tensor C18.ProofsMvn C18.TieB C18.TieBStore.
Import ListNotations.
Local Open Scope string_scope.

(* ---- well-formed statistics are what accumulate produces ------------------------------------------------------ *)
Definition ostats_wf (o : option stats) : Prop := match o with None => True | Some s => stats_wf s end.

Lemma iadd_length : forall a b l, Model.iadd a b = Ok l -> List.length l = List.length a.
Proof.
  intros a b l H. unfold Model.iadd in H. destruct (Nat.eqb_spec (List.length a) (List.length b)) as [E|E].
  - injection H as <-. now apply length_zipw.
  - destruct b as [|v [|w b]]; try discriminate. injection H as <-. apply map_length.
Qed.

Lemma accumulate_wf : forall dim st x s', ostats_wf st -> accumulate dim st x = Ok s' -> stats_wf s'.
Proof.
  intros dim st x s' Hwf H. unfold accumulate in H.
  destruct (norm_dim (List.length (shape x)) dim) as [d|]; [|discriminate].
  match type of H with Model.bind (Model.iadd ?a ?b) _ = _ => destruct (Model.iadd a b) as [s1|] eqn:E1; [|discriminate] end.
  cbn [Model.bind] in H.
  match type of H with Model.bind (Model.iadd ?a ?b) _ = _ => destruct (Model.iadd a b) as [s2|] eqn:E2; [|discriminate] end.
  cbn [Model.bind] in H. injection H as <-. unfold stats_wf. cbn [ssum ssq].
  rewrite (iadd_length _ _ _ E1), (iadd_length _ _ _ E2).
  destruct st as [s|]; cbn [ssum ssq]; [exact Hwf|now rewrite !repeat_length].
Qed.

(* ---- decoding the module object ------------------------------------------------------------------------------------ *)
Lemma dec_opt_vec_enc : forall o, dec_opt_vec (opt_vec o) = Some o.
Proof.
  intros [l|]; [|reflexivity]. unfold opt_vec, vec.
  assert (H : dec_vec (enc_tensor (mkT [List.length l] l)) = Some l) by apply dec_vec_enc.
  unfold dec_opt_vec. rewrite H. reflexivity.
Qed.

Lemma dec_stats_enc : forall o, dec_stats (count_val o) (sum_val o) (sumsq_val o) = Some o.
Proof.
  intros [[c s q]|]; [|reflexivity]. unfold count_val, sum_val, sumsq_val, opt_vec, vec. cbn [option_map cnt ssum ssq].
  assert (Hc : dec_count (enc_tensor (mkT [1%nat] [c])) = Some c) by apply dec_count_enc.
  assert (Hs : dec_vec (enc_tensor (mkT [List.length s] s)) = Some s) by apply dec_vec_enc.
  assert (Hq : dec_vec (enc_tensor (mkT [List.length q] q)) = Some q) by apply dec_vec_enc.
  unfold dec_stats. rewrite Hc, Hs, Hq. reflexivity.
Qed.

Lemma dec_self_val : forall m, dec_self (self_val m) = Some m.
Proof.
  intros [dim eps mean std st]. unfold self_val, dec_self. cbn [m_dim m_eps m_mean m_std m_stats].
  rewrite !dec_opt_vec_enc, dec_stats_enc. reflexivity.
Qed.

(* ---- store: the executable form ------------------------------------------------------------------------------------ *)
(* what Model.store says about a module: the recorded result (self.std is [map sq variance]) and the new module *)
Definition store_model (sq : Q -> Q) (m : mstate) (del bessel : bool) : result (list Q * list Q) * mstate :=
  match Model.store (m_stats m) bessel with
  | Ok (mean, var) =>
      (Ok (mean, map sq var),
       mkM (m_dim m) (m_eps m) (Some mean) (Some (map sq var)) (if del then None else m_stats m))
  | Err e => (Err e, m)
  end.

Theorem src_store_is_model : forall sq m del bessel,
  ostats_wf (m_stats m) -> src_store sq m del bessel = Some (store_model sq m del bessel).
Proof.
  intros sq [dim eps mean0 std0 st] del bessel Hwf. unfold src_store, store_model. cbn [m_dim m_eps m_stats] in *.
  destruct st as [s|].
  - destruct (Model.store (Some s) bessel) as [[mean var]|e] eqn:E.
    + destruct (store_ok sq dim eps mean0 std0 s del bessel mean var Hwf E) as [fin [-> ->]].
      cbn [option_map]. rewrite dec_self_val. reflexivity.
    + assert (Hc : Qle_bool 2 (cnt s) = false /\ e = ERuntime).
      { unfold Model.store in E. destruct (Qle_bool 2 (cnt s)); [discriminate|]. injection E as <-. auto. }
      destruct Hc as [Hc ->].
      destruct (store_few sq dim eps mean0 std0 s del bessel Hc) as [fin [-> ->]].
      cbn [option_map]. rewrite dec_self_val. reflexivity.
  - rewrite store_none. cbn [Model.store vars store_vars lookup String.eqb Ascii.eqb Bool.eqb option_map].
    rewrite dec_self_val. reflexivity.
Qed.

(* ---- histories ------------------------------------------------------------------------------------------------------ *)
Lemma map_id_sq : forall l : list Q, map (fun v : Q => v) l = l.
Proof. induction l as [|a l IH]; [reflexivity|]. cbn [map]. now rewrite IH. Qed.

(* _partial (accumulate's glue): every history of the module in which no accumulate raises - stores may fail - run
   through the INTERPRETED source (sqrt oracle = identity, so that self.std holds the variance) gives exactly the
   store results and final accumulators of Model.run_ops *)
Theorem src_run_ops_is_model_partial : forall ops m outs stores final,
  ostats_wf (m_stats m) ->
  run_ops (m_dim m) (m_stats m) ops outs = (stores, Ok final) ->
  src_run_ops (fun v => v) m ops outs = Some (stores, Ok final).
Proof.
  induction ops as [|[x|del b] ops IH]; intros m outs stores final Hwf H; cbn [run_ops src_run_ops] in *.
  - injection H as <- <-. reflexivity.
  - destruct (accumulate (m_dim m) (m_stats m) x) as [s|e] eqn:E; [|discriminate].
    rewrite (src_accumulate_ok_partial _ m x s E).
    apply IH; cbn [set_stats m_dim m_stats]; [exact (accumulate_wf _ _ _ _ Hwf E)|exact H].
  - rewrite (src_store_is_model _ m del b Hwf). unfold store_model.
    destruct (Model.store (m_stats m) b) as [[mean var]|e] eqn:E.
    + rewrite map_id_sq. apply IH; cbn [m_dim m_stats].
      * destruct del; [exact I|exact Hwf].
      * exact H.
    + apply IH; [exact Hwf|exact H].
Qed.

(* the harness's check on such histories IS the model's check *)
Theorem src_ops_check_is_check_partial : forall dim ops tol tola impl_stores impl_final stores final,
  run_ops dim None ops [] = (stores, Ok final) ->
  src_ops_check dim ops tol tola impl_stores impl_final = check_ops dim ops tol tola impl_stores impl_final.
Proof.
  intros dim ops tol tola is_ if_ stores final H. unfold src_ops_check, check_ops.
  rewrite (src_run_ops_is_model_partial ops (fresh_module dim) [] stores final I H), H. reflexivity.
Qed.

(* ---- composed with the model theorems: statements about the interpreted source ------------------------------------- *)
(* accumulate any non-empty list of tensors (any shapes that agree on the X coefficients along dim), then store: the
   interpreted source leaves in self.mean the pooled population mean of every coefficient and in self.std the oracle's
   root of its (biased or Bessel-corrected) pooled variance *)
Theorem source_acc_store_pooled_partial : forall sq dim X xs (del b : bool),
  xs <> [] -> uniform dim X xs -> (2 <= frames dim xs)%nat ->
  exists s mean var,
    src_run_ops (fun v => v) (fresh_module dim) (map OpAcc xs) [] = Some ([], Ok (Some s)) /\
    src_store sq (mkM dim 0 None None (Some s)) del b
      = Some (Ok (mean, map sq var), mkM dim 0 (Some mean) (Some (map sq var)) (if del then None else Some s)) /\
    List.length mean = X /\ List.length var = X /\
    forall i, (i < X)%nat ->
      (nth i mean 0 == pop_mean (pooled dim xs i))%Q /\ (nth i var 0 == pop_var b (pooled dim xs i))%Q.
Proof.
  intros sq dim X xs del b Hne Hu Hf.
  destruct (store_is_pooled_mean_var dim X xs b Hne Hu Hf) as [mean [var [Hst [Hm [Hv Hi]]]]].
  destruct (accumulate_all dim None xs) as [[s|]|e] eqn:Ea; cbn [Model.bind] in Hst; try discriminate.
  exists s, mean, var.
  assert (Hrun : forall ys st outs, run_ops dim st (map OpAcc ys) outs =
                   (rev outs, accumulate_all dim st ys)).
  { induction ys as [|y ys IHy]; intros st outs; cbn [map run_ops accumulate_all]; [reflexivity|].
    destruct (accumulate dim st y) as [s1|e1]; cbn [Model.bind]; [apply IHy|reflexivity]. }
  assert (Hwf : forall ys st s1, ostats_wf st -> accumulate_all dim st ys = Ok (Some s1) -> stats_wf s1).
  { induction ys as [|y ys IHy]; intros st s1 W A; cbn [accumulate_all] in A.
    - injection A as ->. exact W.
    - destruct (accumulate dim st y) as [s2|] eqn:E2; cbn [Model.bind] in A; [|discriminate].
      apply (IHy (Some s2) s1); [exact (accumulate_wf _ _ _ _ W E2)|exact A]. }
  split; [|split; [|split; [exact Hm|split; [exact Hv|exact Hi]]]].
  - apply (src_run_ops_is_model_partial (map OpAcc xs) (fresh_module dim) [] [] (Some s) I).
    cbn [fresh_module m_dim m_stats]. rewrite Hrun, Ea. reflexivity.
  - rewrite (src_store_is_model sq (mkM dim 0 None None (Some s)) del b (Hwf xs None s I Ea)).
    unfold store_model. cbn [m_stats m_dim m_eps]. rewrite Hst. reflexivity.
Qed.
