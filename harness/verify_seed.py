#!/usr/bin/env python3
"""Developer tool: confirm a seeded change and record it under /verif/seeded/<id>/.

usage: verify_seed.py <prop> <src_dir with patch.diff demo.py notes.md> <seed_id> --tests "tests/test_x.py ..."
         [--no-check] [--tier quick]

Steps (all in a scratch worktree of /repo outside /repo and /verif, removed afterwards):
  1. demo.py on the unchanged tree            -> must exit 0
  2. apply patch.diff; demo.py                -> must exit non-zero
  3. the given test files with the change     -> must pass
  4. the property's check with VERIF_REPO=<worktree> -> records whether it prints VIOLATION
Writes seeded/<id>/{patch.diff,demo.py,meta.json}.  Never touches /repo's working tree.
"""
import argparse
import json
import os
import shutil
import subprocess
import sys
import time
from pathlib import Path

V = Path(__file__).resolve().parent.parent


def sh(cmd, **kw):
    return subprocess.run(cmd, shell=True, capture_output=True, text=True, **kw)


def main():
    ap = argparse.ArgumentParser()
    ap.add_argument("prop")
    ap.add_argument("src")
    ap.add_argument("seed_id")
    ap.add_argument("--tests", default="")
    ap.add_argument("--no-check", action="store_true")
    ap.add_argument("--tier", default="quick")
    ap.add_argument("--needs", default="")
    a = ap.parse_args()
    src = Path(a.src)
    wt = Path(f"/tmp/vseed-{os.getpid()}")
    env = dict(os.environ, OMP_NUM_THREADS="1", MKL_NUM_THREADS="1", PYTHONPATH=f"{wt}/src", PYTHONHASHSEED="0")
    meta = {"property": a.prop, "seed_id": a.seed_id, "needs_to_manifest": a.needs, "ran": []}
    r = sh(f"git -C /repo worktree add -q --detach {wt} HEAD")
    assert r.returncode == 0, r.stderr
    try:
        shutil.copy(src / "demo.py", wt / "_demo.py")
        r = sh(f"cd {wt} && timeout 900 /venv/bin/python _demo.py", env=env)
        meta["demo_unchanged_exit"] = r.returncode
        meta["ran"].append("demo.py on unchanged tree")
        r = sh(f"git -C {wt} apply {src / 'patch.diff'}")
        meta["patch_applies"] = r.returncode == 0
        if r.returncode != 0:
            meta["error"] = r.stderr[-500:]
        else:
            r = sh(f"cd {wt} && timeout 900 /venv/bin/python _demo.py", env=env)
            meta["demo_changed_exit"] = r.returncode
            meta["demo_changed_tail"] = (r.stdout + r.stderr)[-600:]
            meta["ran"].append("demo.py with patch")
            if a.tests:
                t0 = time.time()
                r = sh(f"cd {wt} && timeout 3000 /venv/bin/python -m pytest -q -p no:cacheprovider --timeout=2000 -n 4 {a.tests}", env=env)
                meta["tests"] = a.tests
                meta["tests_exit"] = r.returncode
                meta["tests_tail"] = r.stdout.strip().splitlines()[-1:] if r.stdout.strip() else []
                meta["tests_wall_s"] = round(time.time() - t0)
                meta["ran"].append(f"pytest {a.tests} with patch")
            if not a.no_check:
                coq = f"/tmp/vseedcoq-{os.getpid()}"
                sh(f"cp -a {V / 'coq'} {coq}; rm -f {coq}/.build.lock")
                env2 = dict(os.environ, VERIF_REPO=str(wt), VERIF_COQ=coq, OMP_NUM_THREADS="1")
                env2.pop("PYTHONPATH", None)
                r = sh(f"cd {V} && /venv/bin/python harness/vcheck.py {a.prop} --tier {a.tier}", env=env2)
                lines = [l for l in r.stdout.splitlines() if l.startswith("VIOLATION") or l.startswith("KNOWN-FINDING") or l.startswith("[")]
                meta["check_exit"] = r.returncode
                meta["check_lines"] = lines[:8]
                meta["caught"] = r.returncode == 1 and any(l.startswith("VIOLATION") for l in lines)
                meta["caught_with_concrete_input"] = any(l.startswith("VIOLATION") and "no-failing-input-found" not in l for l in lines)
                meta["ran"].append(f"vcheck.py {a.prop} --tier {a.tier} with VERIF_REPO=scratch worktree")
                if r.returncode not in (0, 1):
                    meta["check_error_tail"] = (r.stdout + r.stderr)[-1500:]
    finally:
        sh(f"git -C /repo worktree remove --force {wt}; rm -rf /tmp/vseedcoq-{os.getpid()}")
    valid = meta.get("demo_unchanged_exit") == 0 and meta.get("demo_changed_exit", 0) != 0 and meta.get("tests_exit", 0) == 0
    meta["valid_seed"] = bool(valid)
    print(json.dumps(meta, indent=1))
    if valid:
        out = V / "seeded" / a.seed_id
        out.mkdir(parents=True, exist_ok=True)
        shutil.copy(src / "patch.diff", out / "patch.diff")
        shutil.copy(src / "demo.py", out / "demo.py")
        if (src / "notes.md").exists():
            shutil.copy(src / "notes.md", out / "notes.md")
        (out / "meta.json").write_text(json.dumps(meta, indent=1) + "\n")
        # replays written by the run point into the scratch tree: fine, they are developer output


if __name__ == "__main__":
    main()
