(* C18 — sums of rationals: the model's normalising [qsum] versus the plain [Qsum],
   extensionality, permutations, linearity, sums over integer ranges. *)
From Coq Require Import List ZArith QArith Qabs Bool Arith Lia Permutation Setoid Morphisms.
From PV Require Import C18.Model C18.Spec.
Import ListNotations.
Local Open Scope Q_scope.

Lemma qsum_Qsum : forall l, qsum l == Qsum l.
Proof.
  induction l as [|a l IH]; [reflexivity|].
  change (qsum (a :: l)) with (Qred (a + qsum l)). change (Qsum (a :: l)) with (a + Qsum l).
  rewrite Qred_correct, IH. reflexivity.
Qed.

Lemma Qsum_nil : Qsum [] = 0.
Proof. reflexivity. Qed.

Lemma Qsum_cons : forall x a, Qsum (x :: a) = x + Qsum a.
Proof. reflexivity. Qed.

Ltac qs := cbn [map app length]; rewrite ?Qsum_cons, ?Qsum_nil.

Lemma Qsum_app : forall a b, Qsum (a ++ b) == Qsum a + Qsum b.
Proof.
  induction a as [|x a IH]; intros b; qs.
  - ring.
  - rewrite IH. ring.
Qed.

Lemma Qsum_perm : forall a b, Permutation a b -> Qsum a == Qsum b.
Proof.
  induction 1; qs.
  - reflexivity.
  - rewrite IHPermutation. reflexivity.
  - ring.
  - etransitivity; eassumption.
Qed.

Lemma Qsum_map_ext_in : forall {A} (f g : A -> Q) l,
  (forall a, In a l -> f a == g a) -> Qsum (map f l) == Qsum (map g l).
Proof.
  induction l as [|a l IH]; intros H; qs; [reflexivity|].
  rewrite IH by (intros; apply H; now right). rewrite (H a) by now left. reflexivity.
Qed.

Lemma Qsum_map_ext : forall {A} (f g : A -> Q) l,
  (forall a, f a == g a) -> Qsum (map f l) == Qsum (map g l).
Proof. intros. apply Qsum_map_ext_in. auto. Qed.

Lemma Qsum_map_scal : forall {A} (f : A -> Q) c l, Qsum (map (fun a => f a * c) l) == Qsum (map f l) * c.
Proof.
  induction l as [|a l IH]; qs; [ring|]. rewrite IH. ring.
Qed.

Lemma Qsum_map_plus : forall {A} (f g : A -> Q) l,
  Qsum (map (fun a => f a + g a) l) == Qsum (map f l) + Qsum (map g l).
Proof.
  induction l as [|a l IH]; qs; [ring|]. rewrite IH. ring.
Qed.

Lemma Qsum_map_zero : forall {A} (f : A -> Q) l, (forall a, In a l -> f a == 0) -> Qsum (map f l) == 0.
Proof.
  induction l as [|a l IH]; intros H; qs; [reflexivity|].
  rewrite IH by (intros; apply H; now right). rewrite (H a) by now left. ring.
Qed.

Lemma Qsum_map_const : forall {A} (c : Q) (l : list A), Qsum (map (fun _ => c) l) == qofnat (length l) * c.
Proof.
  induction l as [|a l IH]; qs.
  - unfold qofnat. cbn. ring.
  - rewrite IH. unfold qofnat.
    rewrite Nat2Z.inj_succ. unfold Z.succ. rewrite inject_Z_plus. ring.
Qed.

(* exchanging two finite sums *)
Lemma Qsum_swap : forall {A B} (f : A -> B -> Q) la lb,
  Qsum (map (fun a => Qsum (map (fun b => f a b) lb)) la) ==
  Qsum (map (fun b => Qsum (map (fun a => f a b) la)) lb).
Proof.
  induction la as [|a la IH]; intros lb; qs.
  - symmetry. apply Qsum_map_zero. reflexivity.
  - rewrite IH.
    rewrite <- Qsum_map_plus. apply Qsum_map_ext. intros b. qs. reflexivity.
Qed.

(* a single non-zero term *)
Lemma Qsum_single_nat : forall (f : nat -> Q) n k, (k < n)%nat ->
  Qsum (map (fun i => if (i =? k)%nat then f i else 0) (seq 0 n)) == f k.
Proof.
  intros f n k Hk.
  assert (G : forall s m, Qsum (map (fun i => if (i =? k)%nat then f i else 0) (seq s m))
              == if ((s <=? k) && (k <? s + m))%nat then f k else 0).
  { intros s m. revert s. induction m as [|m IH]; intros s; cbn [seq]; qs.
    - destruct (s <=? k)%nat eqn:E1; destruct (k <? s + 0)%nat eqn:E2; cbn; try reflexivity.
      apply Nat.leb_le in E1. apply Nat.ltb_lt in E2. lia.
    - rewrite IH.
      destruct (s =? k)%nat eqn:E.
      + apply Nat.eqb_eq in E. subst s.
        replace (S k <=? k)%nat with false by (symmetry; apply Nat.leb_gt; lia).
        replace (k <=? k)%nat with true by (symmetry; apply Nat.leb_le; lia).
        replace (k <? k + S m)%nat with true by (symmetry; apply Nat.ltb_lt; lia).
        cbn. ring.
      + apply Nat.eqb_neq in E.
        destruct (S s <=? k)%nat eqn:E1; destruct (s <=? k)%nat eqn:E2;
          destruct (k <? S s + m)%nat eqn:E3; destruct (k <? s + S m)%nat eqn:E4; cbn; try ring;
          repeat match goal with
                 | H : (_ <=? _)%nat = true |- _ => apply Nat.leb_le in H
                 | H : (_ <=? _)%nat = false |- _ => apply Nat.leb_gt in H
                 | H : (_ <? _)%nat = true |- _ => apply Nat.ltb_lt in H
                 | H : (_ <? _)%nat = false |- _ => apply Nat.ltb_ge in H
                 end; lia. }
  rewrite G. replace (0 <=? k)%nat with true by reflexivity.
  replace (k <? 0 + n)%nat with true by (symmetry; apply Nat.ltb_lt; lia). reflexivity.
Qed.

(* ------------------------------------------------------------------------------ *)
(* qofnat                                                                         *)
(* ------------------------------------------------------------------------------ *)
Lemma qofnat_plus : forall a b, qofnat (a + b) == qofnat a + qofnat b.
Proof. intros. unfold qofnat. rewrite Nat2Z.inj_add, inject_Z_plus. reflexivity. Qed.

Lemma qofnat_pos : forall n, (0 < n)%nat -> 0 < qofnat n.
Proof. intros n H. unfold qofnat. change 0 with (inject_Z 0). rewrite <- Zlt_Qlt. lia. Qed.

Lemma qofnat_nonneg : forall n, 0 <= qofnat n.
Proof. intros n. unfold qofnat. change 0 with (inject_Z 0). rewrite <- Zle_Qle. lia. Qed.

Lemma qofnat_le : forall a b, (a <= b)%nat -> qofnat a <= qofnat b.
Proof. intros. unfold qofnat. rewrite <- Zle_Qle. lia. Qed.

Lemma qofnat_ge2 : forall n, 2 <= qofnat n -> (2 <= n)%nat.
Proof.
  intros n H. unfold qofnat in H. change 2 with (inject_Z 2) in H. rewrite <- Zle_Qle in H. lia.
Qed.

Lemma qofnat_nz : forall n, (0 < n)%nat -> ~ qofnat n == 0.
Proof. intros n H E. pose proof (qofnat_pos n H) as P. rewrite E in P. now apply Qlt_irrefl in P. Qed.

Lemma qmax_ge_r : forall a b, b <= a -> qmax a b == a.
Proof.
  intros a b H. unfold qmax. destruct (Qle_bool a b) eqn:E; [|reflexivity].
  apply Qle_bool_iff in E. apply Qle_antisym; assumption.
Qed.

Lemma qmax_comm_val : forall a b, a <= b -> qmax a b == b.
Proof.
  intros a b H. unfold qmax. destruct (Qle_bool a b) eqn:E; [reflexivity|].
  apply Qle_bool_iff in H. congruence.
Qed.

(* ------------------------------------------------------------------------------ *)
(* nth through map                                                                *)
(* ------------------------------------------------------------------------------ *)
Lemma nth_map_gen : forall {A B} (f : A -> B) l i da db, (i < length l)%nat ->
  nth i (map f l) db = f (nth i l da).
Proof.
  intros A B f l i da db H. rewrite (nth_indep _ db (f da)) by now rewrite map_length. apply map_nth.
Qed.

Lemma nth_map_seq : forall {A} (h : nat -> A) n i d, (i < n)%nat -> nth i (map h (seq 0 n)) d = h i.
Proof.
  intros A h n i d Hi. rewrite (nth_map_gen h (seq 0 n) i 0%nat d) by now rewrite seq_length.
  now rewrite seq_nth.
Qed.

Lemma nth_repeat0 : forall n i, nth i (repeat 0 n) 0 = 0.
Proof. induction n; destruct i; cbn; auto. Qed.
